#!/bin/bash
# Regenerates the harness go.mod/go.sum from the repository's go.mod.
# usage: gomod.sh <repo> <outdir>
set -e
REPO=${1:-/repo}
OUT=${2:-/verif/harness}
mkdir -p "$OUT"
{
  echo "module verif"
  echo
  grep -E '^go [0-9]' "$REPO/go.mod"
  echo
  # all require blocks and replace lines of the repository
  awk '/^require \(/{p=1} p{print} /^\)/{p=0}' "$REPO/go.mod"
  grep -E '^replace ' "$REPO/go.mod" || true
  grep -E '^require [^(]' "$REPO/go.mod" || true
  echo "replace github.com/buildbarn/bb-storage => $REPO"
  echo "require github.com/buildbarn/bb-storage v0.0.0"
  echo "require github.com/anishathalye/porcupine v1.3.0"
} > "$OUT/go.mod.tmp"
if ! cmp -s "$OUT/go.mod.tmp" "$OUT/go.mod.gen" 2>/dev/null; then
  cp "$OUT/go.mod.tmp" "$OUT/go.mod.gen"
  cp "$OUT/go.mod.tmp" "$OUT/go.mod"
  cp "$REPO/go.sum" "$OUT/go.sum"
fi
rm -f "$OUT/go.mod.tmp"
