#!/bin/bash
# Regenerates the harness go.mod/go.sum from the repository's go.mod.
# usage: gomod.sh <repo> <outdir>
# Safe for concurrent invocations (unique temp file, atomic rename, rewrite
# only when the generated content changed).
REPO=${1:-/repo}
OUT=${2:-/verif/harness}
mkdir -p "$OUT" || exit 1
TMP=$(mktemp "$OUT/.go.mod.XXXXXX") || exit 1
{
  echo "module verif"
  echo
  grep -E '^go [0-9]' "$REPO/go.mod"
  echo
  awk '/^require \(/{p=1} p{print} /^\)/{p=0}' "$REPO/go.mod"
  grep -E '^replace ' "$REPO/go.mod"
  grep -E '^require [^(]' "$REPO/go.mod"
  echo "replace github.com/buildbarn/bb-storage => $REPO"
  echo "require github.com/buildbarn/bb-storage v0.0.0"
  echo "require github.com/anishathalye/porcupine v1.3.0"
} > "$TMP"
if [ ! -s "$TMP" ]; then rm -f "$TMP"; exit 1; fi
if ! cmp -s "$TMP" "$OUT/go.mod.gen" 2>/dev/null || [ ! -f "$OUT/go.mod" ] || [ ! -f "$OUT/go.sum" ]; then
  cp "$REPO/go.sum" "$OUT/go.sum.tmp.$$" && mv "$OUT/go.sum.tmp.$$" "$OUT/go.sum"
  cp "$TMP" "$OUT/go.mod.tmp.$$" && mv "$OUT/go.mod.tmp.$$" "$OUT/go.mod"
  mv "$TMP" "$OUT/go.mod.gen"
else
  rm -f "$TMP"
fi
exit 0
