#!/bin/bash
# Re-runs every stored seeded change against the check of its own property
# (quick tier) on a fresh worktree of /repo HEAD; see seedrerun.sh.
cd /verif
for d in seeded/*/; do
  s=$(basename $d); p=${s%%-*}
  ./seedrerun.sh $s $p
done
