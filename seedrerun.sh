#!/bin/bash
# usage: seedrerun.sh <seed-id, e.g. C07-4> <check ids...>
# Re-runs checks against a stored seeded change: fresh worktree of /repo HEAD +
# seeded/<id>/patch.diff, checks run with VERIF_REPO, results merged into
# seeded/<id>/meta.json (checks_run), worktree removed afterwards.
set -u
S=$1; shift
export GOFLAGS=-mod=mod GOPROXY=off
WT=/tmp/reseed-$S
git -C /repo worktree remove --force $WT 2>/dev/null
git -C /repo worktree add -q --detach $WT HEAD || exit 2
git -C $WT apply /verif/seeded/$S/patch.diff || { echo "== $S PATCH DOES NOT APPLY on HEAD"; git -C /repo worktree remove --force $WT; exit 2; }
res=""
for id in "$@"; do
  out=$(cd /verif && VERIF_REPO=$WT VERIF_NO_EVIDENCE=1 ./check $id ${SEED_TIER:-quick} 2>&1)
  rc=$?
  sigs=$(echo "$out" | grep 'signature:' | sed 's/ *signature: //' | tr '\n' ' ' | cut -c1-400)
  echo "== $S / $id: exit=$rc signatures: $sigs"
  res="$res {\"check\":\"$id\",\"exit\":$rc,\"signatures\":\"$sigs\",\"tier\":\"${SEED_TIER:-quick}\",\"repo_head\":\"$(git -C /repo rev-parse --short HEAD)\"},"
done
python3 - "/verif/seeded/$S/meta.json" "$res" <<'PY'
import json,sys
p,res=sys.argv[1:3]
m=json.load(open(p))
new=json.loads("["+res.rstrip(",")+"]")
keep=[c for c in m.get("checks_run",[]) if c["check"] not in {n["check"] for n in new}]
m["checks_run"]=keep+new
json.dump(m,open(p,'w'),indent=1)
PY
rm -rf /verif/.build/$(echo "$WT" | md5sum | cut -c1-12)
git -C /repo worktree remove --force $WT
