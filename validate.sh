#!/bin/bash
# Validates MANIFEST.json and all evidence files against the schemas.
python3-vt - <<'PY'
import json,glob,jsonschema,sys
ok=True
try:
    jsonschema.validate(json.load(open('/verif/MANIFEST.json')),json.load(open('/root/.vp/MANIFEST.schema.json')))
except Exception as e:
    print("MANIFEST invalid:",e); ok=False
es=json.load(open('/root/.vp/EVIDENCE.schema.json'))
for f in sorted(glob.glob('/verif/evidence/*.json')):
    try: jsonschema.validate(json.load(open(f)),es)
    except Exception as e:
        print(f,"invalid:",str(e)[:300]); ok=False
print("valid" if ok else "INVALID")
sys.exit(0 if ok else 1)
PY
