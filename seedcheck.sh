#!/bin/bash
# usage: seedcheck.sh <Cnn> <seed-worktree> <i> <check ids...>
# Confirms a seeded change (demo passes on pristine, fails with the change; pinned
# suite still passes), stores it under /verif/seeded/<Cnn>-<i>/ and runs the
# given checks against the changed tree.
set -u
P=$1; WT=$2; I=$3; shift 3
export GOFLAGS=-mod=mod GOPROXY=off
N=$((I+${SEED_OFF:-0})); OUT=/verif/seeded/$P-$N
mkdir -p $OUT
cp $WT/seed_out/change$I.diff $OUT/patch.diff
cp -r $WT/seed_out/demo$I $OUT/demo
cp $WT/seed_out/meta$I.json $OUT/agent_meta.json 2>/dev/null
cd $WT && git checkout -q -- . 
pr=$(cd $WT && timeout 900 go run ./seed_out/demo$I 2>&1 | tail -3; echo "rc=${PIPESTATUS[0]}")
git -C $WT apply $OUT/patch.diff || { echo "PATCH DOES NOT APPLY"; exit 1; }
bu=$(cd $WT && go build ./pkg/... 2>&1 | tail -3; echo "rc=${PIPESTATUS[0]}")
ch=$(cd $WT && timeout 900 go run ./seed_out/demo$I 2>&1 | tail -3; echo "rc=${PIPESTATUS[0]}")
bl=$(cd /verif && VERIF_REPO=$WT ./baseline_off.sh 2>&1 | tail -2)
echo "== $P-$N pristine demo: $(echo $pr | tr '\n' ' ' | cut -c1-200)"
echo "== $P-$N build with change: $(echo $bu | tr '\n' ' ')"
echo "== $P-$N changed demo: $(echo $ch | tr '\n' ' ' | cut -c1-300)"
echo "== $P-$N pinned suite with change: $bl"
res=""
for id in "$@"; do
  out=$(cd /verif && VERIF_REPO=$WT VERIF_NO_EVIDENCE=1 ./check $id ${SEED_TIER:-quick} 2>&1)
  rc=$?
  sigs=$(echo "$out" | grep 'signature:' | sed 's/ *signature: //' | tr '\n' ' ' | cut -c1-400)
  echo "== $P-$N / $id: exit=$rc signatures: $sigs"
  res="$res {\"check\":\"$id\",\"exit\":$rc,\"signatures\":\"$sigs\"},"
done
git -C $WT checkout -q -- .
python3 - "$OUT" "$P" "$N" "$pr" "$ch" "$bl" "$res" <<'PY'
import json,sys,os
out,p,i,pr,ch,bl,res=sys.argv[1:8]
am={}
try: am=json.load(open(out+'/agent_meta.json'))
except Exception: pass
meta={"property":p,"id":f"{p}-{i}","summary":am.get("summary"),"needs_to_manifest":am.get("needs_to_manifest"),"files":am.get("files"),
 "confirmed":{"demo_on_pristine":pr[-200:],"demo_with_change":ch[-300:],"pinned_suite_with_change":bl},
 "checks_run":json.loads("["+res.rstrip(",")+"]")}
json.dump(meta,open(out+'/meta.json','w'),indent=1)
PY
rm -rf /verif/.build/$(echo "$WT" | md5sum | cut -c1-12)
