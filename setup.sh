#!/bin/bash
# Run once after a fresh restore (offline): regenerates the harness go.mod from
# /repo/go.mod and warms the Go build cache by building every check binary.
set -u
cd "$(dirname "$0")"
export GOFLAGS=-mod=mod GOPROXY=off
unset GOTOOLCHAIN GOSUMDB 2>/dev/null
./gomod.sh /repo "$PWD/harness" || exit 1
mkdir -p harness/bin evidence replays work
rc=0
cd harness
norace=""; race=""
for d in cmd/*/; do
  id=$(basename "$d")
  if grep -q '^//verif:race' "$d/main.go"; then race="$race ./cmd/$id"; else norace="$norace ./cmd/$id"; fi
done
# Building the packages together shares the compile of bb-storage; binaries
# are linked by ./check.
[ -n "$norace" ] && { go build -tags verif -o bin/ $norace || rc=1; }
[ -n "$race" ] && { go build -tags verif -race -o bin/ $race || rc=1; }
exit $rc
