#!/bin/bash
# usage: mut.sh <name> <file-relative-to-repo> <python-replace-old> <python-replace-new> <check ids...>
# Applies one textual mutation to a scratch worktree of /repo and runs the given checks against it.
set -u
NAME=$1; FILE=$2; OLD=$3; NEW=$4; shift 4
WT=/tmp/mut-$NAME
git -C /repo worktree remove --force $WT >/dev/null 2>&1
git -C /repo worktree add --detach $WT HEAD >/dev/null 2>&1 || exit 9
python3 - "$WT/$FILE" "$OLD" "$NEW" <<'PY'
import sys
p,old,new=sys.argv[1:4]
s=open(p).read()
if s.count(old)<1:
    print("MUTATION PATTERN NOT FOUND"); sys.exit(3)
s=s.replace(old,new,1)
open(p,'w').write(s)
PY
[ $? -eq 0 ] || { git -C /repo worktree remove --force $WT; exit 3; }
(cd $WT && GOFLAGS=-mod=mod GOPROXY=off go build ./pkg/... 2>&1 | head -5)
for id in "$@"; do
  out=$(cd /verif && VERIF_REPO=$WT VERIF_NO_EVIDENCE=1 ${MUT_TIER_ENV:-} ./check $id ${MUT_TIER:-quick} 2>&1)
  rc=$?
  echo "== $NAME / $id: exit=$rc  $(echo "$out" | grep -c '^VIOLATION') violation signature(s): $(echo "$out" | grep 'signature:' | sed 's/ *signature: //' | tr '\n' ' ' | cut -c1-300)"
done
git -C /repo worktree remove --force $WT
rm -rf /verif/.build/$(echo "$WT" | md5sum | cut -c1-12)
