#!/usr/bin/env python3
"""Generates MANIFEST.json from the table below (keeps it valid at all times)."""
import json, os, subprocess
V = os.path.dirname(os.path.abspath(__file__))
props = [json.loads(l) for l in open(f"{V}/properties.jsonl")]
T = json.load(open(f"{V}/checks.json"))
checks, na = [], []
for p in props:
    i = p["id"]
    t = T.get(i)
    if not t or not os.path.exists(f"{V}/harness/cmd/{i.lower()}/main.go"):
        na.append({"property_id": i, "reason": (t or {}).get("na_reason", "check under construction in this session (runtime monitor planned in DESIGN.md §4); not claimed until it has been validated on the unchanged tree")})
        continue
    checks.append({
        "property_id": i,
        "quick_cmd": f"./check {i} quick",
        "thorough_cmd": f"./check {i} thorough",
        "evidence_file": f"/verif/evidence/{i}.json",
        "replay_cmd_template": f"./check {i} quick --replay {{path}}",
        "engine": t.get("engine", "harness"),
        "level_claimed": {"category": t["level"], "text": t["text"], "design_ref": f"DESIGN.md §4 {i}"},
        "level_note": t["note"],
        "technique": t["technique"],
    })
hooks_commits = [l.split()[0] for l in subprocess.run(["git", "-C", "/repo", "log", "--format=%h %s"], capture_output=True, text=True).stdout.splitlines() if " verif-hook:" in l or l.split(" ", 1)[1].startswith("verif hook")]
m = {
    "version": 1,
    "setup_cmd": "./setup.sh",
    "hooks": {
        "guard": "verif",
        "enable": "go build -tags verif (done by ./check for every check binary)",
        "baseline_off_cmd": "./baseline_off.sh",
        "source_commits": hooks_commits,
        "add_only": True,
    },
    "engines": [
        {"name": "harness", "path": "harness", "serves_properties": [c["property_id"] for c in checks],
         "kind_free_text": "Go module that links the real bb-storage packages from /repo's working tree (replace directive), drives them with generated/hostile/fault-injected workloads in worker child processes and decides each property with monitors over recorded events (reference models, history checkers, invariant walkers, race detector)"},
    ],
    "checks": checks,
    "not_applicable": na,
    "notes": "See DESIGN.md. Exit codes of ./check: 0 held on everything explored, 1 violation (VIOLATION line + replay file), 2 build broken, 3 inconclusive (coverage floor missed / watchdog).",
}
json.dump(m, open(f"{V}/MANIFEST.json", "w"), indent=1)
print(f"{len(checks)} checks, {len(na)} not_applicable")
