#!/bin/bash
# Runs the repository's pinned test suite with the verif guard OFF (no -tags)
# and compares the set of passing tests with /root/.vp/BASELINE.json.
set -u
export GOFLAGS=-mod=mod GOPROXY=off
unset GOTOOLCHAIN GOSUMDB 2>/dev/null
REPO=${VERIF_REPO:-/repo}
OUT=$(mktemp)
(cd "$REPO" && go test -mod=mod -json -vet=off -count=1 -timeout 25m ./... > "$OUT" 2>/dev/null)
python3 - "$OUT" <<'PY'
import json,sys
passed=set()
for l in open(sys.argv[1]):
    try: e=json.loads(l)
    except Exception: continue
    if e.get('Action')=='pass' and e.get('Test'):
        passed.add(e['Package']+'::'+e['Test'])
base=set(json.load(open('/root/.vp/BASELINE.json'))['stable_pass'])
missing=sorted(base-passed)
print(f"baseline={len(base)} passed_now={len(passed&base)} missing={len(missing)}")
for m in missing: print("MISSING", m)
sys.exit(1 if missing else 0)
PY
rc=$?
rm -f "$OUT"
exit $rc
