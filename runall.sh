#!/bin/bash
# usage: runall.sh <tier> <ids...>   (env VERIF_SEED)
T=$1; shift
for id in "$@"; do
  s=$(date +%s)
  out=$(./check $id $T 2>&1); rc=$?
  e=$(( $(date +%s) - s ))
  echo "$id $T seed=${VERIF_SEED:-1} exit=$rc total=${e}s $(echo "$out" | grep -E "seed=" | sed 's/.*evaluations/evaluations/') $(echo "$out" | grep -E 'signature:|INCONCLUSIVE' | head -3 | tr '\n' ' ' | cut -c1-300)"
done
