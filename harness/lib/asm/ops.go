package asm

import (
	"context"
	"errors"
	"io"
	"runtime"
	"sync/atomic"

	"github.com/buildbarn/bb-storage/pkg/blobstore"
	"github.com/buildbarn/bb-storage/pkg/blobstore/buffer"
	"github.com/buildbarn/bb-storage/pkg/blobstore/slicing"
	"github.com/buildbarn/bb-storage/pkg/digest"
	"google.golang.org/grpc/codes"
	"google.golang.org/grpc/status"

	"verif/lib/gen"
)

// Upload describes how the data of an upload is delivered.
type Upload struct {
	Data   []byte
	Chunks []int
	// FailAt/FailErr: the source fails after that many bytes.
	FailAt  int
	FailErr error
	// Yield is called between chunks (scheduling noise / gates).
	Yield func()
	// Closes counts Close calls on the source.
	Closes atomic.Int64
}

type chunkSource struct {
	u   *Upload
	off int
	ci  int
}

func (r *chunkSource) Read() ([]byte, error) {
	u := r.u
	if u.Yield != nil {
		u.Yield()
	}
	if u.FailErr != nil && r.off >= u.FailAt {
		return nil, u.FailErr
	}
	if r.off >= len(u.Data) {
		if r.ci < len(u.Chunks) {
			r.ci++
			return []byte{}, nil
		}
		return nil, io.EOF
	}
	n := len(u.Data) - r.off
	if r.ci < len(u.Chunks) {
		n = u.Chunks[r.ci]
		r.ci++
	}
	if n > len(u.Data)-r.off {
		n = len(u.Data) - r.off
	}
	if u.FailErr != nil && r.off+n > u.FailAt {
		n = u.FailAt - r.off
	}
	c := append([]byte(nil), u.Data[r.off:r.off+n]...)
	r.off += n
	return c, nil
}

func (r *chunkSource) Close() { r.u.Closes.Add(1) }

// CASBuffer returns a CAS buffer validating against d over the upload's data.
func (u *Upload) CASBuffer(d digest.Digest) buffer.Buffer {
	return buffer.NewCASBufferFromChunkReader(d, &chunkSource{u: u}, buffer.UserProvided)
}

type readerAtSource struct {
	u *Upload
}

func (r *readerAtSource) ReadAt(p []byte, off int64) (int, error) {
	u := r.u
	if u.Yield != nil {
		u.Yield()
	}
	if off >= int64(len(u.Data)) {
		return 0, io.EOF
	}
	end := int(off) + len(p)
	if end > len(u.Data) {
		end = len(u.Data)
	}
	if u.FailErr != nil && end > u.FailAt {
		n := 0
		if u.FailAt > int(off) {
			n = copy(p, u.Data[off:u.FailAt])
		}
		return n, u.FailErr
	}
	n := copy(p, u.Data[off:end])
	if n < len(p) {
		return n, io.EOF
	}
	return n, nil
}

func (r *readerAtSource) Close() error {
	r.u.Closes.Add(1)
	return nil
}

// PlainBuffer returns an unvalidated buffer (AC-style upload) of the stated
// size over the upload's data.
func (u *Upload) PlainBuffer() buffer.Buffer {
	return buffer.NewValidatedBufferFromReaderAt(&readerAtSource{u: u}, int64(len(u.Data)))
}

// GetBytes reads an object completely.
func GetBytes(ctx context.Context, ba blobstore.BlobAccess, d digest.Digest) ([]byte, error) {
	return ba.Get(ctx, d).ToByteSlice(1 << 26)
}

// Present reports whether FindMissing says the digest is present.
func Present(ctx context.Context, ba blobstore.BlobAccess, d digest.Digest) (bool, error) {
	m, err := ba.FindMissing(ctx, d.ToSingletonSet())
	if err != nil {
		return false, err
	}
	return m.Empty(), nil
}

// IsNotFound reports whether err is a NOT_FOUND status.
func IsNotFound(err error) bool { return status.Code(err) == codes.NotFound }

// Yielder returns a function that yields the processor at PRNG-chosen points.
// It is safe for concurrent use only when each goroutine has its own.
func Yielder(r *gen.Rng, oneIn int) func() {
	var ctr atomic.Uint64
	seed := r.Uint64()
	return func() {
		x := ctr.Add(1)*0x9e3779b97f4a7c15 ^ seed
		x ^= x >> 29
		x *= 0xbf58476d1ce4e5b9
		x ^= x >> 32
		if int(x%uint64(oneIn)) == 0 {
			runtime.Gosched()
		}
	}
}

// SliceSpec designates child slices of a parent for a harness slicer.
type SliceSpec struct {
	Off, Size int64
	Digest    digest.Digest
}

// Slicer is a slicing.BlobSlicer that cuts the parent into the designated
// slices and returns the requested child (NOT_FOUND if it is not one of them).
type Slicer struct {
	Slices []SliceSpec
	// ParentErr receives the error of reading the parent, if any.
	ParentErr error
	Calls     int
}

var errNoSuchChild = status.Error(codes.NotFound, "slicer: child is not part of the parent")

func (s *Slicer) Slice(b buffer.Buffer, child digest.Digest) (buffer.Buffer, []slicing.BlobSlice) {
	s.Calls++
	data, err := b.ToByteSlice(1 << 26)
	if err != nil {
		s.ParentErr = err
		return buffer.NewBufferFromError(err), nil
	}
	var out []slicing.BlobSlice
	var childBuf buffer.Buffer
	for _, sp := range s.Slices {
		if sp.Off+sp.Size > int64(len(data)) {
			continue
		}
		out = append(out, slicing.BlobSlice{Digest: sp.Digest, OffsetBytes: sp.Off, SizeBytes: sp.Size})
		if sp.Digest == child && childBuf == nil {
			childBuf = buffer.NewValidatedBufferFromByteSlice(append([]byte(nil), data[sp.Off:sp.Off+sp.Size]...))
		}
	}
	if childBuf == nil {
		childBuf = buffer.NewBufferFromError(errNoSuchChild)
	}
	return childBuf, out
}

// ErrInjected is the default injected source error.
var ErrInjected = status.Error(codes.Aborted, "injected source failure")

// IsInjected reports whether err carries the injected source error.
func IsInjected(err error) bool {
	return err != nil && (errors.Is(err, ErrInjected) || status.Code(err) == codes.Aborted)
}
