package asm

import (
	"github.com/prometheus/client_golang/prometheus"
	dto "github.com/prometheus/client_model/go"
)

// IndexMetrics gives access to the daemon's own Prometheus collectors of the
// hashing key-location map for one storage_type label. The collectors are
// package-private in bb-storage; re-registering an identically described
// vector yields the existing one through AlreadyRegisteredError.
type IndexMetrics struct {
	putIterations      *prometheus.HistogramVec
	putTooManyIter     *prometheus.CounterVec
	getTooManyAttempts *prometheus.CounterVec
	label              string
}

// NewIndexMetrics must be called after at least one hashing key-location map
// has been constructed (which registers the collectors).
func NewIndexMetrics(label string) *IndexMetrics {
	m := &IndexMetrics{label: label}
	h := prometheus.NewHistogramVec(prometheus.HistogramOpts{
		Namespace: "buildbarn", Subsystem: "blobstore", Name: "hashing_key_location_map_put_iterations",
		Help:    "Number of iterations it took for Put()",
		Buckets: prometheus.ExponentialBuckets(1.0, 2.0, 8),
	}, []string{"storage_type", "outcome"})
	if err := prometheus.Register(h); err != nil {
		if are, ok := err.(prometheus.AlreadyRegisteredError); ok {
			m.putIterations = are.ExistingCollector.(*prometheus.HistogramVec)
		}
	} else {
		m.putIterations = h
	}
	c1 := prometheus.NewCounterVec(prometheus.CounterOpts{
		Namespace: "buildbarn", Subsystem: "blobstore", Name: "hashing_key_location_map_put_too_many_iterations_total",
		Help: "Number of times Put() discarded an entry, because it took the maximum number of iterations, which may indicate the hash table is too small",
	}, []string{"storage_type"})
	if err := prometheus.Register(c1); err != nil {
		if are, ok := err.(prometheus.AlreadyRegisteredError); ok {
			m.putTooManyIter = are.ExistingCollector.(*prometheus.CounterVec)
		}
	} else {
		m.putTooManyIter = c1
	}
	c2 := prometheus.NewCounterVec(prometheus.CounterOpts{
		Namespace: "buildbarn", Subsystem: "blobstore", Name: "hashing_key_location_map_get_too_many_attempts_total",
		Help: "Number of times Get() took the maximum number of attempts and still did not find the entry, which may indicate the hash table is too small",
	}, []string{"storage_type"})
	if err := prometheus.Register(c2); err != nil {
		if are, ok := err.(prometheus.AlreadyRegisteredError); ok {
			m.getTooManyAttempts = are.ExistingCollector.(*prometheus.CounterVec)
		}
	} else {
		m.getTooManyAttempts = c2
	}
	return m
}

// OK reports whether all collectors were found.
func (m *IndexMetrics) OK() bool {
	return m.putIterations != nil && m.putTooManyIter != nil && m.getTooManyAttempts != nil
}

func counterValue(c prometheus.Counter) uint64 {
	var d dto.Metric
	if c.Write(&d) != nil {
		return 0
	}
	return uint64(d.GetCounter().GetValue())
}

// Discards returns the cumulative number of index entries the map reported as
// discarded on Put (TooManyAttempts outcome + too_many_iterations).
func (m *IndexMetrics) Discards() uint64 {
	var d dto.Metric
	n := uint64(0)
	if o, ok := m.putIterations.WithLabelValues(m.label, "TooManyAttempts").(prometheus.Metric); ok && o.Write(&d) == nil {
		n += d.GetHistogram().GetSampleCount()
	}
	return n + counterValue(m.putTooManyIter.WithLabelValues(m.label))
}

// GetGiveUps returns the cumulative number of lookups that hit the attempt
// limit.
func (m *IndexMetrics) GetGiveUps() uint64 {
	return counterValue(m.getTooManyAttempts.WithLabelValues(m.label))
}
