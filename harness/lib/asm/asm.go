// Package asm assembles the production object graph of the "local" storage
// backend (the `Local` case of pkg/blobstore/configuration/new_blob_access.go)
// from bb-storage's exported constructors around simulated media, with a
// recording pass-through wrapper at every layer.
package asm

import (
	"context"
	"fmt"
	"io"
	"runtime"
	"sync"
	"sync/atomic"
	"time"

	"github.com/buildbarn/bb-storage/pkg/blobstore"
	"github.com/buildbarn/bb-storage/pkg/blobstore/buffer"
	"github.com/buildbarn/bb-storage/pkg/blobstore/local"
	"github.com/buildbarn/bb-storage/pkg/digest"
	"github.com/buildbarn/bb-storage/pkg/eviction"
	pb "github.com/buildbarn/bb-storage/pkg/proto/blobstore/local"
	"github.com/fxtlabs/primes"

	"verif/lib/gen"
	"verif/lib/sim"
)

// Config is the geometry and flavour of one assembled store.
type Config struct {
	Sector               int   // sector size in bytes
	BlockSectors         int64 // sectors per block
	Old, Cur, New, Spare int
	Mutable              bool // AC-style growth policy (one "new" block)
	Records              int  // size of the index table (made prime like production if > 3)
	GetAttempts          uint32
	PutAttempts          int
	Hierarchical         bool
	KeyFormat            digest.KeyFormat // for the flat store
	InMemoryBlocks       bool             // in-memory allocator (implies sector size 1, volatile)
	InMemoryIndex        bool
	Persistent           bool
	Factory              string // "cas", "ac", "raw"
	MinEpoch             time.Duration
	Retry                time.Duration
	Label                string // storage_type label for Prometheus
	// ValidationCache wraps the CAS read-buffer factory with the data
	// integrity validation cache (blocks_on_block_device.
	// data_integrity_validation_cache in the real configuration), with a
	// cache duration of one minute on the virtual clock.
	ValidationCache bool
}

func (c Config) String() string {
	f := "flat"
	if c.Hierarchical {
		f = "hier"
	}
	pol := "immutable"
	if c.Mutable {
		pol = "mutable"
	}
	return fmt.Sprintf("%s sector=%d blockSectors=%d old/cur/new/spare=%d/%d/%d/%d %s records=%d attempts=%d/%d memBlocks=%v memIndex=%v persistent=%v factory=%s kf=%d valcache=%v",
		f, c.Sector, c.BlockSectors, c.Old, c.Cur, c.New, c.Spare, pol, c.Records, c.GetAttempts, c.PutAttempts, c.InMemoryBlocks, c.InMemoryIndex, c.Persistent, c.Factory, c.KeyFormat, c.ValidationCache)
}

// BlockBytes is the block size.
func (c Config) BlockBytes() int64 { return int64(c.Sector) * c.BlockSectors }

// BlockCount is the number of regions on the blocks device.
func (c Config) BlockCount() int { return c.Old + c.Cur + c.New + c.Spare }

// TableSize is the number of index records actually used (prime, as production does).
func (c Config) TableSize() int {
	n := c.Records
	for n > 3 && !primes.IsPrime(n) {
		n--
	}
	return n
}

// GenConfig draws a configuration.
func GenConfig(r *gen.Rng, persistent bool) Config {
	c := Config{
		Sector:       r.Pick(1, 16, 16, 64, 64, 512),
		Old:          r.Range(0, 3),
		Cur:          r.Range(1, 4),
		New:          r.Range(1, 4),
		Spare:        r.Range(1, 3),
		Mutable:      r.Chance(1, 3),
		GetAttempts:  uint32(r.Pick(1, 2, 4, 8, 16)),
		PutAttempts:  r.Pick(1, 2, 8, 32, 64),
		Hierarchical: r.Chance(1, 3),
		KeyFormat:    digest.KeyWithoutInstance,
		Persistent:   persistent,
		Factory:      "cas",
		MinEpoch:     60 * time.Second,
		Retry:        7 * time.Second,
	}
	if c.Sector == 512 {
		c.BlockSectors = int64(r.Range(2, 6))
	} else {
		c.BlockSectors = int64(r.Range(2, 24))
	}
	if r.Chance(1, 4) {
		c.KeyFormat = digest.KeyWithInstance
	}
	if c.Mutable {
		c.New = 1
	}
	if !persistent {
		c.InMemoryBlocks = r.Chance(1, 5)
		c.InMemoryIndex = r.Bool()
	}
	if c.InMemoryBlocks {
		c.Sector = 1
		c.BlockSectors = int64(r.Range(32, 400))
	}
	// Index size: from heavily colliding to roomy.
	switch r.Intn(4) {
	case 0:
		c.Records = r.Range(1, 8)
	case 1:
		c.Records = r.Range(8, 64)
	default:
		c.Records = r.Range(64, 700)
	}
	return c
}

// Media are the simulated media of one store incarnation.
type Media struct {
	J      *sim.Journal
	Blocks *sim.Device
	Index  *sim.Device
	Dir    *sim.Dir
	Clock  *sim.Clock
	// Initial images, needed to compute crash images.
	BlocksInit []byte
	IndexInit  []byte
	DirInit    map[string][]byte
}

// NewMedia creates zeroed media for a configuration.
func NewMedia(c Config) *Media {
	return NewMediaFrom(c, nil, nil, nil)
}

// NewMediaFrom creates media from images (nil = zeroed / empty).
func NewMediaFrom(c Config, blocks, index []byte, dir map[string][]byte) *Media {
	if blocks == nil {
		blocks = make([]byte, int(c.BlockBytes())*c.BlockCount())
	}
	if index == nil {
		index = make([]byte, c.Records*local.BlockDeviceBackedLocationRecordSize)
	}
	j := &sim.Journal{}
	return &Media{
		J: j, Blocks: sim.NewDevice(j, "blocks", blocks), Index: sim.NewDevice(j, "index", index), Dir: sim.NewDir(j, dir), Clock: sim.NewClock(),
		BlocksInit: append([]byte(nil), blocks...), IndexInit: append([]byte(nil), index...), DirInit: dir,
	}
}

// Event is one recorded boundary event.
type Event struct {
	Seq  int64
	Kind string
	A, B int64
	S    string
}

// EventLog is the shared, totally ordered event log of one store.
type EventLog struct {
	seq atomic.Int64
	mu  sync.Mutex
	ev  []Event
	On  func(e Event) // optional synchronous observer (called outside the lock)
}

// Add appends an event.
func (l *EventLog) Add(kind string, a, b int64, s string) {
	e := Event{Seq: l.seq.Add(1), Kind: kind, A: a, B: b, S: s}
	l.mu.Lock()
	if len(l.ev) < 200000 {
		l.ev = append(l.ev, e)
	}
	l.mu.Unlock()
	if l.On != nil {
		l.On(e)
	}
}

// Seq returns the number of events so far.
func (l *EventLog) Seq() int64 { return l.seq.Load() }

// OpenReaders returns the reader.open events that have no reader.close.
func (l *EventLog) OpenReaders() []Event {
	open := map[int64]Event{}
	for _, e := range l.Events() {
		switch e.Kind {
		case "reader.open":
			open[e.A] = e
		case "reader.close":
			delete(open, e.A)
		}
	}
	var out []Event
	for _, e := range open {
		out = append(out, e)
	}
	return out
}

// Events returns a snapshot.
func (l *EventLog) Events() []Event {
	l.mu.Lock()
	defer l.mu.Unlock()
	return append([]Event(nil), l.ev...)
}

// ErrLogger records util.ErrorLogger messages.
type ErrLogger struct {
	mu   sync.Mutex
	Msgs []string
}

func (l *ErrLogger) Log(err error) {
	l.mu.Lock()
	l.Msgs = append(l.Msgs, err.Error())
	l.mu.Unlock()
}

// Messages returns a copy.
func (l *ErrLogger) Messages() []string {
	l.mu.Lock()
	defer l.mu.Unlock()
	return append([]string(nil), l.Msgs...)
}

// ---------------------------------------------------------------------------
// Allocator wrapper

// BlockWrap wraps a local.Block handed out by the allocator.
type BlockWrap struct {
	Inner    local.Block
	ID       int64 // incarnation number (allocation order)
	Offset   int64 // device offset in bytes (-1: in-memory)
	a        *AllocWrap
	released atomic.Int64 // Release() calls made through the wrapper (by the block list)
}

func (b *BlockWrap) Get(d digest.Digest, off, size int64, cb buffer.DataIntegrityCallback) buffer.Buffer {
	return b.Inner.Get(d, off, size, cb)
}
func (b *BlockWrap) HasSpace(size int64) bool { return b.Inner.HasSpace(size) }
func (b *BlockWrap) Put(size int64) local.BlockPutWriter {
	return b.Inner.Put(size)
}
func (b *BlockWrap) Release() {
	n := b.released.Add(1)
	b.a.log.Add("block.release", b.ID, n, "")
	b.Inner.Release()
}

// Released returns how often the owner released the block.
func (b *BlockWrap) Released() int64 { return b.released.Load() }

// AllocWrap is a recording, failure-injecting BlockAllocator.
type AllocWrap struct {
	Inner local.BlockAllocator
	log   *EventLog
	mu    sync.Mutex
	calls int64
	// FailAt: NewBlock call numbers (1-based) that fail with FailErr.
	FailAt  map[int64]bool
	FailErr error
	blocks  []*BlockWrap
	gate    *Gate // point "alloc.newblock": passed before every NewBlock call
	// Observer, when set, is called synchronously (inside the store's
	// critical section) for every region handed out by NewBlock.
	Observer func(id, offset int64)
}

func (a *AllocWrap) NewBlock() (local.Block, *pb.BlockLocation, error) {
	if a.gate != nil {
		a.gate.Pass("alloc.newblock")
	}
	a.mu.Lock()
	a.calls++
	n := a.calls
	fail := a.FailAt[n]
	a.mu.Unlock()
	if fail {
		a.log.Add("alloc.newblock.injected-failure", n, 0, "")
		return nil, nil, a.FailErr
	}
	b, loc, err := a.Inner.NewBlock()
	if err != nil {
		a.log.Add("alloc.newblock.failed", n, 0, err.Error())
		return nil, nil, err
	}
	off := int64(-1)
	if loc != nil {
		off = loc.OffsetBytes
	}
	a.mu.Lock()
	w := &BlockWrap{Inner: b, ID: int64(len(a.blocks)), Offset: off, a: a}
	a.blocks = append(a.blocks, w)
	a.mu.Unlock()
	a.log.Add("alloc.newblock", w.ID, off, "")
	if a.Observer != nil {
		a.Observer(w.ID, off)
	}
	return w, loc, nil
}

func (a *AllocWrap) NewBlockAtLocation(loc *pb.BlockLocation, writeOffset int64) (local.Block, bool) {
	b, ok := a.Inner.NewBlockAtLocation(loc, writeOffset)
	if !ok {
		a.log.Add("alloc.newblockat.notfound", loc.GetOffsetBytes(), writeOffset, "")
		return nil, false
	}
	a.mu.Lock()
	w := &BlockWrap{Inner: b, ID: int64(len(a.blocks)), Offset: loc.GetOffsetBytes(), a: a}
	a.blocks = append(a.blocks, w)
	a.mu.Unlock()
	a.log.Add("alloc.newblockat", w.ID, loc.GetOffsetBytes(), fmt.Sprint(writeOffset))
	return w, true
}

// Calls returns the number of NewBlock calls so far (including failed ones).
func (a *AllocWrap) Calls() int64 {
	a.mu.Lock()
	defer a.mu.Unlock()
	return a.calls
}

// Allocated returns the number of blocks successfully handed out by NewBlock
// and NewBlockAtLocation.
func (a *AllocWrap) Allocated() int {
	a.mu.Lock()
	defer a.mu.Unlock()
	return len(a.blocks)
}

// Blocks returns all block wrappers ever created.
func (a *AllocWrap) Blocks() []*BlockWrap {
	a.mu.Lock()
	defer a.mu.Unlock()
	return append([]*BlockWrap(nil), a.blocks...)
}

// ---------------------------------------------------------------------------
// Block list wrapper

// BlockListWrap records PushBack/PopFront and keeps the absolute numbering.
type BlockListWrap struct {
	local.BlockList
	log    *EventLog
	Pops   atomic.Int64
	Pushes atomic.Int64
}

func (b *BlockListWrap) PopFront() {
	b.BlockList.PopFront()
	n := b.Pops.Add(1)
	b.log.Add("bl.popfront", n, 0, "")
}

func (b *BlockListWrap) PushBack() error {
	err := b.BlockList.PushBack()
	if err == nil {
		n := b.Pushes.Add(1)
		b.log.Add("bl.pushback", n, 0, "")
	} else {
		b.log.Add("bl.pushback.failed", 0, 0, err.Error())
	}
	return err
}

// ---------------------------------------------------------------------------
// Key-location map wrapper

// KLMWrap records every Put with the absolute block number of the location.
type KLMWrap struct {
	local.KeyLocationMap
	log  *EventLog
	pops *atomic.Int64
	mu   sync.Mutex
	// Last is the last location stored per key, with absolute block number.
	Last map[local.Key]AbsLocation
	Puts atomic.Int64
	hist []local.Key
	// histNew[i]: the i-th store named a location for the first time.
	histNew []bool
	seenLoc map[[2]int64]bool
	// ParkAt, when n > 0, makes the n-th next Get pass the gate point
	// "klm.get" before it looks the key up (it is then inside the caller's
	// critical section: a lookup runs under the store's read lock).
	ParkAt atomic.Int64
	gate   *Gate
}

func (k *KLMWrap) Get(key local.Key) (local.Location, error) {
	if k.gate != nil && k.ParkAt.Load() > 0 && k.ParkAt.Add(-1) == 0 {
		k.gate.Pass("klm.get")
	}
	return k.KeyLocationMap.Get(key)
}

// KeysSince returns the keys stored by the Put calls numbered n, n+1, …
// (n = a previous value of Puts).
func (k *KLMWrap) KeysSince(n int64) []local.Key {
	k.mu.Lock()
	defer k.mu.Unlock()
	if n > int64(len(k.hist)) {
		return nil
	}
	return append([]local.Key(nil), k.hist[n:]...)
}

// CopiedKeysSince is KeysSince restricted to the stores that named a location
// for the first time, i.e. that followed a copy of data.
func (k *KLMWrap) CopiedKeysSince(n int64) []local.Key {
	k.mu.Lock()
	defer k.mu.Unlock()
	var out []local.Key
	for i := n; i < int64(len(k.hist)); i++ {
		if k.histNew[i] {
			out = append(out, k.hist[i])
		}
	}
	return out
}

// AbsLocation is a location with an absolute block number.
type AbsLocation struct {
	AbsBlock int64
	Offset   int64
	Size     int64
}

func (k *KLMWrap) Put(key local.Key, loc local.Location) error {
	err := k.KeyLocationMap.Put(key, loc)
	abs := AbsLocation{AbsBlock: k.pops.Load() + int64(loc.BlockIndex), Offset: loc.OffsetBytes, Size: loc.SizeBytes}
	if err == nil {
		k.mu.Lock()
		// The index keeps the newest location; mirror that.
		if old, ok := k.Last[key]; !ok || old.AbsBlock < abs.AbsBlock || (old.AbsBlock == abs.AbsBlock && old.Offset < abs.Offset) {
			k.Last[key] = abs
		}
		k.mu.Unlock()
	}
	k.mu.Lock()
	k.hist = append(k.hist, key)
	// A store at a location no earlier store named is a copy of data; a
	// store at a known location only adds a name for data that is there
	// already (hierarchical lookup keys).
	if k.seenLoc == nil {
		k.seenLoc = map[[2]int64]bool{}
	}
	la := [2]int64{abs.AbsBlock, abs.Offset}
	k.histNew = append(k.histNew, !k.seenLoc[la])
	k.seenLoc[la] = true
	k.mu.Unlock()
	k.Puts.Add(1)
	k.log.Add("klm.put", abs.AbsBlock, abs.Offset, fmt.Sprintf("%x size=%d err=%v", key[:4], loc.SizeBytes, err))
	return err
}

// Lookup returns the last stored absolute location of a key.
func (k *KLMWrap) Lookup(key local.Key) (AbsLocation, bool) {
	k.mu.Lock()
	defer k.mu.Unlock()
	l, ok := k.Last[key]
	return l, ok
}

// ---------------------------------------------------------------------------
// Read buffer factory wrapper

// FactoryWrap wraps the read-buffer factory used by the block-device-backed
// allocator: it counts reader opens/closes and monitors integrity verdicts.
type FactoryWrap struct {
	Inner          blobstore.ReadBufferFactory
	Raw            bool
	log            *EventLog
	Opens, Closes  atomic.Int64
	IntegrityFalse atomic.Int64
	IntegrityTrue  atomic.Int64
	DoubleCloses   atomic.Int64
}

type readerWrap struct {
	buffer.ReadAtCloser
	f      *FactoryWrap
	id     int64
	closed atomic.Int64
}

func (r *readerWrap) Close() error {
	if r.closed.Add(1) > 1 {
		r.f.DoubleCloses.Add(1)
		r.f.log.Add("reader.double-close", r.id, 0, "")
		return nil
	}
	r.f.Closes.Add(1)
	r.f.log.Add("reader.close", r.id, 0, "")
	return r.ReadAtCloser.Close()
}

func (f *FactoryWrap) wrapCB(cb buffer.DataIntegrityCallback) buffer.DataIntegrityCallback {
	return func(ok bool) {
		if ok {
			f.IntegrityTrue.Add(1)
		} else {
			f.IntegrityFalse.Add(1)
			f.log.Add("integrity.false", 0, 0, "")
		}
		cb(ok)
	}
}

func (f *FactoryWrap) NewBufferFromByteSlice(d digest.Digest, data []byte, cb buffer.DataIntegrityCallback) buffer.Buffer {
	return f.Inner.NewBufferFromByteSlice(d, data, f.wrapCB(cb))
}

func (f *FactoryWrap) NewBufferFromReader(d digest.Digest, r io.ReadCloser, cb buffer.DataIntegrityCallback) buffer.Buffer {
	return f.Inner.NewBufferFromReader(d, r, f.wrapCB(cb))
}

func (f *FactoryWrap) NewBufferFromReaderAt(d digest.Digest, r buffer.ReadAtCloser, size int64, cb buffer.DataIntegrityCallback) buffer.Buffer {
	id := f.Opens.Add(1)
	f.log.Add("reader.open", id, size, d.String())
	w := &readerWrap{ReadAtCloser: r, f: f, id: id}
	if f.Raw {
		return buffer.NewValidatedBufferFromReaderAt(w, size)
	}
	return f.Inner.NewBufferFromReaderAt(d, w, size, f.wrapCB(cb))
}

// ---------------------------------------------------------------------------
// State store and data syncer wrappers

// Gate blocks callers at named points until released. The zero value lets
// everything pass.
type Gate struct {
	mu      sync.Mutex
	closed  map[string]bool
	waiting map[string][]chan struct{}
	Arrived atomic.Int64
}

// Close makes the named point block.
func (g *Gate) Close(name string) {
	g.mu.Lock()
	if g.closed == nil {
		g.closed = map[string]bool{}
		g.waiting = map[string][]chan struct{}{}
	}
	g.closed[name] = true
	g.mu.Unlock()
}

// Open lets the named point pass and releases everybody waiting there.
func (g *Gate) Open(name string) {
	g.mu.Lock()
	if g.closed != nil {
		delete(g.closed, name)
		for _, ch := range g.waiting[name] {
			close(ch)
		}
		delete(g.waiting, name)
	}
	g.mu.Unlock()
}

// ReleaseOne releases one waiter at the named point, keeping the gate closed.
func (g *Gate) ReleaseOne(name string) bool {
	g.mu.Lock()
	defer g.mu.Unlock()
	w := g.waiting[name]
	if len(w) == 0 {
		return false
	}
	close(w[0])
	g.waiting[name] = w[1:]
	return true
}

// Waiting returns the number of goroutines parked at the named point.
func (g *Gate) Waiting(name string) int {
	g.mu.Lock()
	defer g.mu.Unlock()
	return len(g.waiting[name])
}

// Pass is called by wrappers at a named point.
func (g *Gate) Pass(name string) {
	g.mu.Lock()
	if g.closed == nil || !g.closed[name] {
		g.mu.Unlock()
		return
	}
	ch := make(chan struct{})
	g.waiting[name] = append(g.waiting[name], ch)
	g.mu.Unlock()
	g.Arrived.Add(1)
	<-ch
}

// StateStoreWrap records, gates and fails persistent-state writes.
type StateStoreWrap struct {
	Inner local.PersistentStateStore
	log   *EventLog
	Gate  *Gate
	mu    sync.Mutex
	// FailNext makes the next n writes fail with FailErr (before touching
	// the directory).
	FailNext int
	FailErr  error
	Writes   []*pb.PersistentState // successfully written states
	Attempts atomic.Int64
}

func (s *StateStoreWrap) ReadPersistentState() (*pb.PersistentState, error) {
	return s.Inner.ReadPersistentState()
}

func (s *StateStoreWrap) WritePersistentState(st *pb.PersistentState) error {
	s.Attempts.Add(1)
	s.log.Add("state.write.begin", int64(len(st.Blocks)), int64(st.OldestEpochId), "")
	s.Gate.Pass("state.write")
	s.mu.Lock()
	if s.FailNext > 0 {
		s.FailNext--
		err := s.FailErr
		s.mu.Unlock()
		s.log.Add("state.write.injected-failure", 0, 0, "")
		return err
	}
	s.mu.Unlock()
	err := s.Inner.WritePersistentState(st)
	if err == nil {
		s.mu.Lock()
		s.Writes = append(s.Writes, st)
		s.mu.Unlock()
		s.log.Add("state.write.end", int64(len(st.Blocks)), 0, "")
	} else {
		s.log.Add("state.write.failed", 0, 0, err.Error())
	}
	s.Gate.Pass("state.write.done")
	return err
}

// SetFail makes the next n writes fail with err.
func (s *StateStoreWrap) SetFail(n int, err error) {
	s.mu.Lock()
	s.FailNext, s.FailErr = n, err
	s.mu.Unlock()
}

// PendingFailures returns the number of injected failures not yet consumed.
func (s *StateStoreWrap) PendingFailures() int {
	s.mu.Lock()
	defer s.mu.Unlock()
	return s.FailNext
}

// Written returns the successfully written states.
func (s *StateStoreWrap) Written() []*pb.PersistentState {
	s.mu.Lock()
	defer s.mu.Unlock()
	return append([]*pb.PersistentState(nil), s.Writes...)
}

// SyncerWrap is the DataSyncer handed to the PeriodicSyncer.
type SyncerWrap struct {
	Sync func() error
	log  *EventLog
	Gate *Gate
	mu   sync.Mutex
	// FailNext makes the next n syncs fail.
	FailNext int
	FailErr  error
	Calls    atomic.Int64
	OK       atomic.Int64
}

// SetFail makes the next n syncs fail with err.
func (s *SyncerWrap) SetFail(n int, err error) {
	s.mu.Lock()
	s.FailNext, s.FailErr = n, err
	s.mu.Unlock()
}

// PendingFailures returns the number of injected failures not yet consumed.
func (s *SyncerWrap) PendingFailures() int {
	s.mu.Lock()
	defer s.mu.Unlock()
	return s.FailNext
}

func (s *SyncerWrap) Do() error {
	n := s.Calls.Add(1)
	s.log.Add("datasync.begin", n, 0, "")
	s.Gate.Pass("datasync")
	s.mu.Lock()
	if s.FailNext > 0 {
		s.FailNext--
		err := s.FailErr
		s.mu.Unlock()
		s.log.Add("datasync.injected-failure", n, 0, "")
		return err
	}
	s.mu.Unlock()
	err := s.Sync()
	if err == nil {
		s.OK.Add(1)
		s.log.Add("datasync.end", n, 0, "")
	} else {
		s.log.Add("datasync.failed", n, 0, err.Error())
	}
	s.Gate.Pass("datasync.done")
	return err
}

// ---------------------------------------------------------------------------
// Store

// Store is one assembled incarnation.
type Store struct {
	Cfg    Config
	M      *Media
	BA     blobstore.BlobAccess
	Lock   *sync.RWMutex
	Log    *EventLog
	ErrLog *ErrLogger

	RealAlloc local.BlockAllocator
	Alloc     *AllocWrap
	BL        *BlockListWrap
	PBL       *local.PersistentBlockList // nil for volatile lists
	LBM       *local.OldCurrentNewLocationBlobMap
	KLM       *KLMWrap
	Factory   *FactoryWrap
	State     *StateStoreWrap
	DataSync  *SyncerWrap
	Syncer    *local.PeriodicSyncer
	Gate      *Gate
	HashInit  uint64
	Initial   int // blocks restored at start

	cancel     context.CancelFunc
	PutLoopEnd chan struct{}
	// Records is the real location record array underneath the index (for
	// diagnostics: dumping the table next to a violation).
	Records local.LocationRecordArray

	relMu   sync.Mutex
	relTask *Task
	relReq  chan *Task
}

// Build assembles a store on the given media. For persistent stores the state
// is read from the directory first, exactly like a process start.
func Build(c Config, m *Media) (*Store, error) {
	s := &Store{Cfg: c, M: m, Lock: &sync.RWMutex{}, Log: &EventLog{}, ErrLog: &ErrLogger{}, Gate: &Gate{}}
	label := c.Label
	if label == "" {
		label = "verif"
	}
	var inner blobstore.ReadBufferFactory
	switch c.Factory {
	case "ac":
		inner = blobstore.ACReadBufferFactory
	default:
		inner = blobstore.CASReadBufferFactory
	}
	if c.ValidationCache && c.Factory == "cas" && !c.InMemoryBlocks {
		inner = blobstore.NewValidationCachingReadBufferFactory(inner,
			digest.NewExistenceCache(m.Clock, digest.KeyWithInstance, 10000, time.Minute, eviction.NewLRUSet[string]()))
	}
	s.Factory = &FactoryWrap{Inner: inner, Raw: c.Factory == "raw", log: s.Log}
	if m.Blocks.Hook == nil {
		g := s.Gate
		m.Blocks.Hook = func(kind string, off int64, n int) {
			if kind == "sync-mid" {
				g.Pass("sync-mid")
			}
		}
	}

	sector, blockSectors := c.Sector, c.BlockSectors
	if c.InMemoryBlocks {
		sector = 1
		s.RealAlloc = local.NewInMemoryBlockAllocator(int(c.BlockBytes()))
	} else {
		s.RealAlloc = local.NewBlockDeviceBackedBlockAllocator(m.Blocks, s.Factory, sector, blockSectors, c.BlockCount(), label)
	}
	s.Alloc = &AllocWrap{Inner: s.RealAlloc, log: s.Log, FailAt: map[int64]bool{}, gate: s.Gate}

	var bl local.BlockList
	if !c.Persistent {
		bl = local.NewVolatileBlockList(s.Alloc)
		s.HashInit = 0x1234567 + uint64(c.Records)
	} else {
		s.State = &StateStoreWrap{Inner: local.NewDirectoryBackedPersistentStateStore(m.Dir), log: s.Log, Gate: s.Gate}
		st, err := s.State.ReadPersistentState()
		if err != nil {
			return nil, err
		}
		s.HashInit = st.KeyLocationMapHashInitialization
		s.PBL, s.Initial = local.NewPersistentBlockList(s.Alloc, st.OldestEpochId, st.Blocks)
		bl = s.PBL
		s.DataSync = &SyncerWrap{Sync: m.Blocks.Sync, log: s.Log, Gate: s.Gate}
		s.Syncer = local.NewPeriodicSyncer(s.PBL, s.Lock, s.State, m.Clock, s.ErrLog, c.Retry, c.MinEpoch, s.HashInit, s.DataSync.Do)
	}
	s.BL = &BlockListWrap{BlockList: bl, log: s.Log}

	var gp local.BlockListGrowthPolicy
	if c.Mutable {
		gp = local.NewMutableBlockListGrowthPolicy(c.Cur)
	} else {
		gp = local.NewImmutableBlockListGrowthPolicy(c.Cur, c.New)
	}
	s.LBM = local.NewOldCurrentNewLocationBlobMap(s.BL, gp, s.ErrLog, label, int64(sector)*blockSectors, c.Old, c.New, s.Initial)

	var arr local.LocationRecordArray
	if c.InMemoryIndex {
		arr = local.NewInMemoryLocationRecordArray(c.Records, s.LBM)
	} else {
		arr = local.NewBlockDeviceBackedLocationRecordArray(m.Index, s.LBM)
	}
	s.Records = arr
	klm := local.NewHashingKeyLocationMap(arr, c.TableSize(), s.HashInit, c.GetAttempts, c.PutAttempts, label)
	s.KLM = &KLMWrap{KeyLocationMap: klm, log: s.Log, pops: &s.BL.Pops, Last: map[local.Key]AbsLocation{}, gate: s.Gate}

	if c.Hierarchical {
		s.BA = local.NewHierarchicalCASBlobAccess(s.KLM, s.LBM, s.Lock, nil)
	} else {
		s.BA = local.NewFlatBlobAccess(s.KLM, s.LBM, c.KeyFormat, s.Lock, label, nil)
	}
	return s, nil
}

// StartSyncers starts the two syncer loops the way new_blob_access.go does.
func (s *Store) StartSyncers() {
	if s.Syncer == nil {
		return
	}
	ctx, cancel := context.WithCancel(context.Background())
	s.cancel = cancel
	s.PutLoopEnd = make(chan struct{})
	go func() {
		for {
			s.Syncer.ProcessBlockRelease()
		}
	}()
	go func() {
		for s.Syncer.ProcessBlockPut(ctx) {
		}
		close(s.PutLoopEnd)
	}()
}

// Shutdown cancels the put loop's context (graceful termination request).
func (s *Store) Shutdown() {
	if s.cancel != nil {
		s.cancel()
	}
}

// Key returns the index key the flat store uses for a digest.
func (s *Store) Key(d digest.Digest) local.Key {
	if s.Cfg.Hierarchical {
		return local.NewKeyFromString(d.GetKey(digest.KeyWithInstance))
	}
	return local.NewKeyFromString(d.GetKey(s.Cfg.KeyFormat))
}

// CanonicalKey is the hierarchical store's canonical key.
func CanonicalKey(d digest.Digest) local.Key {
	return local.NewKeyFromString(d.GetKey(digest.KeyWithoutInstance))
}

// ---------------------------------------------------------------------------
// Harness-driven syncer steps (no free-running goroutines): every activity of
// the PeriodicSyncer is started by the harness and runs until it finishes or
// parks at a closed gate, so that schedules are chosen, not hoped for.

func chanReady(ch <-chan struct{}) bool {
	select {
	case <-ch:
		return true
	default:
		return false
	}
}

// PutPending reports whether the block list signals unsynchronised data.
func (s *Store) PutPending() bool {
	s.Lock.RLock()
	ch := s.PBL.GetBlockPutWakeup()
	s.Lock.RUnlock()
	return chanReady(ch)
}

// ReleasePending reports whether the block list signals blocks awaiting release.
func (s *Store) ReleasePending() bool {
	s.Lock.RLock()
	ch := s.PBL.GetBlockReleaseWakeup()
	s.Lock.RUnlock()
	return chanReady(ch)
}

// Task is a syncer activity running in its own goroutine.
type Task struct {
	Done chan struct{}
	s    *Store
	// Stuck is set when RunUntilParked gave up: the task neither finished nor
	// parked although the virtual clock was advanced through thousands of
	// (retry) timers - e.g. a transient failure that is retried forever
	// without ever succeeding.
	Stuck bool
}

// Finished reports whether the task has returned.
func (t *Task) Finished() bool { return chanReady(t.Done) }

// RunUntilParked advances the virtual clock (firing epoch and retry timers)
// until the task has finished or some goroutine is parked at one of the named
// gate points. It returns the gate point reached, or "" when finished.
func (t *Task) RunUntilParked(points ...string) string {
	advances := 0
	for spin := 0; ; spin++ {
		if t.Finished() {
			return ""
		}
		for _, p := range points {
			if t.s.Gate.Waiting(p) > 0 {
				return p
			}
		}
		if d, ok := t.s.M.Clock.NextFire(); ok {
			t.s.M.Clock.Advance(d)
			advances++
			if advances > 3000 {
				t.Stuck = true
				return ""
			}
			continue
		}
		if spin%64 == 63 {
			time.Sleep(20 * time.Microsecond)
		} else {
			yield()
		}
	}
}

// WaitRelease waits for a release round. A release round that was started
// while blocks awaited release may find, once it gets to run, that another
// state writer has meanwhile written them back: it then parks on the fresh
// wake-up channel like the production loop does. WaitRelease therefore also
// returns when nothing awaits release any more (the goroutine stays parked
// and will serve the next release, as in production).
func (t *Task) WaitRelease() {
	idle := 0
	for spin := 0; !t.Finished(); spin++ {
		if d, ok := t.s.M.Clock.NextFire(); ok {
			t.s.M.Clock.Advance(d)
			idle = 0
			continue
		}
		if !t.s.ReleasePending() {
			idle++
			if idle > 50 {
				return
			}
		} else {
			idle = 0
		}
		if spin%16 == 15 {
			time.Sleep(20 * time.Microsecond)
		} else {
			yield()
		}
	}
}

// RunReleaseUntilParked is RunUntilParked for a release round: it also returns
// "" when the round turned out to have nothing to do (see WaitRelease).
func (t *Task) RunReleaseUntilParked(points ...string) string {
	idle := 0
	for spin := 0; ; spin++ {
		if t.Finished() {
			return ""
		}
		for _, p := range points {
			if t.s.Gate.Waiting(p) > 0 {
				return p
			}
		}
		if d, ok := t.s.M.Clock.NextFire(); ok {
			t.s.M.Clock.Advance(d)
			idle = 0
			continue
		}
		if !t.s.ReleasePending() {
			idle++
			if idle > 50 {
				return ""
			}
		} else {
			idle = 0
		}
		if spin%16 == 15 {
			time.Sleep(20 * time.Microsecond)
		} else {
			yield()
		}
	}
}

// Wait runs the task to completion (all gates must be open).
func (t *Task) Wait() { t.RunUntilParked() }

// StartPutRound starts one ProcessBlockPut round in a goroutine. The caller
// should have checked PutPending (otherwise the round blocks until data is
// written).
func (s *Store) StartPutRound(ctx context.Context) *Task {
	t := &Task{Done: make(chan struct{}), s: s}
	go func() {
		s.Syncer.ProcessBlockPut(ctx)
		close(t.Done)
	}()
	return t
}

// StartPutLoop runs ProcessBlockPut until it returns false, the way
// new_blob_access.go does.
func (s *Store) StartPutLoop(ctx context.Context) *Task {
	t := &Task{Done: make(chan struct{}), s: s}
	go func() {
		for s.Syncer.ProcessBlockPut(ctx) {
		}
		close(t.Done)
	}()
	return t
}

// StartReleaseRound asks the store's single release goroutine (production has
// exactly one release loop) to perform one ProcessBlockRelease round. If the
// previous round is still outstanding - it may have found nothing to do and be
// parked on the wake-up channel, like the production loop - that round's task
// is returned instead of starting a second one.
func (s *Store) StartReleaseRound() *Task {
	s.relMu.Lock()
	defer s.relMu.Unlock()
	if s.relTask != nil && !s.relTask.Finished() {
		return s.relTask
	}
	t := &Task{Done: make(chan struct{}), s: s}
	s.relTask = t
	if s.relReq == nil {
		s.relReq = make(chan *Task, 1)
		go func() {
			for req := range s.relReq {
				s.Syncer.ProcessBlockRelease()
				close(req.Done)
			}
		}()
	}
	s.relReq <- t
	return t
}

// Close lets the store's helper goroutine (the single release goroutine of
// the harness-driven syncer steps) exit, so that a store a check is done with
// can be garbage collected together with its media. A release round that is
// still outstanding is left alone.
func (s *Store) Close() {
	s.relMu.Lock()
	defer s.relMu.Unlock()
	if s.relReq != nil && (s.relTask == nil || s.relTask.Finished()) {
		close(s.relReq)
		s.relReq = nil
	}
}

// PumpRelease processes pending block releases to completion (gates open).
func (s *Store) PumpRelease() {
	for i := 0; i < 8 && s.PBL != nil && s.ReleasePending(); i++ {
		s.StartReleaseRound().WaitRelease()
	}
}

// SyncNow performs one full commit (data sync + state write) if there is
// unsynchronised data; it returns whether one was performed.
func (s *Store) SyncNow() bool {
	if s.PBL == nil || !s.PutPending() {
		return false
	}
	s.StartPutRound(context.Background()).Wait()
	return true
}

func yield() { runtime.Gosched() }
