// Package gen holds the deterministic PRNG and the generators for blobs,
// digests and instance names shared by all checks.
package gen

import (
	"crypto/md5"
	"crypto/sha1"
	"crypto/sha256"
	"crypto/sha512"
	"encoding/binary"
	"encoding/hex"
	"fmt"

	remoteexecution "github.com/bazelbuild/remote-apis/build/bazel/remote/execution/v2"
	"github.com/buildbarn/bb-storage/pkg/digest"
)

// Rng is a splitmix64 generator. The zero value is usable.
type Rng struct{ s uint64 }

// New returns a generator whose stream is determined by the seeds given.
func New(seeds ...uint64) *Rng {
	r := &Rng{s: 0x9e3779b97f4a7c15}
	for _, s := range seeds {
		// Mix after every seed: plain xor-then-add folding made (a, b) and
		// (a^x, b^y) collide for many x, y.
		r.s ^= s
		r.s = r.Uint64()
	}
	return r
}

// Uint64 returns the next value of the stream.
func (r *Rng) Uint64() uint64 {
	r.s += 0x9e3779b97f4a7c15
	z := r.s
	z = (z ^ (z >> 30)) * 0xbf58476d1ce4e5b9
	z = (z ^ (z >> 27)) * 0x94d049bb133111eb
	return z ^ (z >> 31)
}

// Intn returns a value in [0,n). n<=0 yields 0.
func (r *Rng) Intn(n int) int {
	if n <= 0 {
		return 0
	}
	return int(r.Uint64() % uint64(n))
}

// Range returns a value in [lo,hi].
func (r *Rng) Range(lo, hi int) int {
	if hi <= lo {
		return lo
	}
	return lo + r.Intn(hi-lo+1)
}

// Bool returns true with probability 1/2.
func (r *Rng) Bool() bool { return r.Uint64()&1 == 1 }

// Chance returns true with probability num/den.
func (r *Rng) Chance(num, den int) bool { return r.Intn(den) < num }

// Pick returns one of the given ints.
func (r *Rng) Pick(v ...int) int { return v[r.Intn(len(v))] }

// Bytes returns n pseudo-random bytes.
func (r *Rng) Bytes(n int) []byte {
	b := make([]byte, n)
	for i := 0; i < n; i += 8 {
		var w [8]byte
		binary.LittleEndian.PutUint64(w[:], r.Uint64())
		copy(b[i:], w[:])
	}
	return b
}

// Fork derives an independent generator.
func (r *Rng) Fork() *Rng { return New(r.Uint64(), r.Uint64()) }

// Perm returns a permutation of [0,n).
func (r *Rng) Perm(n int) []int {
	p := make([]int, n)
	for i := range p {
		p[i] = i
	}
	for i := n - 1; i > 0; i-- {
		j := r.Intn(i + 1)
		p[i], p[j] = p[j], p[i]
	}
	return p
}

// Chunking splits n bytes into chunk lengths; may contain empty chunks when
// allowEmpty is set.
func (r *Rng) Chunking(n int, allowEmpty bool) []int {
	var out []int
	mode := r.Intn(5)
	for n > 0 {
		var c int
		switch mode {
		case 0:
			c = n
		case 1:
			c = 1
		case 2:
			c = r.Range(1, 3)
		case 3:
			c = r.Range(1, n)
		default:
			c = r.Range(1, 1+n/2)
		}
		if c > n {
			c = n
		}
		if allowEmpty && r.Chance(1, 6) {
			out = append(out, 0)
		}
		out = append(out, c)
		n -= c
	}
	if allowEmpty && r.Chance(1, 6) {
		out = append(out, 0)
	}
	return out
}

// UniqueBlob returns size bytes whose content is unique for (tag, id): the id
// is embedded as far as it fits and the rest is a keyed pseudo-random stream.
func UniqueBlob(tag, id uint64, size int) []byte {
	r := New(0xb10b, tag, id, uint64(size))
	b := r.Bytes(size)
	var hdr [16]byte
	binary.LittleEndian.PutUint64(hdr[:8], id)
	binary.LittleEndian.PutUint64(hdr[8:], tag)
	copy(b, hdr[:])
	return b
}

// AllFunctions lists every digest function bb-storage supports.
var AllFunctions = []remoteexecution.DigestFunction_Value{
	remoteexecution.DigestFunction_MD5,
	remoteexecution.DigestFunction_SHA1,
	remoteexecution.DigestFunction_SHA256,
	remoteexecution.DigestFunction_SHA256TREE,
	remoteexecution.DigestFunction_SHA384,
	remoteexecution.DigestFunction_SHA512,
	remoteexecution.DigestFunction_GITSHA1,
	remoteexecution.DigestFunction_BLAKE3,
}

// DigestOf computes the digest of data using bb-storage's own generator for
// the given function (used where the digest function itself is not under
// test) .
func DigestOf(instance string, fn remoteexecution.DigestFunction_Value, data []byte) digest.Digest {
	f := digest.MustNewFunction(instance, fn)
	g := f.NewGenerator(int64(len(data)))
	g.Write(data)
	return g.Sum()
}

// IndependentHash computes the hex hash for functions for which the Go
// standard library offers an independent implementation; ok=false otherwise.
func IndependentHash(fn remoteexecution.DigestFunction_Value, data []byte) (string, bool) {
	switch fn {
	case remoteexecution.DigestFunction_MD5:
		h := md5.Sum(data)
		return hex.EncodeToString(h[:]), true
	case remoteexecution.DigestFunction_SHA1:
		h := sha1.Sum(data)
		return hex.EncodeToString(h[:]), true
	case remoteexecution.DigestFunction_SHA256:
		h := sha256.Sum256(data)
		return hex.EncodeToString(h[:]), true
	case remoteexecution.DigestFunction_SHA384:
		h := sha512.Sum384(data)
		return hex.EncodeToString(h[:]), true
	case remoteexecution.DigestFunction_SHA512:
		h := sha512.Sum512(data)
		return hex.EncodeToString(h[:]), true
	case remoteexecution.DigestFunction_GITSHA1:
		hh := sha1.New()
		fmt.Fprintf(hh, "blob %d\x00", len(data))
		hh.Write(data)
		return hex.EncodeToString(hh.Sum(nil)), true
	}
	return "", false
}

// SHA256Digest is the common case.
func SHA256Digest(instance string, data []byte) digest.Digest {
	h := sha256.Sum256(data)
	return digest.MustNewDigest(instance, remoteexecution.DigestFunction_SHA256, hex.EncodeToString(h[:]), int64(len(data)))
}

// Hex8 is a short printable fingerprint of a byte slice.
func Hex8(b []byte) string {
	h := sha256.Sum256(b)
	return fmt.Sprintf("%d:%s", len(b), hex.EncodeToString(h[:4]))
}
