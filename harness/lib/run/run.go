// Package run is the driver shared by all checks: it fans a check out to
// worker child processes, gives every case its own deterministic PRNG, catches
// panics and hangs per case, merges the worker reports, applies the
// known-findings file, writes the evidence file and prints the VIOLATION /
// KNOWN-FINDING lines.
package run

import (
	"bufio"
	"bytes"
	"encoding/binary"
	"encoding/json"
	"fmt"
	"hash/fnv"
	"os"
	"os/exec"
	"path/filepath"
	"regexp"
	"runtime"
	"runtime/debug"
	"runtime/pprof"
	"sort"
	"strconv"
	"strings"
	"sync"
	"syscall"
	"time"

	"verif/lib/gen"
)

// Spec describes a check.
type Spec struct {
	Property string // "C01"
	Level    string // evidence level
	Rule     string // how cases are generated / what counts as distinct and non-trivial
	// Workers is the number of child processes (default 8, capped at 16).
	Workers int
	// CaseTimeout is the per-case watchdog (default 60 s). Its firing is a
	// violation only if the goroutine dump shows a deadlocked state;
	// otherwise the run is inconclusive.
	CaseTimeout time.Duration
	// Floors are coverage floors over merged counters: a run below a floor
	// is inconclusive. Keys may carry a "quick:" / "thorough:" prefix.
	Floors map[string]int64
	// Assumptions are copied to the evidence file.
	Assumptions []string
	// Race says the binary is expected to be built with -race; race reports
	// are collected from the GORACE log files.
	Race bool
	// Body runs in every worker.
	Body func(w *Worker)
}

// Violation is one observed refutation.
type Violation struct {
	Sig    string `json:"sig"`
	Detail string `json:"detail"`
	Case   string `json:"case,omitempty"`
	Worker int    `json:"worker"`
	Index  int64  `json:"case_index"`
	Group  string `json:"group,omitempty"`
}

type report struct {
	Worker       int              `json:"worker"`
	Evaluations  int64            `json:"evaluations"`
	Items        int64            `json:"items"` // Distinct() calls: oracle-judged items (a case may judge several)
	Counters     map[string]int64 `json:"counters"`
	Samples      []any            `json:"samples"`
	Violations   []Violation      `json:"violations"`
	Inconclusive []string         `json:"inconclusive"`
	Exhaustive   map[string]bool  `json:"exhaustive"`
	Done         bool             `json:"done"`
}

// Worker is the per-process context handed to Spec.Body.
type Worker struct {
	Index   int
	Workers int
	Seed    uint64
	Tier    string // "quick" or "thorough"
	spec    *Spec
	outDir  string

	mu       sync.Mutex
	rep      report
	distinct map[uint64]struct{}
	caseLog  *os.File
	caseSeq  int64
	replay   int64 // -1: none
	replayG  string
}

// Thorough reports whether the thorough tier runs.
func (w *Worker) Thorough() bool { return w.Tier == "thorough" }

// N picks a per-worker case count from totals for the whole check.
func (w *Worker) N(quickTotal, thoroughTotal int) int {
	t := quickTotal
	if w.Thorough() {
		t = thoroughTotal
	}
	if s := os.Getenv("VERIF_SCALE"); s != "" {
		if f, err := strconv.ParseFloat(s, 64); err == nil {
			t = int(float64(t) * f)
		}
	}
	n := t / w.Workers
	if w.Index < t%w.Workers {
		n++
	}
	if n < 1 && w.Index == 0 {
		n = 1
	}
	return n
}

// AddEvaluations counts executions that are not whole Cases (e.g. the restarts
// of a crash enumeration inside one workload case).
func (w *Worker) AddEvaluations(n int64) {
	w.mu.Lock()
	w.rep.Evaluations += n
	w.mu.Unlock()
}

// Count adds n to a named counter (reported in the evidence coverage).
func (w *Worker) Count(name string, n int64) {
	w.mu.Lock()
	w.rep.Counters[name] += n
	w.mu.Unlock()
}

// Max raises a named counter to at least v.
func (w *Worker) Max(name string, v int64) {
	w.mu.Lock()
	if w.rep.Counters[name] < v {
		w.rep.Counters[name] = v
	}
	w.mu.Unlock()
}

// Distinct records the identity of a non-trivial case (or state, or
// interleaving) for the distinct_nontrivial count.
func (w *Worker) Distinct(key string) {
	h := fnv.New64a()
	h.Write([]byte(key))
	w.mu.Lock()
	w.rep.Items++
	if len(w.distinct) < 400000 {
		w.distinct[h.Sum64()] = struct{}{}
	}
	w.mu.Unlock()
}

// Sample keeps a few cases written out for the evidence file.
func (w *Worker) Sample(v any) {
	w.mu.Lock()
	if len(w.rep.Samples) < 3 {
		w.rep.Samples = append(w.rep.Samples, v)
	}
	w.mu.Unlock()
}

// Exhaustive marks a named enumeration as complete.
func (w *Worker) Exhaustive(name string, ok bool) {
	w.mu.Lock()
	w.rep.Exhaustive[name] = ok
	w.mu.Unlock()
}

// Inconclusive records a reason why this worker's result is not a verdict.
func (w *Worker) Inconclusive(reason string) {
	w.mu.Lock()
	w.rep.Inconclusive = append(w.rep.Inconclusive, reason)
	w.mu.Unlock()
}

func (w *Worker) addViolation(v Violation) {
	w.mu.Lock()
	defer w.mu.Unlock()
	n := 0
	for _, o := range w.rep.Violations {
		if o.Sig == v.Sig {
			n++
		}
	}
	if n < 3 && len(w.rep.Violations) < 60 {
		if len(v.Detail) > 20000 {
			v.Detail = v.Detail[:20000] + "…"
		}
		w.rep.Violations = append(w.rep.Violations, v)
	}
	w.rep.Counters["violations_observed"]++
}

// Case is one generated case.
type Case struct {
	W     *Worker
	Rng   *gen.Rng
	Index int64
	Group string
	desc  string
	trace bytes.Buffer
	mu    sync.Mutex
}

// Desc sets the one-line description logged before the case executes.
func (c *Case) Desc(format string, a ...any) {
	c.mu.Lock()
	c.desc = fmt.Sprintf(format, a...)
	c.mu.Unlock()
	c.W.logCase(c)
}

// Logf appends to the case trace, which becomes part of a violation's detail.
func (c *Case) Logf(format string, a ...any) {
	c.mu.Lock()
	if c.trace.Len() < 60000 {
		fmt.Fprintf(&c.trace, format, a...)
		c.trace.WriteByte('\n')
	}
	c.mu.Unlock()
}

// Violation reports a refutation observed in this case. sig identifies the
// failure class (call site + failing input class); it is what the
// known-findings file is matched against.
func (c *Case) Violation(sig, format string, a ...any) {
	c.mu.Lock()
	d := fmt.Sprintf(format, a...) + "\n--- case: " + c.desc + "\n--- trace:\n" + c.trace.String()
	desc := c.desc
	c.mu.Unlock()
	c.W.addViolation(Violation{Sig: sig, Detail: d, Case: desc, Worker: c.W.Index, Index: c.Index, Group: c.Group})
}

func (w *Worker) logCase(c *Case) {
	if w.caseLog != nil {
		fmt.Fprintf(w.caseLog, "%s#%d %s\n", c.Group, c.Index, c.desc)
	}
}

// Cases runs n cases of a named group. Every case gets a PRNG derived from
// (seed, worker, group, index), so that a single case can be replayed
// without executing the others. Panics and hangs are caught per case.
func (w *Worker) Cases(group string, n int, f func(c *Case)) {
	gh := fnv.New64a()
	gh.Write([]byte(group))
	for i := 0; i < n; i++ {
		idx := int64(i)
		if w.replay >= 0 && (w.replayG != group || w.replay != idx) {
			continue
		}
		c := &Case{W: w, Index: idx, Group: group, Rng: gen.New(w.Seed, uint64(w.Index), gh.Sum64(), uint64(i))}
		w.runCase(c, f)
		w.mu.Lock()
		w.rep.Evaluations++
		w.mu.Unlock()
	}
}

var activeState = regexp.MustCompile(`^goroutine \d+ \[(running|runnable|copystack|preempted|waiting|dead|enqueue|dumping goroutines)`)

// Settle waits until every goroutine other than the caller is parked (channel
// operation, select, mutex, semaphore, condition variable - not sleeping or
// runnable) in two consecutive looks, i.e. until the system under test has
// done everything it can do without another stimulus. It returns false if that
// does not happen within the timeout (the caller treats that as inconclusive,
// never as a violation by itself).
func Settle(timeout time.Duration) bool {
	deadline := time.Now().Add(timeout)
	okCount := 0
	pause := 20 * time.Microsecond
	for {
		runtime.Gosched()
		_, b := allBlocked(false)
		if b {
			okCount++
			if okCount >= 2 {
				return true
			}
		} else {
			okCount = 0
		}
		if time.Now().After(deadline) {
			return false
		}
		time.Sleep(pause)
		if pause < 2*time.Millisecond {
			pause *= 2
		}
	}
}

// ActiveGoroutines returns the header and first frames of every goroutine
// that is not parked (diagnostics for a Settle that timed out).
func ActiveGoroutines() string {
	dump, _ := allBlocked(false)
	var out []string
	first := true
	for _, g := range strings.Split(dump, "\n\n") {
		if first {
			first = false
			continue
		}
		line := g
		if i := strings.IndexByte(g, '\n'); i >= 0 {
			line = g[:i]
		}
		if activeState.MatchString(line) || sleepState.MatchString(line) {
			l := strings.Split(g, "\n")
			if len(l) > 7 {
				l = l[:7]
			}
			out = append(out, strings.Join(l, " | "))
		}
	}
	return strings.Join(out, " || ")
}

// AllBlocked returns the full goroutine dump and whether every goroutine other
// than the caller is in a blocked state.
func AllBlocked() (string, bool) { return allBlocked(true) }

var (
	stackMu  sync.Mutex
	stackBuf []byte
)

var sleepState = regexp.MustCompile(`^goroutine \d+ \[(sleep|IO wait|syscall)`)

func allBlocked(sleepIsBlocked bool) (string, bool) {
	stackMu.Lock()
	if stackBuf == nil {
		stackBuf = make([]byte, 1<<18)
	}
	n := runtime.Stack(stackBuf, true)
	for n == len(stackBuf) && len(stackBuf) < 1<<26 {
		stackBuf = make([]byte, 2*len(stackBuf))
		n = runtime.Stack(stackBuf, true)
	}
	dump := string(stackBuf[:n])
	stackMu.Unlock()
	blocked := true
	first := true
	for _, g := range strings.Split(dump, "\n\n") {
		line := g
		if i := strings.IndexByte(g, '\n'); i >= 0 {
			line = g[:i]
		}
		if first { // the caller
			first = false
			continue
		}
		if !strings.HasPrefix(line, "goroutine ") {
			continue
		}
		if activeState.MatchString(line) {
			blocked = false
		} else if !sleepIsBlocked && sleepState.MatchString(line) {
			blocked = false
		}
	}
	return dump, blocked
}

func (w *Worker) runCase(c *Case, f func(c *Case)) {
	done := make(chan struct{})
	go func() {
		defer close(done)
		defer func() {
			if r := recover(); r != nil {
				st := string(debug.Stack())
				c.Violation("panic:"+panicSite(st), "panic: %v\n%s", r, st)
			}
		}()
		f(c)
	}()
	to := w.spec.CaseTimeout
	if to == 0 {
		to = 60 * time.Second
	}
	// The watchdog looks at the case every `to`. State-based verdict: only a
	// dump in which every goroutine is parked (twice in a row) is a deadlock.
	// A case that is merely slow (loaded machine) is given up to eight
	// periods before the run is called inconclusive.
	var d2 string
	deadlocked := false
	for period := 0; period < 8 && !deadlocked; period++ {
		t := time.NewTimer(to)
		select {
		case <-done:
			t.Stop()
			return
		case <-t.C:
		}
		d1, b1 := AllBlocked()
		time.Sleep(2 * time.Second)
		select {
		case <-done:
			return
		default:
		}
		var b2 bool
		d2, b2 = AllBlocked()
		deadlocked = b1 && b2 && stripAddrs(d1) == stripAddrs(d2)
	}
	if deadlocked {
		c.Violation("hang:"+hangSite(d2), "case did not finish and every goroutine is parked (deadlock)\n%s", d2)
	} else {
		c.mu.Lock()
		desc := c.desc
		c.mu.Unlock()
		if f := os.Getenv("VERIF_HANGDUMP"); f != "" {
			os.WriteFile(fmt.Sprintf("%s.%d", f, os.Getpid()), []byte(d2), 0o644)
		}
		act := ActiveGoroutines()
		if len(act) > 1500 {
			act = act[:1500]
		}
		w.Inconclusive(fmt.Sprintf("case %s#%d exceeded %v without a deadlocked dump: %s; running goroutines: %s", c.Group, c.Index, 8*to, desc, act))
	}
	// The worker cannot continue with leaked goroutines in an unknown state.
	w.finish(false)
	os.Exit(0)
}

var addrRe = regexp.MustCompile(`0x[0-9a-f]+|\d+ minutes`)

func stripAddrs(s string) string { return addrRe.ReplaceAllString(s, "") }

var frameRe = regexp.MustCompile(`(?m)^(github\.com/buildbarn/bb-storage/[^\s(]+(?:\([^)]*\))?[^\s(]*)\(`)

// panicSite extracts the innermost bb-storage function of a stack.
func panicSite(stack string) string {
	m := frameRe.FindStringSubmatch(stack)
	if m == nil {
		return "harness"
	}
	return strings.TrimPrefix(m[1], "github.com/buildbarn/bb-storage/")
}

func hangSite(dump string) string {
	seen := map[string]bool{}
	var sites []string
	for _, g := range strings.Split(dump, "\n\n") {
		if m := frameRe.FindStringSubmatch(g); m != nil {
			s := strings.TrimPrefix(m[1], "github.com/buildbarn/bb-storage/")
			if !seen[s] {
				seen[s] = true
				sites = append(sites, s)
			}
		}
	}
	sort.Strings(sites)
	if len(sites) > 3 {
		sites = sites[:3]
	}
	return strings.Join(sites, "+")
}

func (w *Worker) finish(done bool) {
	w.mu.Lock()
	defer w.mu.Unlock()
	w.rep.Done = done
	b, _ := json.Marshal(&w.rep)
	os.WriteFile(filepath.Join(w.outDir, fmt.Sprintf("report-%d.json", w.Index)), b, 0o644)
	var db bytes.Buffer
	for h := range w.distinct {
		binary.Write(&db, binary.LittleEndian, h)
	}
	os.WriteFile(filepath.Join(w.outDir, fmt.Sprintf("distinct-%d.bin", w.Index)), db.Bytes(), 0o644)
}

func envInt(name string, def int64) int64 {
	if s := os.Getenv(name); s != "" {
		if v, err := strconv.ParseInt(s, 10, 64); err == nil {
			return v
		}
	}
	return def
}

// Main is called from every check's main().
func Main(spec Spec) {
	if spec.Workers == 0 {
		spec.Workers = 8
	}
	if spec.Workers > 16 {
		spec.Workers = 16
	}
	if n := envInt("VERIF_WORKERS", 0); n > 0 {
		spec.Workers = int(n)
	}
	if os.Getenv("VERIF_WORKER") != "" {
		workerMain(&spec)
		return
	}
	os.Exit(parentMain(&spec))
}

func workerMain(spec *Spec) {
	w := &Worker{
		Index:    int(envInt("VERIF_WORKER", 0)),
		Workers:  spec.Workers,
		Seed:     uint64(envInt("VERIF_SEED", 1)),
		Tier:     os.Getenv("VERIF_TIER"),
		spec:     spec,
		outDir:   os.Getenv("VERIF_OUT"),
		distinct: map[uint64]struct{}{},
		replay:   envInt("VERIF_REPLAY_CASE", -1),
		replayG:  os.Getenv("VERIF_REPLAY_GROUP"),
	}
	if w.Tier == "" {
		w.Tier = "quick"
	}
	w.rep = report{Worker: w.Index, Counters: map[string]int64{}, Exhaustive: map[string]bool{}}
	w.caseLog, _ = os.Create(filepath.Join(w.outDir, fmt.Sprintf("cases-%d.log", w.Index)))
	defer func() {
		if r := recover(); r != nil {
			st := string(debug.Stack())
			w.addViolation(Violation{Sig: "panic:" + panicSite(st), Detail: fmt.Sprintf("panic outside a case: %v\n%s", r, st), Worker: w.Index, Index: -1})
			w.finish(false)
			return
		}
	}()
	if pf := os.Getenv("VERIF_CPUPROFILE"); pf != "" {
		if f, err := os.Create(fmt.Sprintf("%s.%d", pf, w.Index)); err == nil {
			pprof.StartCPUProfile(f)
			defer pprof.StopCPUProfile()
		}
	}
	spec.Body(w)
	w.finish(true)
}

// ---- parent ----

type knownFinding struct {
	Property    string `json:"property_id"`
	Signature   string `json:"signature"`
	Status      string `json:"status"` // "known" or "fixed"
	Description string `json:"description"`
	Commit      string `json:"commit,omitempty"`
}

func verifDir() string {
	if d := os.Getenv("VERIF_DIR"); d != "" {
		return d
	}
	return "/verif"
}

func loadKnown(property string) []knownFinding {
	var all struct {
		Findings []knownFinding `json:"findings"`
	}
	b, err := os.ReadFile(filepath.Join(verifDir(), "known_findings.json"))
	if err != nil {
		return nil
	}
	if json.Unmarshal(b, &all) != nil {
		return nil
	}
	var out []knownFinding
	for _, k := range all.Findings {
		if k.Property == property && k.Status == "known" {
			out = append(out, k)
		}
	}
	return out
}

func matchKnown(ks []knownFinding, sig string) *knownFinding {
	for i := range ks {
		if ks[i].Signature == sig {
			return &ks[i]
		}
	}
	return nil
}

var raceBlockRe = regexp.MustCompile(`(?s)WARNING: DATA RACE.*?==================`)

func parentMain(spec *Spec) int {
	start := time.Now()
	tier := os.Getenv("VERIF_TIER")
	if tier == "" {
		tier = "quick"
	}
	seed := envInt("VERIF_SEED", 1)
	vd := verifDir()
	outDir := filepath.Join(vd, "work", fmt.Sprintf("%s-%s-%d-%d", spec.Property, tier, seed, os.Getpid()))
	os.RemoveAll(outDir)
	os.MkdirAll(outDir, 0o755)
	defer func() {
		if os.Getenv("VERIF_KEEP") == "" {
			os.RemoveAll(outDir)
		}
	}()
	self, _ := os.Executable()

	workers := spec.Workers
	replayWorker := envInt("VERIF_REPLAY_WORKER", -1)
	timeout := time.Duration(envInt("VERIF_TIMEOUT_S", map[string]int64{"quick": 1500, "thorough": 6 * 3600}[tier])) * time.Second

	type wres struct {
		i        int
		err      error
		timedOut bool
	}
	results := make(chan wres, workers)
	started := 0
	for i := 0; i < workers; i++ {
		if replayWorker >= 0 && int64(i) != replayWorker {
			continue
		}
		started++
		go func(i int) {
			cmd := exec.Command(self)
			cmd.Env = append(os.Environ(),
				fmt.Sprintf("VERIF_WORKER=%d", i),
				"VERIF_OUT="+outDir,
				"VERIF_TIER="+tier,
				fmt.Sprintf("VERIF_SEED=%d", seed),
				fmt.Sprintf("GORACE=halt_on_error=0 history_size=3 log_path=%s/race-%d", outDir, i),
			)
			logf, _ := os.Create(filepath.Join(outDir, fmt.Sprintf("worker-%d.log", i)))
			cmd.Stdout = logf
			cmd.Stderr = logf
			if err := cmd.Start(); err != nil {
				results <- wres{i: i, err: err}
				return
			}
			done := make(chan error, 1)
			go func() { done <- cmd.Wait() }()
			select {
			case err := <-done:
				logf.Close()
				results <- wres{i: i, err: err}
			case <-time.After(timeout):
				cmd.Process.Signal(syscall.SIGQUIT)
				select {
				case <-done:
				case <-time.After(20 * time.Second):
					cmd.Process.Kill()
					<-done
				}
				logf.Close()
				results <- wres{i: i, timedOut: true}
			}
		}(i)
	}

	merged := report{Counters: map[string]int64{}, Exhaustive: map[string]bool{}}
	distinct := map[uint64]struct{}{}
	var inconclusive []string
	var violations []Violation
	maxCounters := map[string]bool{}
	for n := 0; n < started; n++ {
		r := <-results
		logPath := filepath.Join(outDir, fmt.Sprintf("worker-%d.log", r.i))
		logTail := tailFile(logPath, 12000)
		var rep report
		b, err := os.ReadFile(filepath.Join(outDir, fmt.Sprintf("report-%d.json", r.i)))
		haveReport := err == nil && json.Unmarshal(b, &rep) == nil
		if r.timedOut {
			inconclusive = append(inconclusive, fmt.Sprintf("worker %d hit the wall-clock watchdog (%v)", r.i, timeout))
		} else if !haveReport || !rep.Done && len(rep.Violations) == 0 && len(rep.Inconclusive) == 0 {
			// The process died without a verdict: fatal error (deadlock
			// detected by the runtime, concurrent map access, checkptr) or
			// an unrecovered panic in a goroutine of the system under test.
			sig, isCrash := crashSignature(logTail)
			lastCase := tailFile(filepath.Join(outDir, fmt.Sprintf("cases-%d.log", r.i)), 600)
			if isCrash {
				violations = append(violations, Violation{Sig: sig, Worker: r.i, Index: -1,
					Detail: "worker process died\n--- last cases:\n" + lastCase + "\n--- output:\n" + logTail})
			} else {
				inconclusive = append(inconclusive, fmt.Sprintf("worker %d exited without a report (%v): %s", r.i, r.err, lastLines(logTail, 5)))
			}
		}
		if haveReport {
			// A case may judge several items (rounds, operations, sub-cases),
			// each registered through Distinct(): evaluations counts the
			// oracle-judged items, top-level cases are reported as "cases".
			merged.Items += rep.Evaluations
			if rep.Items > rep.Evaluations {
				merged.Evaluations += rep.Items
			} else {
				merged.Evaluations += rep.Evaluations
			}
			for k, v := range rep.Counters {
				if strings.HasPrefix(k, "max_") {
					maxCounters[k] = true
					if merged.Counters[k] < v {
						merged.Counters[k] = v
					}
				} else {
					merged.Counters[k] += v
				}
			}
			for k, v := range rep.Exhaustive {
				if old, ok := merged.Exhaustive[k]; ok {
					merged.Exhaustive[k] = old && v
				} else {
					merged.Exhaustive[k] = v
				}
			}
			if len(merged.Samples) < 4 {
				merged.Samples = append(merged.Samples, rep.Samples...)
			}
			violations = append(violations, rep.Violations...)
			inconclusive = append(inconclusive, rep.Inconclusive...)
		}
		if db, err := os.ReadFile(filepath.Join(outDir, fmt.Sprintf("distinct-%d.bin", r.i))); err == nil {
			for o := 0; o+8 <= len(db); o += 8 {
				distinct[binary.LittleEndian.Uint64(db[o:])] = struct{}{}
			}
		}
		// Race reports.
		matches, _ := filepath.Glob(filepath.Join(outDir, fmt.Sprintf("race-%d.*", r.i)))
		for _, m := range matches {
			rb, _ := os.ReadFile(m)
			for _, blk := range raceBlockRe.FindAllString(string(rb), -1) {
				merged.Counters["race_reports"]++
				sig, inSUT := raceSignature(blk)
				if inSUT {
					violations = append(violations, Violation{Sig: sig, Worker: r.i, Index: -1, Detail: blk})
				} else {
					inconclusive = append(inconclusive, "race report whose racing accesses are both in the harness (harness bug): "+sig)
					os.WriteFile(filepath.Join(vd, "work", "harness-race-"+spec.Property+".txt"), []byte(blk), 0o644)
				}
			}
		}
	}
	if len(merged.Samples) > 4 {
		merged.Samples = merged.Samples[:4]
	}

	// Floors.
	if replayWorker < 0 && envInt("VERIF_REPLAY_CASE", -1) < 0 {
		for k, min := range spec.Floors {
			name := k
			if i := strings.IndexByte(k, ':'); i >= 0 {
				if k[:i] != tier {
					continue
				}
				name = k[i+1:]
			}
			if os.Getenv("VERIF_SCALE") != "" {
				continue
			}
			if merged.Counters[name] < min {
				inconclusive = append(inconclusive, fmt.Sprintf("coverage floor missed: %s=%d < %d", name, merged.Counters[name], min))
			}
		}
	}

	// Classify violations.
	known := loadKnown(spec.Property)
	bySig := map[string][]Violation{}
	var sigs []string
	for _, v := range violations {
		if _, ok := bySig[v.Sig]; !ok {
			sigs = append(sigs, v.Sig)
		}
		bySig[v.Sig] = append(bySig[v.Sig], v)
	}
	sort.Strings(sigs)
	replayDir := filepath.Join(vd, "replays")
	if os.Getenv("VERIF_NO_EVIDENCE") != "" {
		// runs against scratch copies (regression testing) keep their witnesses apart
		replayDir = filepath.Join(vd, "work", "replays-scratch")
	}
	os.MkdirAll(replayDir, 0o755)
	unlisted := 0
	out := bufio.NewWriter(os.Stdout)
	for _, sig := range sigs {
		vs := bySig[sig]
		if k := matchKnown(known, sig); k != nil {
			fmt.Fprintf(out, "KNOWN-FINDING: property=%s %s (%s; observed %d×)\n", spec.Property, sig, k.Description, len(vs))
			merged.Counters["known_findings_observed"]++
			continue
		}
		unlisted++
		h := fnv.New32a()
		h.Write([]byte(sig))
		rp := filepath.Join(replayDir, fmt.Sprintf("%s-%s-%d-%08x.json", spec.Property, tier, seed, h.Sum32()))
		rb, _ := json.MarshalIndent(map[string]any{
			"property_id": spec.Property, "tier": tier, "seed": seed, "workers": workers,
			"signature": sig, "worker": vs[0].Worker, "group": vs[0].Group, "case_index": vs[0].Index,
			"case": vs[0].Case, "detail": vs[0].Detail, "occurrences": len(vs),
		}, "", " ")
		os.WriteFile(rp, rb, 0o644)
		fmt.Fprintf(out, "VIOLATION property=%s replay=%s\n", spec.Property, rp)
		fmt.Fprintf(out, "  signature: %s\n  %s\n", sig, firstLines(vs[0].Detail, 6))
	}

	// Evidence.
	cov := map[string]any{
		"evaluations":         merged.Evaluations,
		"cases":               merged.Items,
		"distinct_nontrivial": len(distinct),
		"rule":                spec.Rule,
		"samples":             merged.Samples,
		"workers":             started,
	}
	for k, v := range merged.Counters {
		cov[k] = v
	}
	if len(merged.Exhaustive) > 0 {
		all := true
		for _, v := range merged.Exhaustive {
			all = all && v
		}
		cov["exhaustive_parts"] = merged.Exhaustive
		_ = all
	}
	if len(merged.Samples) == 0 {
		cov["samples"] = []any{"(no case produced a sample)"}
	}
	if len(inconclusive) > 0 {
		cov["inconclusive"] = inconclusive
	}
	ev := map[string]any{
		"property_id": spec.Property,
		"tier":        tier,
		"seed":        seed,
		"level":       spec.Level,
		"coverage":    cov,
		"assumptions": spec.Assumptions,
		"wall_s":      time.Since(start).Seconds(),
		"violations":  unlisted,
	}
	if replayWorker < 0 && envInt("VERIF_REPLAY_CASE", -1) < 0 && os.Getenv("VERIF_NO_EVIDENCE") == "" {
		eb, _ := json.MarshalIndent(ev, "", " ")
		os.MkdirAll(filepath.Join(vd, "evidence"), 0o755)
		os.WriteFile(filepath.Join(vd, "evidence", spec.Property+".json"), eb, 0o644)
	}

	fmt.Fprintf(out, "%s %s seed=%d: evaluations=%d distinct=%d violations=%d (unlisted signatures=%d) inconclusive=%d wall=%.1fs\n",
		spec.Property, tier, seed, merged.Evaluations, len(distinct), len(violations), unlisted, len(inconclusive), time.Since(start).Seconds())
	var keys []string
	for k := range merged.Counters {
		keys = append(keys, k)
	}
	sort.Strings(keys)
	for _, k := range keys {
		fmt.Fprintf(out, "  %s=%d\n", k, merged.Counters[k])
	}
	for _, s := range inconclusive {
		fmt.Fprintf(out, "INCONCLUSIVE: %s\n", firstLines(s, 3))
	}
	out.Flush()
	if unlisted > 0 {
		return 1
	}
	if len(inconclusive) > 0 {
		return 3
	}
	return 0
}

func tailFile(p string, n int) string {
	b, err := os.ReadFile(p)
	if err != nil {
		return ""
	}
	if len(b) > n {
		b = b[len(b)-n:]
	}
	return string(b)
}

func firstLines(s string, n int) string {
	l := strings.SplitN(s, "\n", n+1)
	if len(l) > n {
		l = l[:n]
	}
	return strings.Join(l, "\n  ")
}

func lastLines(s string, n int) string {
	l := strings.Split(strings.TrimSpace(s), "\n")
	if len(l) > n {
		l = l[len(l)-n:]
	}
	return strings.Join(l, " | ")
}

var crashRe = regexp.MustCompile(`(?m)^(panic: .*|fatal error: .*)$`)

// crashSignature classifies the output of a worker that died.
func crashSignature(log string) (string, bool) {
	m := crashRe.FindString(log)
	if m == "" {
		return "", false
	}
	// Use the whole log from the crash line on to find the bb-storage site.
	i := strings.Index(log, m)
	site := panicSite(log[i:])
	kind := "panic"
	if strings.HasPrefix(m, "fatal error:") {
		kind = "fatal"
	}
	msg := m
	if len(msg) > 80 {
		msg = msg[:80]
	}
	msg = addrRe.ReplaceAllString(msg, "#")
	return fmt.Sprintf("%s:%s:%s", kind, site, msg), true
}

var raceFrameRe = regexp.MustCompile(`(?m)^  ([A-Za-z0-9_./\-]+(?:\([^)]*\))?[A-Za-z0-9_.\-]*)\(\)\n\s+(\S+):\d+`)

// raceSignature returns a signature from the innermost attributable frames of
// the two racing accesses and whether both of them are in bb-storage code. A
// racing access whose innermost attributable frame is harness code is a
// harness bug, not a violation.
func raceSignature(blk string) (string, bool) {
	secs := strings.Split(blk, "\n\n")
	type acc struct {
		top    string // innermost attributable frame
		sut    bool
		caller string // for an I/O shim frame: the innermost attributable frame above it
		calSUT bool
	}
	var accs []acc
	for _, s := range secs {
		if len(accs) == 2 {
			break
		}
		if !(strings.Contains(s, " at 0x") && (strings.Contains(s, "rite at") || strings.Contains(s, "ead at"))) {
			continue
		}
		a := acc{top: "?"}
		shim := false
		for _, m := range raceFrameRe.FindAllStringSubmatch(s, -1) {
			fn := m[1]
			isSUT := strings.Contains(fn, "buildbarn/bb-storage")
			isHarness := strings.HasPrefix(fn, "verif/") || strings.HasPrefix(fn, "main.")
			if !isSUT && !isHarness {
				continue
			}
			if a.top == "?" {
				a.top, a.sut = fn, isSUT
				// The simulated device copies from / into memory supplied by
				// its caller: an access inside these two functions is made on
				// the caller's behalf.
				if isHarness && (strings.HasSuffix(fn, "sim.(*Device).ReadAt") || strings.HasSuffix(fn, "sim.(*Device).WriteAt")) {
					shim = true
					continue
				}
				break
			}
			if shim {
				a.caller, a.calSUT = fn, isSUT
				break
			}
		}
		accs = append(accs, a)
	}
	// A shim access is attributed to its caller only when the other access is
	// in bb-storage itself (two shim accesses race on the device's own memory:
	// a harness matter).
	for i := range accs {
		o := accs[len(accs)-1-i]
		if !accs[i].sut && accs[i].caller != "" && o.sut && len(accs) == 2 {
			accs[i].top, accs[i].sut = accs[i].caller+"(via simulated device I/O)", accs[i].calSUT
		}
	}
	var tops []string
	sut := 0
	for _, a := range accs {
		if a.sut {
			sut++
		}
		tops = append(tops, strings.TrimPrefix(a.top, "github.com/buildbarn/bb-storage/"))
	}
	sort.Strings(tops)
	return "race:" + strings.Join(tops, "<>"), sut == 2
}
