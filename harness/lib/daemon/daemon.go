// Package daemon drives cmd/storaged (the CAS built through the real
// configuration path on real files) as a child process, optionally under
// strace, and checks an ordering specification on the recorded system calls.
package daemon

import (
	"bufio"
	"encoding/hex"
	"fmt"
	"io"
	"os"
	"os/exec"
	"path/filepath"
	"regexp"
	"strconv"
	"strings"
	"syscall"
	"time"

	pb "github.com/buildbarn/bb-storage/pkg/proto/blobstore/local"
	"google.golang.org/protobuf/proto"
)

// Geometry of the daemon's store.
type Geometry struct {
	Old, Cur, New, Spare int
	BlockSectors         int // sectors (4096 bytes) per block
	Records              int
	EpochMillis          int
}

// Config writes the configuration file and returns its path.
func Config(dir string, g Geometry) string {
	os.MkdirAll(filepath.Join(dir, "state"), 0o755)
	blocks := (g.Old + g.Cur + g.New + g.Spare) * g.BlockSectors * 4096
	cfg := fmt.Sprintf(`{"local": {
  "keyLocationMapOnBlockDevice": {"file": {"path": "%s/klm", "sizeBytes": %d}},
  "keyLocationMapMaximumGetAttempts": 16, "keyLocationMapMaximumPutAttempts": 64,
  "oldBlocks": %d, "currentBlocks": %d, "newBlocks": %d,
  "blocksOnBlockDevice": {"source": {"file": {"path": "%s/blocks", "sizeBytes": %d}}, "spareBlocks": %d},
  "persistent": {"stateDirectoryPath": "%s/state", "minimumEpochInterval": "%.3fs"}
}}`, dir, g.Records*66, g.Old, g.Cur, g.New, dir, blocks, g.Spare, dir, float64(g.EpochMillis)/1000)
	p := filepath.Join(dir, "config.json")
	os.WriteFile(p, []byte(cfg), 0o644)
	return p
}

// Proc is a running daemon.
type Proc struct {
	cmd    *exec.Cmd
	in     io.WriteCloser
	out    *bufio.Reader
	Trace  string // strace output file ("" when not traced)
	exited chan error
}

// StoragedPath locates the storaged binary next to the running check binary.
func StoragedPath() string {
	self, _ := os.Executable()
	return filepath.Join(filepath.Dir(self), "storaged")
}

// Start launches the daemon; with trace it runs under strace.
func Start(dir, cfgPath string, trace bool, cycle int) (*Proc, error) {
	p := &Proc{exited: make(chan error, 1)}
	bin := StoragedPath()
	if trace {
		p.Trace = filepath.Join(dir, fmt.Sprintf("trace-%d.log", cycle))
		p.cmd = exec.Command("strace", "-f", "-y", "-ttt", "-xx", "-s", "262144", "-o", p.Trace,
			"-e", "trace=pwrite64,write,fsync,fdatasync,msync,sync_file_range,openat,renameat,renameat2,rename,unlinkat,ftruncate",
			bin, cfgPath)
	} else {
		p.cmd = exec.Command(bin, cfgPath)
	}
	var err error
	if p.in, err = p.cmd.StdinPipe(); err != nil {
		return nil, err
	}
	// Not StdoutPipe(): cmd.Wait() closes that pipe as soon as the process
	// exits, which can lose the final "BYE" line.
	pr, pw, err := os.Pipe()
	if err != nil {
		return nil, err
	}
	p.cmd.Stdout = pw
	p.out = bufio.NewReader(pr)
	p.cmd.Stderr = nil
	if err := p.cmd.Start(); err != nil {
		pw.Close()
		pr.Close()
		return nil, err
	}
	pw.Close()
	go func() { p.exited <- p.cmd.Wait() }()
	line, err := p.readLine(60 * time.Second)
	if err != nil || !strings.HasPrefix(line, "READY") {
		p.Kill()
		return nil, fmt.Errorf("daemon did not become ready: %q %v", line, err)
	}
	return p, nil
}

func (p *Proc) readLine(timeout time.Duration) (string, error) {
	type res struct {
		s   string
		err error
	}
	ch := make(chan res, 1)
	go func() {
		s, err := p.out.ReadString('\n')
		ch <- res{strings.TrimSpace(s), err}
	}()
	select {
	case r := <-ch:
		return r.s, r.err
	case <-time.After(timeout):
		return "", fmt.Errorf("timeout waiting for the daemon")
	}
}

// Cmd sends one command and returns its acknowledgement line.
func (p *Proc) Cmd(line string) (string, error) {
	if _, err := io.WriteString(p.in, line+"\n"); err != nil {
		return "", err
	}
	return p.readLine(120 * time.Second)
}

// Quit asks for graceful termination and waits for the process to exit.
func (p *Proc) Quit() error {
	io.WriteString(p.in, "QUIT\n")
	line, err := p.readLine(120 * time.Second)
	if err != nil {
		p.Kill()
		return err
	}
	if line != "BYE" {
		p.Kill()
		return fmt.Errorf("unexpected reply to QUIT: %q", line)
	}
	select {
	case <-p.exited:
		return nil
	case <-time.After(60 * time.Second):
		p.Kill()
		return fmt.Errorf("daemon did not exit after BYE")
	}
}

// Kill terminates the daemon abruptly (process crash).
func (p *Proc) Kill() {
	if p.cmd.Process != nil {
		// Under strace the daemon is a child of strace: kill the group.
		syscall.Kill(p.cmd.Process.Pid, syscall.SIGKILL)
		if p.Trace != "" {
			exec.Command("pkill", "-KILL", "-P", strconv.Itoa(p.cmd.Process.Pid)).Run()
		}
	}
	select {
	case <-p.exited:
	case <-time.After(20 * time.Second):
	}
}

// ---------------------------------------------------------------------------
// strace log

// Sys is one system call (start and end positions in the log order).
type Sys struct {
	PID        string
	Name       string
	Path       string // path of the first fd / first path argument
	Path2      string
	Offset     int64
	Data       []byte
	Ret        int64
	Start, End int // line numbers: call issued / returned
}

var (
	lineRe    = regexp.MustCompile(`^(\d+)\s+(\d+\.\d+)\s+(.*)$`)
	resumedRe = regexp.MustCompile(`^<\.\.\. (\w+) resumed>(.*)$`)
	fdPathRe  = regexp.MustCompile(`^\d+<([^>]*)>`)
	retRe     = regexp.MustCompile(`\)\s+=\s+(-?\d+)`)
	hexStrRe  = regexp.MustCompile(`"((?:\\x[0-9a-f]{2})*)"`)
	quotedRe  = regexp.MustCompile(`"((?:\\x[0-9a-f]{2})*)"`)
)

// decodePath undoes strace -xx escaping of a path.
func decodePath(s string) string {
	if strings.Contains(s, `\x`) {
		return string(unhex(s))
	}
	return s
}

func unhex(s string) []byte {
	s = strings.ReplaceAll(s, `\x`, "")
	b, _ := hex.DecodeString(s)
	return b
}

// ParseTrace reads an strace -f -y -ttt -xx log.
func ParseTrace(path string) ([]Sys, error) {
	f, err := os.Open(path)
	if err != nil {
		return nil, err
	}
	defer f.Close()
	sc := bufio.NewScanner(f)
	sc.Buffer(make([]byte, 1<<20), 1<<26)
	pending := map[string]*Sys{} // pid -> unfinished call
	pendingText := map[string]string{}
	var out []Sys
	ln := 0
	finish := func(s *Sys, text string) {
		// text is "name(args) = ret"
		i := strings.IndexByte(text, '(')
		if i < 0 {
			return
		}
		s.Name = text[:i]
		args := text[i+1:]
		if m := retRe.FindStringSubmatch(args); m != nil {
			s.Ret, _ = strconv.ParseInt(m[1], 10, 64)
		}
		switch s.Name {
		case "pwrite64", "write", "fsync", "fdatasync", "ftruncate":
			if m := fdPathRe.FindStringSubmatch(args); m != nil {
				s.Path = decodePath(m[1])
			}
			if s.Name == "pwrite64" || s.Name == "write" {
				if m := hexStrRe.FindStringSubmatch(args); m != nil {
					s.Data = unhex(m[1])
				}
				if s.Name == "pwrite64" {
					// last argument before ")" is the offset
					j := strings.LastIndex(args, ")")
					k := strings.LastIndex(args[:j], ",")
					s.Offset, _ = strconv.ParseInt(strings.TrimSpace(args[k+1:j]), 10, 64)
				}
			}
		case "renameat", "renameat2", "rename", "openat", "unlinkat":
			ms := quotedRe.FindAllStringSubmatch(args, -1)
			if len(ms) > 0 {
				s.Path = string(unhex(ms[0][1]))
			}
			if len(ms) > 1 {
				s.Path2 = string(unhex(ms[1][1]))
			}
			// directory fd paths
			if m := fdPathRe.FindStringSubmatch(args); m != nil && !strings.HasPrefix(s.Path, "/") {
				s.Path = decodePath(m[1]) + "/" + s.Path
			}
			if s.Name == "openat" {
				// returned fd path
				if i := strings.LastIndex(args, "= "); i >= 0 {
					if m := regexp.MustCompile(`= \d+<([^>]*)>`).FindStringSubmatch(args[i:]); m != nil {
						s.Path2 = decodePath(m[1])
					}
				}
			}
		}
		out = append(out, *s)
	}
	for sc.Scan() {
		ln++
		m := lineRe.FindStringSubmatch(sc.Text())
		if m == nil {
			continue
		}
		pid, rest := m[1], m[3]
		if strings.HasPrefix(rest, "+++") || strings.HasPrefix(rest, "---") {
			continue
		}
		if r := resumedRe.FindStringSubmatch(rest); r != nil {
			if s, ok := pending[pid]; ok {
				s.End = ln
				finish(s, pendingText[pid]+r[2])
				delete(pending, pid)
			}
			continue
		}
		if strings.HasSuffix(rest, "<unfinished ...>") {
			pending[pid] = &Sys{PID: pid, Start: ln}
			pendingText[pid] = strings.TrimSuffix(rest, "<unfinished ...>")
			continue
		}
		s := &Sys{PID: pid, Start: ln, End: ln}
		finish(s, rest)
	}
	return out, sc.Err()
}

// CheckOrdering applies the ordering specification to one daemon run and
// returns human-readable violations keyed by signature.
//
//	S1: every rename(state.new -> state) is preceded, with no later write to
//	    state.new, by a successful fsync of that file, and is followed by an
//	    fsync of the state directory before the next state.new is created.
//	S2: for every version of the state file (recovered from the write to
//	    state.new) and every block it declares valid up to offset w, every
//	    pwrite64 to the blocks file lying entirely inside the declared-valid
//	    range that was issued before the state write must have RETURNED before
//	    the START of a blocks-file fsync that RETURNED before the state write
//	    started.
func CheckOrdering(calls []Sys, dir string) (map[string]string, map[string]int64) {
	viol := map[string]string{}
	cnt := map[string]int64{}
	blocksPath := filepath.Join(dir, "blocks")
	stateNew := filepath.Join(dir, "state", "state.new")
	stateDir := filepath.Join(dir, "state")
	type fs struct{ start, end int }
	var blockSyncs []fs
	var blockWrites []Sys
	lastStateNewWrite, lastStateNewFsync := -1, -1
	pendingDirSync := -1 // line of a rename not yet followed by a directory fsync
	for _, c := range calls {
		switch c.Name {
		case "fsync", "fdatasync":
			if c.Ret != 0 {
				continue
			}
			switch c.Path {
			case blocksPath:
				blockSyncs = append(blockSyncs, fs{c.Start, c.End})
				cnt["blocks_fsyncs"]++
			case stateNew:
				lastStateNewFsync = c.End
				cnt["state_fsyncs"]++
			case stateDir:
				pendingDirSync = -1
				cnt["dir_fsyncs"]++
			}
		case "pwrite64":
			if c.Path == blocksPath {
				blockWrites = append(blockWrites, c)
				cnt["blocks_pwrites"]++
			}
		case "openat":
			if strings.HasSuffix(c.Path, "state.new") || c.Path2 == stateNew {
				if pendingDirSync >= 0 {
					viol["stateStore:next-state-created-before-directory-fsync"] = fmt.Sprintf("state.new is created again (trace line %d) although the rename at line %d was not followed by an fsync of the state directory", c.Start, pendingDirSync)
				}
			}
		case "write":
			if c.Path != stateNew {
				continue
			}
			lastStateNewWrite = c.End
			cnt["state_versions"]++
			var st pb.PersistentState
			if err := proto.Unmarshal(c.Data, &st); err != nil {
				viol["stateStore:state-file-unparsable-in-trace"] = fmt.Sprintf("line %d: %v", c.Start, err)
				continue
			}
			for _, b := range st.Blocks {
				lo := b.BlockLocation.GetOffsetBytes()
				hi := lo + b.WriteOffsetBytes
				for _, w := range blockWrites {
					if w.Start > c.Start {
						continue
					}
					if w.Offset < lo || w.Offset+int64(len(w.Data)) > hi || len(w.Data) == 0 {
						continue // outside, or straddling the declared-valid range (shared tail sector)
					}
					cnt["declared_valid_writes_checked"]++
					covered := false
					for _, s := range blockSyncs {
						if s.start > w.End && s.end < c.Start {
							covered = true
							break
						}
					}
					if !covered {
						viol["periodicSyncer:state-declares-unsynced-data-valid"] = fmt.Sprintf("the state file written at trace line %d declares block@%d valid up to %d, but the pwrite64 of [%d,%d) (line %d..%d) is not covered by a blocks-file fsync that started after it returned and returned before the state write", c.Start, lo, b.WriteOffsetBytes, w.Offset, w.Offset+int64(len(w.Data)), w.Start, w.End)
					}
				}
			}
		case "renameat", "renameat2", "rename":
			if !strings.HasSuffix(c.Path, "state.new") || c.Ret != 0 {
				continue
			}
			cnt["state_renames"]++
			if lastStateNewFsync < 0 || lastStateNewFsync < lastStateNewWrite {
				viol["stateStore:rename-without-fsync-of-new-state-file"] = fmt.Sprintf("rename at trace line %d: the last write to state.new ended at line %d, the last successful fsync of it at line %d", c.Start, lastStateNewWrite, lastStateNewFsync)
			}
			pendingDirSync = c.Start
			lastStateNewWrite, lastStateNewFsync = -1, -1
		}
	}
	return viol, cnt
}

// NextEpochID reads the daemon's current persistent state file (replaced
// atomically by rename) and returns oldest_epoch_id + number of epoch hash
// seeds, i.e. the first epoch that is NOT yet committed.
func NextEpochID(dir string) (uint64, bool) {
	b, err := os.ReadFile(filepath.Join(dir, "state", "state"))
	if err != nil {
		return 0, false
	}
	var st pb.PersistentState
	if err := proto.Unmarshal(b, &st); err != nil {
		return 0, false
	}
	n := uint64(st.OldestEpochId)
	for _, bl := range st.Blocks {
		n += uint64(len(bl.EpochHashSeeds))
	}
	return n, true
}
