// Package model contains the reference/recording backends and the
// release-exactly-once buffer sources shared by the checks.
package model

import (
	"context"
	"fmt"
	"io"
	"sort"
	"sync"
	"sync/atomic"

	remoteexecution "github.com/bazelbuild/remote-apis/build/bazel/remote/execution/v2"
	"github.com/buildbarn/bb-storage/pkg/blobstore/buffer"
	"github.com/buildbarn/bb-storage/pkg/blobstore/slicing"
	"github.com/buildbarn/bb-storage/pkg/digest"

	"google.golang.org/grpc/codes"
	"google.golang.org/grpc/status"
)

// Call is one recorded invocation of a Store.
type Call struct {
	Seq     int64
	Store   string
	Op      string   // Get, GetFromComposite, Put, FindMissing, GetCapabilities
	Digests []string // digest.String() of every digest involved (instance included)
	Result  string   // "ok", "notfound", "err:<code>", for FindMissing the missing list
}

// Clock is a process-wide logical clock shared by all recorders.
var Clock atomic.Int64

// Tick returns the next logical time stamp.
func Tick() int64 { return Clock.Add(1) }

// Store is an in-memory BlobAccess that records every call, can inject
// failures and can block at a gate. It validates uploads like a real CAS
// backend would (the buffer is consumed completely, so a CAS buffer's own
// validation decides whether the upload succeeds).
type Store struct {
	Name      string
	KeyFormat digest.KeyFormat
	// Source is what Get hands to the buffer layer (buffer.BackendProvided
	// with a no-op callback by default).
	Source func(d digest.Digest) buffer.Source
	// Before, when set, is called at the start of every operation, outside
	// the store's lock; a non-nil error makes the operation fail with it. It
	// may block (gate).
	Before func(c *Call) error
	// AfterPutConsumed, when set, is called after a Put consumed its buffer
	// and before the object is stored.
	AfterPutConsumed func(c *Call) error
	// Unvalidated makes Get return the bytes without CAS validation (AC-style).
	Unvalidated bool

	mu      sync.Mutex
	objects map[string][]byte
	log     []Call
	// InFlight counts concurrently executing Put calls per key; MaxInFlight
	// is the maximum observed.
	inFlight    map[string]int
	MaxInFlight map[string]int
	totalPuts   int
	maxPuts     int
}

// NewStore creates an empty store.
func NewStore(name string, kf digest.KeyFormat) *Store {
	return &Store{Name: name, KeyFormat: kf, objects: map[string][]byte{}, inFlight: map[string]int{}, MaxInFlight: map[string]int{}}
}

func (s *Store) key(d digest.Digest) string { return d.GetKey(s.KeyFormat) }

// Set places an object directly (initial placement).
func (s *Store) Set(d digest.Digest, data []byte) {
	s.mu.Lock()
	s.objects[s.key(d)] = append([]byte(nil), data...)
	s.mu.Unlock()
}

// Delete removes an object directly.
func (s *Store) Delete(d digest.Digest) {
	s.mu.Lock()
	delete(s.objects, s.key(d))
	s.mu.Unlock()
}

// Has reports whether the object is stored.
func (s *Store) Has(d digest.Digest) bool {
	s.mu.Lock()
	defer s.mu.Unlock()
	_, ok := s.objects[s.key(d)]
	return ok
}

// Peek returns the stored bytes.
func (s *Store) Peek(d digest.Digest) ([]byte, bool) {
	s.mu.Lock()
	defer s.mu.Unlock()
	b, ok := s.objects[s.key(d)]
	return b, ok
}

// Keys returns the sorted keys stored.
func (s *Store) Keys() []string {
	s.mu.Lock()
	defer s.mu.Unlock()
	var k []string
	for x := range s.objects {
		k = append(k, x)
	}
	sort.Strings(k)
	return k
}

// Calls returns a copy of the call log.
func (s *Store) Calls() []Call {
	s.mu.Lock()
	defer s.mu.Unlock()
	return append([]Call(nil), s.log...)
}

// ResetCalls clears the call log.
func (s *Store) ResetCalls() {
	s.mu.Lock()
	s.log = nil
	s.mu.Unlock()
}

// MaxConcurrentPuts is the largest number of Put calls that were executing at
// the same time.
func (s *Store) MaxConcurrentPuts() int {
	s.mu.Lock()
	defer s.mu.Unlock()
	return s.maxPuts
}

func (s *Store) record(c *Call, result string) {
	c.Result = result
	s.mu.Lock()
	s.log = append(s.log, *c)
	s.mu.Unlock()
}

func errResult(err error) string {
	if status.Code(err) == codes.NotFound {
		return "notfound"
	}
	return "err:" + status.Code(err).String()
}

// GetCapabilities implements capabilities.Provider.
func (s *Store) GetCapabilities(ctx context.Context, instanceName digest.InstanceName) (*remoteexecution.ServerCapabilities, error) {
	c := &Call{Seq: Tick(), Store: s.Name, Op: "GetCapabilities", Digests: []string{instanceName.String()}}
	if s.Before != nil {
		if err := s.Before(c); err != nil {
			s.record(c, errResult(err))
			return nil, err
		}
	}
	s.record(c, "ok")
	return &remoteexecution.ServerCapabilities{
		CacheCapabilities: &remoteexecution.CacheCapabilities{
			DigestFunctions: digest.SupportedDigestFunctions,
		},
	}, nil
}

// Get implements BlobAccess.
func (s *Store) Get(ctx context.Context, d digest.Digest) buffer.Buffer {
	c := &Call{Seq: Tick(), Store: s.Name, Op: "Get", Digests: []string{d.String()}}
	if s.Before != nil {
		if err := s.Before(c); err != nil {
			s.record(c, errResult(err))
			return buffer.NewBufferFromError(err)
		}
	}
	if err := ctx.Err(); err != nil {
		e := status.FromContextError(err).Err()
		s.record(c, errResult(e))
		return buffer.NewBufferFromError(e)
	}
	s.mu.Lock()
	data, ok := s.objects[s.key(d)]
	s.mu.Unlock()
	if !ok {
		s.record(c, "notfound")
		return buffer.NewBufferFromError(status.Errorf(codes.NotFound, "Object %s not found in %s", d.String(), s.Name))
	}
	s.record(c, "ok")
	if s.Unvalidated {
		return buffer.NewValidatedBufferFromByteSlice(append([]byte(nil), data...))
	}
	src := buffer.BackendProvided(buffer.Irreparable(d))
	if s.Source != nil {
		src = s.Source(d)
	}
	return buffer.NewCASBufferFromByteSlice(d, append([]byte(nil), data...), src)
}

// GetFromComposite implements BlobAccess.
func (s *Store) GetFromComposite(ctx context.Context, parent, child digest.Digest, slicer slicing.BlobSlicer) buffer.Buffer {
	c := &Call{Seq: Tick(), Store: s.Name, Op: "GetFromComposite", Digests: []string{parent.String(), child.String()}}
	if s.Before != nil {
		if err := s.Before(c); err != nil {
			s.record(c, errResult(err))
			return buffer.NewBufferFromError(err)
		}
	}
	s.mu.Lock()
	data, ok := s.objects[s.key(parent)]
	s.mu.Unlock()
	if !ok {
		s.record(c, "notfound")
		return buffer.NewBufferFromError(status.Errorf(codes.NotFound, "Object %s not found in %s", parent.String(), s.Name))
	}
	s.record(c, "ok")
	b, _ := slicer.Slice(buffer.NewCASBufferFromByteSlice(parent, append([]byte(nil), data...), buffer.BackendProvided(buffer.Irreparable(parent))), child)
	return b
}

// Put implements BlobAccess.
func (s *Store) Put(ctx context.Context, d digest.Digest, b buffer.Buffer) error {
	c := &Call{Seq: Tick(), Store: s.Name, Op: "Put", Digests: []string{d.String()}}
	k := s.key(d)
	s.mu.Lock()
	s.inFlight[k]++
	if s.inFlight[k] > s.MaxInFlight[k] {
		s.MaxInFlight[k] = s.inFlight[k]
	}
	s.totalPuts++
	if s.totalPuts > s.maxPuts {
		s.maxPuts = s.totalPuts
	}
	s.mu.Unlock()
	defer func() {
		s.mu.Lock()
		s.inFlight[k]--
		s.totalPuts--
		s.mu.Unlock()
	}()
	if s.Before != nil {
		if err := s.Before(c); err != nil {
			b.Discard()
			s.record(c, errResult(err))
			return err
		}
	}
	if err := ctx.Err(); err != nil {
		b.Discard()
		e := status.FromContextError(err).Err()
		s.record(c, errResult(e))
		return e
	}
	data, err := b.ToByteSlice(1 << 30)
	if err != nil {
		s.record(c, errResult(err))
		return err
	}
	if s.AfterPutConsumed != nil {
		if err := s.AfterPutConsumed(c); err != nil {
			s.record(c, errResult(err))
			return err
		}
	}
	s.mu.Lock()
	s.objects[k] = append([]byte(nil), data...)
	s.mu.Unlock()
	s.record(c, "ok")
	return nil
}

// FindMissing implements BlobAccess.
func (s *Store) FindMissing(ctx context.Context, digests digest.Set) (digest.Set, error) {
	c := &Call{Seq: Tick(), Store: s.Name, Op: "FindMissing"}
	for _, d := range digests.Items() {
		c.Digests = append(c.Digests, d.String())
	}
	if s.Before != nil {
		if err := s.Before(c); err != nil {
			s.record(c, errResult(err))
			return digest.EmptySet, err
		}
	}
	if err := ctx.Err(); err != nil {
		e := status.FromContextError(err).Err()
		s.record(c, errResult(e))
		return digest.EmptySet, e
	}
	sb := digest.NewSetBuilder(0)
	s.mu.Lock()
	for _, d := range digests.Items() {
		if _, ok := s.objects[s.key(d)]; !ok {
			sb.Add(d)
		}
	}
	s.mu.Unlock()
	m := sb.Build()
	res := "missing:"
	for _, d := range m.Items() {
		res += d.String() + ","
	}
	s.record(c, res)
	return m, nil
}

// ---------------------------------------------------------------------------
// Release-exactly-once sources.

// Tracker counts how often the source underneath a buffer was closed.
type Tracker struct {
	Name   string
	closes atomic.Int64
	reads  atomic.Int64
}

// Closes returns the number of Close calls seen.
func (t *Tracker) Closes() int64 { return t.closes.Load() }

// Reads returns the number of Read calls seen.
func (t *Tracker) Reads() int64 { return t.reads.Load() }

type trackedChunkReader struct {
	t      *Tracker
	data   []byte
	chunks []int
	// failAt >= 0: return failErr once that many bytes were delivered.
	failAt  int
	failErr error
	off     int
}

func (r *trackedChunkReader) Read() ([]byte, error) {
	r.t.reads.Add(1)
	if r.failErr != nil && r.off >= r.failAt {
		return nil, r.failErr
	}
	if r.off >= len(r.data) {
		if len(r.chunks) > 0 { // trailing empty chunks
			r.chunks = r.chunks[1:]
			return []byte{}, nil
		}
		return nil, io.EOF
	}
	n := len(r.data) - r.off
	if len(r.chunks) > 0 {
		n = r.chunks[0]
		r.chunks = r.chunks[1:]
	}
	if n > len(r.data)-r.off {
		n = len(r.data) - r.off
	}
	if r.failErr != nil && r.off+n > r.failAt {
		n = r.failAt - r.off
	}
	c := append([]byte(nil), r.data[r.off:r.off+n]...)
	r.off += n
	return c, nil
}

func (r *trackedChunkReader) Close() { r.t.closes.Add(1) }

// SourceSpec describes an upload's data source.
type SourceSpec struct {
	Data    []byte
	Chunks  []int // nil: one chunk
	FailAt  int   // with FailErr: fail after that many bytes
	FailErr error
}

// NewTrackedCASBuffer returns a CAS buffer (validating against d) over a
// chunk reader that delivers spec and counts Close calls in the tracker.
func NewTrackedCASBuffer(d digest.Digest, spec SourceSpec, src buffer.Source) (buffer.Buffer, *Tracker) {
	t := &Tracker{Name: d.String()}
	r := &trackedChunkReader{t: t, data: spec.Data, chunks: append([]int(nil), spec.Chunks...), failAt: spec.FailAt, failErr: spec.FailErr}
	return buffer.NewCASBufferFromChunkReader(d, r, src), t
}

// CheckReleasedOnce returns "" if the tracker saw exactly one Close.
func (t *Tracker) CheckReleasedOnce() string {
	if n := t.Closes(); n != 1 {
		return fmt.Sprintf("source of %s closed %d times (want exactly 1)", t.Name, n)
	}
	return ""
}
