// Package sim provides the simulated media under the assembled local store: a
// journalled block device with crash images, fault injection and corruption,
// a journalled state directory with POSIX-like durability, and a virtual
// clock. All of them are safe for concurrent use and never the source of a
// data race themselves.
package sim

import (
	"context"
	"errors"
	"fmt"
	"io"
	"os"
	"sort"
	"sync"
	"sync/atomic"
	"time"

	"github.com/buildbarn/bb-storage/pkg/clock"
	"github.com/buildbarn/bb-storage/pkg/filesystem"
	"github.com/buildbarn/bb-storage/pkg/filesystem/path"
)

// Entry is one journalled I/O operation.
type Entry struct {
	Seq    int
	Target string // device name or "dir"
	Kind   string // write, sync-begin, sync-end | create, fwrite, fsync, rename, remove, dirsync
	Off    int64
	Data   []byte
	Name   string
	Name2  string
}

func (e Entry) String() string {
	switch e.Kind {
	case "write":
		return fmt.Sprintf("%d %s write off=%d len=%d", e.Seq, e.Target, e.Off, len(e.Data))
	case "fwrite":
		return fmt.Sprintf("%d dir fwrite %s len=%d", e.Seq, e.Name, len(e.Data))
	case "rename":
		return fmt.Sprintf("%d dir rename %s->%s", e.Seq, e.Name, e.Name2)
	}
	return fmt.Sprintf("%d %s %s %s", e.Seq, e.Target, e.Kind, e.Name)
}

// Journal is the totally ordered log of I/O operations of all media of one
// assembled store.
type Journal struct {
	mu      sync.Mutex
	entries []Entry
}

func (j *Journal) add(e Entry) int {
	j.mu.Lock()
	defer j.mu.Unlock()
	e.Seq = len(j.entries)
	j.entries = append(j.entries, e)
	return e.Seq
}

// Len returns the number of journalled operations.
func (j *Journal) Len() int {
	j.mu.Lock()
	defer j.mu.Unlock()
	return len(j.entries)
}

// Entries returns a snapshot of the journal.
func (j *Journal) Entries() []Entry {
	j.mu.Lock()
	defer j.mu.Unlock()
	return append([]Entry(nil), j.entries...)
}

// Since returns a snapshot of the journal entries from position pos on.
func (j *Journal) Since(pos int) []Entry {
	j.mu.Lock()
	defer j.mu.Unlock()
	if pos >= len(j.entries) {
		return nil
	}
	return append([]Entry(nil), j.entries[pos:]...)
}

// DurableDir follows a journal incrementally and answers what a file of the
// simulated directory would contain after a power loss right now, in the
// worst admissible case: namespace operations count only once a directory
// fsync followed them, file data only up to the file's last fsync (the same
// image as DirImageAt with DirChoice{0, 0}).
type DurableDir struct {
	j       *Journal
	pos     int
	live    map[string]*dinode
	durable map[string]*dinode
	pending []Entry
	// inode created by the i-th pending operation (nil unless it is a create)
	pendingInodes []*dinode
}

type dinode struct {
	data   []byte
	synced int
}

// NewDurableDir starts following j from its beginning.
func NewDurableDir(j *Journal, initial map[string][]byte) *DurableDir {
	d := &DurableDir{j: j, live: map[string]*dinode{}, durable: map[string]*dinode{}}
	for n, v := range initial {
		in := &dinode{data: append([]byte(nil), v...), synced: len(v)}
		d.live[n], d.durable[n] = in, in
	}
	return d
}

func applyNS(m map[string]*dinode, e Entry, created *dinode) {
	switch e.Kind {
	case "create":
		m[e.Name] = created
	case "remove":
		delete(m, e.Name)
	case "rename":
		if in, ok := m[e.Name]; ok {
			delete(m, e.Name)
			m[e.Name2] = in
		}
	}
}

// File returns the durable content of a file (false: it does not exist durably).
func (d *DurableDir) File(name string) ([]byte, bool) {
	es := d.j.Since(d.pos)
	d.pos += len(es)
	for _, e := range es {
		if e.Target != "dir" {
			continue
		}
		switch e.Kind {
		case "create", "remove", "rename":
			var in *dinode
			if e.Kind == "create" {
				in = &dinode{}
			}
			applyNS(d.live, e, in)
			e.Data = nil
			d.pending = append(d.pending, e)
			if in != nil {
				// remember the inode for the deferred application
				d.pendingInodes = append(d.pendingInodes, in)
			} else {
				d.pendingInodes = append(d.pendingInodes, nil)
			}
		case "fwrite":
			if in := d.live[e.Name]; in != nil {
				in.data = append(in.data, e.Data...)
			}
		case "fsync":
			if in := d.live[e.Name]; in != nil {
				in.synced = len(in.data)
			}
		case "dirsync":
			for i, p := range d.pending {
				applyNS(d.durable, p, d.pendingInodes[i])
			}
			d.pending, d.pendingInodes = d.pending[:0], d.pendingInodes[:0]
		}
	}
	in, ok := d.durable[name]
	if !ok {
		return nil, false
	}
	return in.data[:in.synced], true
}

// ---------------------------------------------------------------------------
// Device

// Fault describes an injected device failure.
type Fault struct {
	Kind string // "read", "write", "sync"
	Nth  int64  // 1-based index of the operation of that kind that fails
	Err  error
	// Short, for writes: number of bytes written before the error.
	Short int
}

// Device is an in-memory blockdevice.BlockDevice.
type Device struct {
	Name    string
	j       *Journal
	mu      sync.Mutex
	data    []byte
	initial []byte
	faults  []Fault

	reads, writes, syncs atomic.Int64
	// Hook, when set, is called before every operation, outside the device
	// lock: the place for PRNG-driven yields and for gates.
	Hook func(kind string, off int64, n int)
}

// NewDevice creates a device with the given initial content.
func NewDevice(j *Journal, name string, initial []byte) *Device {
	return &Device{Name: name, j: j, data: append([]byte(nil), initial...), initial: append([]byte(nil), initial...)}
}

// AddFault schedules an injected failure.
func (d *Device) AddFault(f Fault) {
	d.mu.Lock()
	d.faults = append(d.faults, f)
	d.mu.Unlock()
}

// ClearFaults drops the injected failures that have not fired.
func (d *Device) ClearFaults() {
	d.mu.Lock()
	d.faults = nil
	d.mu.Unlock()
}

func (d *Device) takeFault(kind string, n int64) *Fault {
	for i := range d.faults {
		if d.faults[i].Kind == kind && d.faults[i].Nth == n {
			f := d.faults[i]
			d.faults = append(d.faults[:i], d.faults[i+1:]...)
			return &f
		}
	}
	return nil
}

// Counts returns the number of reads, writes and syncs seen.
func (d *Device) Counts() (reads, writes, syncs int64) {
	return d.reads.Load(), d.writes.Load(), d.syncs.Load()
}

func (d *Device) ReadAt(p []byte, off int64) (int, error) {
	if d.Hook != nil {
		d.Hook("read", off, len(p))
	}
	n := d.reads.Add(1)
	d.mu.Lock()
	defer d.mu.Unlock()
	if f := d.takeFault("read", n); f != nil {
		return 0, f.Err
	}
	if off >= int64(len(d.data)) {
		return 0, io.EOF
	}
	c := copy(p, d.data[off:])
	if c < len(p) {
		return c, io.EOF
	}
	return c, nil
}

func (d *Device) WriteAt(p []byte, off int64) (int, error) {
	if d.Hook != nil {
		d.Hook("write", off, len(p))
	}
	n := d.writes.Add(1)
	d.mu.Lock()
	defer d.mu.Unlock()
	if off < 0 || off+int64(len(p)) > int64(len(d.data)) {
		return 0, fmt.Errorf("sim device %s: write [%d,%d) outside device of %d bytes", d.Name, off, off+int64(len(p)), len(d.data))
	}
	if f := d.takeFault("write", n); f != nil {
		w := f.Short
		if w > len(p) {
			w = len(p)
		}
		if w > 0 {
			copy(d.data[off:], p[:w])
			d.j.add(Entry{Target: d.Name, Kind: "write", Off: off, Data: append([]byte(nil), p[:w]...)})
		}
		return w, f.Err
	}
	copy(d.data[off:], p)
	d.j.add(Entry{Target: d.Name, Kind: "write", Off: off, Data: append([]byte(nil), p...)})
	return len(p), nil
}

func (d *Device) Sync() error {
	if d.Hook != nil {
		d.Hook("sync", 0, 0)
	}
	n := d.syncs.Add(1)
	d.mu.Lock()
	f := d.takeFault("sync", n)
	d.mu.Unlock()
	if f != nil {
		return f.Err
	}
	d.j.add(Entry{Target: d.Name, Kind: "sync-begin"})
	if d.Hook != nil {
		// A gate here keeps the sync "in progress" while other operations run.
		d.Hook("sync-mid", 0, 0)
	}
	d.j.add(Entry{Target: d.Name, Kind: "sync-end"})
	return nil
}

func (d *Device) Close() error { return nil }

// Bytes returns a copy of the live content.
func (d *Device) Bytes() []byte {
	d.mu.Lock()
	defer d.mu.Unlock()
	return append([]byte(nil), d.data...)
}

// Corrupt XORs the given range with a non-zero mask (media corruption; not
// journalled).
func (d *Device) Corrupt(off int64, n int, mask byte) {
	d.mu.Lock()
	defer d.mu.Unlock()
	if mask == 0 {
		mask = 0xff
	}
	for i := int64(0); i < int64(n) && off+i < int64(len(d.data)); i++ {
		d.data[off+i] ^= mask
	}
}

// Keep decides whether sector s (index within the write) of the volatile
// journal entry e survives a crash.
type Keep func(e Entry, sector int) bool

// KeepAll / KeepNone are the two trivial loss choices.
func KeepAll(Entry, int) bool  { return true }
func KeepNone(Entry, int) bool { return false }

// ImageAt returns the content of the named device after a crash at point k
// (journal entries [0,k) were issued). Writes issued before the start of the
// last sync that completed before k are durable; when synced is false the
// device is never considered synced (index device). Every other write is
// volatile and survives per sector as keep decides.
func ImageAt(j *Journal, name string, initial []byte, k int, synced bool, sectorSize int, keep Keep) []byte {
	es := j.Entries()
	if k > len(es) {
		k = len(es)
	}
	img := append([]byte(nil), initial...)
	durableBefore := -1
	if synced {
		begin := -1
		for i := 0; i < k; i++ {
			e := es[i]
			if e.Target != name {
				continue
			}
			if e.Kind == "sync-begin" {
				begin = i
			} else if e.Kind == "sync-end" {
				durableBefore = begin
			}
		}
	}
	if sectorSize <= 0 {
		sectorSize = 1 << 30
	}
	for i := 0; i < k; i++ {
		e := es[i]
		if e.Target != name || e.Kind != "write" {
			continue
		}
		if i < durableBefore {
			copy(img[e.Off:], e.Data)
			continue
		}
		for s, o := 0, 0; o < len(e.Data); s, o = s+1, o+sectorSize {
			end := o + sectorSize
			if end > len(e.Data) {
				end = len(e.Data)
			}
			if keep(e, s) {
				copy(img[e.Off+int64(o):], e.Data[o:end])
			}
		}
	}
	return img
}

// VolatileWrites returns the indices of the write entries of a device that are
// not durable at crash point k.
func VolatileWrites(j *Journal, name string, k int, synced bool) []int {
	es := j.Entries()
	if k > len(es) {
		k = len(es)
	}
	durableBefore := -1
	if synced {
		begin := -1
		for i := 0; i < k; i++ {
			e := es[i]
			if e.Target != name {
				continue
			}
			if e.Kind == "sync-begin" {
				begin = i
			} else if e.Kind == "sync-end" {
				durableBefore = begin
			}
		}
	}
	var out []int
	for i := 0; i < k; i++ {
		if e := es[i]; e.Target == name && e.Kind == "write" && i >= durableBefore {
			out = append(out, i)
		}
	}
	return out
}

// ---------------------------------------------------------------------------
// Directory

// DirFault makes the nth directory-level operation of a kind fail.
type DirFault struct {
	Kind string // create, fwrite, fsync, close, rename, remove, dirsync, openread
	Nth  int64
	Err  error
}

// Dir implements the part of filesystem.Directory that the persistent state
// store uses. Any other method panics with a nil-pointer dereference on the
// embedded interface, which is itself a monitor: an unexpected call is
// reported as a panic.
type Dir struct {
	filesystem.Directory
	j      *Journal
	mu     sync.Mutex
	files  map[string][]byte
	counts map[string]int64
	faults []DirFault
	// Hook is called before every operation, outside the lock.
	Hook func(kind, name string)
}

// NewDir creates a directory with the given initial files.
func NewDir(j *Journal, files map[string][]byte) *Dir {
	d := &Dir{j: j, files: map[string][]byte{}, counts: map[string]int64{}}
	for k, v := range files {
		d.files[k] = append([]byte(nil), v...)
	}
	return d
}

// AddFault schedules an injected failure.
func (d *Dir) AddFault(f DirFault) {
	d.mu.Lock()
	d.faults = append(d.faults, f)
	d.mu.Unlock()
}

// ClearFaults drops the injected failures that have not fired.
func (d *Dir) ClearFaults() {
	d.mu.Lock()
	d.faults = nil
	d.mu.Unlock()
}

// PendingFaults returns the number of injected failures that have not fired.
func (d *Dir) PendingFaults() int {
	d.mu.Lock()
	defer d.mu.Unlock()
	return len(d.faults)
}

// AddFaultNext makes the k-th next operation of the given kind fail.
func (d *Dir) AddFaultNext(kind string, k int64, err error) {
	d.mu.Lock()
	d.faults = append(d.faults, DirFault{Kind: kind, Nth: d.counts[kind] + k, Err: err})
	d.mu.Unlock()
}

// Files returns a copy of the live files.
func (d *Dir) Files() map[string][]byte {
	d.mu.Lock()
	defer d.mu.Unlock()
	out := map[string][]byte{}
	for k, v := range d.files {
		out[k] = append([]byte(nil), v...)
	}
	return out
}

func (d *Dir) enter(kind, name string) error {
	if d.Hook != nil {
		d.Hook(kind, name)
	}
	d.mu.Lock()
	defer d.mu.Unlock()
	d.counts[kind]++
	n := d.counts[kind]
	for i := range d.faults {
		if d.faults[i].Kind == kind && d.faults[i].Nth == n {
			err := d.faults[i].Err
			d.faults = append(d.faults[:i], d.faults[i+1:]...)
			return err
		}
	}
	return nil
}

type fileReader struct {
	filesystem.FileReader
	data []byte
}

func (f *fileReader) ReadAt(p []byte, off int64) (int, error) {
	if off >= int64(len(f.data)) {
		return 0, io.EOF
	}
	n := copy(p, f.data[off:])
	if n < len(p) {
		return n, io.EOF
	}
	return n, nil
}
func (f *fileReader) Close() error { return nil }

func (d *Dir) OpenRead(name path.Component) (filesystem.FileReader, error) {
	if err := d.enter("openread", name.String()); err != nil {
		return nil, err
	}
	d.mu.Lock()
	defer d.mu.Unlock()
	data, ok := d.files[name.String()]
	if !ok {
		return nil, os.ErrNotExist
	}
	return &fileReader{data: append([]byte(nil), data...)}, nil
}

type fileAppender struct {
	d      *Dir
	name   string
	closed bool
}

func (f *fileAppender) Write(p []byte) (int, error) {
	if err := f.d.enter("fwrite", f.name); err != nil {
		return 0, err
	}
	f.d.mu.Lock()
	defer f.d.mu.Unlock()
	f.d.files[f.name] = append(f.d.files[f.name], p...)
	f.d.j.add(Entry{Target: "dir", Kind: "fwrite", Name: f.name, Data: append([]byte(nil), p...)})
	return len(p), nil
}

func (f *fileAppender) Sync() error {
	if err := f.d.enter("fsync", f.name); err != nil {
		return err
	}
	f.d.j.add(Entry{Target: "dir", Kind: "fsync", Name: f.name})
	return nil
}

func (f *fileAppender) Close() error {
	if f.closed {
		panic("sim.Dir: file closed twice")
	}
	f.closed = true
	return f.d.enter("close", f.name)
}

func (d *Dir) OpenAppend(name path.Component, cm filesystem.CreationMode) (filesystem.FileAppender, error) {
	if err := d.enter("create", name.String()); err != nil {
		return nil, err
	}
	d.mu.Lock()
	defer d.mu.Unlock()
	if _, ok := d.files[name.String()]; ok {
		return nil, os.ErrExist
	}
	d.files[name.String()] = nil
	d.j.add(Entry{Target: "dir", Kind: "create", Name: name.String()})
	return &fileAppender{d: d, name: name.String()}, nil
}

func (d *Dir) Remove(name path.Component) error {
	if err := d.enter("remove", name.String()); err != nil {
		return err
	}
	d.mu.Lock()
	defer d.mu.Unlock()
	if _, ok := d.files[name.String()]; !ok {
		return os.ErrNotExist
	}
	delete(d.files, name.String())
	d.j.add(Entry{Target: "dir", Kind: "remove", Name: name.String()})
	return nil
}

func (d *Dir) Rename(oldName path.Component, newDir filesystem.Directory, newName path.Component) error {
	if err := d.enter("rename", oldName.String()); err != nil {
		return err
	}
	d.mu.Lock()
	defer d.mu.Unlock()
	data, ok := d.files[oldName.String()]
	if !ok {
		return os.ErrNotExist
	}
	delete(d.files, oldName.String())
	d.files[newName.String()] = data
	d.j.add(Entry{Target: "dir", Kind: "rename", Name: oldName.String(), Name2: newName.String()})
	return nil
}

func (d *Dir) Sync() error {
	if err := d.enter("dirsync", ""); err != nil {
		return err
	}
	d.j.add(Entry{Target: "dir", Kind: "dirsync"})
	return nil
}

// DirChoice selects one admissible post-crash directory.
type DirChoice struct {
	// VolatilePrefix is the number of namespace operations issued after the
	// last directory fsync that reached the medium (they are applied in order).
	VolatilePrefix int
	// UnsyncedData: 0 = drop file data written after the file's last fsync,
	// 1 = keep all of it, n>=2 = keep the first (n-2) unsynced bytes.
	UnsyncedData int
}

// DirImageAt computes the directory content after a crash at point k.
func DirImageAt(j *Journal, initial map[string][]byte, k int, ch DirChoice) map[string][]byte {
	es := j.Entries()
	if k > len(es) {
		k = len(es)
	}
	type inode struct {
		data   []byte
		synced int
	}
	live := map[string]*inode{}
	durable := map[string]*inode{}
	for n, v := range initial {
		in := &inode{data: append([]byte(nil), v...), synced: len(v)}
		live[n] = in
		durable[n] = in
	}
	lastDirSync := -1
	for i := 0; i < k; i++ {
		if e := es[i]; e.Target == "dir" && e.Kind == "dirsync" {
			lastDirSync = i
		}
	}
	applied := 0
	for i := 0; i < k; i++ {
		e := es[i]
		if e.Target != "dir" {
			continue
		}
		ns := func(f func(m map[string]*inode)) {
			f(live)
			if i < lastDirSync {
				f(durable)
			} else if applied < ch.VolatilePrefix {
				applied++
				f(durable)
			}
		}
		switch e.Kind {
		case "create":
			in := &inode{}
			ns(func(m map[string]*inode) { m[e.Name] = in })
		case "fwrite":
			if in := live[e.Name]; in != nil {
				in.data = append(in.data, e.Data...)
			}
		case "fsync":
			if in := live[e.Name]; in != nil {
				in.synced = len(in.data)
			}
		case "remove":
			ns(func(m map[string]*inode) { delete(m, e.Name) })
		case "rename":
			ns(func(m map[string]*inode) {
				if in, ok := m[e.Name]; ok {
					delete(m, e.Name)
					m[e.Name2] = in
				}
			})
		}
	}
	out := map[string][]byte{}
	for n, in := range durable {
		end := in.synced
		switch {
		case ch.UnsyncedData == 1:
			end = len(in.data)
		case ch.UnsyncedData >= 2:
			end = in.synced + ch.UnsyncedData - 2
			if end > len(in.data) {
				end = len(in.data)
			}
		}
		out[n] = append([]byte(nil), in.data[:end]...)
	}
	return out
}

// VolatileDirOps counts the namespace operations after the last dirsync
// before k.
func VolatileDirOps(j *Journal, k int) int {
	es := j.Entries()
	if k > len(es) {
		k = len(es)
	}
	n := 0
	for i := 0; i < k; i++ {
		e := es[i]
		if e.Target != "dir" {
			continue
		}
		switch e.Kind {
		case "dirsync":
			n = 0
		case "create", "remove", "rename":
			n++
		}
	}
	return n
}

// ---------------------------------------------------------------------------
// Clock

// TimerInfo describes a timer the system under test created.
type TimerInfo struct {
	ID        int
	CreatedAt time.Time
	Duration  time.Duration
	FireAt    time.Time
	Fired     bool
	FiredAt   time.Time // virtual time handed to the receiver
}

type vtimer struct {
	info *TimerInfo
	ch   chan time.Time
}

// Clock is a virtual clock.Clock.
type Clock struct {
	mu     sync.Mutex
	now    time.Time
	timers []*vtimer
	all    []*TimerInfo
	// OnTimer is called (outside the lock) whenever a timer is created.
	OnTimer func(ti TimerInfo)
}

// NewClock starts at an arbitrary fixed instant.
func NewClock() *Clock { return &Clock{now: time.Unix(1700000000, 0)} }

func (c *Clock) Now() time.Time {
	c.mu.Lock()
	defer c.mu.Unlock()
	return c.now
}

// NewContextWithTimeout returns a context that is cancelled when the virtual
// clock passes the deadline.
func (c *Clock) NewContextWithTimeout(parent context.Context, d time.Duration) (context.Context, context.CancelFunc) {
	ctx, cancel := context.WithCancelCause(parent)
	_, ch := c.NewTimer(d)
	go func() {
		select {
		case <-ch:
			cancel(context.DeadlineExceeded)
		case <-ctx.Done():
		}
	}()
	return ctx, func() { cancel(context.Canceled) }
}

type stopper struct {
	c *Clock
	t *vtimer
}

func (s stopper) Stop() bool {
	s.c.mu.Lock()
	defer s.c.mu.Unlock()
	for i, t := range s.c.timers {
		if t == s.t {
			s.c.timers = append(s.c.timers[:i], s.c.timers[i+1:]...)
			return true
		}
	}
	return false
}

func (c *Clock) NewTimer(d time.Duration) (clock.Timer, <-chan time.Time) {
	c.mu.Lock()
	ti := &TimerInfo{ID: len(c.all), CreatedAt: c.now, Duration: d, FireAt: c.now.Add(d)}
	c.all = append(c.all, ti)
	t := &vtimer{info: ti, ch: make(chan time.Time, 1)}
	if d <= 0 {
		ti.Fired = true
		ti.FiredAt = c.now
		t.ch <- c.now
	} else {
		c.timers = append(c.timers, t)
	}
	info := *ti
	cb := c.OnTimer
	c.mu.Unlock()
	if cb != nil {
		cb(info)
	}
	return stopper{c, t}, t.ch
}

func (c *Clock) NewTicker(d time.Duration) (clock.Ticker, <-chan time.Time) {
	panic(errors.New("sim.Clock: NewTicker is not expected to be used by the code under test"))
}

// Pending returns the number of timers that have not fired.
func (c *Clock) Pending() int {
	c.mu.Lock()
	defer c.mu.Unlock()
	return len(c.timers)
}

// Timers returns a snapshot of every timer ever created.
func (c *Clock) Timers() []TimerInfo {
	c.mu.Lock()
	defer c.mu.Unlock()
	out := make([]TimerInfo, len(c.all))
	for i, t := range c.all {
		out[i] = *t
	}
	return out
}

// NextFire returns the duration until the earliest pending timer.
func (c *Clock) NextFire() (time.Duration, bool) {
	c.mu.Lock()
	defer c.mu.Unlock()
	if len(c.timers) == 0 {
		return 0, false
	}
	m := c.timers[0].info.FireAt
	for _, t := range c.timers[1:] {
		if t.info.FireAt.Before(m) {
			m = t.info.FireAt
		}
	}
	return m.Sub(c.now), true
}

// Advance moves virtual time forward and fires the timers that became due, in
// order of their deadline. Each receiver gets the virtual time at which the
// timer actually fired (like time.Timer, which reports the time of firing, not
// the deadline).
func (c *Clock) Advance(d time.Duration) int {
	c.mu.Lock()
	defer c.mu.Unlock()
	c.now = c.now.Add(d)
	sort.SliceStable(c.timers, func(i, j int) bool { return c.timers[i].info.FireAt.Before(c.timers[j].info.FireAt) })
	rest := c.timers[:0]
	fired := 0
	for _, t := range c.timers {
		if !t.info.FireAt.After(c.now) {
			t.info.Fired = true
			t.info.FiredAt = c.now
			t.ch <- c.now
			fired++
		} else {
			rest = append(rest, t)
		}
	}
	c.timers = rest
	return fired
}
