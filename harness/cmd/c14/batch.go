package main

import (
	"bytes"
	"context"
	"fmt"
	"sort"
	"strings"

	remoteexecution "github.com/bazelbuild/remote-apis/build/bazel/remote/execution/v2"
	"github.com/buildbarn/bb-storage/pkg/blobstore/grpcservers"
	"github.com/buildbarn/bb-storage/pkg/digest"
	"google.golang.org/grpc/codes"
	"google.golang.org/grpc/status"
	"google.golang.org/protobuf/proto"

	"verif/lib/gen"
	"verif/lib/run"
)

// casAPI is the CAS service as the workloads call it: either the server
// object directly or the generated client over the in-memory connection.
type casAPI struct {
	name        string
	findMissing func(context.Context, *remoteexecution.FindMissingBlobsRequest) (*remoteexecution.FindMissingBlobsResponse, error)
	batchUpdate func(context.Context, *remoteexecution.BatchUpdateBlobsRequest) (*remoteexecution.BatchUpdateBlobsResponse, error)
	batchRead   func(context.Context, *remoteexecution.BatchReadBlobsRequest) (*remoteexecution.BatchReadBlobsResponse, error)
}

func directCAS(s remoteexecution.ContentAddressableStorageServer) casAPI {
	return casAPI{name: "direct", findMissing: s.FindMissingBlobs, batchUpdate: s.BatchUpdateBlobs, batchRead: s.BatchReadBlobs}
}

func wireCAS(cl remoteexecution.ContentAddressableStorageClient) casAPI {
	return casAPI{name: "wire",
		findMissing: func(ctx context.Context, r *remoteexecution.FindMissingBlobsRequest) (*remoteexecution.FindMissingBlobsResponse, error) {
			return cl.FindMissingBlobs(ctx, r)
		},
		batchUpdate: func(ctx context.Context, r *remoteexecution.BatchUpdateBlobsRequest) (*remoteexecution.BatchUpdateBlobsResponse, error) {
			return cl.BatchUpdateBlobs(ctx, r)
		},
		batchRead: func(ctx context.Context, r *remoteexecution.BatchReadBlobsRequest) (*remoteexecution.BatchReadBlobsResponse, error) {
			return cl.BatchReadBlobs(ctx, r)
		},
	}
}

// Digest functions whose hash length identifies them (so that a request may
// leave digest_function unset).
var inferable = []remoteexecution.DigestFunction_Value{
	remoteexecution.DigestFunction_MD5, remoteexecution.DigestFunction_SHA1, remoteexecution.DigestFunction_SHA256,
	remoteexecution.DigestFunction_SHA384, remoteexecution.DigestFunction_SHA512,
}

// batchEnv: one request addresses one instance name and one digest function.
type batchEnv struct {
	inst     string
	fn       remoteexecution.DigestFunction_Value
	fnField  remoteexecution.DigestFunction_Value // what the request carries (may be UNKNOWN)
	instSent string                               // what the request carries (may be malformed)
	reqOK    bool                                 // request-level fields are well-formed
}

func genBatchEnv(r *gen.Rng) batchEnv {
	e := batchEnv{inst: instances[r.Intn(len(instances))], reqOK: true}
	if r.Bool() {
		e.fn = inferable[r.Intn(len(inferable))]
		e.fnField = e.fn
		if r.Bool() {
			e.fnField = remoteexecution.DigestFunction_UNKNOWN
		}
	} else {
		e.fn = gen.AllFunctions[r.Intn(len(gen.AllFunctions))]
		e.fnField = e.fn
	}
	e.instSent = e.inst
	if r.Chance(1, 25) {
		e.reqOK = false
		switch r.Intn(4) {
		case 0:
			e.instSent = "/" + e.inst
		case 1:
			e.instSent = "a//b"
		case 2:
			e.instSent = "a/blobs"
		default:
			e.fnField = remoteexecution.DigestFunction_Value(r.Pick(4, 7, 99)) // VSO, MURMUR3, undefined
		}
	}
	return e
}

func (e batchEnv) object(r *gen.Rng, tag, id uint64, maxSize int) object {
	size := 0
	switch k := r.Intn(10); {
	case k < 1:
		size = 0
	case k < 7:
		size = r.Range(1, 64)
	default:
		size = r.Range(65, maxSize)
	}
	o := object{inst: e.inst, fn: e.fn, data: blob(r, tag, id, size)}
	o.d = gen.DigestOf(e.inst, e.fn, o.data)
	return o
}

func malformedProtoDigest(r *gen.Rng, good *remoteexecution.Digest) *remoteexecution.Digest {
	switch r.Intn(6) {
	case 0:
		return nil
	case 1:
		return &remoteexecution.Digest{Hash: good.Hash[1:], SizeBytes: good.SizeBytes}
	case 2:
		return &remoteexecution.Digest{Hash: good.Hash + "00", SizeBytes: good.SizeBytes}
	case 3:
		return &remoteexecution.Digest{Hash: "G" + good.Hash[1:], SizeBytes: good.SizeBytes}
	case 4:
		return &remoteexecution.Digest{Hash: good.Hash, SizeBytes: -1 - good.SizeBytes}
	default:
		return &remoteexecution.Digest{Hash: "", SizeBytes: good.SizeBytes}
	}
}

// ---------------------------------------------------------------------------
// BatchUpdateBlobs.

type updEntry struct {
	kind     string // valid, content-mismatch, size-mismatch, malformed-digest, backend-error
	obj      object
	digest   *remoteexecution.Digest
	data     []byte
	wantOK   bool
	wantCode codes.Code // for backend-error
}

func runBatchUpdate(c *run.Case, w *run.Worker, r *gen.Rng, be *backend, api casAPI) {
	env := genBatchEnv(r)
	be.clearInjections()
	n := r.Pick(0, 1, 1, 2, 3, 5, 8, 13)
	var entries []*updEntry
	for i := 0; i < n; i++ {
		o := env.object(r, uint64(c.Index)+1, uint64(w.Index)*1000+uint64(i)+uint64(r.Intn(1<<30))<<10, 3000)
		k := r.Intn(16)
		if k < 7 && len(o.data) == 0 {
			// the empty object is shared by all entries of one function: keep it valid
			k = 15
		}
		e := &updEntry{kind: "valid", obj: o, digest: o.d.GetProto(), data: o.data, wantOK: true}
		switch {
		case k < 2:
			e.kind, e.wantOK = "content-mismatch", false
			e.data = append([]byte(nil), o.data...)
			e.data[r.Intn(len(e.data))] ^= 1
		case k < 4:
			e.kind, e.wantOK = "size-mismatch", false
			if r.Bool() {
				e.data = o.data[:len(o.data)-1]
			} else if r.Bool() {
				e.data = append(append([]byte(nil), o.data...), 7)
			} else {
				e.digest = &remoteexecution.Digest{Hash: e.digest.Hash, SizeBytes: e.digest.SizeBytes + 1}
			}
		case k < 6:
			e.kind, e.wantOK = "malformed-digest", false
			e.digest = malformedProtoDigest(r, e.digest)
		case k < 7:
			e.kind, e.wantOK = "backend-error", false
			e.wantCode = pickCode(r)
			be.mu.Lock()
			be.putErr[o.d.String()] = status.Error(e.wantCode, "injected: backend Put fails")
			be.mu.Unlock()
		case k < 9 && len(entries) > 0: // duplicate of an earlier entry, as is
			p := entries[r.Intn(len(entries))]
			cp := *p
			e = &cp
		}
		entries = append(entries, e)
	}
	// The digest function of a request that leaves the field unset is inferred
	// from the first entry's hash length.
	reqOK := env.reqOK
	if env.fnField == remoteexecution.DigestFunction_UNKNOWN && len(entries) > 0 {
		h := entries[0].digest.GetHash()
		okLen := false
		for _, l := range []int{32, 40, 64, 96, 128} {
			okLen = okLen || len(h) == l
		}
		if !okLen || len(h) != len(entries[0].obj.d.GetProto().Hash) {
			reqOK = false
		}
	}
	req := &remoteexecution.BatchUpdateBlobsRequest{InstanceName: env.instSent, DigestFunction: env.fnField}
	var kinds []string
	for _, e := range entries {
		req.Requests = append(req.Requests, &remoteexecution.BatchUpdateBlobsRequest_Request{Digest: e.digest, Data: e.data})
		kinds = append(kinds, e.kind)
	}
	before := keySet(be.Store)
	resp, err := api.batchUpdate(context.Background(), proto.Clone(req).(*remoteexecution.BatchUpdateBlobsRequest))
	site := "contentAddressableStorageServer.BatchUpdateBlobs"
	c.Logf("BatchUpdateBlobs[%s](inst=%q fn=%v entries=%v reqOK=%v) -> err=%v", api.name, env.instSent, env.fnField, kinds, reqOK, err)
	w.Count("batch_update_calls", 1)
	w.Count("batch_update_entries", int64(len(entries)))

	// Never store anything that does not match its digest; never store under a
	// key nobody uploaded.
	allowed := map[string]*updEntry{}
	for _, e := range entries {
		if e.wantOK {
			allowed[e.obj.d.GetKey(digest.KeyWithInstance)] = e
		}
	}
	for _, k := range be.Store.Keys() {
		if before[k] {
			continue
		}
		e := allowed[k]
		if e == nil {
			c.Violation(site+":invalid-entry-stored", "key %q appeared in the backend although no valid entry of the request describes it (entries %v)", k, kinds)
			continue
		}
		if got, _ := be.Store.Peek(e.obj.d); !bytes.Equal(got, e.obj.data) {
			c.Violation(site+":stored-mismatching-data", "backend holds %s under %s", gen.Hex8(got), e.obj)
		}
	}
	if !reqOK {
		w.Count("batch_update_malformed_request", 1)
		if err == nil && len(entries) > 0 {
			for i, rr := range resp.GetResponses() {
				if rr.GetStatus().GetCode() == 0 && i < len(entries) {
					// A request whose instance name / digest function is unusable
					// cannot have stored anything (checked above); an OK entry
					// would be a lie only if nothing was stored.
					if !be.Store.Has(entries[i].obj.d) {
						c.Violation(site+":ok-status-without-store", "entry %d reported OK for a malformed request and nothing was stored", i)
					}
				}
			}
		}
		return
	}
	if err != nil {
		c.Violation(site+":well-formed-request-rejected", "request with entries %v failed as a whole: %v", kinds, err)
		return
	}
	if len(resp.Responses) != len(entries) {
		c.Violation(site+":response-shape", "%d responses for %d requests", len(resp.Responses), len(entries))
		return
	}
	mixed := map[bool]bool{}
	for i, e := range entries {
		rr := resp.Responses[i]
		if !proto.Equal(rr.Digest, e.digest) {
			c.Violation(site+":response-shape", "response %d carries digest %v, request %v", i, rr.Digest, e.digest)
			continue
		}
		code := codes.Code(rr.GetStatus().GetCode())
		mixed[e.wantOK] = true
		w.Count("batch_update_entry_"+e.kind, 1)
		switch {
		case e.wantOK && code != codes.OK:
			c.Violation(site+":entry-status", "entry %d (%s) is valid but reported %v: %s", i, e.kind, code, rr.GetStatus().GetMessage())
		case !e.wantOK && code == codes.OK:
			c.Violation(site+":entry-status", "entry %d (%s) must fail but reported OK (entries %v)", i, e.kind, kinds)
		case e.kind == "backend-error" && code != e.wantCode:
			c.Violation(site+":entry-status-code", "entry %d: backend failed with %v, reported %v", i, e.wantCode, code)
		}
		if e.wantOK {
			if got, ok := be.Store.Peek(e.obj.d); !ok {
				c.Violation(site+":valid-entry-not-stored", "entry %d reported OK=%v but %s is not in the backend", i, code == codes.OK, e.obj)
			} else if !bytes.Equal(got, e.obj.data) {
				c.Violation(site+":stored-mismatching-data", "backend holds %s under %s", gen.Hex8(got), e.obj)
			}
		}
	}
	if mixed[true] && mixed[false] {
		w.Count("batch_update_mixed", 1)
		w.Distinct("bu|" + strings.Join(kinds, ","))
	}
}

// ---------------------------------------------------------------------------
// BatchReadBlobs.

type readEntry struct {
	kind     string // present, absent, corrupt, backend-error, stream-error, malformed-digest
	obj      object
	digest   *remoteexecution.Digest
	wantCode codes.Code
}

func runBatchRead(c *run.Case, w *run.Worker, r *gen.Rng, be *backend, api casAPI, maxBytes int64) {
	env := genBatchEnv(r)
	be.clearInjections()
	n := r.Pick(0, 1, 1, 2, 3, 5, 8, 13)
	var entries []*readEntry
	total := int64(0)
	wellFormed := true
	objMax := 2000
	if maxBytes < 4000 {
		objMax = int(maxBytes)/2 + 2
	}
	for i := 0; i < n; i++ {
		o := env.object(r, uint64(c.Index)+7, uint64(w.Index)*1000+uint64(i)+uint64(r.Intn(1<<30))<<10, objMax)
		e := &readEntry{kind: "present", obj: o, digest: o.d.GetProto()}
		plan := &getPlan{data: o.data, chunks: chunkLens(r, len(o.data), true)}
		k := r.Intn(16)
		if k < 8 && len(o.data) == 0 {
			k = 15 // the empty object is shared: keep it present and intact
		}
		switch {
		case k < 3:
			e.kind, e.wantCode = "absent", codes.NotFound
			plan = nil
		case k < 5:
			e.kind = "corrupt"
			switch {
			case len(o.data) > 0 && r.Bool():
				d := append([]byte(nil), o.data...)
				d[r.Intn(len(d))] ^= 4
				plan.data = d
			case len(o.data) > 0 && r.Bool():
				plan.data = o.data[:len(o.data)-1]
			default:
				plan.data = append(append([]byte(nil), o.data...), 1)
			}
			plan.chunks = chunkLens(r, len(plan.data), true)
		case k < 6:
			e.kind, e.wantCode = "backend-error", pickCode(r)
			be.mu.Lock()
			be.getErr[o.d.String()] = status.Error(e.wantCode, "injected: backend Get fails")
			be.mu.Unlock()
			plan = nil
		case k < 7:
			e.kind, e.wantCode = "stream-error", pickCode(r)
			plan.failAt, plan.failErr = r.Range(0, len(o.data)), status.Error(e.wantCode, "injected: backend stream broke")
		case k < 8:
			e.kind = "malformed-digest"
			e.digest = malformedProtoDigest(r, e.digest)
			wellFormed = false
			plan = nil
		case k < 10 && len(entries) > 0:
			cp := *entries[r.Intn(len(entries))]
			e = &cp
			plan = nil
			if e.kind == "malformed-digest" {
				wellFormed = false
			}
		}
		if plan != nil {
			be.Store.Set(o.d, plan.data)
			be.mu.Lock()
			be.plans[o.d.String()] = plan
			be.mu.Unlock()
		}
		if e.kind != "malformed-digest" {
			total += int64(len(e.obj.data))
		}
		entries = append(entries, e)
	}
	reqOK := env.reqOK
	if env.fnField == remoteexecution.DigestFunction_UNKNOWN && len(entries) > 0 {
		if h := entries[0].digest.GetHash(); len(h) != len(entries[0].obj.d.GetProto().Hash) {
			reqOK = false
		}
	}
	req := &remoteexecution.BatchReadBlobsRequest{InstanceName: env.instSent, DigestFunction: env.fnField}
	var kinds []string
	for _, e := range entries {
		req.Digests = append(req.Digests, e.digest)
		kinds = append(kinds, e.kind)
	}
	resp, err := api.batchRead(context.Background(), proto.Clone(req).(*remoteexecution.BatchReadBlobsRequest))
	site := "contentAddressableStorageServer.BatchReadBlobs"
	c.Logf("BatchReadBlobs[%s](inst=%q fn=%v entries=%v total=%d max=%d reqOK=%v) -> err=%v", api.name, env.instSent, env.fnField, kinds, total, maxBytes, reqOK, err)
	w.Count("batch_read_calls", 1)
	for _, p := range be.releaseProblems() {
		c.Violation(site+":backend-buffer-release-count", "%s", p)
	}
	// Whatever else happens: data delivered for an entry is that object's data.
	for i, rr := range resp.GetResponses() {
		if i >= len(entries) || len(rr.Data) == 0 {
			continue
		}
		if !bytes.Equal(rr.Data, entries[i].obj.data) || entries[i].kind == "malformed-digest" {
			c.Violation(site+":delivered-mismatching-data", "entry %d (%s): delivered %s for %s", i, entries[i].kind, gen.Hex8(rr.Data), entries[i].obj)
		}
	}
	if !reqOK || !wellFormed {
		w.Count("batch_read_malformed_request", 1)
		return
	}
	if len(entries) == 0 {
		if err != nil {
			c.Violation(site+":well-formed-request-rejected", "empty request failed: %v", err)
		}
		return
	}
	if total > maxBytes {
		w.Count("batch_read_oversize", 1)
		// The configured maximum message size is a promise made to the
		// transport; exceeding it is reported under its own signature.
		if err == nil {
			w.Count("observed_batch_read_oversize_total_accepted", 1) // the statement does not spell out the limit: observed only
			_, _ = total, maxBytes
		}
		return
	}
	if total == maxBytes {
		w.Count("batch_read_exactly_at_limit", 1)
	}
	if err != nil {
		c.Violation(site+":well-formed-request-rejected", "request for %d bytes (maximum %d, entries %v) failed as a whole: %v", total, maxBytes, kinds, err)
		return
	}
	if len(resp.Responses) != len(entries) {
		c.Violation(site+":response-shape", "%d responses for %d digests", len(resp.Responses), len(entries))
		return
	}
	mixed := map[bool]bool{}
	for i, e := range entries {
		rr := resp.Responses[i]
		if !proto.Equal(rr.Digest, e.digest) {
			c.Violation(site+":response-shape", "response %d carries digest %v, request %v", i, rr.Digest, e.digest)
			continue
		}
		code := codes.Code(rr.GetStatus().GetCode())
		w.Count("batch_read_entry_"+e.kind, 1)
		mixed[e.kind == "present"] = true
		switch e.kind {
		case "present":
			if code != codes.OK {
				c.Violation(site+":entry-status", "entry %d is present and intact but reported %v: %s", i, code, rr.GetStatus().GetMessage())
			} else if !bytes.Equal(rr.Data, e.obj.data) {
				c.Violation(site+":delivered-mismatching-data", "entry %d: delivered %s for %s", i, gen.Hex8(rr.Data), e.obj)
			}
		case "corrupt":
			if code == codes.OK {
				c.Violation(site+":entry-status", "entry %d is corrupt in the backend but reported OK (entries %v)", i, kinds)
			}
		default:
			if code == codes.OK {
				c.Violation(site+":entry-status", "entry %d (%s) reported OK (entries %v)", i, e.kind, kinds)
			} else if code != e.wantCode {
				c.Violation(site+":entry-status-code", "entry %d (%s): backend answered %v, reported %v", i, e.kind, e.wantCode, code)
			}
		}
		if code != codes.OK && len(rr.Data) > 0 {
			c.Violation(site+":data-with-error-status", "entry %d carries %d bytes and status %v", i, len(rr.Data), code)
		}
	}
	if mixed[true] && mixed[false] {
		w.Count("batch_read_mixed", 1)
		w.Distinct("br|" + strings.Join(kinds, ","))
	}
}

// ---------------------------------------------------------------------------
// FindMissingBlobs.

func runFindMissing(c *run.Case, w *run.Worker, r *gen.Rng, be *backend, api casAPI) {
	env := genBatchEnv(r)
	n := r.Pick(0, 1, 2, 3, 5, 8, 13, 21)
	var req []*remoteexecution.Digest
	wellFormed := true
	var objs []object
	for i := 0; i < n; i++ {
		o := env.object(r, uint64(c.Index)+13, uint64(w.Index)*1000+uint64(i)+uint64(r.Intn(1<<30))<<10, 200)
		p := o.d.GetProto()
		switch k := r.Intn(12); {
		case k < 1:
			p = malformedProtoDigest(r, p)
			wellFormed = false
		case k < 3 && len(req) > 0:
			j := r.Intn(len(req))
			p = req[j]
			if j < len(objs) {
				o = objs[j]
			}
		case k < 8:
			be.Store.Set(o.d, o.data)
		}
		objs = append(objs, o)
		req = append(req, p)
	}
	reqOK := env.reqOK
	if env.fnField == remoteexecution.DigestFunction_UNKNOWN && len(req) > 0 {
		if len(req[0].GetHash()) != 2*len(objs[0].d.GetHashBytes()) {
			reqOK = false
		}
	}
	// What the backend reports: either the truth about its contents or (hostile)
	// an arbitrary subset of what it was asked; optionally an error.
	mode := r.Intn(8)
	var backendSaid []string
	var backendErr error
	called := 0
	be.mu.Lock()
	be.fmReply = func(set digest.Set) (digest.Set, error) {
		called++
		if mode == 0 {
			backendErr = status.Error(pickCode(r), "injected: backend FindMissing fails")
			return digest.EmptySet, backendErr
		}
		sb := digest.NewSetBuilder(0)
		for _, d := range set.Items() {
			missing := !be.Store.Has(d)
			if mode <= 2 {
				missing = r.Bool()
			}
			if missing {
				sb.Add(d)
				p := d.GetProto()
				backendSaid = append(backendSaid, fmt.Sprintf("%s/%d", p.Hash, p.SizeBytes))
			}
		}
		return sb.Build(), nil
	}
	be.mu.Unlock()
	resp, err := api.findMissing(context.Background(), &remoteexecution.FindMissingBlobsRequest{InstanceName: env.instSent, DigestFunction: env.fnField, BlobDigests: req})
	be.mu.Lock()
	be.fmReply = nil
	be.mu.Unlock()
	site := "contentAddressableStorageServer.FindMissingBlobs"
	c.Logf("FindMissingBlobs[%s](inst=%q fn=%v n=%d wellFormed=%v reqOK=%v mode=%d) -> err=%v missing=%d backendSaid=%d called=%d", api.name, env.instSent, env.fnField, n, wellFormed, reqOK, mode, err, len(resp.GetMissingBlobDigests()), len(backendSaid), called)
	w.Count("find_missing_calls", 1)
	if !reqOK || !wellFormed {
		// A malformed request may fail as a whole; nothing to compare.
		w.Count("find_missing_malformed_request", 1)
		return
	}
	if len(req) == 0 {
		if err != nil || len(resp.GetMissingBlobDigests()) != 0 {
			c.Violation(site+":empty-request", "empty request -> err=%v, %d digests", err, len(resp.GetMissingBlobDigests()))
		}
		return
	}
	if called > 1 {
		c.Violation(site+":backend-calls", "%d backend calls for one request", called)
	}
	if backendErr != nil {
		w.Count("find_missing_backend_error", 1)
		if err == nil {
			c.Violation(site+":backend-error-swallowed", "the backend failed with %v, the RPC returned OK with %d digests", backendErr, len(resp.GetMissingBlobDigests()))
		} else if status.Code(err) != status.Code(backendErr) {
			c.Violation(site+":backend-error-code", "backend failed with %v, RPC with %v", status.Code(backendErr), status.Code(err))
		}
		return
	}
	if err != nil {
		c.Violation(site+":well-formed-request-rejected", "FindMissingBlobs failed: %v", err)
		return
	}
	var got []string
	for _, p := range resp.MissingBlobDigests {
		got = append(got, fmt.Sprintf("%s/%d", p.Hash, p.SizeBytes))
	}
	sort.Strings(got)
	sort.Strings(backendSaid)
	if mode <= 2 {
		w.Count("find_missing_hostile_backend", 1)
	}
	if len(backendSaid) > 0 && len(backendSaid) < len(req) {
		w.Count("find_missing_proper_subset", 1)
		w.Distinct(fmt.Sprintf("fm|%d|%d|%v", len(req), len(backendSaid), env.fn))
	}
	if strings.Join(got, ",") != strings.Join(backendSaid, ",") {
		c.Violation(site+":result-differs-from-backend", "backend reported %d missing %v, RPC returned %d %v", len(backendSaid), backendSaid, len(got), got)
	}
}

// caseBatchDirect runs a few batch calls against one server and backend.
func caseBatch(c *run.Case, w *run.Worker, wire *wireEnv) {
	r := c.Rng
	maxBytes := int64(r.Pick(0, 1, 64, 500, 2000, 10000, 1<<20))
	var be *backend
	var api casAPI
	if wire != nil {
		be = wire.be
		api = wireCAS(remoteexecution.NewContentAddressableStorageClient(wire.conn))
		maxBytes = wire.maxBatch
	} else {
		be = newBackend("backend")
		api = directCAS(grpcservers.NewContentAddressableStorageServer(be, maxBytes))
	}
	c.Desc("batch[%s] maxBatch=%d", api.name, maxBytes)
	for i := r.Range(2, 5); i > 0; i-- {
		be.mu.Lock()
		be.trackers = nil
		be.mu.Unlock()
		switch r.Intn(3) {
		case 0:
			runBatchUpdate(c, w, r, be, api)
		case 1:
			runBatchRead(c, w, r, be, api, maxBytes)
		default:
			runFindMissing(c, w, r, be, api)
		}
	}
}
