package main

import (
	"bytes"
	"context"
	"fmt"
	"math"
	"strings"
	"sync"

	remoteexecution "github.com/bazelbuild/remote-apis/build/bazel/remote/execution/v2"
	"github.com/buildbarn/bb-storage/pkg/blobstore/grpcservers"
	"github.com/buildbarn/bb-storage/pkg/digest"
	"google.golang.org/genproto/googleapis/bytestream"
	"google.golang.org/grpc/codes"
	"google.golang.org/grpc/status"

	"verif/lib/gen"
	"verif/lib/run"
)

// readStream is the stream object handed to byteStreamServer.Read.
type readStream struct {
	fakeServerStream
	mu        sync.Mutex
	delivered bytes.Buffer // data of the messages whose Send succeeded
	sends     int
	maxChunk  int
	failAt    int // Send number failAt (0-based) and all later ones fail; -1: never
	failErr   error
	failed    int
}

func (r *readStream) Send(m *bytestream.ReadResponse) error {
	r.mu.Lock()
	defer r.mu.Unlock()
	n := r.sends
	r.sends++
	if r.failAt >= 0 && n >= r.failAt {
		r.failed++
		return r.failErr
	}
	if len(m.Data) > r.maxChunk {
		r.maxChunk = len(m.Data)
	}
	r.delivered.Write(m.Data)
	return nil
}

type readSpec struct {
	obj       object
	comp      remoteexecution.Compressor_Value
	present   bool
	plan      *getPlan // nil when absent
	corrupt   string   // "", "flip", "short", "long"
	name      string
	nameOK    bool
	offset    int64
	limit     int64
	chunkSize int
	sendErrAt int
	getErr    error
	poolFail  bool
}

func malformedReadName(r *gen.Rng, d digest.Digest) string {
	p := d.GetProto()
	inst := d.GetInstanceName().String()
	pre := ""
	if inst != "" {
		pre = inst + "/"
	}
	switch r.Intn(9) {
	case 0:
		return ""
	case 1: // no blobs component
		return fmt.Sprintf("%s%s/%d", pre, p.Hash, p.SizeBytes)
	case 2:
		return fmt.Sprintf("%sblobs/%s/%d", pre, p.Hash[1:], p.SizeBytes)
	case 3:
		return fmt.Sprintf("%sblobs/%s/%d", pre, "z"+p.Hash[1:], p.SizeBytes)
	case 4:
		return fmt.Sprintf("%sblobs/%s/-%d", pre, p.Hash, p.SizeBytes+1)
	case 5:
		return fmt.Sprintf("%sblobs/%s/", pre, p.Hash)
	case 6:
		return fmt.Sprintf("%scompressed-blobs/%s/%s/%d", pre, []string{"lz4", "deflate", "brotli", "Zstd"}[r.Intn(4)], p.Hash, p.SizeBytes)
	case 7:
		return fmt.Sprintf("%s%s/blobs/%s/%d", pre, []string{"uploads", "operations", "actions", "capabilities"}[r.Intn(4)], p.Hash, p.SizeBytes)
	default:
		return fmt.Sprintf("%sblobs/%s/%dx", pre, p.Hash, p.SizeBytes)
	}
}

func pickOffset(r *gen.Rng, size int64) int64 {
	switch k := r.Intn(20); {
	case k < 3:
		return 0
	case k < 5:
		return size
	case k < 6:
		return size + 1
	case k < 7:
		return -1
	case k < 8:
		return []int64{math.MinInt64, math.MaxInt64, size + 1<<20, -size - 1, 1 << 40}[r.Intn(5)]
	case k < 10 && size > 1:
		return size - 1
	case k < 12 && size > 0:
		return 1
	default:
		return int64(r.Range(0, int(size)))
	}
}

// runRead executes one ByteStream Read directly against the server and checks it.
func runRead(c *run.Case, w *run.Worker, r *gen.Rng, sp *readSpec, quiet bool) {
	be := newBackend("backend")
	pool := newPool(r)
	if quiet {
		pool = poolByIndex(0)
	}
	srv := grpcservers.NewByteStreamServer(be, sp.chunkSize, pool)
	if sp.present {
		be.Store.Set(sp.obj.d, sp.plan.data)
		be.plans[sp.obj.d.String()] = sp.plan
	}
	if sp.getErr != nil {
		be.getErr[sp.obj.d.String()] = sp.getErr
	}
	pool.failEnc.Store(sp.poolFail)
	rs := &readStream{fakeServerStream: fakeServerStream{ctx: context.Background()}, failAt: sp.sendErrAt, failErr: status.Error(codes.Unavailable, "injected: transport is closing")}
	err := srv.Read(&bytestream.ReadRequest{ResourceName: sp.name, ReadOffset: sp.offset, ReadLimit: sp.limit}, rs)
	sent := rs.delivered.Bytes()
	comp := compName(sp.comp)
	site := "byteStreamServer.Read(" + comp + ")"
	if !sp.nameOK {
		site = "byteStreamServer.Read(name)"
	}
	if !quiet {
		c.Logf("Read(%q off=%d limit=%d chunk=%d) -> err=%v sends=%d delivered=%d bytes", sp.name, sp.offset, sp.limit, sp.chunkSize, err, rs.sends, len(sent))
	}

	// Resources.
	for _, p := range be.releaseProblems() {
		c.Violation(site+":backend-buffer-release-count", "%s (read offset %d, err=%v)", p, sp.offset, err)
	}
	if n := pool.encOut.Load(); n != 0 {
		c.Violation("byteStreamServer.Read(zstd):encoder-not-returned-to-pool", "%d encoders still checked out after Read returned (%v)", n, err)
	}
	w.Count("read_"+comp, 1)

	size := int64(len(sp.obj.data))
	// What has been delivered, decoded.
	decoded := sent
	var decErr error
	if sp.comp == remoteexecution.Compressor_ZSTD && sp.nameOK {
		decoded, decErr = zstdStreamDecode(sent)
	}
	data := sp.obj.data
	inRange := sp.offset >= 0 && sp.offset <= size
	var suffix []byte
	if inRange {
		suffix = data[sp.offset:]
	}
	// wrongBytes classifies delivered bytes that are not (a prefix of) the suffix.
	wrongBytes := func(what string) {
		whole := data // what the backend holds from offset 0
		if sp.plan != nil {
			whole = sp.plan.data
		}
		if sp.comp == remoteexecution.Compressor_ZSTD && sp.offset != 0 && len(decoded) > 0 && isPrefix(decoded, whole) {
			c.Violation("byteStreamServer.Read(zstd):read-offset-ignored", "compressed read of %s at offset %d delivered %d bytes that are the object from offset 0 (%s)", sp.obj, sp.offset, len(decoded), what)
			return
		}
		if !inRange {
			c.Violation(site+":data-for-out-of-range-offset", "read of a %d-byte object at offset %d delivered %d bytes (%s)", size, sp.offset, len(decoded), what)
			return
		}
		c.Violation(site+":wrong-bytes", "read of %s at offset %d delivered %s, want (a prefix of) %s (%s)", sp.obj, sp.offset, gen.Hex8(decoded), gen.Hex8(suffix), what)
	}

	faulty := sp.sendErrAt >= 0 || sp.getErr != nil || sp.poolFail || sp.corrupt != "" || (sp.plan != nil && sp.plan.failErr != nil)
	switch {
	case !sp.nameOK:
		w.Count("read_malformed_name", 1)
		if err == nil {
			c.Violation(site+":malformed-name-accepted", "Read(%q) succeeded", sp.name)
		}
		if len(sent) > 0 {
			c.Violation(site+":data-for-malformed-name", "Read(%q) delivered %d bytes", sp.name, len(sent))
		}
	case sp.limit != 0:
		// Outside the statement; whatever is delivered must still be right.
		w.Count("read_with_limit", 1)
		if !isPrefix(decoded, suffix) {
			wrongBytes("read_limit set")
		}
	case !sp.present && sp.getErr == nil:
		w.Count("read_absent", 1)
		if err == nil {
			c.Violation(site+":absent-object-read-succeeded", "Read of an object the backend does not hold returned OK")
		}
		if len(decoded) > 0 {
			c.Violation(site+":data-for-absent-object", "Read of an absent object delivered %d bytes", len(decoded))
		}
	case faulty:
		w.Count("read_faulty", 1)
		if sp.corrupt != "" {
			w.Count("read_corrupt_backend_object", 1)
		}
		if sp.sendErrAt >= 0 && rs.failed > 0 {
			w.Count("read_send_error_hit", 1)
		}
		// The delivered bytes must be a prefix of what the backend holds from
		// the offset on (for a corrupt object: of what the backend delivered);
		// a failing backend or a corrupt object must not end in OK.
		ref := suffix
		if sp.corrupt != "" && inRange && sp.offset <= int64(len(sp.plan.data)) {
			ref = sp.plan.data[sp.offset:]
		}
		if sp.comp == remoteexecution.Compressor_ZSTD && len(decoded) == 0 {
			// nothing decodable delivered: fine
		} else if !isPrefix(decoded, ref) {
			wrongBytes("faulty run")
		}
		backendBroken := sp.getErr != nil || sp.corrupt != "" || (sp.plan != nil && sp.plan.failErr != nil) || sp.poolFail
		if backendBroken && err == nil && rs.failed == 0 {
			c.Violation(site+":backend-failure-reported-as-success", "Read returned OK although the backend object is broken (getErr=%v corrupt=%q streamErr=%v poolFail=%v)", sp.getErr, sp.corrupt, sp.plan != nil && sp.plan.failErr != nil, sp.poolFail)
		}
	case inRange:
		w.Count("read_in_range", 1)
		if sp.offset > 0 && sp.offset < size {
			w.Count("read_inner_offset_"+comp, 1)
		}
		w.Distinct(fmt.Sprintf("read|%s|%d|%d|%d", comp, size, sp.offset, sp.chunkSize))
		if sp.offset == size {
			// Empty suffix: OK-and-nothing or an error are both fine.
			if len(decoded) > 0 {
				wrongBytes("offset == size")
			}
			break
		}
		if err != nil {
			c.Violation(site+":read-failed", "Read of %s at offset %d failed: %v", sp.obj, sp.offset, err)
			break
		}
		if decErr != nil {
			c.Violation(site+":undecodable-stream", "the compressed stream delivered for %s at offset %d does not decode: %v", sp.obj, sp.offset, decErr)
			break
		}
		if !bytes.Equal(decoded, suffix) {
			wrongBytes("complete run")
		}
	default:
		w.Count("read_out_of_range", 1)
		w.Distinct(fmt.Sprintf("read-oor|%s|%d|%d", comp, size, sp.offset))
		if len(decoded) > 0 || (sp.comp == remoteexecution.Compressor_IDENTITY && len(sent) > 0) {
			wrongBytes("offset outside the object")
		}
	}
}

func genReadSpec(r *gen.Rng, obj object) *readSpec {
	sp := &readSpec{obj: obj, comp: remoteexecution.Compressor_IDENTITY, present: r.Chance(9, 10), nameOK: true, sendErrAt: -1}
	if r.Bool() {
		sp.comp = remoteexecution.Compressor_ZSTD
	}
	size := int64(len(obj.data))
	sp.name = obj.d.GetByteStreamReadPath(sp.comp)
	if r.Chance(1, 12) {
		sp.name = malformedReadName(r, obj.d)
		sp.nameOK = false
	}
	sp.offset = pickOffset(r, size)
	if r.Chance(1, 30) {
		sp.limit = int64(r.Pick(1, 5, -1, 1<<20))
	}
	sp.chunkSize = r.Pick(1, 2, 7, 64, 1000, 4096, 65536, 65536)
	if sp.chunkSize < 64 && size > 20000 {
		sp.chunkSize = 4096
	}
	if sp.present {
		sp.plan = &getPlan{data: obj.data, chunks: chunkLens(r, len(obj.data), true)}
		if r.Chance(1, 8) {
			switch k := r.Intn(3); {
			case k == 0 && size > 0:
				sp.corrupt = "flip"
				d := append([]byte(nil), obj.data...)
				d[r.Intn(len(d))] ^= 0x20
				sp.plan.data = d
			case k == 1 && size > 0:
				sp.corrupt = "short"
				sp.plan.data = obj.data[:len(obj.data)-r.Range(1, min(len(obj.data), 4))]
			default:
				sp.corrupt = "long"
				sp.plan.data = append(append([]byte(nil), obj.data...), r.Bytes(r.Range(1, 4))...)
			}
			sp.plan.chunks = chunkLens(r, len(sp.plan.data), true)
		}
		if r.Chance(1, 8) {
			sp.plan.failAt = r.Range(0, len(sp.plan.data))
			sp.plan.failErr = status.Error(pickCode(r), "injected: backend stream broke")
		}
	}
	if r.Chance(1, 25) {
		sp.getErr = status.Error(pickCode(r), "injected: backend Get fails")
	}
	if r.Chance(1, 8) {
		sp.sendErrAt = r.Pick(0, 0, 1, 2, 5)
	}
	if sp.comp == remoteexecution.Compressor_ZSTD && r.Chance(1, 25) {
		sp.poolFail = true
	}
	return sp
}

func (sp *readSpec) describe() string {
	var f []string
	if !sp.present {
		f = append(f, "absent")
	}
	if sp.corrupt != "" {
		f = append(f, "corrupt-"+sp.corrupt)
	}
	if sp.plan != nil && sp.plan.failErr != nil {
		f = append(f, fmt.Sprintf("backend-fails-at-%d", sp.plan.failAt))
	}
	if sp.getErr != nil {
		f = append(f, "get-error")
	}
	if sp.sendErrAt >= 0 {
		f = append(f, fmt.Sprintf("send-fails-at-%d", sp.sendErrAt))
	}
	if sp.poolFail {
		f = append(f, "pool-fail")
	}
	return fmt.Sprintf("read %s obj=%v off=%d limit=%d chunk=%d %s name=%q", compName(sp.comp), sp.obj, sp.offset, sp.limit, sp.chunkSize, strings.Join(f, ","), sp.name)
}

func caseReadDirect(c *run.Case, w *run.Worker) {
	r := c.Rng
	big := 120000
	if w.Thorough() {
		big = 204800
	}
	obj := genObject(r, uint64(c.Index)+1, uint64(w.Index)+100, big)
	sp := genReadSpec(r, obj)
	c.Desc("%s", sp.describe())
	runRead(c, w, r, sp, false)
	if c.Index < 1 {
		w.Sample(map[string]any{"engine": "read-direct", "case": sp.describe()})
	}
}

// caseReadExhaustive reads one small object at EVERY offset in [-1, size+1],
// identity and zstd, with several chunk sizes.
func caseReadExhaustive(c *run.Case, w *run.Worker, size int) {
	r := c.Rng
	obj := genObjectSized(r, 0xe0, uint64(size), size, []remoteexecution.DigestFunction_Value{remoteexecution.DigestFunction_SHA256, remoteexecution.DigestFunction_MD5, remoteexecution.DigestFunction_BLAKE3})
	c.Desc("read-exhaustive size=%d obj=%v", size, obj)
	chunkSizes := []int{1, 3, size + 1, 65536}
	for _, comp := range []remoteexecution.Compressor_Value{remoteexecution.Compressor_IDENTITY, remoteexecution.Compressor_ZSTD} {
		for _, cs := range chunkSizes {
			for off := int64(-1); off <= int64(size)+1; off++ {
				sp := &readSpec{obj: obj, comp: comp, present: true, nameOK: true, sendErrAt: -1, offset: off, chunkSize: cs,
					name: obj.d.GetByteStreamReadPath(comp), plan: &getPlan{data: obj.data, chunks: chunkLens(r, size, true)}}
				runRead(c, w, r, sp, true)
				w.Count("read_exhaustive_reads", 1)
			}
		}
	}
}
