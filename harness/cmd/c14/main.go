// C14 — ByteStream / CAS / AC RPCs: uploads atomic and verified, reads return
// the exact suffix, batch calls report per-object status, FindMissingBlobs
// returns exactly what the backend reports, client+server back to back behave
// like the backend they front.
//
// Engines (all run the real grpcservers / grpcclients / zstd pool code):
//
//	write_direct    byteStreamServer.Write driven with a hand-written stream
//	                object: scripts from a grammar of hostile message sequences
//	                (write.go), judged by a reference evaluation of the script.
//	write_wire      the same scripts sent by the generated stub over an
//	                in-memory gRPC connection (real stream semantics, client
//	                cancellation as the "stream error").
//	read_direct     byteStreamServer.Read with tracked, chunked, failing or
//	                corrupt backend buffers, failing Send, identity and zstd.
//	read_exhaustive every offset in [-1,size+1] of small objects.
//	batch_direct /  BatchUpdateBlobs, BatchReadBlobs, FindMissingBlobs with mixed
//	batch_wire      entries and a scripted (also lying) backend.
//	b2b             grpcclients.NewCASBlobAccess <-> servers over bufconn,
//	                compared operation by operation with the same operation
//	                on an identical backend used directly.
//	cfg_frontend    the fronting BlobAccess built by pkg/blobstore/configuration
//	                (decorator stack over `grpc {}`), the same content under
//	                several instance names, compared with a twin backend (cfg.go).
//	ac              the same for NewACBlobAccess <-> ActionCacheServer.
//	concurrent      several goroutines on one client connection (-race).
//
// The backend is lib/model.Store wrapped by `backend` (common.go). zstd pools:
// a harness free-list pool (most cases: building a zstd encoder costs 100-600 ms
// under -race) and the repository's bounded / unbounded pools (a minority of
// the cases), each wrapped by a counting pool that checks acquire/release.
//
// Debugging aids: C14_ONLY=<group>[,<group>] runs only those groups;
// C14_STACKDUMP_S=<n> dumps all goroutines of a b2b case running longer.
//
//verif:race
package main

import (
	"os"
	"strings"
	"time"

	"verif/lib/run"
)

func main() {
	run.Main(run.Spec{
		Property: "C14",
		Level:    "exploration",
		Rule: "write case = one object (0..200 KiB, 8 digest functions, 4 instance names, compressible or not) x identity|zstd x a WriteRequest script built from a valid chunking (<=97 messages, empty chunks, finish_write on the last data message or on its own) with 0-3 mutations out of " +
			"{first offset != 0, all offsets shifted, gap, overlap, dropped message, duplicated message, missing / early finish_write, messages after finish_write, flipped / short / long content, size in name off by one, malformed resource name, truncated / corrupted zstd stream, stream error before / after finish, no message at all, backend error before / after consuming, cancelled context, decoder unavailable}; " +
			"read case = object x identity|zstd x read offset (boundaries, inner, out of range, extreme) x chunk size x backend chunking x {absent, corrupt, backend stream error at byte i, Get error, Send error at message j, encoder unavailable, malformed name, read_limit}; " +
			"batch case = 2-5 calls of BatchUpdateBlobs/BatchReadBlobs/FindMissingBlobs with 0-21 entries mixing valid, mismatching, malformed, duplicate, absent, corrupt and backend-failing objects, explicit or inferred digest function, size limits 0..1 MiB, truthful or lying backend; " +
			"back-to-back case = 4-12 Put/Get/FindMissing operations through client+server and on a twin backend, with identical injected faults, zstd negotiated or not; " +
			"configured-frontend case = a BlobAccessConfiguration (0-3 layers of existence_caching {size 1..1000, FIFO|LRU|RR} / deadline_enforcing over grpc {compression on|off}, leaf inline or behind a label) built by NewBlobAccessFromConfiguration against an in-memory storage node, used directly or through a second server+client hop, " +
			"x 1-3 contents each addressed under 2-4 instance names x 5-12 Put/Get/FindMissing operations with identical injected faults on a twin backend, then one FindMissing per instance name; " +
			"distinct = (engine, compressor, reference defect class) for uploads, (compressor, size, offset, chunk size) for reads, entry-kind vectors for batch calls, (operation, result code, mode) for back-to-back; non-trivial = every case (each involves at least one protocol decision)",
		Workers:     8,
		CaseTimeout: 300 * time.Second, // the machine is shared; a hang is still caught by the dump test
		Race:        true,
		Floors: map[string]int64{
			"write_valid":                                   150,
			"write_invalid_rejected":                        250,
			"write_invalid_only_first-offset-nonzero":       25,
			"write_invalid_only_offset-gap":                 10,
			"write_invalid_only_offset-overlap":             8,
			"write_invalid_only_no-finish-write":            12,
			"write_invalid_only_content-mismatch":           12,
			"write_invalid_only_size-mismatch":              25,
			"write_invalid_only_zstd-stream-invalid":        10,
			"write_invalid_only_malformed-resource-name":    20,
			"write_invalid_only_stream-error-before-finish": 20,
			"write_ambiguous_messages-after-finish":         25,
			"write_stored_zstd":                             80,
			"write_stored_identity":                         80,
			"write_wire_scripts":                            60,
			"read_inner_offset_identity":                    400,
			"read_inner_offset_zstd":                        400,
			"read_out_of_range":                             100,
			"read_faulty":                                   60,
			"read_exhaustive_reads":                         3000,
			"batch_update_mixed":                            100,
			"batch_read_mixed":                              35,
			"batch_read_oversize":                           50,
			"find_missing_proper_subset":                    60,
			"find_missing_hostile_backend":                  25,
			"b2b_ops":                                       300,
			"b2b_failing_ops":                               150,
			"b2b_zstd_negotiated":                           15,
			"ac_ops":                                        100,
			"cfg_ops":                                       800,
			"cfg_cases_with_existence_cache":                50,
			"cfg_cases_two_hop":                             15,
			// FindMissing asked for a digest the backend lacks under that instance
			// name after a cached stack had reported the same content present under
			// another one: the history in which an instance-blind decorator shows.
			"cfg_fm_absent_here_reported_present_elsewhere": 80,
			"concurrent_roundtrips":                         60,
		},
		Assumptions: []string{
			"the backend behind the servers consumes an upload completely before storing it (lib/model.Store), so the validation built into the buffer handed to Put decides; a backend that acknowledges without reading is outside this check",
			"only the resource name of the first WriteRequest counts; later names are ignored (they are varied, never judged)",
			"messages after the finishing one, a stream error after it and a context cancelled before the call are 'ambiguous': success-and-stored and failure-and-nothing-stored are both accepted",
			"the zstd library (klauspost) is trusted; the reference decodes with its own streaming decoder instance",
			"instance names avoid '.' and '..' components (P6 belongs to C20)",
			"status codes are compared only where the backend's own status is relayed (batch entry status, FindMissingBlobs errors, back-to-back differential)",
			"configured frontend: the fronted backend never loses or evicts an object, so an existence cache is transparent; objects have at least one byte (the configuration layer answers for the empty blob itself, by design); a FindMissing answered from the cache while the backend fails is counted, not flagged",
		},
		Body: body,
	})
}

// only returns n, or 0 when the debugging aid C14_ONLY=<group>[,<group>...] leaves the group out.
func only(group string, n int) int {
	if g := os.Getenv("C14_ONLY"); g != "" && !strings.Contains(","+g+",", ","+group+",") {
		return 0
	}
	return n
}

func body(w *run.Worker) {
	w.Cases("write_direct", only("write_direct", w.N(2000, 50000)), func(c *run.Case) { caseWriteDirect(c, w) })
	w.Cases("read_direct", only("read_direct", w.N(1200, 20000)), func(c *run.Case) { caseReadDirect(c, w) })
	// Every offset of every small size: sizes are dealt round-robin to the workers.
	maxSize := 31
	if w.Thorough() {
		maxSize = 127
	}
	perWorker := (maxSize + 1 + w.Workers - 1) / w.Workers
	complete := true
	w.Cases("read_exhaustive", only("read_exhaustive", perWorker), func(c *run.Case) {
		size := int(c.Index)*w.Workers + w.Index
		if size > maxSize {
			return
		}
		caseReadExhaustive(c, w, size)
	})
	w.Exhaustive("read_offsets_of_small_objects", complete)
	w.Cases("batch_direct", only("batch_direct", w.N(800, 15000)), func(c *run.Case) { caseBatch(c, w, nil) })
	w.Cases("batch_wire", only("batch_wire", w.N(96, 1500)), func(c *run.Case) {
		env := newWireEnv(c.Rng, true)
		defer env.drain()
		caseBatch(c, w, env)
	})
	w.Cases("write_wire", only("write_wire", w.N(320, 5000)), func(c *run.Case) { caseWriteWire(c, w) })
	w.Cases("b2b", only("b2b", w.N(200, 4000)), func(c *run.Case) { caseBackToBack(c, w) })
	w.Cases("cfg_frontend", only("cfg_frontend", w.N(128, 2400)), func(c *run.Case) { caseConfiguredFrontend(c, w) })
	w.Cases("ac", only("ac", w.N(96, 1200)), func(c *run.Case) { caseActionCache(c, w) })
	w.Cases("concurrent", only("concurrent", w.N(16, 200)), func(c *run.Case) { caseConcurrent(c, w) })
}
