package main

import (
	"bytes"
	"context"
	"fmt"
	"io"
	"sort"
	"strings"
	"sync"

	remoteexecution "github.com/bazelbuild/remote-apis/build/bazel/remote/execution/v2"
	"github.com/buildbarn/bb-storage/pkg/blobstore/grpcservers"
	"github.com/buildbarn/bb-storage/pkg/digest"
	"github.com/google/uuid"
	"google.golang.org/genproto/googleapis/bytestream"
	"google.golang.org/grpc/codes"
	"google.golang.org/grpc/status"

	"verif/lib/gen"
	"verif/lib/model"
	"verif/lib/run"
)

// ---------------------------------------------------------------------------
// Write scripts.

type wmsg struct {
	name   string
	off    int64
	data   []byte
	finish bool
}

type wscript struct {
	obj     object
	comp    remoteexecution.Compressor_Value
	nameOK  bool          // first resource name is well-formed
	nameD   digest.Digest // digest named by the first resource name (when nameOK)
	msgs    []wmsg
	termErr error    // nil: the client half-closes after msgs; else Recv fails with it
	applied []string // mutations applied by the generator (description only)
	// faults outside the message sequence
	backendErr   error // backend Put fails
	afterConsume error // backend fails after consuming the upload
	ctxCancelled bool
	poolFail     bool
	prePopulated bool
}

func compName(c remoteexecution.Compressor_Value) string {
	if c == remoteexecution.Compressor_ZSTD {
		return "zstd"
	}
	return "identity"
}

// verdict of the reference evaluation of a script.
type verdict struct {
	kind    string   // "valid", "invalid", "ambiguous"
	defects []string // why invalid (sorted)
	// for valid/ambiguous: the number of payload bytes up to and including the
	// finishing message.
	payloadBytes int64
	why          string // why ambiguous
}

// evaluate is the reference: it decides from the message sequence alone
// whether the property's precondition for storing holds: contiguous offsets
// starting at zero, finished with finish_write, (decompressed) concatenation
// matching the digest in the resource name. Messages after the finishing one
// (and a stream error / cancellation after it) make the script "ambiguous":
// the statement does not say whether they must be rejected or ignored, so both
// outcomes are accepted as long as the outcome is atomic.
func evaluate(s *wscript) verdict {
	if !s.nameOK {
		return verdict{kind: "invalid", defects: []string{"malformed-resource-name"}}
	}
	defs := map[string]bool{}
	if len(s.msgs) == 0 {
		if s.termErr != nil {
			defs["stream-error-before-finish"] = true
		} else {
			defs["no-messages"] = true
		}
	}
	expect := int64(0)
	var payload []byte
	finishedAt := -1
	for i, m := range s.msgs {
		if m.off != expect {
			switch {
			case i == 0:
				defs["first-offset-nonzero"] = true
			case m.off > expect:
				defs["offset-gap"] = true
			default:
				defs["offset-overlap"] = true
			}
		}
		// "contiguous offsets starting at zero": the offset of message i must
		// be the number of bytes sent in messages 0..i-1.
		expect += int64(len(m.data))
		payload = append(payload, m.data...)
		if m.finish {
			finishedAt = i
			break
		}
	}
	if finishedAt < 0 && len(s.msgs) > 0 {
		if s.termErr != nil {
			defs["stream-error-before-finish"] = true
		} else {
			defs["no-finish-write"] = true
		}
	}
	brokenTail := false
	if finishedAt >= 0 {
		decoded := payload
		if s.comp == remoteexecution.Compressor_ZSTD {
			d, err := zstdStreamDecode(payload)
			switch {
			case err == nil:
				decoded = d
			case s.nameD == s.obj.d && (len(s.obj.data) == 0 || bytes.Equal(d, s.obj.data)):
				// The stream decodes to exactly the object and breaks only
				// after that (a truncated or garbage tail), or the object is
				// the empty one and the stream breaks somewhere (how much a
				// decoder hands out before it reports the break is its own
				// business). What would be stored matches the digest, so the
				// statement is not violated either way: ambiguous.
				// (casValidatingReader, once it has all the bytes it expects,
				// accepts a decoder error io.ErrUnexpectedEOF as end of stream.)
				decoded = s.obj.data
				brokenTail = true
			default:
				defs["zstd-stream-invalid"] = true
				decoded = nil
			}
		}
		if !defs["zstd-stream-invalid"] {
			if s.nameD != s.obj.d {
				defs["digest-in-name-mismatch"] = true
			} else if len(decoded) != len(s.obj.data) {
				defs["size-mismatch"] = true
			} else if !bytes.Equal(decoded, s.obj.data) {
				defs["content-mismatch"] = true
			}
		}
	}
	if s.backendErr != nil || s.afterConsume != nil {
		defs["backend-error"] = true
	}
	if s.poolFail && s.comp == remoteexecution.Compressor_ZSTD {
		defs["decoder-unavailable"] = true
	}
	if len(defs) > 0 {
		v := verdict{kind: "invalid"}
		for d := range defs {
			v.defects = append(v.defects, d)
		}
		sort.Strings(v.defects)
		return v
	}
	v := verdict{kind: "valid", payloadBytes: int64(len(payload))}
	switch {
	case brokenTail:
		v.kind, v.why = "ambiguous", "zstd-stream-broken-after-complete-data"
	case finishedAt < len(s.msgs)-1:
		v.kind, v.why = "ambiguous", "messages-after-finish"
	case s.termErr != nil:
		v.kind, v.why = "ambiguous", "stream-error-after-finish"
	case s.ctxCancelled:
		v.kind, v.why = "ambiguous", "context-cancelled"
	}
	return v
}

func (s *wscript) describe() string {
	var b strings.Builder
	fmt.Fprintf(&b, "%s obj=%v mut=%v", compName(s.comp), s.obj, s.applied)
	for i, m := range s.msgs {
		if i >= 12 {
			fmt.Fprintf(&b, " …(%d msgs)", len(s.msgs))
			break
		}
		fmt.Fprintf(&b, " [off=%d len=%d", m.off, len(m.data))
		if m.finish {
			b.WriteString(" FIN")
		}
		if i > 0 && m.name != "" {
			b.WriteString(" name")
		}
		b.WriteString("]")
	}
	if s.termErr != nil {
		fmt.Fprintf(&b, " then %v", status.Code(s.termErr))
	} else {
		b.WriteString(" then EOF")
	}
	if s.backendErr != nil || s.afterConsume != nil {
		b.WriteString(" backend-error")
	}
	if s.ctxCancelled {
		b.WriteString(" ctx-cancelled")
	}
	if s.poolFail {
		b.WriteString(" pool-fail")
	}
	if len(s.msgs) > 0 {
		fmt.Fprintf(&b, " name=%q", s.msgs[0].name)
	}
	return b.String()
}

func rngUUID(r *gen.Rng) uuid.UUID {
	u, _ := uuid.FromBytes(r.Bytes(16))
	return u
}

// malformedWriteName returns a resource name that does not follow
// {instance}/uploads/{uuid}/[compressed-]blobs/.../{hash}/{size}.
func malformedWriteName(r *gen.Rng, good string, d digest.Digest) string {
	p := d.GetProto()
	inst := d.GetInstanceName().String()
	pre := ""
	if inst != "" {
		pre = inst + "/"
	}
	u := rngUUID(r).String()
	switch r.Intn(11) {
	case 0:
		return ""
	case 1: // no uploads component
		return fmt.Sprintf("%sblobs/%s/%d", pre, p.Hash, p.SizeBytes)
	case 2: // hash one character short
		return fmt.Sprintf("%suploads/%s/blobs/%s/%d", pre, u, p.Hash[1:], p.SizeBytes)
	case 3: // non-hexadecimal hash
		return fmt.Sprintf("%suploads/%s/blobs/%s/%d", pre, u, "g"+p.Hash[1:], p.SizeBytes)
	case 4: // upper-case hash
		return fmt.Sprintf("%suploads/%s/blobs/%s/%d", pre, u, strings.ToUpper(p.Hash[:len(p.Hash)-1])+"F", p.SizeBytes)
	case 5: // negative size
		return fmt.Sprintf("%suploads/%s/blobs/%s/-%d", pre, u, p.Hash, p.SizeBytes+1)
	case 6: // non-numeric size
		return fmt.Sprintf("%suploads/%s/blobs/%s/x%d", pre, u, p.Hash, p.SizeBytes)
	case 7: // size overflow
		return fmt.Sprintf("%suploads/%s/blobs/%s/99999999999999999999", pre, u, p.Hash)
	case 8: // unsupported compressor
		return fmt.Sprintf("%suploads/%s/compressed-blobs/%s/%s/%d", pre, u, []string{"lz4", "deflate", "brotli", "ZSTD"}[r.Intn(4)], p.Hash, p.SizeBytes)
	case 9: // reserved keyword inside the instance name
		return fmt.Sprintf("%s%s/uploads/%s/blobs/%s/%d", pre, []string{"blobs", "operations", "actions", "capabilities", "compressed-blobs"}[r.Intn(5)], u, p.Hash, p.SizeBytes)
	default: // too few components
		return fmt.Sprintf("%suploads/%s/blobs", pre, u)
	}
}

// genWriteScript builds a script. mutate=false yields a script the property
// requires to be stored.
func genWriteScript(r *gen.Rng, obj object, comp remoteexecution.Compressor_Value, mutate bool, allowFaults bool) *wscript {
	s := &wscript{obj: obj, comp: comp, nameOK: true, nameD: obj.d}
	data := obj.data
	nmut := 0
	if mutate {
		nmut = r.Pick(1, 1, 1, 1, 2, 2, 3)
	}
	muts := map[string]bool{}
	all := []string{"first-offset", "first-offset", "gap", "overlap", "drop-message", "dup-message", "no-finish", "early-finish",
		"content", "short", "long", "name-size", "bad-name", "stream-error", "empty-stream", "trailing", "trailing",
		"stream-error-after-finish", "zstd-truncated", "zstd-corrupt", "backend-error", "after-consume-error", "ctx-cancelled", "pool-fail", "shift-all"}
	for len(muts) < nmut {
		m := all[r.Intn(len(all))]
		if !allowFaults && (m == "backend-error" || m == "after-consume-error" || m == "ctx-cancelled" || m == "pool-fail") {
			continue
		}
		if comp != remoteexecution.Compressor_ZSTD && (m == "zstd-truncated" || m == "zstd-corrupt" || m == "pool-fail") {
			continue
		}
		muts[m] = true
	}
	for m := range muts {
		s.applied = append(s.applied, m)
	}
	sort.Strings(s.applied)

	// Content-level mutations.
	content := data
	switch {
	case muts["content"] && len(data) > 0:
		content = append([]byte(nil), data...)
		content[r.Intn(len(content))] ^= byte(1 << uint(r.Intn(8)))
	case muts["short"] && len(data) > 0:
		content = data[:len(data)-r.Range(1, min(len(data), 5))]
	case muts["long"] || muts["content"] || muts["short"]:
		content = append(append([]byte(nil), data...), r.Bytes(r.Range(1, 5))...)
	}
	payload := content
	if comp == remoteexecution.Compressor_ZSTD {
		if len(content) > 1 && r.Chance(1, 5) { // two concatenated frames
			h := r.Range(1, len(content)-1)
			payload = append(zstdEncode(content[:h]), zstdEncode(content[h:])...)
		} else {
			payload = zstdEncode(content)
		}
		if muts["zstd-truncated"] && len(payload) > 0 {
			payload = payload[:len(payload)-r.Range(1, min(len(payload), 6))]
		}
		if muts["zstd-corrupt"] && len(payload) > 12 {
			payload = append([]byte(nil), payload...)
			payload[r.Range(8, len(payload)-1)] ^= byte(1 << uint(r.Intn(8)))
		}
	}

	// Resource name.
	nameD := obj.d
	if muts["name-size"] {
		p := obj.d.GetProto()
		sz := p.SizeBytes + 1
		if p.SizeBytes > 0 && r.Bool() {
			sz = p.SizeBytes - 1
		}
		nameD = digest.MustNewDigest(obj.inst, obj.fn, p.Hash, sz)
	}
	s.nameD = nameD
	name := nameD.GetByteStreamWritePath(rngUUID(r), comp)
	if r.Chance(1, 8) { // the optional trailing ${path} of the format
		name += "/some/file.txt"
	}
	if muts["bad-name"] {
		name = malformedWriteName(r, name, nameD)
		s.nameOK = false
	}

	// Messages with contiguous offsets.
	lens := chunkLens(r, len(payload), true)
	if len(lens) == 0 {
		lens = []int{0}
	}
	off := 0
	for _, l := range lens {
		s.msgs = append(s.msgs, wmsg{off: int64(off), data: payload[off : off+l]})
		off += l
	}
	if r.Chance(1, 2) { // finish_write on a message of its own, as this repository's client does
		s.msgs = append(s.msgs, wmsg{off: int64(off)})
	}
	s.msgs[len(s.msgs)-1].finish = true
	// Resource name: required on the first message only; later ones may repeat
	// it, leave it out, or (hostile) name something else. Only the first counts.
	other := gen.SHA256Digest(obj.inst, []byte("some other object")).GetByteStreamWritePath(rngUUID(r), comp)
	nameMode := r.Intn(4)
	for i := range s.msgs {
		switch {
		case i == 0 || nameMode == 1:
			s.msgs[i].name = name
		case nameMode == 2 && r.Chance(1, 3):
			s.msgs[i].name = other
		case nameMode == 3 && r.Bool():
			s.msgs[i].name = name
		}
	}

	// Protocol-level mutations.
	n := len(s.msgs)
	if muts["first-offset"] {
		k := int64(r.Pick(1, 1, 2, 7, 100, 1<<20, -1, -5))
		if r.Chance(1, 6) && len(s.msgs[0].data) > 0 {
			k = int64(len(s.msgs[0].data))
		}
		s.msgs[0].off = k
	}
	if muts["shift-all"] {
		k := int64(r.Pick(1, 3, 64, 4096))
		for i := range s.msgs {
			s.msgs[i].off += k
		}
	}
	if muts["gap"] && n > 1 {
		i := r.Range(1, n-1)
		g := int64(r.Pick(1, 1, 2, 16, 1<<16))
		if r.Bool() { // only this message
			s.msgs[i].off += g
		} else { // and everything after it, consistently
			for j := i; j < n; j++ {
				s.msgs[j].off += g
			}
		}
	}
	if muts["overlap"] && n > 1 {
		i := r.Range(1, n-1)
		if s.msgs[i].off > 0 {
			g := int64(r.Range(1, int(min64(s.msgs[i].off, 8))))
			if r.Chance(1, 4) {
				g = s.msgs[i].off // back to zero
			}
			if r.Bool() {
				s.msgs[i].off -= g
			} else {
				for j := i; j < n; j++ {
					s.msgs[j].off -= g
				}
			}
		} else {
			s.msgs[i].off += 1
		}
	}
	if muts["drop-message"] && n > 1 {
		// a real hole: one message is lost, the others keep their offsets
		i := r.Range(0, n-2)
		s.msgs = append(s.msgs[:i:i], s.msgs[i+1:]...)
		if i == 0 {
			s.msgs[0].name = name
		}
		n--
	}
	if muts["dup-message"] {
		i := r.Range(0, n-1)
		dup := s.msgs[i]
		dup.finish = false
		s.msgs = append(s.msgs[:i+1:i+1], append([]wmsg{dup}, s.msgs[i+1:]...)...)
		if i == n-1 { // duplicate of the last one: keep exactly one finish, on the copy
			s.msgs[i].finish = false
			s.msgs[i+1].finish = true
		}
		n++
	}
	if muts["no-finish"] {
		s.msgs[n-1].finish = false
	}
	if muts["early-finish"] && n > 1 {
		s.msgs[r.Range(0, n-2)].finish = true
	}
	if muts["trailing"] {
		end := s.msgs[n-1].off + int64(len(s.msgs[n-1].data))
		for k := r.Range(1, 3); k > 0; k-- {
			t := wmsg{off: end}
			switch r.Intn(4) {
			case 0: // repeated finish_write
				t.finish = true
			case 1: // data after finish
				t.data = r.Bytes(r.Range(1, 9))
			case 2: // wrong offset after finish
				t.off = end + int64(r.Range(1, 5))
			}
			end = t.off + int64(len(t.data))
			s.msgs = append(s.msgs, t)
		}
	}
	if muts["stream-error"] {
		// The stream breaks at message i: messages i.. are never delivered.
		i := r.Range(0, len(s.msgs)-1)
		s.msgs = s.msgs[:i]
		s.termErr = status.Error(codes.Canceled, "injected: stream broke")
		if r.Bool() {
			s.termErr = status.Error(codes.Unavailable, "injected: transport is closing")
		}
	}
	if muts["stream-error-after-finish"] {
		s.termErr = status.Error(codes.Canceled, "injected: stream broke after finish_write")
	}
	if muts["empty-stream"] {
		s.msgs = nil
	}
	if muts["backend-error"] {
		s.backendErr = status.Error(pickCode(r), "injected: backend Put fails")
	}
	if muts["after-consume-error"] {
		s.afterConsume = status.Error(pickCode(r), "injected: backend fails after consuming the upload")
	}
	s.ctxCancelled = muts["ctx-cancelled"]
	s.poolFail = muts["pool-fail"]
	return s
}

func min64(a, b int64) int64 {
	if a < b {
		return a
	}
	return b
}

// ---------------------------------------------------------------------------
// Direct drive: the stream object handed to byteStreamServer.Write.

type writeStream struct {
	fakeServerStream
	mu        sync.Mutex
	msgs      []*bytestream.WriteRequest
	pos       int
	termErr   error
	resp      *bytestream.WriteResponse
	responses int
	recvs     int
}

func (w *writeStream) Recv() (*bytestream.WriteRequest, error) {
	w.mu.Lock()
	defer w.mu.Unlock()
	w.recvs++
	if w.pos < len(w.msgs) {
		m := w.msgs[w.pos]
		w.pos++
		return m, nil
	}
	if w.termErr != nil {
		return nil, w.termErr
	}
	return nil, io.EOF
}

func (w *writeStream) SendAndClose(r *bytestream.WriteResponse) error {
	w.mu.Lock()
	defer w.mu.Unlock()
	w.resp = r
	w.responses++
	return nil
}

func (s *wscript) requests() []*bytestream.WriteRequest {
	var out []*bytestream.WriteRequest
	for _, m := range s.msgs {
		out = append(out, &bytestream.WriteRequest{ResourceName: m.name, WriteOffset: m.off, Data: append([]byte(nil), m.data...), FinishWrite: m.finish})
	}
	return out
}

// writeOutcome is what was observed of one upload.
type writeOutcome struct {
	err       error
	committed int64
	hasResp   bool
}

// checkWrite compares an observed upload with the reference verdict.
// keysBefore/prev describe the backend before the upload.
func checkWrite(c *run.Case, w *run.Worker, engine string, s *wscript, v verdict, out writeOutcome, be *backend, keysBefore map[string]bool, prev []byte, hadPrev bool) {
	site := "byteStreamServer.Write(" + compName(s.comp) + ")"
	if !s.nameOK {
		site = "byteStreamServer.Write(name)"
	}
	// (the signature does not depend on the engine: one defect, one signature)
	okRPC := out.err == nil
	// Which keys changed?
	targetKey := ""
	if s.nameOK {
		targetKey = s.nameD.GetKey(digest.KeyWithInstance)
	}
	objKey := s.obj.d.GetKey(digest.KeyWithInstance)
	for _, k := range be.Store.Keys() {
		if !keysBefore[k] && k != targetKey && k != objKey {
			c.Violation(site+":unrelated-object-appeared", "an upload for %s made key %q appear in the backend", s.obj, k)
		}
	}
	now, has := be.Store.Peek(s.obj.d)
	if s.nameOK && s.nameD != s.obj.d {
		if _, bad := be.Store.Peek(s.nameD); bad {
			c.Violation(site+":stored-under-mismatching-digest", "an object was stored under %s, which does not describe the data sent", s.nameD)
		}
	}
	_ = prev
	if has && !bytes.Equal(now, s.obj.data) {
		c.Violation(site+":stored-content-differs-from-digest", "backend holds %s under %s", gen.Hex8(now), s.obj)
	}
	if hadPrev && !has {
		c.Violation(site+":existing-object-vanished", "object %s was present before the upload and is gone", s.obj)
	}
	w.Count("write_"+v.kind, 1)
	switch v.kind {
	case "valid":
		if !okRPC {
			c.Violation(site+":valid-upload-rejected", "a well-formed upload failed: %v", out.err)
			return
		}
		if !has {
			c.Violation(site+":success-but-not-stored", "Write succeeded but %s is not in the backend", s.obj)
		}
		if !out.hasResp {
			c.Violation(site+":success-without-response", "Write returned nil without sending a WriteResponse")
		} else {
			// committed_size: bytes of the (compressed) stream consumed. Not in
			// the statement's text; it is what tells a ByteStream client that
			// the upload it finished was taken in full.
			want := v.payloadBytes
			if out.committed != want {
				w.Count("observed_committed_size_differs", 1) // not part of C14 as stated: observed only
				_ = want
			}
		}
		w.Count("write_stored_"+compName(s.comp), 1)
	case "invalid":
		cls := strings.Join(v.defects, "+")
		for _, d := range v.defects {
			w.Count("write_invalid_with_"+d, 1)
		}
		if len(v.defects) == 1 {
			w.Count("write_invalid_only_"+cls, 1)
		}
		w.Distinct(engine + "|" + compName(s.comp) + "|" + cls)
		if okRPC {
			c.Violation(site+":accepted:"+cls, "Write succeeded for a script that must be rejected (%s); in backend=%v", cls, has)
		} else if !hadPrev && has {
			c.Violation(site+":failed-but-stored:"+cls, "Write failed (%v) but %s became visible", out.err, s.obj)
		}
		if okRPC {
			w.Count("write_invalid_accepted", 1)
		} else {
			w.Count("write_invalid_rejected", 1)
		}
	case "ambiguous":
		w.Count("write_ambiguous_"+v.why, 1)
		if engine == "wire" && s.termErr != nil {
			// The client cancelled after its finishing message: what it sees
			// (CANCELLED) says nothing about what the server decided.
			break
		}
		if okRPC {
			w.Count("write_ambiguous_accepted_"+compName(s.comp), 1)
			if !has {
				c.Violation(site+":success-but-not-stored", "Write succeeded (%s) but %s is not in the backend", v.why, s.obj)
			}
		} else {
			w.Count("write_ambiguous_rejected_"+compName(s.comp), 1)
			if !hadPrev && has {
				c.Violation(site+":failed-but-stored:"+v.why, "Write failed (%v) but %s became visible", out.err, s.obj)
			}
		}
	}
}

func keySet(s *model.Store) map[string]bool {
	m := map[string]bool{}
	for _, k := range s.Keys() {
		m[k] = true
	}
	return m
}

// caseWriteDirect drives byteStreamServer.Write with a hand-written stream.
func caseWriteDirect(c *run.Case, w *run.Worker) {
	r := c.Rng
	big := 120000
	if w.Thorough() {
		big = 204800
	}
	obj := genObject(r, uint64(c.Index)+1, uint64(w.Index), big)
	comp := remoteexecution.Compressor_IDENTITY
	if r.Bool() {
		comp = remoteexecution.Compressor_ZSTD
	}
	s := genWriteScript(r, obj, comp, r.Chance(2, 3), true)
	v := evaluate(s)
	c.Desc("write %s", s.describe())
	c.Logf("reference verdict: %s %v %s", v.kind, v.defects, v.why)

	be := newBackend("backend")
	pool := newPool(r)
	srv := grpcservers.NewByteStreamServer(be, r.Pick(1, 7, 1024, 65536), pool)
	if r.Chance(1, 5) {
		be.Store.Set(obj.d, obj.data)
		s.prePopulated = true
	}
	if s.backendErr != nil {
		be.putErr[s.nameD.String()] = s.backendErr
		be.putErr[obj.d.String()] = s.backendErr
	}
	if s.afterConsume != nil {
		e := s.afterConsume
		be.Store.AfterPutConsumed = func(*model.Call) error { return e }
	}
	pool.failDec.Store(s.poolFail)
	ctx, cancel := context.WithCancel(context.Background())
	defer cancel()
	if s.ctxCancelled {
		cancel()
	}
	before := keySet(be.Store)
	prev, hadPrev := be.Store.Peek(obj.d)
	ws := &writeStream{fakeServerStream: fakeServerStream{ctx: ctx}, msgs: s.requests(), termErr: s.termErr}
	err := srv.Write(ws)
	c.Logf("Write -> err=%v responses=%d recvs=%d/%d", err, ws.responses, ws.pos, len(ws.msgs))
	out := writeOutcome{err: err, hasResp: ws.resp != nil}
	if ws.resp != nil {
		out.committed = ws.resp.CommittedSize
	}
	if comp == remoteexecution.Compressor_ZSTD {
		w.Count("write_zstd", 1)
	} else {
		w.Count("write_identity", 1)
	}
	if ws.responses > 1 {
		c.Violation("byteStreamServer.Write("+compName(comp)+"):multiple-responses", "SendAndClose was called %d times", ws.responses)
	}
	checkWrite(c, w, "direct", s, v, out, be, before, prev, hadPrev)
	if n := pool.decOut.Load(); n != 0 {
		c.Violation("byteStreamServer.Write(zstd):decoder-not-returned-to-pool", "%d zstd decoders still checked out of the %s pool after Write returned (%v)", n, pool.name, err)
	}
	if pool.decTotal.Load() > 0 {
		w.Count("write_decoders_acquired", 1)
	}
	if c.Index < 2 {
		w.Sample(map[string]any{"engine": "write-direct", "script": s.describe(), "reference": v.kind + " " + strings.Join(v.defects, "+") + v.why, "rpc_error": fmt.Sprint(err)})
	}
}
