package main

import (
	"bytes"
	"context"
	"fmt"
	"net"
	"sort"
	"strings"
	"time"

	remoteexecution "github.com/bazelbuild/remote-apis/build/bazel/remote/execution/v2"
	"github.com/buildbarn/bb-storage/pkg/blobstore"
	"github.com/buildbarn/bb-storage/pkg/blobstore/buffer"
	bsconfig "github.com/buildbarn/bb-storage/pkg/blobstore/configuration"
	"github.com/buildbarn/bb-storage/pkg/blobstore/grpcclients"
	"github.com/buildbarn/bb-storage/pkg/blobstore/grpcservers"
	"github.com/buildbarn/bb-storage/pkg/capabilities"
	"github.com/buildbarn/bb-storage/pkg/digest"
	"github.com/buildbarn/bb-storage/pkg/program"
	pb "github.com/buildbarn/bb-storage/pkg/proto/configuration/blobstore"
	digest_pb "github.com/buildbarn/bb-storage/pkg/proto/configuration/digest"
	eviction_pb "github.com/buildbarn/bb-storage/pkg/proto/configuration/eviction"
	grpc_pb "github.com/buildbarn/bb-storage/pkg/proto/configuration/grpc"
	"github.com/google/uuid"
	"google.golang.org/genproto/googleapis/bytestream"
	"google.golang.org/grpc"
	"google.golang.org/grpc/codes"
	"google.golang.org/grpc/credentials/insecure"
	"google.golang.org/grpc/status"
	"google.golang.org/grpc/test/bufconn"
	"google.golang.org/protobuf/types/known/durationpb"

	"verif/lib/gen"
	"verif/lib/model"
	"verif/lib/run"
)

// Configured frontend, back to back with a storage node.
//
// The b2b engine hands the servers' connection to grpcclients.NewCASBlobAccess
// itself. A deployed frontend never does that: its client is created by
// pkg/blobstore/configuration from a BlobAccessConfiguration message, which
// also decides what the decorators stacked above the client are told about it
// (BlobAccessInfo.DigestKeyFormat). This engine builds the fronting BlobAccess
// the way a daemon does,
//
//	NewBlobAccessFromConfiguration(<generated stack> over grpc { client })
//	  -> grpcclients CAS client -> ByteStream/CAS/Capabilities servers
//	       -> instance name aware backend (lib/model.Store, KeyWithInstance)
//
// optionally served once more by this repository's servers and reached through
// a second client (client -> frontend -> storage node, the deployed topology),
// and compares it operation by operation with an identical backend that is
// used directly. The generated dimensions are the decorator stack (existence
// caches of several sizes / replacement policies, deadline enforcement, label
// indirection, compression on or off) and *tenancy*: the same content is
// addressed under two to four instance names, of which the backend holds some
// and lacks others.
//
// What is asserted, and why it holds by design:
//
//   - The backends of this engine never lose or evict an object (there is no
//     Delete and lib/model.Store has no capacity). In such histories an
//     existence cache can only ever have recorded 'present' for a (digest,
//     instance name) the backend still holds, so every decorator of the stack
//     is transparent and the whole statement applies to the stack: "ByteStream
//     Write stores an object only if ... matches the digest", "FindMissingBlobs
//     returns exactly the subset the backend reports missing", "a client and
//     server of this repository connected back to back behave like the backend
//     they front" - per instance name, because the backend that is fronted
//     distinguishes instance names.
//   - While the backend is made to fail FindMissing, a stack holding an
//     existence cache may answer from the cache without asking the backend.
//     That is the purpose of the decorator, not a deviation: it is counted
//     (cfg_fm_answered_despite_backend_error), and only the content of the
//     answer is judged (it must still be what the backend holds).
//
// Not asserted: anything about the empty object (the configuration layer wraps
// every CAS in EmptyBlobInjectingBlobAccess, which by design answers for the
// empty blob without the backend - objects here have at least one byte), and
// anything about how long a cached answer stays valid (no clock in the oracle:
// cache durations are hours, and in these histories a hit and a miss must give
// the same answer anyway).

// connFactory is the bb_grpc.ClientFactory handed to the configuration layer:
// every `client {...}` message resolves to the in-memory connection of the
// storage node.
type connFactory struct {
	conn  grpc.ClientConnInterface
	calls int
}

func (f *connFactory) NewClientFromConfiguration(*grpc_pb.ClientConfiguration, program.Group) (grpc.ClientConnInterface, error) {
	f.calls++
	return f.conn, nil
}

type frontendStack struct {
	cfg         *pb.BlobAccessConfiguration
	desc        string
	caches      int // existence_caching layers
	compression bool
}

// genFrontendStack draws a configuration: a grpc leaf below 0-3 decorators that
// are transparent by design, the leaf optionally declared as a label.
func genFrontendStack(r *gen.Rng) frontendStack {
	s := frontendStack{compression: r.Bool()}
	leaf := &pb.BlobAccessConfiguration{Backend: &pb.BlobAccessConfiguration_Grpc{Grpc: &pb.GrpcBlobAccessConfiguration{
		Client:            &grpc_pb.ClientConfiguration{Address: "storage-node:8981"},
		EnableCompression: s.compression,
	}}}
	s.desc = "grpc"
	if s.compression {
		s.desc = "grpc+zstd"
	}
	labelled := r.Chance(1, 4)
	cur := leaf
	if labelled {
		cur = &pb.BlobAccessConfiguration{Backend: &pb.BlobAccessConfiguration_Label{Label: "node"}}
		s.desc = "label(" + s.desc + ")"
	}
	for layers := r.Pick(0, 1, 1, 1, 1, 2, 2, 3); layers > 0; layers-- {
		if r.Chance(3, 4) {
			size := int64(r.Pick(1, 2, 4, 1000, 1000))
			policy := []eviction_pb.CacheReplacementPolicy{
				eviction_pb.CacheReplacementPolicy_FIRST_IN_FIRST_OUT,
				eviction_pb.CacheReplacementPolicy_LEAST_RECENTLY_USED,
				eviction_pb.CacheReplacementPolicy_RANDOM_REPLACEMENT,
			}[r.Intn(3)]
			cur = &pb.BlobAccessConfiguration{Backend: &pb.BlobAccessConfiguration_ExistenceCaching{ExistenceCaching: &pb.ExistenceCachingBlobAccessConfiguration{
				Backend: cur,
				ExistenceCache: &digest_pb.ExistenceCacheConfiguration{
					CacheSize:              size,
					CacheDuration:          durationpb.New(time.Duration(r.Pick(1, 24)) * time.Hour),
					CacheReplacementPolicy: policy,
				},
			}}}
			s.caches++
			s.desc = fmt.Sprintf("existence_caching[%d,%s](%s)", size, policy, s.desc)
		} else {
			cur = &pb.BlobAccessConfiguration{Backend: &pb.BlobAccessConfiguration_DeadlineEnforcing{DeadlineEnforcing: &pb.DeadlineEnforcingBlobAccess{
				Timeout: durationpb.New(6 * time.Hour), // never reached: the deadline is not what is explored
				Backend: cur,
			}}}
			s.desc = "deadline_enforcing(" + s.desc + ")"
		}
	}
	if labelled {
		cur = &pb.BlobAccessConfiguration{Backend: &pb.BlobAccessConfiguration_WithLabels{WithLabels: &pb.WithLabelsBlobAccessConfiguration{
			Backend: cur,
			Labels:  map[string]*pb.BlobAccessConfiguration{"node": leaf},
		}}}
	}
	s.cfg = cur
	return s
}

// hop serves a BlobAccess with this repository's ByteStream / CAS /
// Capabilities servers and connects to it in memory.
type hop struct {
	server *grpc.Server
	lis    *bufconn.Listener
	conn   *grpc.ClientConn
	pool   *countingPool
	done   bool
}

func serveHop(r *gen.Rng, ba blobstore.BlobAccess, readChunk int, maxBatch int64) *hop {
	h := &hop{pool: newPool(r), lis: bufconn.Listen(256 << 10), server: grpc.NewServer(grpc.WaitForHandlers(true))}
	bytestream.RegisterByteStreamServer(h.server, grpcservers.NewByteStreamServer(ba, readChunk, h.pool))
	remoteexecution.RegisterContentAddressableStorageServer(h.server, grpcservers.NewContentAddressableStorageServer(ba, maxBatch))
	remoteexecution.RegisterCapabilitiesServer(h.server, capabilities.NewServer(capabilities.NewStaticProvider(&remoteexecution.ServerCapabilities{
		CacheCapabilities: &remoteexecution.CacheCapabilities{DigestFunctions: digest.SupportedDigestFunctions},
	})))
	go h.server.Serve(h.lis)
	conn, err := grpc.NewClient("passthrough:///bufconn",
		grpc.WithContextDialer(func(ctx context.Context, _ string) (net.Conn, error) { return h.lis.DialContext(ctx) }),
		grpc.WithTransportCredentials(insecure.NewCredentials()))
	if err != nil {
		panic("harness: " + err.Error())
	}
	h.conn = conn
	return h
}

func (h *hop) drain() {
	if h.done {
		return
	}
	h.done = true
	h.conn.Close()
	h.server.GracefulStop()
	h.lis.Close()
}

// tenantObject is one content addressed under several instance names.
type tenantObject struct {
	data    []byte
	fn      remoteexecution.DigestFunction_Value
	aliases []object // the same content, one per instance name
}

func sortedDigests(s digest.Set) []string {
	l := []string{}
	for _, d := range s.Items() {
		l = append(l, d.String())
	}
	sort.Strings(l)
	return l
}

const cfgSite = "configuredFrontend"

func caseConfiguredFrontend(c *run.Case, w *run.Worker) {
	r := c.Rng
	defer stackDumpAfter()()
	ctx := context.Background()

	// Contents and their aliases. Every content is addressed under 2..4 of the
	// instance names; which aliases the backend holds is decided by the history.
	var contents []tenantObject
	var all []object
	largest := 0
	for i, n := 0, r.Range(1, 3); i < n; i++ {
		size := sizeClass(r, 50000)
		if size == 0 {
			size = r.Range(1, 64) // the empty blob is answered by EmptyBlobInjectingBlobAccess
		}
		t := tenantObject{fn: remoteexecution.DigestFunction_SHA256}
		if r.Chance(1, 3) {
			t.fn = gen.AllFunctions[r.Intn(len(gen.AllFunctions))]
		}
		t.data = blob(r, uint64(c.Index)+1, uint64(w.Index)*100+uint64(i)+7000, size)
		perm := r.Perm(len(instances))
		for _, k := range perm[:r.Range(2, len(instances))] {
			o := object{data: t.data, fn: t.fn, inst: instances[k], d: gen.DigestOf(instances[k], t.fn, t.data)}
			t.aliases = append(t.aliases, o)
			all = append(all, o)
		}
		contents = append(contents, t)
		largest = max(largest, size)
	}

	env := newWireEnv(r, largest <= 3000)
	defer env.drain()
	twin := newBackend("twin")
	stack := genFrontendStack(r)
	clientPool := newPool(r)
	factory := &connFactory{conn: env.conn}
	info, err := bsconfig.NewBlobAccessFromConfiguration(nil, stack.cfg, bsconfig.NewCASBlobAccessCreator(factory, 1<<20, clientPool))
	if err != nil {
		c.Violation("NewBlobAccessFromConfiguration(CAS):rejects-valid-frontend-configuration", "%s was rejected: %v", stack.desc, err)
		return
	}
	fronted := info.BlobAccess
	var outer *hop
	if r.Chance(1, 3) {
		// client -> frontend servers -> configured stack -> storage node.
		readChunk := r.Pick(1000, 65536)
		if largest <= 3000 {
			readChunk = r.Pick(16, 1000, 65536)
		}
		outer = serveHop(r, fronted, readChunk, 1<<20)
		defer outer.drain()
		uuids := r.Fork()
		fronted = grpcclients.NewCASBlobAccess(outer.conn, func() (uuid.UUID, error) { return rngUUID(uuids), nil }, r.Pick(4096, 65536), nil)
	}
	zstdOn := env.serverZstd && stack.compression
	mode := "identity"
	if zstdOn {
		mode = "zstd"
	}
	c.Desc("configured frontend: %s two-hop=%v server-zstd=%v contents=%d aliases=%d largest=%d", stack.desc, outer != nil, env.serverZstd, len(contents), len(all), largest)
	w.Count("cfg_cases", 1)
	if stack.caches > 0 {
		w.Count("cfg_cases_with_existence_cache", 1)
	}
	if outer != nil {
		w.Count("cfg_cases_two_hop", 1)
	}

	sides := []b2bSide{{"backend-direct", twin, twin}, {"configured-frontend", fronted, env.be}}
	compareStores := func(when string) bool {
		a, b := twin.Store.Keys(), env.be.Store.Keys()
		if strings.Join(a, "\n") != strings.Join(b, "\n") {
			// "uploads atomic and verified ... in every other case the RPC fails
			// and nothing becomes visible" + "behave like the backend they front".
			c.Violation(cfgSite+"<->servers:backend-contents-differ", "%s [%s]: the backend used directly holds %d objects, the one behind the configured frontend %d\ndirect: %v\nfronted: %v", when, stack.desc, len(a), len(b), a, b)
			return false
		}
		for _, o := range all {
			x, _ := twin.Store.Peek(o.d)
			y, _ := env.be.Store.Peek(o.d)
			if !bytes.Equal(x, y) {
				c.Violation(cfgSite+"<->servers:backend-contents-differ", "%s [%s]: %s holds different bytes", when, stack.desc, o)
				return false
			}
		}
		return true
	}

	// instanceless identifies a content regardless of the instance name.
	instanceless := func(d digest.Digest) string { return d.GetKey(digest.KeyWithoutInstance) }
	// reportedPresent: contents that some successful FindMissing through a stack
	// with an existence cache has reported present (under whatever instance
	// name). Coverage bookkeeping only, never part of a verdict.
	reportedPresent := map[string]bool{}

	// findMissing asks both sides for the same set and judges the answer.
	// "FindMissingBlobs returns exactly the subset the backend reports missing":
	// the backend is the twin, which holds exactly what the fronted backend
	// holds (compared after every upload) and never loses anything.
	findMissing := func(set digest.Set, injected error, what string) (ok bool) {
		var res [2]opResult
		for si, side := range sides {
			if injected != nil {
				side.be.mu.Lock()
				side.be.anyErr = injected
				side.be.mu.Unlock()
			}
			missing, err := side.ba.FindMissing(ctx, set)
			side.be.mu.Lock()
			side.be.anyErr = nil
			side.be.mu.Unlock()
			res[si] = opResult{code: codeOf(err), set: sortedDigests(missing), err: err}
		}
		c.Logf("%s: direct -> %v %v | frontend -> %v %v (%v)", what, res[0].code, res[0].set, res[1].code, res[1].set, res[1].err)
		w.Count("cfg_ops", 1)
		w.Count("cfg_find_missing", 1)
		w.Distinct(fmt.Sprintf("cfg|FindMissing|%v|%v|caches=%d", res[0].code, res[1].code, stack.caches))
		// What the backend holds, digest by digest (it cannot have changed
		// during the call: the case is sequential).
		truth := []string{}
		asked := map[string]digest.Digest{}
		for _, d := range set.Items() {
			asked[d.String()] = d
			if !twin.Store.Has(d) {
				truth = append(truth, d.String())
				if stack.caches > 0 && reportedPresent[instanceless(d)] {
					w.Count("cfg_fm_absent_here_reported_present_elsewhere", 1)
				} else {
					for _, o := range all {
						if o.d != d && instanceless(o.d) == instanceless(d) && twin.Store.Has(o.d) {
							w.Count("cfg_fm_absent_here_held_elsewhere", 1)
							break
						}
					}
				}
			}
		}
		sort.Strings(truth)
		want := res[0].set
		switch {
		case res[0].code != codes.OK && res[1].code == codes.OK && stack.caches > 0:
			// The cache answered for every digest; judge the content only.
			w.Count("cfg_fm_answered_despite_backend_error", 1)
			want = truth
		case res[0].code != codes.OK && res[1].code == codes.OK, res[0].code == codes.OK && res[1].code != codes.OK:
			c.Violation(cfgSite+".FindMissing:outcome-differs-from-backend", "%s [%s]: the backend used directly answered %v, the configured frontend %v (%v)", what, stack.desc, res[0].code, res[1].code, res[1].err)
			return false
		case res[0].code != res[1].code:
			// "report a per-object status" / relayed status: the backend's own
			// code comes back through client and server.
			c.Violation(cfgSite+".FindMissing:status-code-differs-from-backend", "%s [%s]: the backend used directly answered %v, the configured frontend %v (%v)", what, stack.desc, res[0].code, res[1].code, res[1].err)
			return false
		case res[0].code != codes.OK:
			w.Count("cfg_failing_ops", 1)
			return true
		}
		if res[0].code == codes.OK && strings.Join(res[0].set, ",") != strings.Join(truth, ",") {
			panic(fmt.Sprintf("harness: the twin backend reports %v missing but lacks %v", res[0].set, truth))
		}
		if strings.Join(res[1].set, ",") == strings.Join(want, ",") {
			if stack.caches > 0 {
				inMissing := map[string]bool{}
				for _, s := range res[1].set {
					inMissing[s] = true
				}
				for s, d := range asked {
					if !inMissing[s] {
						reportedPresent[instanceless(d)] = true
					}
				}
			}
			return true
		}
		got := map[string]bool{}
		for _, s := range res[1].set {
			got[s] = true
			if _, ok := asked[s]; !ok {
				c.Violation(cfgSite+".FindMissing:reports-digest-that-was-not-asked-for", "%s [%s]: %s is reported missing but is not part of the request", what, stack.desc, s)
				return false
			}
		}
		for _, s := range want {
			if got[s] {
				continue
			}
			// Reported present although the backend lacks it under this instance name.
			d := asked[s]
			for _, o := range all {
				if o.d != d && instanceless(o.d) == instanceless(d) && twin.Store.Has(o.d) {
					w.Count("cfg_cross_instance_answers", 1)
					c.Violation(cfgSite+".FindMissing:object-held-under-another-instance-name-reported-present",
						"%s [%s]: the backend lacks %s and reports it missing; the configured frontend reports it present. The backend holds the same content only under instance name %q: an answer obtained for one instance name was given for another\ndirect: missing %v\nfrontend: missing %v",
						what, stack.desc, s, o.inst, want, res[1].set)
					return false
				}
			}
			c.Violation(cfgSite+".FindMissing:absent-object-reported-present", "%s [%s]: the backend lacks %s (under every instance name) and reports it missing; the configured frontend reports it present\ndirect: missing %v\nfrontend: missing %v", what, stack.desc, s, want, res[1].set)
			return false
		}
		c.Violation(cfgSite+".FindMissing:present-object-reported-missing", "%s [%s]: direct: missing %v\nfrontend: missing %v", what, stack.desc, want, res[1].set)
		return false
	}

	nOps := r.Range(5, 12)
	for op := 0; op < nOps; op++ {
		o := all[r.Intn(len(all))]
		kind := r.Pick(0, 0, 0, 0, 1, 1, 2, 5, 5, 5, 5)
		opSeed := r.Uint64()
		if kind == 5 {
			rr := gen.New(opSeed)
			sb := digest.NewSetBuilder(0)
			for _, x := range all {
				if rr.Bool() {
					sb.Add(x.d)
				}
			}
			for i := rr.Pick(0, 0, 1, 2); i > 0; i-- {
				sb.Add(gen.SHA256Digest(instances[rr.Intn(len(instances))], rr.Bytes(8)))
			}
			set := sb.Build()
			var injected error
			if set.Length() > 0 && rr.Chance(1, 8) {
				injected = status.Error(pickCode(rr), "injected: backend fails")
			}
			if !findMissing(set, injected, fmt.Sprintf("FindMissing(%d digests) backendErr=%v", set.Length(), injected)) {
				return
			}
			continue
		}
		var res [2]opResult
		var opDesc, sig string
		causes := 0
		for si, side := range sides {
			rr := gen.New(opSeed) // same choices for both sides
			side.be.clearInjections()
			var injected error
			causes = 0
			if rr.Chance(1, 8) {
				injected = status.Error(pickCode(rr), "injected: backend fails")
				causes++
			}
			switch kind {
			case 0: // Put
				src := model.SourceSpec{Data: o.data, Chunks: chunkLens(rr, len(o.data), true)}
				vname := "intact"
				switch rr.Intn(10) {
				case 0:
					vname = "corrupt"
					d := append([]byte(nil), o.data...)
					d[rr.Intn(len(d))] ^= 2
					src.Data = d
				case 1:
					vname = "short"
					src.Data = o.data[:len(o.data)-1]
					src.Chunks = chunkLens(rr, len(src.Data), true)
				case 2:
					vname = "long"
					src.Data = append(append([]byte(nil), o.data...), 9)
					src.Chunks = chunkLens(rr, len(src.Data), true)
				case 3:
					vname = "source-error"
					src.FailAt = rr.Range(0, len(o.data))
					src.FailErr = status.Error(pickCode(rr), "injected: upload source broke")
				}
				if injected != nil {
					side.be.mu.Lock()
					side.be.putErr[o.d.String()] = injected
					side.be.mu.Unlock()
				}
				if vname != "intact" {
					causes++
				}
				opDesc = fmt.Sprintf("Put(%v, source=%s, backendErr=%v)", o, vname, injected)
				sig = "Put"
				b, tr := model.NewTrackedCASBuffer(o.d, src, buffer.UserProvided)
				err := side.ba.Put(ctx, o.d, b)
				res[si] = opResult{code: codeOf(err), err: err}
				if p := tr.CheckReleasedOnce(); p != "" && si == 1 {
					c.Violation(cfgSite+".Put("+mode+"):upload-buffer-release-count", "%s after %s [%s] -> %v", p, opDesc, stack.desc, err)
				}
				if si == 1 {
					w.Count("cfg_put_"+vname, 1)
				}
			default: // Get, whole or from an offset
				present := side.be.Store.Has(o.d)
				if present {
					stored, _ := side.be.Store.Peek(o.d)
					plan := &getPlan{data: stored, chunks: chunkLens(rr, len(stored), true)}
					if rr.Chance(1, 10) {
						causes++
						plan.failAt, plan.failErr = rr.Range(0, len(stored)), status.Error(pickCode(rr), "injected: backend stream broke")
					}
					side.be.mu.Lock()
					side.be.plans[o.d.String()] = plan
					side.be.mu.Unlock()
				} else {
					causes++
				}
				if injected != nil {
					side.be.mu.Lock()
					side.be.getErr[o.d.String()] = injected
					side.be.mu.Unlock()
				}
				size := int64(len(o.data))
				if guarded(c, w, "a Get on "+side.name, func() {
					if kind == 1 {
						opDesc = fmt.Sprintf("Get(%v).ToByteSlice present=%v backendErr=%v", o, present, injected)
						sig = "Get.ToByteSlice"
						data, err := side.ba.Get(ctx, o.d).ToByteSlice(1 << 20)
						res[si] = opResult{code: codeOf(err), data: data, err: err}
						return
					}
					off := pickOffset(rr, size)
					if off < 0 || off > size {
						causes++
					}
					cs := rr.Pick(10, 1000, 65536)
					if size > 3000 && cs < 1000 {
						cs = 1000
					}
					opDesc = fmt.Sprintf("Get(%v).ToChunkReader(%d,%d) present=%v backendErr=%v", o, off, cs, present, injected)
					sig = "Get.ToChunkReader"
					cr := side.ba.Get(ctx, o.d).ToChunkReader(off, cs)
					data, err := readAll(cr, -1)
					cr.Close()
					if err != nil {
						data = nil // partial data before an error is not part of the contract
					}
					res[si] = opResult{code: codeOf(err), data: data, err: err}
				}) {
					return
				}
				if si == 1 {
					w.Count("cfg_get", 1)
				}
			}
		}
		c.Logf("%s: direct -> %v | frontend -> %v (%v)", opDesc, res[0], res[1], res[1].err)
		w.Count("cfg_ops", 1)
		w.Distinct(fmt.Sprintf("cfg|%s|%v|%v|caches=%d", sig, res[0].code, mode, stack.caches))
		if res[0].code != codes.OK {
			w.Count("cfg_failing_ops", 1)
		}
		// "A client and server of this repository connected back to back behave
		// like the backend they front": same outcome, the backend's own status
		// code, the same bytes ("streams exactly the bytes from k to the end").
		site := cfgSite + "." + sig
		switch {
		case (res[0].code == codes.OK) != (res[1].code == codes.OK):
			c.Violation(site+":outcome-differs-from-backend", "%s [%s]: the backend used directly answered %v, the configured frontend %v (%v)", opDesc, stack.desc, res[0].code, res[1].code, res[1].err)
			return
		case res[0].code != res[1].code && causes <= 1:
			// With two independent reasons to fail either may be reported first.
			c.Violation(site+":status-code-differs-from-backend", "%s [%s]: the backend used directly answered %v, the configured frontend %v (%v)", opDesc, stack.desc, res[0].code, res[1].code, res[1].err)
		case res[0].code != res[1].code:
			w.Count("cfg_two_failure_causes", 1)
		case !bytes.Equal(res[0].data, res[1].data):
			c.Violation(site+":data-differs-from-backend", "%s [%s]: direct %s, frontend %s", opDesc, stack.desc, gen.Hex8(res[0].data), gen.Hex8(res[1].data))
		}
		if kind == 0 && !compareStores("after "+opDesc) {
			return // everything after this would only repeat the difference
		}
	}

	// Sweep: one FindMissing per instance name over every content, whether or
	// not the case made an alias of it ("returns exactly the subset the backend
	// reports missing" holds for every instance name, also for those under
	// which nothing was ever uploaded).
	twin.clearInjections()
	env.be.clearInjections()
	for _, k := range r.Perm(len(instances)) {
		sb := digest.NewSetBuilder(0)
		for _, t := range contents {
			sb.Add(gen.DigestOf(instances[k], t.fn, t.data))
		}
		if !findMissing(sb.Build(), nil, fmt.Sprintf("sweep: FindMissing(every content under instance name %q)", instances[k])) {
			return
		}
		w.Count("cfg_sweep_calls", 1)
	}

	if outer != nil {
		outer.drain()
	}
	env.drain()
	compareStores("after draining the servers")
	for _, p := range env.be.releaseProblems() {
		c.Violation("byteStreamServer.Read("+mode+"):backend-buffer-release-count", "[%s] %s", stack.desc, p)
	}
	if n, m := env.srvPool.encOut.Load(), env.srvPool.decOut.Load(); n != 0 || m != 0 {
		c.Violation("byteStreamServer:codec-not-returned-to-pool", "[%s] server pool after drain: %d encoders, %d decoders checked out", stack.desc, n, m)
	}
	if n, m := clientPool.encOut.Load(), clientPool.decOut.Load(); n != 0 || m != 0 {
		c.Violation("casBlobAccess:codec-not-returned-to-pool", "[%s] pool of the configured client after all operations: %d encoders, %d decoders checked out", stack.desc, n, m)
	}
	if zstdOn && clientPool.encTotal.Load()+clientPool.decTotal.Load() > 0 {
		w.Count("cfg_zstd_negotiated", 1)
	}
	if factory.calls != 1 {
		panic(fmt.Sprintf("harness: the configuration asked for %d gRPC clients, expected 1", factory.calls))
	}
	if c.Index < 1 {
		w.Sample(map[string]any{"engine": "configured-frontend", "stack": stack.desc, "two_hop": outer != nil, "ops": nOps, "aliases": len(all)})
	}
}
