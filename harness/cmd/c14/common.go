package main

import (
	"bytes"
	"context"
	"fmt"
	"io"
	"sync"
	"sync/atomic"

	remoteexecution "github.com/bazelbuild/remote-apis/build/bazel/remote/execution/v2"
	"github.com/buildbarn/bb-storage/pkg/blobstore/buffer"
	"github.com/buildbarn/bb-storage/pkg/digest"
	bb_zstd "github.com/buildbarn/bb-storage/pkg/zstd"
	"github.com/klauspost/compress/zstd"
	"google.golang.org/grpc/codes"
	"google.golang.org/grpc/metadata"
	"google.golang.org/grpc/status"

	"verif/lib/gen"
	"verif/lib/model"
)

// Instance names used by the workloads. Components "." and ".." are avoided on
// purpose: what path.Join does to them is property C20's business (P6).
var instances = []string{"", "a", "a/b", "x/y/z"}

// ---------------------------------------------------------------------------
// Objects.

type object struct {
	data []byte
	d    digest.Digest
	fn   remoteexecution.DigestFunction_Value
	inst string
}

func (o object) String() string {
	return fmt.Sprintf("%s/%s[%s]", o.inst, o.fn, gen.Hex8(o.data))
}

// sizeClass picks an object size. big bounds the largest class.
func sizeClass(r *gen.Rng, big int) int {
	switch k := r.Intn(100); {
	case k < 6:
		return 0
	case k < 14:
		return r.Range(1, 3)
	case k < 50:
		return r.Range(4, 96)
	case k < 82:
		return r.Range(97, 4096)
	case k < 94:
		return r.Range(4097, 40000)
	default:
		return r.Range(40001, big)
	}
}

// blob returns size bytes, unique for (tag,id); half of the time compressible
// (so that zstd really compresses instead of emitting raw blocks).
func blob(r *gen.Rng, tag, id uint64, size int) []byte {
	b := gen.UniqueBlob(tag, id, size)
	if r.Bool() && size > 24 {
		phrase := []byte("the quick brown fox jumps over the lazy dog; ")
		for i := 16; i < size; i++ {
			if (i/97)%5 == 4 {
				continue // keep a pseudo-random stretch now and then
			}
			b[i] = phrase[(i+int(b[3]))%len(phrase)]
		}
	}
	return b
}

func genObjectSized(r *gen.Rng, tag, id uint64, size int, fns []remoteexecution.DigestFunction_Value) object {
	o := object{inst: instances[r.Intn(len(instances))]}
	o.fn = fns[r.Intn(len(fns))]
	o.data = blob(r, tag, id, size)
	o.d = gen.DigestOf(o.inst, o.fn, o.data)
	return o
}

func genObject(r *gen.Rng, tag, id uint64, big int) object {
	fns := gen.AllFunctions
	if r.Chance(1, 2) {
		fns = []remoteexecution.DigestFunction_Value{remoteexecution.DigestFunction_SHA256}
	}
	return genObjectSized(r, tag, id, sizeClass(r, big), fns)
}

// chunkLens splits n bytes into at most ~48 pieces; empty pieces allowed.
func chunkLens(r *gen.Rng, n int, allowEmpty bool) []int {
	var out []int
	mode := r.Intn(5)
	maxPieces := r.Range(1, 48)
	for n > 0 {
		var c int
		switch mode {
		case 0:
			c = n
		case 1:
			c = r.Range(1, 4)
		case 2:
			c = r.Range(1, 1+n/2)
		case 3:
			c = r.Range(1, 65536)
		default:
			c = r.Range(1, n)
		}
		if min := (n + maxPieces - 1) / maxPieces; c < min && len(out) > maxPieces/2 {
			c = min
		}
		if c > n {
			c = n
		}
		if allowEmpty && r.Chance(1, 7) {
			out = append(out, 0)
		}
		out = append(out, c)
		n -= c
		if len(out) > 96 && n > 0 {
			out = append(out, n)
			n = 0
		}
	}
	if allowEmpty && r.Chance(1, 7) {
		out = append(out, 0)
	}
	return out
}

var injectCodes = []codes.Code{codes.Unavailable, codes.Internal, codes.ResourceExhausted, codes.PermissionDenied, codes.FailedPrecondition, codes.Aborted}

func pickCode(r *gen.Rng) codes.Code { return injectCodes[r.Intn(len(injectCodes))] }

// ---------------------------------------------------------------------------
// Reference zstd codec (the compression library is not what is under test; the
// protocol state machine around it is).

var (
	refEnc, _ = zstd.NewWriter(nil, zstd.WithEncoderConcurrency(1), zstd.WithEncoderLevel(zstd.SpeedFastest))
	refMu     sync.Mutex
)

func zstdEncode(data []byte) []byte { return refEnc.EncodeAll(data, nil) }

// zstdStreamDecode decodes p the way a streaming consumer does and returns
// everything decoded before the first error.
func zstdStreamDecode(p []byte) ([]byte, error) {
	refMu.Lock()
	defer refMu.Unlock()
	if refDec == nil {
		d, err := zstd.NewReader(nil, zstd.WithDecoderConcurrency(1))
		if err != nil {
			panic("harness: " + err.Error())
		}
		refDec = d
	}
	if err := refDec.Reset(bytes.NewReader(p)); err != nil {
		return nil, err
	}
	var out bytes.Buffer
	_, err := io.Copy(&out, refDec)
	refDec.Reset(nil)
	return out.Bytes(), err
}

var refDec *zstd.Decoder

// ---------------------------------------------------------------------------
// Counting zstd pool: every encoder/decoder handed out must be closed.

type countingPool struct {
	inner    bb_zstd.Pool
	name     string
	encOut   atomic.Int64
	decOut   atomic.Int64
	encTotal atomic.Int64
	decTotal atomic.Int64
	failEnc  atomic.Bool // next NewEncoder fails
	failDec  atomic.Bool
}

type cEncoder struct {
	bb_zstd.Encoder
	p      *countingPool
	closed atomic.Bool
}

func (e *cEncoder) Close() error {
	if e.closed.CompareAndSwap(false, true) {
		e.p.encOut.Add(-1)
	}
	return e.Encoder.Close()
}

type cDecoder struct {
	bb_zstd.Decoder
	p      *countingPool
	closed atomic.Bool
}

func (d *cDecoder) Close() {
	if d.closed.CompareAndSwap(false, true) {
		d.p.decOut.Add(-1)
	}
	d.Decoder.Close()
}

func (p *countingPool) NewEncoder(ctx context.Context, w io.Writer) (bb_zstd.Encoder, error) {
	if p.failEnc.CompareAndSwap(true, false) {
		return nil, status.Error(codes.Canceled, "injected: no encoder available")
	}
	e, err := p.inner.NewEncoder(ctx, w)
	if err != nil {
		return nil, err
	}
	p.encOut.Add(1)
	p.encTotal.Add(1)
	return &cEncoder{Encoder: e, p: p}, nil
}

func (p *countingPool) NewDecoder(ctx context.Context, r io.Reader) (bb_zstd.Decoder, error) {
	if p.failDec.CompareAndSwap(true, false) {
		return nil, status.Error(codes.Canceled, "injected: no decoder available")
	}
	d, err := p.inner.NewDecoder(ctx, r)
	if err != nil {
		return nil, err
	}
	p.decOut.Add(1)
	p.decTotal.Add(1)
	return &cDecoder{Decoder: d, p: p}, nil
}

// keepPool is the harness's own bb_zstd.Pool: klauspost codecs kept on a plain
// free list. Under -race building a fresh zstd encoder costs 100-600 ms and
// sync.Pool (which the repository's bounded pool uses) drops items on purpose,
// so the repository's pools are used for a minority of the cases only; the
// pool implementation is not what C14 is about, the code that acquires and
// releases codecs is.
type keepPool struct {
	mu   sync.Mutex
	encs []*zstd.Encoder
	decs []*zstd.Decoder
	conc int
}

type keptEncoder struct {
	*zstd.Encoder
	p    *keepPool
	done bool
}

func (e *keptEncoder) Close() error {
	if e.done {
		return nil
	}
	e.done = true
	err := e.Encoder.Close()
	e.Encoder.Reset(nil)
	e.p.mu.Lock()
	e.p.encs = append(e.p.encs, e.Encoder)
	e.p.mu.Unlock()
	return err
}

type keptDecoder struct {
	*zstd.Decoder
	p    *keepPool
	done bool
}

func (d *keptDecoder) Close() {
	if d.done {
		return
	}
	d.done = true
	d.Decoder.Reset(nil)
	d.p.mu.Lock()
	d.p.decs = append(d.p.decs, d.Decoder)
	d.p.mu.Unlock()
}

func (p *keepPool) NewEncoder(ctx context.Context, w io.Writer) (bb_zstd.Encoder, error) {
	p.mu.Lock()
	var e *zstd.Encoder
	if n := len(p.encs); n > 0 {
		e, p.encs = p.encs[n-1], p.encs[:n-1]
	}
	p.mu.Unlock()
	if e == nil {
		var err error
		if e, err = zstd.NewWriter(nil, zstd.WithEncoderConcurrency(p.conc), zstd.WithEncoderLevel(zstd.SpeedFastest)); err != nil {
			return nil, err
		}
	}
	e.Reset(w)
	return &keptEncoder{Encoder: e, p: p}, nil
}

func (p *keepPool) NewDecoder(ctx context.Context, r io.Reader) (bb_zstd.Decoder, error) {
	p.mu.Lock()
	var d *zstd.Decoder
	if n := len(p.decs); n > 0 {
		d, p.decs = p.decs[n-1], p.decs[:n-1]
	}
	p.mu.Unlock()
	if d == nil {
		var err error
		if d, err = zstd.NewReader(nil, zstd.WithDecoderConcurrency(p.conc)); err != nil {
			return nil, err
		}
	}
	if err := d.Reset(r); err != nil {
		return nil, err
	}
	return &keptDecoder{Decoder: d, p: p}, nil
}

// Pools are created once per worker process and shared by its cases (a daemon
// shares its pool as well); every case wraps one of them in its own counting
// pool. Besides the two keepPools: what NewPoolFromConfiguration builds
// (bounded / unbounded, synchronous codecs) and a bounded pool with
// asynchronous codecs.
var (
	sharedPoolsOnce sync.Once
	sharedPools     []bb_zstd.Pool
	sharedPoolNames = []string{"keep-sync", "keep-async", "bounded1", "bounded4", "bounded2-async", "unbounded"}
)

func initPools() {
	sharedPoolsOnce.Do(func() {
		eo := func(conc int) []zstd.EOption {
			return []zstd.EOption{zstd.WithEncoderConcurrency(conc), zstd.WithEncoderLevel(zstd.SpeedFastest)}
		}
		do := func(conc int) []zstd.DOption {
			return []zstd.DOption{zstd.WithDecoderConcurrency(conc)}
		}
		sharedPools = []bb_zstd.Pool{
			&keepPool{conc: 1},
			&keepPool{conc: 2},
			bb_zstd.NewBoundedPool(1, 1, eo(1), do(1)),
			bb_zstd.NewBoundedPool(4, 4, eo(1), do(1)),
			bb_zstd.NewBoundedPool(2, 2, eo(2), do(2)),
			bb_zstd.NewUnboundedPool(eo(1), do(1)),
		}
	})
}

func poolByIndex(i int) *countingPool {
	initPools()
	return &countingPool{name: sharedPoolNames[i], inner: sharedPools[i]}
}

func newPool(r *gen.Rng) *countingPool {
	k := r.Intn(100)
	switch {
	case k < 62:
		return poolByIndex(0)
	case k < 82:
		return poolByIndex(1)
	case k < 89:
		return poolByIndex(2)
	case k < 94:
		return poolByIndex(3)
	case k < 98:
		return poolByIndex(4)
	default:
		return poolByIndex(5)
	}
}

// ---------------------------------------------------------------------------
// Backend: a model.Store whose Get hands out tracked, chunked, optionally
// failing or corrupt stream buffers, whose FindMissing can be scripted, and
// which injects errors per operation.

type getPlan struct {
	data    []byte // what the backend delivers (may differ from what the digest promises)
	chunks  []int
	failAt  int // with failErr
	failErr error
}

type backend struct {
	*model.Store
	mu       sync.Mutex
	plans    map[string]*getPlan // by digest.String()
	chunker  func(n int) []int   // chunking for objects without a plan
	getErr   map[string]error
	putErr   map[string]error
	anyErr   error // every operation fails with it
	fmReply  func(req digest.Set) (digest.Set, error)
	trackers []*model.Tracker
	gets     int
}

func newBackend(name string) *backend {
	s := model.NewStore(name, digest.KeyWithInstance)
	b := &backend{Store: s, plans: map[string]*getPlan{}, getErr: map[string]error{}, putErr: map[string]error{}}
	s.Before = func(c *model.Call) error {
		b.mu.Lock()
		defer b.mu.Unlock()
		if b.anyErr != nil {
			return b.anyErr
		}
		if c.Op == "Put" {
			return b.putErr[c.Digests[0]]
		}
		return nil
	}
	return b
}

var quietSource = buffer.BackendProvided(func(bool) {})

func (b *backend) Get(ctx context.Context, d digest.Digest) buffer.Buffer {
	b.mu.Lock()
	b.gets++
	anyErr := b.anyErr
	gerr := b.getErr[d.String()]
	plan := b.plans[d.String()]
	chunker := b.chunker
	b.mu.Unlock()
	if anyErr != nil {
		return buffer.NewBufferFromError(anyErr)
	}
	if gerr != nil {
		return buffer.NewBufferFromError(gerr)
	}
	if err := ctx.Err(); err != nil {
		return buffer.NewBufferFromError(status.FromContextError(err).Err())
	}
	spec := model.SourceSpec{}
	if plan != nil {
		spec = model.SourceSpec{Data: plan.data, Chunks: plan.chunks, FailAt: plan.failAt, FailErr: plan.failErr}
	} else {
		data, ok := b.Store.Peek(d)
		if !ok {
			return buffer.NewBufferFromError(status.Errorf(codes.NotFound, "Object %s not found", d))
		}
		spec.Data = append([]byte(nil), data...)
		if chunker != nil {
			spec.Chunks = chunker(len(data))
		}
	}
	buf, tr := model.NewTrackedCASBuffer(d, spec, quietSource)
	b.mu.Lock()
	b.trackers = append(b.trackers, tr)
	b.mu.Unlock()
	return buf
}

func (b *backend) FindMissing(ctx context.Context, digests digest.Set) (digest.Set, error) {
	b.mu.Lock()
	f := b.fmReply
	b.mu.Unlock()
	if f != nil {
		return f(digests)
	}
	return b.Store.FindMissing(ctx, digests)
}

func (b *backend) clearInjections() {
	b.mu.Lock()
	b.plans = map[string]*getPlan{}
	b.getErr = map[string]error{}
	b.putErr = map[string]error{}
	b.mu.Unlock()
}

// releaseProblems lists the Get buffers that were not released exactly once.
func (b *backend) releaseProblems() []string {
	b.mu.Lock()
	defer b.mu.Unlock()
	var out []string
	for _, t := range b.trackers {
		if s := t.CheckReleasedOnce(); s != "" {
			out = append(out, s)
		}
	}
	return out
}

// ---------------------------------------------------------------------------
// Hand-written server streams for driving the service methods directly.

type fakeServerStream struct{ ctx context.Context }

func (f fakeServerStream) Context() context.Context     { return f.ctx }
func (f fakeServerStream) SetHeader(metadata.MD) error  { return nil }
func (f fakeServerStream) SendHeader(metadata.MD) error { return nil }
func (f fakeServerStream) SetTrailer(metadata.MD)       {}
func (f fakeServerStream) SendMsg(m any) error          { panic("harness: SendMsg not expected") }
func (f fakeServerStream) RecvMsg(m any) error          { panic("harness: RecvMsg not expected") }

func isPrefix(p, whole []byte) bool { return len(p) <= len(whole) && bytes.Equal(p, whole[:len(p)]) }

func codeOf(err error) codes.Code {
	if err == nil {
		return codes.OK
	}
	return status.Code(err)
}
