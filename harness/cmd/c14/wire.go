package main

import (
	"bytes"
	"context"
	"fmt"
	"io"
	"net"
	"os"
	"regexp"
	"runtime"
	"sort"
	"strconv"
	"strings"
	"sync"
	"time"

	remoteexecution "github.com/bazelbuild/remote-apis/build/bazel/remote/execution/v2"
	"github.com/buildbarn/bb-storage/pkg/blobstore"
	"github.com/buildbarn/bb-storage/pkg/blobstore/buffer"
	"github.com/buildbarn/bb-storage/pkg/blobstore/grpcclients"
	"github.com/buildbarn/bb-storage/pkg/blobstore/grpcservers"
	"github.com/buildbarn/bb-storage/pkg/capabilities"
	"github.com/buildbarn/bb-storage/pkg/digest"
	bb_zstd "github.com/buildbarn/bb-storage/pkg/zstd"
	"github.com/google/uuid"
	"google.golang.org/genproto/googleapis/bytestream"
	"google.golang.org/grpc"
	"google.golang.org/grpc/codes"
	"google.golang.org/grpc/credentials/insecure"
	"google.golang.org/grpc/status"
	"google.golang.org/grpc/test/bufconn"
	"google.golang.org/protobuf/proto"

	"verif/lib/gen"
	"verif/lib/model"
	"verif/lib/run"
)

// wireEnv is a real gRPC server (ByteStream, CAS, AC, Capabilities of this
// repository) in front of a backend, reachable over an in-memory connection.
type wireEnv struct {
	be         *backend // CAS backend behind the servers
	ac         *backend // AC backend
	srvPool    *countingPool
	server     *grpc.Server
	lis        *bufconn.Listener
	conn       *grpc.ClientConn
	maxBatch   int64
	serverZstd bool
	stopped    bool
}

// newWireEnv starts the servers. tinyChunks permits a server-side read chunk
// size of 1 or 16 bytes (one gRPC message per chunk: only for small objects).
func newWireEnv(r *gen.Rng, tinyChunks bool) *wireEnv {
	e := &wireEnv{be: newBackend("backend"), ac: newBackend("ac-backend"), srvPool: newPool(r)}
	e.ac.Store.Unvalidated = true
	e.maxBatch = int64(r.Pick(64, 500, 2000, 10000, 1<<20))
	e.serverZstd = r.Chance(2, 3)
	e.lis = bufconn.Listen(256 << 10)
	e.server = grpc.NewServer(grpc.WaitForHandlers(true))
	readChunk := r.Pick(1, 16, 1000, 65536, 65536)
	if !tinyChunks && readChunk < 1000 {
		readChunk = 4096
	}
	bytestream.RegisterByteStreamServer(e.server, grpcservers.NewByteStreamServer(e.be, readChunk, e.srvPool))
	remoteexecution.RegisterContentAddressableStorageServer(e.server, grpcservers.NewContentAddressableStorageServer(e.be, e.maxBatch))
	remoteexecution.RegisterActionCacheServer(e.server, grpcservers.NewActionCacheServer(e.ac, 1<<20))
	caps := &remoteexecution.CacheCapabilities{DigestFunctions: digest.SupportedDigestFunctions}
	if e.serverZstd {
		caps.SupportedCompressors = []remoteexecution.Compressor_Value{remoteexecution.Compressor_ZSTD}
	}
	remoteexecution.RegisterCapabilitiesServer(e.server, capabilities.NewServer(capabilities.NewStaticProvider(&remoteexecution.ServerCapabilities{CacheCapabilities: caps})))
	go e.server.Serve(e.lis)
	conn, err := grpc.NewClient("passthrough:///bufconn",
		grpc.WithContextDialer(func(ctx context.Context, _ string) (net.Conn, error) { return e.lis.DialContext(ctx) }),
		grpc.WithTransportCredentials(insecure.NewCredentials()))
	if err != nil {
		panic("harness: " + err.Error())
	}
	e.conn = conn
	return e
}

// drain closes the client connection and waits until every server-side
// handler has returned (GracefulStop + WaitForHandlers): after it the backend
// is quiescent and every codec must be back in its pool.
func (e *wireEnv) drain() {
	if e.stopped {
		return
	}
	e.stopped = true
	e.conn.Close()
	e.server.GracefulStop()
	e.lis.Close()
}

// ---------------------------------------------------------------------------
// Hostile uploads over the wire: the generated stub sends the script.

func caseWriteWire(c *run.Case, w *run.Worker) {
	r := c.Rng
	obj := genObject(r, uint64(c.Index)+1, uint64(w.Index)+200, 60000)
	comp := remoteexecution.Compressor_IDENTITY
	if r.Bool() {
		comp = remoteexecution.Compressor_ZSTD
	}
	s := genWriteScript(r, obj, comp, r.Chance(2, 3), false)
	cancelInstead := s.termErr != nil // a stream error is a client-side cancellation here
	v := evaluate(s)
	c.Desc("write-wire %s", s.describe())
	c.Logf("reference verdict: %s %v %s", v.kind, v.defects, v.why)
	env := newWireEnv(r, true)
	defer env.drain()
	if r.Chance(1, 5) {
		env.be.Store.Set(obj.d, obj.data)
	}
	before := keySet(env.be.Store)
	prev, hadPrev := env.be.Store.Peek(obj.d)

	ctx, cancel := context.WithCancel(context.Background())
	defer cancel()
	stream, err := bytestream.NewByteStreamClient(env.conn).Write(ctx)
	var resp *bytestream.WriteResponse
	if err == nil {
		sent := 0
		for _, m := range s.requests() {
			if serr := stream.Send(m); serr != nil {
				c.Logf("Send #%d -> %v (server already answered)", sent, serr)
				break
			}
			sent++
		}
		if cancelInstead {
			cancel()
		}
		resp, err = stream.CloseAndRecv()
	}
	env.drain() // all handlers have returned; the backend is quiescent
	c.Logf("Write over the wire -> err=%v resp=%v", err, resp)
	out := writeOutcome{err: err, hasResp: resp != nil}
	if resp != nil {
		out.committed = resp.CommittedSize
	}
	w.Count("write_wire_scripts", 1)
	checkWrite(c, w, "wire", s, v, out, env.be, before, prev, hadPrev)
	if n := env.srvPool.decOut.Load(); n != 0 {
		c.Violation("byteStreamServer.Write(zstd):decoder-not-returned-to-pool", "%d zstd decoders still checked out after the server drained", n)
	}
}

// ---------------------------------------------------------------------------
// Client <-> server back to back, compared with the backend used directly.

// stackDumpAfter is a debugging aid: with C14_STACKDUMP_S=<seconds> set, a case
// that runs longer writes all goroutine stacks to the worker log (VERIF_KEEP=1).
func stackDumpAfter() func() {
	secs, _ := strconv.Atoi(os.Getenv("C14_STACKDUMP_S"))
	if secs <= 0 {
		return func() {}
	}
	done := make(chan struct{})
	go func() {
		for i := 0; i < 2; i++ {
			select {
			case <-done:
				return
			case <-time.After(time.Duration(secs) * time.Second):
				buf := make([]byte, 1<<22)
				fmt.Fprintf(os.Stderr, "\n===== stack dump %d =====\n", i)
				os.Stderr.Write(buf[:runtime.Stack(buf, true)])
			}
		}
	}()
	return func() { close(done) }
}

// closeDeadlockSig: zstdByteStreamChunkReader.Close drains the stream with its
// own Recv() loop while the forwarding goroutine started by Get is still inside
// Recv(); whichever of the two receives the end of the stream, the other one
// may wait forever, and Close then never returns from wg.Wait().
const closeDeadlockSig = "casBlobAccess.Get(zstd):Close-deadlocks-with-forwarding-goroutine"

var (
	stuckCloseRe = regexp.MustCompile(`(?s)^goroutine \d+ \[sync\.WaitGroup\.Wait[^\]]*\]:.*grpcclients\.\(\*zstdByteStreamChunkReader\)\.Close`)
	stuckRecvRe  = regexp.MustCompile(`(?s)^goroutine \d+ \[(chan receive|select), \d+ minutes[^\]]*\]:.*bytestream\.\(\*byteStreamReadClient\)\.Recv.*grpcclients\.\(\*casBlobAccess\)\.Get\.func1`)
	stuckDrainRe = regexp.MustCompile(`(?s)^goroutine \d+ \[(chan receive|select), \d+ minutes[^\]]*\]:.*bytestream\.\(\*byteStreamReadClient\)\.Recv.*grpcclients\.\(\*zstdByteStreamChunkReader\)\.Close`)
)

// stuckInClose reports (from a goroutine dump) whether a Close() is parked in
// wg.Wait() while its forwarding goroutine is parked in Recv() (the drain loop
// of Close() took the end of the stream), or whether the drain loop of Close()
// itself is parked in Recv() (the forwarding goroutine took it). "Parked" means
// for at least a minute (the runtime's own annotation), with the context of the
// call already cancelled by Close(): on a loaded machine a shorter wait proves
// nothing.
func stuckInClose() (string, bool) {
	buf := make([]byte, 1<<22)
	dump := string(buf[:runtime.Stack(buf, true)])
	var hit []string
	closeParked, recvParked, drainParked := false, false, false
	for _, g := range strings.Split(dump, "\n\n") {
		switch {
		case stuckCloseRe.MatchString(g):
			closeParked = true
			hit = append(hit, g)
		case stuckDrainRe.MatchString(g):
			drainParked = true
			hit = append(hit, g)
		case stuckRecvRe.MatchString(g):
			recvParked = true
			hit = append(hit, g)
		}
	}
	return strings.Join(hit, "\n\n"), (closeParked && recvParked) || drainParked
}

// guarded runs one client operation. The verdict is state based: the clock
// only decides when to look. If the operation has not returned after a while
// and two dumps (2 s apart) both show Close() parked in wg.Wait() and the
// forwarding goroutine parked in Recv(), nothing can wake them any more (the
// context is already cancelled): a violation, and the case is abandoned (its
// deferred drain closes the connection, which releases the goroutines).
func guarded(c *run.Case, w *run.Worker, what string, f func()) (stalled bool) {
	done := make(chan struct{})
	go func() {
		defer close(done)
		f()
	}()
	for {
		select {
		case <-done:
			return false
		case <-time.After(20 * time.Second):
		}
		if _, a := stuckInClose(); !a {
			continue
		}
		select {
		case <-done:
			return false
		case <-time.After(2 * time.Second):
		}
		if d, b := stuckInClose(); b {
			w.Count("close_deadlocks_observed", 1)
			c.Violation(closeDeadlockSig, "%s never returned: Close() and its forwarding goroutine both call Recv() on one stream; the one that did not get the end of the stream waits forever\n%s", what, d)
			return true
		}
	}
}

const lastChunkSig = "casBlobAccess.Get(zstd):last-chunk-dropped-when-decoder-returns-data-with-EOF"

type b2bSide struct {
	name string
	ba   blobstore.BlobAccess
	be   *backend
}

// readAll consumes a chunk reader.
func readAll(cr buffer.ChunkReader, maxChunks int) ([]byte, error) {
	var out []byte
	for i := 0; maxChunks < 0 || i < maxChunks; i++ {
		chunk, err := cr.Read()
		if err == io.EOF {
			return out, nil
		}
		if err != nil {
			return out, err
		}
		out = append(out, chunk...)
	}
	return out, nil
}

type opResult struct {
	code codes.Code
	data []byte
	set  []string
	err  error
}

func (a opResult) String() string {
	if a.set != nil {
		return fmt.Sprintf("%v missing=%d", a.code, len(a.set))
	}
	return fmt.Sprintf("%v data=%s", a.code, gen.Hex8(a.data))
}

func caseBackToBack(c *run.Case, w *run.Worker) {
	r := c.Rng
	defer stackDumpAfter()()
	nObj := r.Range(2, 5)
	var objs []object
	largest := 0
	for i := 0; i < nObj; i++ {
		o := genObject(r, uint64(c.Index)+1, uint64(w.Index)*100+uint64(i)+300, 70000)
		objs = append(objs, o)
		largest = max(largest, len(o.data))
	}
	env := newWireEnv(r, largest <= 3000)
	defer env.drain()
	twin := newBackend("twin")
	var clientPool *countingPool
	var cp bb_zstd.Pool
	if r.Chance(2, 3) {
		clientPool = newPool(r)
		cp = clientPool
	}
	uuids := r.Fork()
	var uuidMu sync.Mutex
	clientChunk := r.Pick(1, 100, 4096, 65536, 65536)
	if largest > 3000 && clientChunk < 4096 {
		clientChunk = 4096 // one gRPC message per chunk
	}
	client := grpcclients.NewCASBlobAccess(env.conn, func() (uuid.UUID, error) {
		uuidMu.Lock()
		defer uuidMu.Unlock()
		return rngUUID(uuids), nil
	}, clientChunk, cp)
	zstdOn := env.serverZstd && clientPool != nil
	mode := "identity"
	if zstdOn {
		mode = "zstd"
	}
	c.Desc("back-to-back CAS: server-zstd=%v client-pool=%v client-chunk=%d largest-object=%d", env.serverZstd, clientPool != nil, clientChunk, largest)
	w.Count("b2b_cases_"+mode, 1)
	ctx := context.Background()
	sides := []b2bSide{{"backend-direct", twin, twin}, {"client-server", client, env.be}}
	lastPutFailedEmpty := false // a zstd upload of the empty object failed on the client side
	compareStores := func(when string) (same bool) {
		same = true
		a, b := twin.Store.Keys(), env.be.Store.Keys()
		if strings.Join(a, "\n") != strings.Join(b, "\n") {
			same = false
			if zstdOn && lastPutFailedEmpty && len(b) == len(a)+1 {
				// casBlobAccess.Put finishes (finish_write) a compressed upload
				// whose source failed instead of cancelling it; the server then
				// sees a complete upload of zero bytes, which is the empty object.
				c.Violation("casBlobAccess.Put(zstd):failed-upload-finished-instead-of-cancelled", "%s: the Put failed on the client, but the backend behind the server now holds the empty object\ndirect: %v\nfronted: %v", when, a, b)
				return
			}
			c.Violation("casBlobAccess<->servers:backend-contents-differ", "%s: the backend used directly holds %d objects, the one behind client+server %d\ndirect: %v\nfronted: %v", when, len(a), len(b), a, b)
			return
		}
		for _, o := range objs {
			x, _ := twin.Store.Peek(o.d)
			y, _ := env.be.Store.Peek(o.d)
			if !bytes.Equal(x, y) {
				same = false
				c.Violation("casBlobAccess<->servers:backend-contents-differ", "%s: %s holds different bytes", when, o)
			}
		}
		return
	}
	nOps := r.Range(4, 12)
	for op := 0; op < nOps; op++ {
		o := objs[r.Intn(len(objs))]
		kind := r.Pick(0, 0, 0, 1, 1, 2, 2, 3, 4, 5)
		// Faults and plans applied identically to both backends.
		opSeed := r.Uint64()
		var res [2]opResult
		var opDesc string
		var sig string
		causes := 0 // independent reasons for the operation to fail
		for si, side := range sides {
			rr := gen.New(opSeed) // same choices for both sides
			side.be.clearInjections()
			fault := rr.Intn(8)
			var injected error
			causes = 0
			if fault == 0 {
				injected = status.Error(pickCode(rr), "injected: backend fails")
				causes++
			}
			switch kind {
			case 0: // Put
				src := model.SourceSpec{Data: o.data, Chunks: chunkLens(rr, len(o.data), true)}
				variant := rr.Intn(10)
				vname := "intact"
				switch {
				case variant == 0 && len(o.data) > 0:
					vname = "corrupt"
					d := append([]byte(nil), o.data...)
					d[rr.Intn(len(d))] ^= 2
					src.Data = d
				case variant == 1 && len(o.data) > 0:
					vname = "short"
					src.Data = o.data[:len(o.data)-1]
					src.Chunks = chunkLens(rr, len(src.Data), true)
				case variant == 2:
					vname = "long"
					src.Data = append(append([]byte(nil), o.data...), 9)
					src.Chunks = chunkLens(rr, len(src.Data), true)
				case variant == 3:
					vname = "source-error"
					src.FailAt = rr.Range(0, len(o.data))
					src.FailErr = status.Error(pickCode(rr), "injected: upload source broke")
				}
				if injected != nil {
					side.be.mu.Lock()
					side.be.putErr[o.d.String()] = injected
					side.be.mu.Unlock()
				}
				if vname != "intact" {
					causes++
				}
				opDesc = fmt.Sprintf("Put(%v, source=%s, backendErr=%v)", o, vname, injected)
				sig = "Put(" + mode + ")"
				b, tr := model.NewTrackedCASBuffer(o.d, src, buffer.UserProvided)
				err := side.ba.Put(ctx, o.d, b)
				res[si] = opResult{code: codeOf(err), err: err}
				if p := tr.CheckReleasedOnce(); p != "" && si == 1 {
					c.Violation("casBlobAccess.Put("+mode+"):upload-buffer-release-count", "%s after %s -> %v", p, opDesc, err)
				}
				if si == 1 {
					w.Count("b2b_put_"+vname, 1)
				}
			case 1, 2, 3, 4: // Get in several consumption styles
				present := side.be.Store.Has(o.d)
				if present {
					stored, _ := side.be.Store.Peek(o.d)
					plan := &getPlan{data: stored, chunks: chunkLens(rr, len(stored), true)}
					switch rr.Intn(10) {
					case 0:
						causes++
						plan.failAt, plan.failErr = rr.Range(0, len(stored)), status.Error(pickCode(rr), "injected: backend stream broke")
					case 1:
						causes++
						d := append(append([]byte(nil), stored...), 1)
						if len(stored) > 0 && rr.Bool() {
							d = d[:len(stored)]
							d[rr.Intn(len(d))] ^= 8
						}
						plan.data, plan.chunks = d, chunkLens(rr, len(d), true)
					}
					side.be.mu.Lock()
					side.be.plans[o.d.String()] = plan
					side.be.mu.Unlock()
				} else {
					causes++
				}
				if injected != nil {
					side.be.mu.Lock()
					side.be.getErr[o.d.String()] = injected
					side.be.mu.Unlock()
				}
				size := int64(len(o.data))
				if guarded(c, w, "a Get on "+side.name, func() {
					switch kind {
					case 1:
						max := 1 << 20
						if rr.Chance(1, 8) && size > 0 {
							max = int(size) - 1
							causes++
						}
						opDesc = fmt.Sprintf("Get(%v).ToByteSlice(%d) present=%v backendErr=%v", o, max, present, injected)
						sig = "Get(" + mode + ").ToByteSlice"
						data, err := side.ba.Get(ctx, o.d).ToByteSlice(max)
						res[si] = opResult{code: codeOf(err), data: data, err: err}
					case 2:
						off := pickOffset(rr, size)
						if off < 0 || off > size {
							causes++
						}
						cs := rr.Pick(1, 10, 1000, 65536)
						if size > 3000 && cs < 1000 {
							cs = 1000
						}
						opDesc = fmt.Sprintf("Get(%v).ToChunkReader(%d,%d) present=%v backendErr=%v", o, off, cs, present, injected)
						sig = "Get(" + mode + ").ToChunkReader"
						cr := side.ba.Get(ctx, o.d).ToChunkReader(off, cs)
						data, err := readAll(cr, -1)
						cr.Close()
						if err != nil {
							data = nil // partial data before an error is not part of the contract
						}
						res[si] = opResult{code: codeOf(err), data: data, err: err}
					case 3: // read a little, then walk away
						opDesc = fmt.Sprintf("Get(%v) partial read then Close; present=%v", o, present)
						sig = "Get(" + mode + ").partial"
						cr := side.ba.Get(ctx, o.d).ToChunkReader(0, 4096)
						readAll(cr, rr.Range(0, 2))
						cr.Close()
						res[si] = opResult{}
					default:
						opDesc = fmt.Sprintf("Get(%v).Discard()", o)
						sig = "Get(" + mode + ").Discard"
						side.ba.Get(ctx, o.d).Discard()
						res[si] = opResult{}
					}
				}) {
					return
				}
				if si == 1 {
					w.Count("b2b_get", 1)
				}
			case 5: // FindMissing
				sb := digest.NewSetBuilder(0)
				for _, x := range objs {
					if rr.Bool() {
						sb.Add(x.d)
					}
				}
				for i := rr.Intn(3); i > 0; i-- {
					sb.Add(gen.SHA256Digest(instances[rr.Intn(len(instances))], rr.Bytes(8)))
				}
				set := sb.Build()
				if set.Length() == 0 {
					injected = nil // nothing to ask the backend: the servers answer without it
					causes = 0
				}
				if injected != nil {
					side.be.mu.Lock()
					side.be.anyErr = injected
					side.be.mu.Unlock()
				}
				opDesc = fmt.Sprintf("FindMissing(%d digests) backendErr=%v", set.Length(), injected)
				sig = "FindMissing"
				missing, err := side.ba.FindMissing(ctx, set)
				side.be.mu.Lock()
				side.be.anyErr = nil
				side.be.mu.Unlock()
				var l []string
				for _, d := range missing.Items() {
					l = append(l, d.String())
				}
				sort.Strings(l)
				if l == nil {
					l = []string{}
				}
				res[si] = opResult{code: codeOf(err), set: l, err: err}
				if si == 1 {
					w.Count("b2b_find_missing", 1)
				}
			}
		}
		c.Logf("%s: direct -> %v | client+server -> %v (%v)", opDesc, res[0], res[1], res[1].err)
		w.Count("b2b_ops", 1)
		w.Distinct(fmt.Sprintf("b2b|%s|%v|%v", sig, res[0].code, mode))
		if res[0].code != codes.OK {
			w.Count("b2b_failing_ops", 1)
		}
		site := "casBlobAccess." + sig
		switch {
		case res[0].code == codes.OK && res[1].code == codes.Internal && zstdOn && kind >= 1 && kind <= 2 && strings.Contains(clientPool.name, "async") && strings.Contains(res[1].err.Error(), "bytes in size, while"):
			// zstdByteStreamChunkReader.Read returns (data, io.EOF) when the
			// decoder does; the consumer drops a chunk that comes with io.EOF.
			c.Violation(lastChunkSig, "%s: the backend used directly answered OK, client+server (client pool %s) %v", opDesc, clientPool.name, res[1].err)
		case (res[0].code == codes.OK) != (res[1].code == codes.OK):
			c.Violation(site+":outcome-differs-from-backend", "%s: the backend used directly answered %v, client+server %v (%v)", opDesc, res[0].code, res[1].code, res[1].err)
		case res[0].code != res[1].code && zstdOn && kind == 0 && res[1].err == io.EOF:
			// The compressed upload path hands the bare io.EOF of
			// ClientStream.Send to the caller instead of the status of the RPC.
			c.Violation("casBlobAccess.Put(zstd):server-status-replaced-by-EOF", "%s: the backend used directly answered %v, client+server returned the bare error %q", opDesc, res[0].code, res[1].err)
		case res[0].code != res[1].code && causes <= 1:
			// With two independent reasons to fail (say a read offset outside
			// the object AND an absent object) either may be reported first.
			c.Violation(site+":status-code-differs-from-backend", "%s: the backend used directly answered %v, client+server %v (%v)", opDesc, res[0].code, res[1].code, res[1].err)
		case res[0].code != res[1].code:
			w.Count("b2b_two_failure_causes", 1)
		case !bytes.Equal(res[0].data, res[1].data):
			c.Violation(site+":data-differs-from-backend", "%s: direct %s, client+server %s", opDesc, gen.Hex8(res[0].data), gen.Hex8(res[1].data))
		case strings.Join(res[0].set, ",") != strings.Join(res[1].set, ","):
			c.Violation(site+":result-differs-from-backend", "%s: direct %v, client+server %v", opDesc, res[0].set, res[1].set)
		}
		if kind == 0 {
			lastPutFailedEmpty = len(o.data) == 0 && res[1].code != codes.OK
			if !compareStores("after " + opDesc) {
				return // everything after this would only repeat the difference
			}
		}
	}
	env.drain()
	lastPutFailedEmpty = false
	compareStores("after draining the server")
	for _, p := range env.be.releaseProblems() {
		c.Violation("byteStreamServer.Read("+mode+"):backend-buffer-release-count", "%s", p)
	}
	if n, m := env.srvPool.encOut.Load(), env.srvPool.decOut.Load(); n != 0 || m != 0 {
		c.Violation("byteStreamServer:codec-not-returned-to-pool", "server pool after drain: %d encoders, %d decoders checked out", n, m)
	}
	if clientPool != nil {
		if n, m := clientPool.encOut.Load(), clientPool.decOut.Load(); n != 0 || m != 0 {
			c.Violation("casBlobAccess:codec-not-returned-to-pool", "client pool after all operations: %d encoders, %d decoders checked out", n, m)
		}
		if zstdOn && clientPool.encTotal.Load()+clientPool.decTotal.Load() > 0 {
			w.Count("b2b_zstd_negotiated", 1)
		}
	}
	if c.Index < 1 {
		w.Sample(map[string]any{"engine": "back-to-back", "mode": mode, "ops": nOps})
	}
}

// ---------------------------------------------------------------------------
// Action Cache back to back.

func caseActionCache(c *run.Case, w *run.Worker) {
	r := c.Rng
	env := newWireEnv(r, true)
	defer env.drain()
	twin := newBackend("ac-twin")
	twin.Store.Unvalidated = true
	maxMsg := 1 << 20 // the message size limit is a local setting, not backend behaviour
	client := grpcclients.NewACBlobAccess(env.conn, maxMsg)
	c.Desc("back-to-back AC maxMsg=%d", maxMsg)
	ctx := context.Background()
	type entry struct {
		d  digest.Digest
		ar *remoteexecution.ActionResult
	}
	var keys []entry
	for i := r.Range(1, 4); i > 0; i-- {
		o := genObjectSized(r, uint64(c.Index), uint64(i)+900, 8, gen.AllFunctions)
		ar := &remoteexecution.ActionResult{ExitCode: int32(r.Intn(256)), StdoutRaw: r.Bytes(r.Pick(0, 3, 40, 200, 2000))}
		for j := r.Intn(3); j > 0; j-- {
			ar.OutputFiles = append(ar.OutputFiles, &remoteexecution.OutputFile{Path: fmt.Sprintf("out/%d", j), Digest: o.d.GetProto(), IsExecutable: r.Bool()})
		}
		keys = append(keys, entry{o.d, ar})
	}
	sides := []b2bSide{{"backend-direct", twin, twin}, {"client-server", client, env.ac}}
	for op := r.Range(3, 8); op > 0; op-- {
		k := keys[r.Intn(len(keys))]
		kind := r.Intn(4)
		opSeed := r.Uint64()
		var res [2]opResult
		var msgs [2]proto.Message
		var opDesc string
		for si, side := range sides {
			rr := gen.New(opSeed)
			side.be.clearInjections()
			var injected error
			if rr.Chance(1, 8) {
				injected = status.Error(pickCode(rr), "injected: backend fails")
				side.be.mu.Lock()
				side.be.anyErr = injected
				side.be.mu.Unlock()
			}
			switch kind {
			case 0:
				opDesc = fmt.Sprintf("Put(%s) backendErr=%v", k.d, injected)
				err := side.ba.Put(ctx, k.d, buffer.NewProtoBufferFromProto(k.ar, buffer.UserProvided))
				res[si] = opResult{code: codeOf(err), err: err}
			case 1, 2:
				opDesc = fmt.Sprintf("Get(%s).ToProto backendErr=%v", k.d, injected)
				m, err := side.ba.Get(ctx, k.d).ToProto(&remoteexecution.ActionResult{}, maxMsg)
				res[si] = opResult{code: codeOf(err), err: err}
				msgs[si] = m
			default: // an object that is not an ActionResult sits in the backend
				garbage := append([]byte{0xff, 0xff, 0xff}, rr.Bytes(5)...)
				side.be.Store.Set(k.d, garbage)
				opDesc = fmt.Sprintf("Get(%s).ToProto with a malformed object in the backend", k.d)
				m, err := side.ba.Get(ctx, k.d).ToProto(&remoteexecution.ActionResult{}, maxMsg)
				res[si] = opResult{code: codeOf(err), err: err}
				msgs[si] = m
				side.be.Store.Delete(k.d)
			}
			side.be.mu.Lock()
			side.be.anyErr = nil
			side.be.mu.Unlock()
		}
		c.Logf("%s: direct -> %v | client+server -> %v (%v)", opDesc, res[0].code, res[1].code, res[1].err)
		w.Count("ac_ops", 1)
		switch {
		case (res[0].code == codes.OK) != (res[1].code == codes.OK):
			c.Violation("acBlobAccess<->actionCacheServer:outcome-differs-from-backend", "%s: direct %v, client+server %v (%v)", opDesc, res[0].code, res[1].code, res[1].err)
		case res[0].code != res[1].code:
			c.Violation("acBlobAccess<->actionCacheServer:status-code-differs-from-backend", "%s: direct %v, client+server %v (%v)", opDesc, res[0].code, res[1].code, res[1].err)
		case res[0].code == codes.OK && msgs[0] != nil && !proto.Equal(msgs[0], msgs[1]):
			c.Violation("acBlobAccess<->actionCacheServer:result-differs-from-backend", "%s: direct %v, client+server %v", opDesc, msgs[0], msgs[1])
		}
		if msgs[0] != nil && res[0].code == codes.OK {
			w.Count("ac_hits", 1)
		}
		// Both backends hold equivalent ActionResults.
		for _, kk := range keys {
			x, okx := twin.Store.Peek(kk.d)
			y, oky := env.ac.Store.Peek(kk.d)
			if okx != oky {
				c.Violation("acBlobAccess<->actionCacheServer:backend-contents-differ", "after %s: %s present direct=%v fronted=%v", opDesc, kk.d, okx, oky)
				continue
			}
			if okx {
				var a, b remoteexecution.ActionResult
				if proto.Unmarshal(x, &a) != nil || proto.Unmarshal(y, &b) != nil || !proto.Equal(&a, &b) {
					c.Violation("acBlobAccess<->actionCacheServer:backend-contents-differ", "after %s: %s holds different results", opDesc, kk.d)
				}
			}
		}
	}
}

// ---------------------------------------------------------------------------
// Concurrent clients on one connection (for the race detector and for the
// bounded pools): every goroutine owns its objects, so its results are exact.

func caseConcurrent(c *run.Case, w *run.Worker) {
	r := c.Rng
	env := newWireEnv(r, false)
	defer env.drain()
	clientPool := newPool(r)
	uuids := r.Fork()
	var uuidMu sync.Mutex
	client := grpcclients.NewCASBlobAccess(env.conn, func() (uuid.UUID, error) {
		uuidMu.Lock()
		defer uuidMu.Unlock()
		return rngUUID(uuids), nil
	}, r.Pick(4096, 65536), clientPool)
	c.Desc("concurrent clients: server-zstd=%v pools %s/%s", env.serverZstd, clientPool.name, env.srvPool.name)
	ctx := context.Background()
	workers := r.Range(3, 6)
	var wg sync.WaitGroup
	for g := 0; g < workers; g++ {
		gr := r.Fork()
		wg.Add(1)
		go func(g int) {
			defer wg.Done()
			for i := 0; i < 6; i++ {
				o := genObject(gr, uint64(c.Index)*64+uint64(g)+1, uint64(w.Index)*100+uint64(i)+5000, 30000)
				if len(o.data) == 0 {
					continue
				}
				b, _ := model.NewTrackedCASBuffer(o.d, model.SourceSpec{Data: o.data, Chunks: chunkLens(gr, len(o.data), true)}, buffer.UserProvided)
				err := client.Put(ctx, o.d, b)
				if err != nil {
					c.Violation("casBlobAccess.Put(concurrent):valid-upload-rejected", "goroutine %d: Put(%v) -> %v", g, o, err)
					continue
				}
				var data []byte
				if guarded(c, w, fmt.Sprintf("goroutine %d: Get(%v).ToByteSlice", g, o), func() { data, err = client.Get(ctx, o.d).ToByteSlice(1 << 20) }) {
					return
				}
				if err != nil && status.Code(err) == codes.Internal && strings.Contains(clientPool.name, "async") && strings.Contains(err.Error(), "bytes in size, while") {
					c.Violation(lastChunkSig, "goroutine %d: Get(%v) after a successful Put (client pool %s) -> %v", g, o, clientPool.name, err)
				} else if err != nil || !bytes.Equal(data, o.data) {
					c.Violation("casBlobAccess.Get(concurrent):wrong-result", "goroutine %d: Get(%v) after a successful Put -> %s, %v", g, o, gen.Hex8(data), err)
				}
				missing, err := client.FindMissing(ctx, o.d.ToSingletonSet())
				if err != nil || missing.Length() != 0 {
					c.Violation("casBlobAccess.FindMissing(concurrent):wrong-result", "goroutine %d: FindMissing(%v) after a successful Put -> %d missing, %v", g, o, missing.Length(), err)
				}
				w.Count("concurrent_roundtrips", 1)
			}
		}(g)
	}
	wg.Wait()
	env.drain()
	if n, m := env.srvPool.encOut.Load(), env.srvPool.decOut.Load(); n != 0 || m != 0 {
		c.Violation("byteStreamServer:codec-not-returned-to-pool", "server pool after drain: %d encoders, %d decoders checked out", n, m)
	}
	if n, m := clientPool.encOut.Load(), clientPool.decOut.Load(); n != 0 || m != 0 {
		c.Violation("casBlobAccess:codec-not-returned-to-pool", "client pool: %d encoders, %d decoders checked out", n, m)
	}
}
