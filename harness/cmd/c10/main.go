// C10 — hierarchical CAS: an object is visible exactly under the instance
// subtree of its uploaders.
//
// Engine: assembled local store with NewHierarchicalCASBlobAccess (lib/asm).
// Model: object -> set of instance names under which a Put SUCCEEDED;
// visible(J) = some member is a component-wise prefix of J. After every
// operation the whole (name x object) universe is probed: soundness (served or
// reported present => visible) always; completeness (visible => served) in
// eviction-free runs (no block popped, no index discard reported).
//
//verif:race
package main

import (
	"context"
	"fmt"
	"io"
	"runtime"
	"strings"
	"sync"
	"sync/atomic"
	"time"

	"github.com/buildbarn/bb-storage/pkg/blobstore/buffer"
	"github.com/buildbarn/bb-storage/pkg/digest"

	"verif/lib/asm"
	"verif/lib/gen"
	"verif/lib/run"
)

func main() {
	run.Main(run.Spec{
		Property: "C10",
		Level:    "exploration",
		Rule: "case = hierarchical store configuration (eviction-free: roomy blocks and index; rotating: small blocks) x history of Put under PRNG-chosen instance names (valid content, wrong bytes, short content, source error; new digests and digests that already exist under other names), Get, FindMissing and filler uploads over a name universe with string-but-not-component prefixes; after every operation the whole name x object universe is probed. Group config: the same soundness probes against the CAS built by NewBlobAccessFromConfiguration (hierarchical local store bare and behind existence caching). Concurrent group: 2-6 clients upload/read the same digests under unrelated names with yields in sources and device I/O; " +
			"distinct = hash of (configuration, sequence of (op, name, mode)); non-trivial = at least one probe under a name that is a string-prefix relative but not a component-prefix relative of an uploader",
		Workers:     12,
		Floors:      map[string]int64{"probes": 50000, "probes_served": 5000, "probes_denied_with_object_elsewhere": 5000, "non_component_prefix_probes": 2000, "reuploads_invalid": 200, "reuploads_valid": 200, "completeness_checks": 3000, "refresh_events": 100, "conc_histories": 60, "config_histories": 60, "config_probes_denied_with_object_elsewhere": 1000},
		Assumptions: []string{"completeness is asserted only while the model saw no block pop and the index reported no discard"},
		Race:        true,
		Body:        body,
	})
}

var names = []string{"", "a", "a/b", "a/b/c", "ab", "a/bc", "b", "b/a", "a/b/c/d"}

func isPrefix(p, j string) bool {
	if p == "" {
		return true
	}
	pc, jc := strings.Split(p, "/"), []string{}
	if j != "" {
		jc = strings.Split(j, "/")
	}
	if len(pc) > len(jc) {
		return false
	}
	for i := range pc {
		if pc[i] != jc[i] {
			return false
		}
	}
	return true
}

// eofReader delivers an upload through io.Reader and returns its last bytes
// together with io.EOF in one call.
type eofReader struct {
	u   *asm.Upload
	pos int
}

func (r *eofReader) Read(p []byte) (int, error) {
	u := r.u
	if r.pos >= len(u.Data) {
		return 0, io.EOF
	}
	end := r.pos + len(p)
	if end > len(u.Data) {
		end = len(u.Data)
	}
	if u.FailErr != nil && end > u.FailAt {
		n := 0
		if u.FailAt > r.pos {
			n = copy(p, u.Data[r.pos:u.FailAt])
		}
		r.pos += n
		return n, u.FailErr
	}
	n := copy(p, u.Data[r.pos:end])
	r.pos += n
	if r.pos == len(u.Data) {
		return n, io.EOF
	}
	return n, nil
}

func (r *eofReader) Close() error {
	r.u.Closes.Add(1)
	return nil
}

type object struct {
	data      []byte
	uploaders map[string]bool
}

func body(w *run.Worker) {
	ctx := context.Background()
	w.Cases("seq", w.N(300, 15000), func(c *run.Case) { seq(ctx, w, c) })
	w.Cases("conc", w.N(120, 4000), func(c *run.Case) { conc(ctx, w, c) })
	w.Cases("config", w.N(120, 4000), func(c *run.Case) { configured(ctx, w, c) })
}

func mkCfg(r *gen.Rng, evictionFree bool) asm.Config {
	cfg := asm.GenConfig(r, false)
	cfg.Hierarchical = true
	cfg.Mutable = false
	if cfg.New < 1 {
		cfg.New = 1
	}
	cfg.Factory = []string{"cas", "raw"}[r.Intn(2)]
	cfg.InMemoryBlocks = false
	if cfg.Sector == 1 {
		cfg.Sector = 16
	}
	cfg.Label = "c10"
	if evictionFree {
		cfg.Sector = 64
		cfg.BlockSectors = 256 // 16 KiB blocks, nothing rotates out
		cfg.Records = r.Range(1500, 3000)
		cfg.GetAttempts, cfg.PutAttempts = 16, 64
	} else if r.Bool() {
		cfg.Records = r.Range(300, 900)
		cfg.GetAttempts, cfg.PutAttempts = 16, 64
	}
	return cfg
}

func seq(ctx context.Context, w *run.Worker, c *run.Case) {
	r := c.Rng
	evictionFree := r.Bool()
	cfg := mkCfg(r, evictionFree)
	s, err := asm.Build(cfg, asm.NewMedia(cfg))
	if err != nil {
		panic(err)
	}
	im := asm.NewIndexMetrics("c10")
	d0 := im.Discards()
	c.Desc("seq evictionFree=%v %v", evictionFree, cfg)
	if c.Index == 0 {
		w.Sample(map[string]any{"group": "seq", "evictionFree": evictionFree, "config": cfg.String()})
	}
	// name universe for this case
	p := r.Perm(len(names))
	var univ []string
	for _, i := range p[:r.Range(4, len(names))] {
		univ = append(univ, names[i])
	}
	var objs []*object
	block := int(cfg.BlockBytes())
	id := 0
	var sig strings.Builder
	nontrivial := false

	visible := func(o *object, j string) bool {
		for u := range o.uploaders {
			if isPrefix(u, j) {
				return true
			}
		}
		return false
	}
	stringRelative := func(o *object, j string) bool {
		for u := range o.uploaders {
			if !isPrefix(u, j) && (strings.HasPrefix(j, u) || strings.HasPrefix(u, j)) {
				return true
			}
		}
		return false
	}
	probeAll := func(after string) {
		complete := evictionFree && s.BL.Pops.Load() == 0 && im.Discards() == d0
		for oi, o := range objs {
			for _, j := range univ {
				d := gen.SHA256Digest(j, o.data)
				vis := visible(o, j)
				w.Count("probes", 1)
				if !vis && len(o.uploaders) > 0 {
					w.Count("probes_denied_with_object_elsewhere", 1)
					if stringRelative(o, j) {
						w.Count("non_component_prefix_probes", 1)
						nontrivial = true
					}
				}
				useFM := r.Chance(1, 3)
				var served bool
				var err error
				if useFM {
					served, err = asm.Present(ctx, s.BA, d)
				} else {
					var got []byte
					got, err = asm.GetBytes(ctx, s.BA, d)
					served = err == nil
					if served && string(got) != string(o.data) {
						c.Violation("hierarchicalCAS.Get:wrong-bytes", "Get under %q returned wrong bytes for object %d", j, oi)
					}
				}
				if err != nil && !asm.IsNotFound(err) {
					c.Violation("hierarchicalCAS:unexpected-error-sequential", "probe of object %d under %q after %s failed with %v", oi, j, after, err)
					continue
				}
				if served {
					w.Count("probes_served", 1)
					if !vis {
						op := "Get"
						if useFM {
							op = "FindMissing"
						}
						c.Violation("hierarchicalCAS."+op+":visible-outside-uploader-subtree", "after %s: object %d is served (%s) under instance name %q, but successful uploads exist only under %v", after, oi, op, j, keys(o.uploaders))
					}
				} else if vis && complete {
					c.Violation("hierarchicalCAS:not-visible-under-uploader-subtree", "after %s (no eviction, no index discard): object %d is not served under %q although it was uploaded under %v", after, oi, j, keys(o.uploaders))
				}
				if vis && complete {
					w.Count("completeness_checks", 1)
				}
			}
		}
	}

	steps := r.Range(12, 40)
	for st := 0; st < steps; st++ {
		x := r.Intn(100)
		j := univ[r.Intn(len(univ))]
		var after string
		switch {
		case x < 30 || len(objs) == 0: // upload of a new object
			id++
			size := r.Range(0, 200)
			if !evictionFree {
				size = r.Range(0, block/2)
			}
			data := gen.UniqueBlob(uint64(c.Index)<<20|uint64(w.Index)<<44, uint64(id), size)
			var o *object
			for _, e := range objs { // tiny contents (e.g. the empty blob) can coincide: same object
				if string(e.data) == string(data) {
					o = e
				}
			}
			if o == nil {
				o = &object{data: data, uploaders: map[string]bool{}}
				objs = append(objs, o)
			}
			d := gen.SHA256Digest(j, data)
			u := &asm.Upload{Data: data, Chunks: r.Chunking(len(data), true)}
			err := s.BA.Put(ctx, d, u.CASBuffer(d))
			if err == nil {
				o.uploaders[j] = true
			}
			after = fmt.Sprintf("Put(new #%d under %q)->%v", len(objs)-1, j, err)
			fmt.Fprintf(&sig, "N%s;", j)
		case x < 65: // upload of an existing digest under (another) name
			oi := r.Intn(len(objs))
			o := objs[oi]
			d := gen.SHA256Digest(j, o.data)
			mode := r.Intn(6) // 0-2 valid, 3 wrong bytes, 4 short, 5 source error
			u := &asm.Upload{Data: o.data, Chunks: r.Chunking(len(o.data), true)}
			switch mode {
			case 3:
				if len(o.data) == 0 {
					mode = 0
					break
				}
				b := append([]byte(nil), o.data...)
				b[r.Intn(len(b))] ^= 0x21
				u.Data = b
			case 4:
				if len(o.data) == 0 {
					mode = 0
					break
				}
				u.Data = o.data[:r.Intn(len(o.data))]
			case 5:
				if len(o.data) == 0 {
					mode = 0
					break
				}
				u.FailAt, u.FailErr = r.Intn(len(o.data)), asm.ErrInjected
			}
			// How the upload reaches the store: a chunk-reader buffer, a
			// reader whose last bytes arrive together with io.EOF (what a
			// decompressor does), or one half of a stream clone whose other
			// half is discarded once the store has started draining its own
			// (what a mirrored or read-caching composite above the store does).
			var buf buffer.Buffer = u.CASBuffer(d)
			var sibling buffer.Buffer
			shape := r.Intn(4)
			switch shape {
			case 1:
				buf = buffer.NewCASBufferFromReader(d, &eofReader{u: u}, buffer.UserProvided)
			case 2:
				buf, sibling = buf.CloneStream()
			}
			var err error
			if sibling != nil {
				done := make(chan error, 1)
				go func() { done <- s.BA.Put(ctx, d, buf) }()
				run.Settle(10 * time.Second)
				sibling.Discard()
				err = <-done
				w.Count("reuploads_as_stream_clone", 1)
			} else {
				err = s.BA.Put(ctx, d, buf)
			}
			if shape == 1 {
				w.Count("reuploads_from_reader_with_data_and_eof", 1)
			}
			if mode >= 3 {
				w.Count("reuploads_invalid", 1)
				if err == nil {
					c.Violation("hierarchicalCAS.Put:invalid-reupload-acknowledged", "Put of an existing digest under %q with invalid content (mode %d: 3 wrong bytes, 4 short, 5 source error) returned nil", j, mode)
				}
			} else {
				w.Count("reuploads_valid", 1)
				if err == nil {
					o.uploaders[j] = true
				}
			}
			if n := u.Closes.Load(); n != 1 {
				c.Violation("hierarchicalCAS.Put:upload-source-release-count", "Put closed its source %d times", n)
			}
			after = fmt.Sprintf("Put(existing #%d under %q mode %d)->%v", oi, j, mode, err)
			fmt.Fprintf(&sig, "E%s%d;", j, mode)
		case x < 80 && !evictionFree: // filler to force rotations / refresh paths
			for k := r.Range(1, 3); k > 0; k-- {
				id++
				data := gen.UniqueBlob(uint64(c.Index)<<20|uint64(w.Index)<<44|1<<60, uint64(id), r.Range(block/3, block))
				d := gen.SHA256Digest("filler", data)
				u := &asm.Upload{Data: data}
				s.BA.Put(ctx, d, u.CASBuffer(d))
			}
			after = "filler uploads"
			sig.WriteString("F;")
		default: // FindMissing over a mixed set
			sb := digest.NewSetBuilder(0)
			type q struct {
				o *object
				j string
			}
			var qs []q
			for k := r.Range(1, 5); k > 0; k-- {
				o := objs[r.Intn(len(objs))]
				jj := univ[r.Intn(len(univ))]
				sb.Add(gen.SHA256Digest(jj, o.data))
				qs = append(qs, q{o, jj})
			}
			missing, err := s.BA.FindMissing(ctx, sb.Build())
			if err != nil {
				c.Violation("hierarchicalCAS:unexpected-error-sequential", "FindMissing failed with %v", err)
				break
			}
			miss := map[digest.Digest]bool{}
			for _, d := range missing.Items() {
				miss[d] = true
			}
			for _, e := range qs {
				if !miss[gen.SHA256Digest(e.j, e.o.data)] && !visible(e.o, e.j) {
					c.Violation("hierarchicalCAS.FindMissing:visible-outside-uploader-subtree", "FindMissing over a mixed set reports an object present under %q; uploaders %v", e.j, keys(e.o.uploaders))
				}
			}
			after = "FindMissing(mixed)"
			sig.WriteString("M;")
		}
		c.Logf("%s", after)
		pops0 := s.KLM.Puts.Load()
		probeAll(after)
		if s.KLM.Puts.Load() > pops0 {
			w.Count("refresh_events", s.KLM.Puts.Load()-pops0)
		}
	}
	if nontrivial {
		w.Distinct(cfg.String() + sig.String())
	}
	w.Count("rotations", s.BL.Pops.Load())
}

func keys(m map[string]bool) []string {
	var k []string
	for x := range m {
		k = append(k, fmt.Sprintf("%q", x))
	}
	return k
}

// ---------------------------------------------------------------------------

type cev struct {
	client int
	op     string
	obj    int
	name   string
	bad    bool
	ok     bool
	err    error
	call   int64
	ret    int64
}

var lclock atomic.Int64

func conc(ctx context.Context, w *run.Worker, c *run.Case) {
	r := c.Rng
	cfg := mkCfg(r, r.Bool())
	s, err := asm.Build(cfg, asm.NewMedia(cfg))
	if err != nil {
		panic(err)
	}
	procs := r.Pick(2, 4, 16)
	old := runtime.GOMAXPROCS(procs)
	defer runtime.GOMAXPROCS(old)
	y := asm.Yielder(r, 3)
	s.M.Blocks.Hook = func(string, int64, int) { y() }
	nobj := r.Range(1, 3)
	nclients := r.Range(2, 6)
	c.Desc("conc %v clients=%d objs=%d procs=%d", cfg, nclients, nobj, procs)
	w.Count("conc_histories", 1)
	datas := make([][]byte, nobj)
	for i := range datas {
		datas[i] = gen.UniqueBlob(uint64(c.Index)<<20|uint64(w.Index)<<44|2<<60, uint64(i), r.Range(1, int(cfg.BlockBytes())/3))
	}
	// each client is tied to one unrelated name
	cnames := []string{"a", "b", "ab", "a/b", "c", ""}
	var mu sync.Mutex
	var hist []*cev
	var wg sync.WaitGroup
	seeds := make([]*gen.Rng, nclients)
	for i := range seeds {
		seeds[i] = r.Fork()
	}
	for cl := 0; cl < nclients; cl++ {
		wg.Add(1)
		go func(cl int) {
			defer wg.Done()
			cr := seeds[cl]
			yy := asm.Yielder(cr, 2)
			for i := 0; i < 12; i++ {
				oi := cr.Intn(nobj)
				nm := cnames[cl%len(cnames)]
				if cr.Chance(1, 4) {
					nm = cnames[cr.Intn(len(cnames)-1)] // not "" most of the time
				}
				d := gen.SHA256Digest(nm, datas[oi])
				ev := &cev{client: cl, obj: oi, name: nm}
				switch x := cr.Intn(10); {
				case x < 4:
					ev.op = "put"
					u := &asm.Upload{Data: datas[oi], Chunks: cr.Chunking(len(datas[oi]), true), Yield: yy}
					if cr.Chance(1, 3) {
						ev.bad = true
						if cr.Bool() {
							b := append([]byte(nil), datas[oi]...)
							b[cr.Intn(len(b))] ^= 0x02
							u.Data = b
						} else {
							u.FailAt, u.FailErr = cr.Intn(len(datas[oi])), asm.ErrInjected
						}
					}
					ev.call = lclock.Add(1)
					mu.Lock()
					hist = append(hist, ev)
					mu.Unlock()
					err := s.BA.Put(ctx, d, u.CASBuffer(d))
					mu.Lock()
					ev.err, ev.ok, ev.ret = err, err == nil, lclock.Add(1)
					mu.Unlock()
				case x < 8:
					ev.op = "get"
					ev.call = lclock.Add(1)
					mu.Lock()
					hist = append(hist, ev)
					mu.Unlock()
					got, err := asm.GetBytes(ctx, s.BA, d)
					if err == nil && string(got) != string(datas[oi]) {
						c.Violation("hierarchicalCAS.Get:wrong-bytes", "concurrent Get returned wrong bytes")
					}
					mu.Lock()
					ev.err, ev.ok, ev.ret = err, err == nil, lclock.Add(1)
					mu.Unlock()
				default:
					ev.op = "fm"
					ev.call = lclock.Add(1)
					mu.Lock()
					hist = append(hist, ev)
					mu.Unlock()
					p, err := asm.Present(ctx, s.BA, d)
					mu.Lock()
					ev.err, ev.ok, ev.ret = err, err == nil && p, lclock.Add(1)
					mu.Unlock()
				}
				if cr.Chance(1, 4) && cfg.BlockSectors < 100 {
					fd := gen.UniqueBlob(uint64(c.Index)<<20|uint64(w.Index)<<44|3<<60, cr.Uint64(), int(cfg.BlockBytes())/2)
					dd := gen.SHA256Digest("filler", fd)
					fu := &asm.Upload{Data: fd, Yield: yy}
					s.BA.Put(ctx, dd, fu.CASBuffer(dd))
				}
			}
		}(cl)
	}
	wg.Wait()
	var order strings.Builder
	for _, ev := range hist {
		fmt.Fprintf(&order, "%d%s%d%s:%d-%d;", ev.client, ev.op[:1], ev.obj, ev.name, ev.call, ev.ret)
	}
	w.Distinct("conc|" + order.String())
	for _, ev := range hist {
		if ev.op == "put" {
			if ev.ok && ev.bad {
				c.Violation("hierarchicalCAS.Put:invalid-reupload-acknowledged", "a concurrent Put with invalid content returned nil")
			}
			continue
		}
		if !ev.ok {
			continue
		}
		// served: needs a Put of the same object under a prefix name that did
		// not fail, was valid, and whose call started before this read returned.
		just := false
		for _, o := range hist {
			if o.op == "put" && o.obj == ev.obj && !o.bad && o.err == nil && o.call < ev.ret && isPrefix(o.name, ev.name) {
				just = true
			}
		}
		if !just {
			var ups []string
			for _, o := range hist {
				if o.op == "put" && o.obj == ev.obj {
					ups = append(ups, fmt.Sprintf("%q bad=%v err=%v [%d,%d]", o.name, o.bad, o.err != nil, o.call, o.ret))
				}
			}
			c.Violation("hierarchicalCAS."+map[string]string{"get": "Get", "fm": "FindMissing"}[ev.op]+":visible-outside-uploader-subtree-concurrent", "client %d was served object %d under %q at [%d,%d] but no valid successful upload under a prefix name started before that; uploads: %v", ev.client, ev.obj, ev.name, ev.call, ev.ret, ups)
		}
	}
}
