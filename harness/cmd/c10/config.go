package main

// Group "config": the hierarchical CAS as the daemon builds it, through
// NewBlobAccessFromConfiguration with the CAS creator, bare and behind the
// wrappers whose keying has to agree with a hierarchical backend (existence
// caching). The soundness half of the property is probed over the whole name x
// object universe after every step: whatever is served or reported present
// under a name must have been uploaded under a component-wise prefix of it.

import (
	"context"
	"fmt"
	"strings"

	"github.com/buildbarn/bb-storage/pkg/blobstore"
	bsconfig "github.com/buildbarn/bb-storage/pkg/blobstore/configuration"
	"github.com/buildbarn/bb-storage/pkg/digest"
	pb "github.com/buildbarn/bb-storage/pkg/proto/configuration/blobstore"
	digestpb "github.com/buildbarn/bb-storage/pkg/proto/configuration/digest"
	evictionpb "github.com/buildbarn/bb-storage/pkg/proto/configuration/eviction"
	"google.golang.org/protobuf/types/known/durationpb"

	"verif/lib/asm"
	"verif/lib/gen"
	"verif/lib/run"
)

func configured(ctx context.Context, w *run.Worker, c *run.Case) {
	r := c.Rng
	local := &pb.BlobAccessConfiguration{Backend: &pb.BlobAccessConfiguration_Local{Local: &pb.LocalBlobAccessConfiguration{
		KeyLocationMapBackend:            &pb.LocalBlobAccessConfiguration_KeyLocationMapInMemory_{KeyLocationMapInMemory: &pb.LocalBlobAccessConfiguration_KeyLocationMapInMemory{Entries: int64(r.Range(2000, 4000))}},
		KeyLocationMapMaximumGetAttempts: 16,
		KeyLocationMapMaximumPutAttempts: 64,
		OldBlocks:                        int32(r.Range(1, 3)),
		CurrentBlocks:                    int32(r.Range(1, 3)),
		NewBlocks:                        int32(r.Range(1, 3)),
		BlocksBackend:                    &pb.LocalBlobAccessConfiguration_BlocksInMemory_{BlocksInMemory: &pb.LocalBlobAccessConfiguration_BlocksInMemory{BlockSizeBytes: int64(r.Pick(2048, 16384))}},
		HierarchicalInstanceNames:        true,
	}}}
	root := local
	wrapper := r.Pick(0, 1, 1)
	if wrapper == 1 {
		root = &pb.BlobAccessConfiguration{Backend: &pb.BlobAccessConfiguration_ExistenceCaching{ExistenceCaching: &pb.ExistenceCachingBlobAccessConfiguration{
			Backend: local,
			ExistenceCache: &digestpb.ExistenceCacheConfiguration{
				CacheSize:              int64(r.Range(4, 200)),
				CacheDuration:          durationpb.New(3600e9),
				CacheReplacementPolicy: evictionpb.CacheReplacementPolicy_LEAST_RECENTLY_USED,
			},
		}}}
	}
	info, err := bsconfig.NewBlobAccessFromConfiguration(nil, root, bsconfig.NewCASBlobAccessCreator(nil, 1<<20, nil))
	if err != nil {
		c.Violation("NewBlobAccessFromConfiguration(hierarchical local):valid-configuration-rejected", "%v", err)
		return
	}
	ba := info.BlobAccess
	c.Desc("config wrapper=%d %v", wrapper, root)
	if c.Index == 0 {
		w.Sample(map[string]any{"group": "config", "configuration": fmt.Sprint(root)})
	}
	p := r.Perm(len(names))
	var univ []string
	for _, i := range p[:r.Range(4, len(names))] {
		univ = append(univ, names[i])
	}
	var objs []*object
	var sig strings.Builder
	id := 0
	visible := func(o *object, j string) bool {
		for u := range o.uploaders {
			if isPrefix(u, j) {
				return true
			}
		}
		return false
	}
	probe := func(after string) {
		// FindMissing first over the whole universe in one call per name
		// (this is what fills an existence cache), then Get.
		for _, j := range univ {
			sb := digest.NewSetBuilder(0)
			for _, o := range objs {
				sb.Add(gen.SHA256Digest(j, o.data))
			}
			missing, err := ba.FindMissing(ctx, sb.Build())
			if err != nil {
				c.Violation("hierarchicalCAS(configured):unexpected-error", "FindMissing under %q failed with %v", j, err)
				continue
			}
			miss := map[digest.Digest]bool{}
			for _, d := range missing.Items() {
				miss[d] = true
			}
			for oi, o := range objs {
				d := gen.SHA256Digest(j, o.data)
				vis := visible(o, j)
				w.Count("config_probes", 2)
				if !miss[d] && !vis {
					c.Violation("hierarchicalCAS(configured).FindMissing:visible-outside-uploader-subtree", "after %s: object %d is reported present under instance name %q by the configured CAS (wrapper %d), but successful uploads exist only under %v", after, oi, j, wrapper, keys(o.uploaders))
				}
				got, err := asm.GetBytes(ctx, ba, d)
				if err == nil {
					if string(got) != string(o.data) {
						c.Violation("hierarchicalCAS(configured).Get:wrong-bytes", "Get under %q returned wrong bytes", j)
					}
					if !vis {
						c.Violation("hierarchicalCAS(configured).Get:visible-outside-uploader-subtree", "after %s: object %d is served under instance name %q by the configured CAS (wrapper %d), but successful uploads exist only under %v", after, oi, j, wrapper, keys(o.uploaders))
					}
					w.Count("config_probes_served", 1)
				} else if !asm.IsNotFound(err) {
					c.Violation("hierarchicalCAS(configured):unexpected-error", "Get under %q failed with %v", j, err)
				}
				if !vis && len(o.uploaders) > 0 {
					w.Count("config_probes_denied_with_object_elsewhere", 1)
				}
			}
		}
	}
	var _ blobstore.BlobAccess = ba
	for st := r.Range(4, 14); st > 0; st-- {
		j := univ[r.Intn(len(univ))]
		var o *object
		if len(objs) == 0 || r.Chance(2, 3) {
			id++
			o = &object{data: gen.UniqueBlob(uint64(c.Index)<<20|uint64(w.Index)<<44|1<<60, uint64(id), r.Range(1, 300)), uploaders: map[string]bool{}}
			objs = append(objs, o)
		} else {
			o = objs[r.Intn(len(objs))]
		}
		d := gen.SHA256Digest(j, o.data)
		u := &asm.Upload{Data: o.data, Chunks: r.Chunking(len(o.data), false)}
		if err := ba.Put(ctx, d, u.CASBuffer(d)); err == nil {
			o.uploaders[j] = true
		}
		fmt.Fprintf(&sig, "P%s;", j)
		probe(fmt.Sprintf("upload under %q", j))
	}
	w.Count("config_histories", 1)
	w.Distinct(fmt.Sprintf("config|%d|%s", wrapper, sig.String()))
}
