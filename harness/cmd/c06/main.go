// C06 — key-location index: lookups are sound; entries are displaced
// oldest-first, never silently; a block release removes exactly the entries
// pointing into the block.
//
// Monitor: the real local.NewHashingKeyLocationMap over the real in-memory and
// block-device-backed record arrays (the latter on an in-memory block device),
// with a harness BlockReferenceResolver (absolute block numbering, epochs,
// push / release-oldest). After EVERY operation the whole key universe is
// looked up through the real index and compared with a multi-version model of
// what was stored (oracle.go); the number of discards is read from the index's
// own Prometheus collectors. Two engines: generated adversarial histories
// (this file) and an exhaustive small-scope enumeration of all operation
// sequences, deduplicated by table content (exhaustive.go).
//
//verif:race
package main

import (
	"fmt"
	"hash/fnv"
	"runtime"
	"time"

	"github.com/buildbarn/bb-storage/pkg/blobstore/local"

	"verif/lib/gen"
	"verif/lib/run"
)

func main() {
	run.Main(run.Spec{
		Property: "C06",
		Level:    "exploration",
		Rule: "random engine: case = (table of 1-13 records or a prime up to 251, get attempts 1-16, put attempts 1-64, hash initialisation random / FNV basis / 0 / brute-forced so that several keys share their first slot, record array in memory or on a block device, 2-40 keys incl. keys differing in one byte) x 300 operations " +
			"{store(key, location) with non-monotone, repeated and shared locations; release oldest block; push block; open epoch}; whole key universe looked up after every operation; distinct = hash(configuration, operation log); non-trivial = at least one store displaced an entry or was counted as a discard. " +
			"exhaustive engine: every operation sequence over {store(3 or 4 keys x <=3 live blocks x 2 offsets), release oldest, push} on tables of 1-4 records x get attempts 1-3 x put attempts 1-4 x 3 hash initialisations x both record arrays (quick: 3 keys, 36 of these configurations), breadth-first from the empty table until no new table content appears, every content expanded once by every operation; distinct = (configuration, table content)",
		Workers:     8,
		CaseTimeout: 10 * time.Minute,
		Floors: map[string]int64{
			// about 5x below what the quick tier observes at seed 1
			"puts":                       150000,
			"releases":                   15000,
			"pushes":                     15000,
			"puts_displacing":            10000,
			"puts_displacing_chain":      2000,
			"discards_counted":           25000,
			"put_too_many_attempts":      15000,
			"put_too_many_iterations":    7000,
			"fallbacks_to_older":         30,
			"fallbacks_to_nothing":       10000,
			"stored_entry_discarded":     10000,
			"entries_removed_by_release": 35000,
			"entries_kept_by_release":    35000,
			"puts_older_than_present":    50000,
			"puts_shared_location":       45000,
			"lookups_probing_further":    150000,
			"cases_device":               300,
			"cases_memory":               300,
			"exhaustive_transitions":     30000,
			// the enumeration must reach its fixed point in every configuration
			"quick:exhaustive_configs_closed":    36,
			"thorough:exhaustive_configs_closed": 576,
		},
		Assumptions: []string{
			"blocks are released oldest-first (BlockList.PopFront is the only release in production)",
			"the harness resolver keeps every epoch that still has a live block, so an entry becomes invalid only when its block is released",
			"a location's size is a function of (block, offset) except for a deliberate 2% of equal-age stores with another size, for which either location is accepted",
			"record arrays do not fail (no I/O errors injected; the property does not speak about them)",
			"'discard reported through the metrics' = put_too_many_iterations_total + sample count of put_iterations{outcome=TooManyAttempts} for this storage_type",
		},
		Body: body,
	})
}

func body(w *run.Worker) {
	// Every case is sequential; more Ps only buy garbage-collector contention
	// between the worker processes.
	runtime.GOMAXPROCS(2)
	// The index registers its collectors on first construction.
	newSUT(&config{size: 1, getA: 1, putA: 1, count: 1, epoch: 1, keys: []local.Key{{}}})
	mr, err := newMetricsReader()
	if err != nil {
		if m, ok := err.(errDiscardCollectorMissing); ok {
			// "never silently": a discard is reported through the index's
			// metrics; a collector that is incremented but not registered
			// (while its sibling is) reports nothing.
			w.Cases("metrics", 1, func(c *run.Case) {
				c.Violation("hashingKeyLocationMap:discard-collector-not-registered", "%s", m.Error())
			})
			return
		}
		w.Inconclusive("cannot read the index's Prometheus collectors: " + err.Error())
		return
	}
	randomEngine(w, mr)
	exhaustiveEngine(w, mr)
	concurrentEngine(w)
	volatileEngine(w, mr)
}

func flush(w *run.Worker, st *stats) {
	for k, v := range st.m {
		if v != 0 {
			w.Count(k, v)
		}
	}
}

// ---- random engine ---------------------------------------------------------

var primes = []int{17, 23, 31, 61, 127, 251}

func slotOf(k local.Key, attempt uint32, init uint64, size int) int {
	rk := local.LocationRecordKey{Key: k, Attempt: attempt}
	return int(rk.Hash(init) % uint64(size))
}

func genKeys(r *gen.Rng, n int, tag string) []local.Key {
	seen := map[local.Key]bool{}
	var keys []local.Key
	var base local.Key
	copy(base[:], r.Bytes(32))
	mode := r.Intn(4) // 0 hashed strings, 1 near-identical raw keys, 2/3 mixed
	for len(keys) < n {
		var k local.Key
		kind := mode
		if mode >= 2 {
			kind = r.Intn(2)
		}
		switch kind {
		case 0:
			k = local.NewKeyFromString(fmt.Sprintf("%s-%d-%d", tag, len(keys), r.Intn(1000)))
		default:
			k = base
			switch r.Intn(5) {
			case 0:
				k[31] ^= byte(1 + r.Intn(255))
			case 1:
				k[0] ^= byte(1 + r.Intn(255))
			case 2:
				k[r.Intn(32)] ^= 1 << uint(r.Intn(8))
			case 3:
				k = local.Key{}
				k[31] = byte(r.Intn(3)) // includes the all-zero key
			default:
				for i := range k {
					k[i] = 0xff
				}
				k[r.Intn(32)] -= byte(r.Intn(3))
			}
		}
		if !seen[k] {
			seen[k] = true
			keys = append(keys, k)
		}
	}
	return keys
}

// collidingInit searches a hash initialisation under which as many keys as
// possible share their first slot (and, among those, their second).
func collidingInit(r *gen.Rng, keys []local.Key, size int, getA uint32) (uint64, int) {
	best, bestScore, bestColl := uint64(0), -1, 0
	cnt := make([]int, size)
	for t := 0; t < 300; t++ {
		init := r.Uint64()
		for i := range cnt {
			cnt[i] = 0
		}
		mx, arg := 0, 0
		for _, k := range keys {
			s := slotOf(k, 0, init, size)
			cnt[s]++
			if cnt[s] > mx {
				mx, arg = cnt[s], s
			}
		}
		score := mx * 100
		if getA > 1 {
			c2 := map[int]int{}
			for _, k := range keys {
				if slotOf(k, 0, init, size) == arg {
					c2[slotOf(k, 1, init, size)]++
				}
			}
			for _, v := range c2 {
				if v > 1 {
					score += v
				}
			}
		}
		if score > bestScore {
			best, bestScore, bestColl = init, score, mx
		}
	}
	return best, bestColl
}

func sizeOf(abs int, off int64) int64 { return 1 + (int64(abs)*31+off*7)%97 }

func randomEngine(w *run.Worker, mr *metricsReader) {
	st := &stats{m: map[string]int64{}}
	w.Cases("random", w.N(3200, 120000), func(c *run.Case) {
		// c.Rng is derived from (seed, worker, group, index) by xor-ing small
		// integers into one word, which makes the case lists of seeds 1, 2 and
		// 3 permutations of each other; the seed is mixed in once more.
		r := gen.New(c.Rng.Uint64(), w.Seed*0x9e3779b97f4a7c15, c.Rng.Uint64())
		cfg := &config{}
		switch x := r.Intn(100); {
		case x < 62:
			cfg.size = r.Range(1, 13)
		case x < 90:
			cfg.size = primes[r.Intn(4)]
		default:
			cfg.size = primes[4+r.Intn(2)]
		}
		switch x := r.Intn(10); {
		case x < 6:
			cfg.getA = uint32(r.Range(1, 4))
		case x < 8:
			cfg.getA = uint32(r.Range(5, 8))
		default:
			cfg.getA = 16
		}
		switch x := r.Intn(10); {
		case x < 6:
			cfg.putA = r.Range(1, 8)
		case x < 8:
			cfg.putA = r.Range(9, 16)
		default:
			cfg.putA = 64
		}
		// "churn" cases aim at the rarest permitted behaviour, a key falling
		// back to an OLDER location: long probe sequences, a tiny iteration
		// budget and mostly allocation-like (increasing) locations, so that a
		// key has a stale version further along its probe sequence when the
		// iteration budget runs out on its newest version.
		churn := r.Chance(15, 100)
		if churn {
			cfg.size = r.Range(3, 9)
			cfg.getA = uint32(r.Range(3, 6))
			cfg.putA = r.Range(1, 2)
		}
		cfg.device = r.Bool()
		nkeys := r.Range(2, 8)
		if cfg.size > 13 {
			nkeys = r.Range(cfg.size/4, cfg.size+cfg.size/2)
			if nkeys > 40 {
				nkeys = r.Range(20, 40)
			}
		}
		cfg.keys = genKeys(r, nkeys, fmt.Sprintf("c%d", c.Index))
		initMode := r.Intn(6)
		coll := 0
		switch initMode {
		case 0:
			cfg.hashInit = 14695981039346656037
		case 1:
			cfg.hashInit = 0
		case 2, 3:
			cfg.hashInit, coll = collidingInit(r, cfg.keys, cfg.size, cfg.getA)
		default:
			cfg.hashInit = r.Uint64()
		}
		maxBlocks := r.Range(1, 5)
		cfg.first = r.Pick(0, 0, 1, 7, 1000, 65530)
		cfg.count = r.Range(1, maxBlocks)
		cfg.epoch = uint32(r.Pick(1, 1, 2, 1000, 0xfff00000))
		nops := 300
		c.Desc("%v maxblocks=%d ops=%d collide=%d churn=%v", cfg, maxBlocks, nops, coll, churn)

		s := newSUT(cfg)
		m := newMonitor(c, mr, s, st)
		if cfg.device {
			st.add("cases_device", 1)
		} else {
			st.add("cases_memory", 1)
		}
		if churn {
			st.add("cases_churn", 1)
		}
		if initMode == 2 || initMode == 3 {
			st.add("cases_bruteforced_init", 1)
		}
		m.ans = m.lookupAll("initially")
		m.afterStep("initially", m.ans, nil)

		cursor := map[int]int64{} // abs block -> next "allocation" offset
		var history []absLoc
		oph := fnv.New64a()
		hot := r.Range(1, nkeys)
		for op := 0; op < nops && !m.failed; op++ {
			x := r.Intn(100)
			res := s.res
			switch {
			case x < 8 && res.count > 0:
				fmt.Fprintf(oph, "pop;")
				m.pop()
			case x < 18 && res.count < maxBlocks:
				fmt.Fprintf(oph, "push;")
				m.push(false)
			case x < 21:
				fmt.Fprintf(oph, "epoch;")
				m.push(true)
			default:
				if res.count == 0 {
					fmt.Fprintf(oph, "push;")
					m.push(false)
				}
				ki := r.Intn(nkeys)
				if r.Bool() {
					ki = r.Intn(hot)
				}
				var bi int
				var off int64
				shared := false
				mode := r.Intn(10)
				if churn && r.Chance(2, 3) {
					mode = 3
				}
				if mode < 2 {
					// Re-store a location that was stored before (under any
					// key) and is still live: equal locations under different
					// keys, the same key stored again, older after newer.
					var live []absLoc
					for _, h := range history {
						if res.live(h.abs) {
							live = append(live, h)
						}
					}
					if len(live) == 0 {
						mode = 5
					} else {
						h := live[r.Intn(len(live))]
						bi, off = h.abs-res.first, h.off
						shared = true
					}
				}
				switch {
				case mode < 2:
				case mode < 5: // allocation-like: newest block, increasing offsets
					bi = res.count - 1
					off = cursor[res.first+bi]
					cursor[res.first+bi] = off + sizeOf(res.first+bi, off)
				case mode < 8: // any live block, few offsets (many equal and older locations)
					bi = r.Intn(res.count)
					off = int64(r.Intn(4)) * 8
				default:
					bi = r.Intn(res.count)
					off = int64(r.Intn(64))
				}
				size := sizeOf(res.first+bi, off)
				if r.Chance(1, 50) {
					size++
					st.add("puts_equal_age_other_size", 1)
				}
				L := absLoc{abs: res.first + bi, off: off, size: size}
				for j := range m.stored {
					if j != ki && m.storedFor(j, L) {
						shared = true
					}
				}
				if shared {
					st.add("puts_shared_location", 1)
				}
				history = append(history, L)
				fmt.Fprintf(oph, "put %d %d %d %d;", ki, L.abs, off, size)
				m.put(ki, bi, off, size)
			}
			st.add("ops", 1)
		}
		if s.dev != nil {
			st.add("device_reads", s.dev.reads)
			st.add("device_writes", s.dev.writes)
		}
		if m.nonTriv {
			w.Distinct(fmt.Sprintf("%v|%x", cfg, oph.Sum64()))
		}
		if c.Index == 0 {
			var fin []string
			for k, a := range m.ans {
				fin = append(fin, fmt.Sprintf("k%d=%v", k, a))
			}
			w.Sample(map[string]any{"engine": "random", "config": cfg.String(), "operations": nops, "final_answers": fin})
		}
	})
	flush(w, st)
}
