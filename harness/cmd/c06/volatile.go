package main

// The index over the REAL volatile block list (the resolver every
// non-persistent store uses) and the in-memory record array, whose unwritten
// slots are all-zero records. Clauses (from the statement): a lookup returns
// nothing or a location that was stored for exactly that key in a live block
// - so on an index into which nothing was stored every lookup returns
// nothing; and a store makes the entry visible unless the index counted a
// discard - so the first stores into an empty, roomy table are all visible,
// wherever in the first block they point (offset 0 included).

import (
	"fmt"

	"github.com/buildbarn/bb-storage/pkg/blobstore/local"
	"google.golang.org/grpc/codes"
	"google.golang.org/grpc/status"

	"verif/lib/run"
)

func volatileEngine(w *run.Worker, mr *metricsReader) {
	w.Cases("volatile", w.N(300, 6000), func(c *run.Case) {
		r := c.Rng
		bl := local.NewVolatileBlockList(local.NewInMemoryBlockAllocator(4096))
		nblocks := r.Range(1, 4)
		for i := 0; i < nblocks; i++ {
			if err := bl.PushBack(); err != nil {
				panic(err)
			}
		}
		size := primes[r.Intn(4)]
		if r.Bool() {
			size = r.Range(8, 64)
		}
		getA := uint32(r.Range(1, 16))
		klm := local.NewHashingKeyLocationMap(local.NewInMemoryLocationRecordArray(size, bl), size, r.Uint64(), getA, r.Range(1, 64), storageType)
		keys := genKeys(r, r.Range(2, size/4+2), fmt.Sprintf("v%d", c.Index))
		var zero local.Key
		keys = append(keys, zero)
		{
			seen := map[local.Key]bool{}
			var u []local.Key
			for _, k := range keys {
				if !seen[k] {
					seen[k] = true
					u = append(u, k)
				}
			}
			keys = u
		}
		c.Desc("volatile table=%d blocks=%d getAttempts=%d keys=%d", size, nblocks, getA, len(keys))
		// (1) nothing stored: nothing found.
		for i, k := range keys {
			l, err := klm.Get(k)
			w.Count("volatile_lookups_on_empty_index", 1)
			if err == nil {
				c.Violation("hashingKeyLocationMap.Get:location-never-stored", "on an index into which nothing was stored, over the real volatile block list with %d blocks, Get(key #%d, all-zero=%v) returned %+v", nblocks, i, k == zero, l)
				return
			}
			if status.Code(err) != codes.NotFound {
				c.Violation("hashingKeyLocationMap.Get:unexpected-error", "Get on an empty index failed with %v", err)
				return
			}
		}
		// (2) stores into the empty table, oldest location first so that no
		// store displaces an earlier one; visible unless a discard is counted.
		before := mr.snap()
		type st struct {
			k local.Key
			l local.Location
		}
		var stored []st
		off := int64(0)
		if r.Bool() {
			off = int64(r.Intn(50))
		}
		for i, k := range keys {
			if i >= size/4+1 {
				break
			}
			l := local.Location{BlockIndex: 0, OffsetBytes: off, SizeBytes: int64(r.Range(1, 100))}
			if i > 0 && r.Chance(1, 3) && nblocks > 1 {
				l.BlockIndex = r.Intn(nblocks)
			}
			if len(stored) > 0 && !stored[len(stored)-1].l.IsOlder(l) {
				l.BlockIndex = stored[len(stored)-1].l.BlockIndex
				l.OffsetBytes = stored[len(stored)-1].l.OffsetBytes + stored[len(stored)-1].l.SizeBytes
			}
			off = l.OffsetBytes + l.SizeBytes
			if err := klm.Put(k, l); err != nil {
				c.Violation("hashingKeyLocationMap.Put:unexpected-error", "Put failed with %v", err)
				return
			}
			stored = append(stored, st{k, l})
		}
		after := mr.snap()
		discards := (after.iter - before.iter) + (after.hist[3] - before.hist[3])
		lost := 0
		for i, e := range stored {
			l, err := klm.Get(e.k)
			w.Count("volatile_lookups_after_store", 1)
			if err != nil {
				lost++
				continue
			}
			if l != e.l {
				c.Violation("hashingKeyLocationMap.Get:location-never-stored", "Get(key #%d) returned %+v, stored was %+v", i, l, e.l)
				return
			}
		}
		if int64(lost) > discards {
			c.Violation("hashingKeyLocationMap.Put:stored-key-lost-newest-without-counted-discard", "%d of %d entries stored into an empty table of %d slots (real volatile block list, %d blocks, first location %+v) cannot be looked up, but the index counted %d discards", lost, len(stored), size, nblocks, stored[0].l, discards)
		}
		w.Distinct(fmt.Sprintf("volatile|%d|%d|%d|%d|%v", size, nblocks, getA, len(stored), stored[0].l))
	})
}
