package main

import (
	"fmt"
	"os"

	"github.com/buildbarn/bb-storage/pkg/blobstore/local"

	"verif/lib/gen"
	"verif/lib/run"
)

// Exhaustive small scope: every sequence of operations over
//   store(key in 3 or 4, block index in live blocks (<=3), offset in 2)
//   release oldest block, push block
// explored breadth-first from the empty table until no new state appears. A state is the table content
// as the real record array reports it (block numbers relative to the oldest
// live block) plus the number of live blocks; a state reached before is not
// expanded again. Every expansion rebuilds the real index and replays the
// operation path through it (no snapshotting of the system under test), with
// the full oracle active on every step.

const (
	exBlocks  = 3
	exOffsets = 2
	exMaxKeys = 4
	opPop     = exMaxKeys * exBlocks * exOffsets
	opPush    = opPop + 1
	exOps     = opPush + 1
)

type exConfig struct {
	keys   int
	size   int
	getA   uint32
	putA   int
	device bool
	hv     int
}

func envInt(name string, def int) int {
	if v := os.Getenv(name); v != "" {
		fmt.Sscanf(v, "%d", &def)
	}
	return def
}

// exConfigs lists the configurations of the tier. The list is ordered so that
// neighbouring entries (which go to different workers) cost about the same.
func exConfigs(thorough bool) []exConfig {
	var out []exConfig
	maxSize := envInt("C06_MAXSIZE", 4)
	keySet := []int{3}
	if thorough {
		keySet = []int{3, 4}
	}
	for _, nk := range keySet {
		for size := 1; size <= maxSize; size++ {
			for getA := uint32(1); getA <= 3; getA++ {
				for putA := 1; putA <= 4; putA++ {
					for hv := 0; hv < 3; hv++ {
						for _, dev := range []bool{false, true} {
							if !thorough {
								// quick: a fixed slice of the configuration space
								if hv != 0 || putA == 3 || (size+int(getA)+putA)%2 == 0 != dev {
									continue
								}
							}
							out = append(out, exConfig{keys: nk, size: size, getA: getA, putA: putA, device: dev, hv: hv})
						}
					}
				}
			}
		}
	}
	// Fixed shuffle: neighbouring entries go to different workers and should
	// not differ systematically in cost.
	p := gen.New(0xc06).Perm(len(out))
	sh := make([]exConfig, len(out))
	for i, j := range p {
		sh[i] = out[j]
	}
	return sh
}

type exNode struct {
	parent int32
	op     int8
	count  int8
}

func exValid(op, count, nkeys int) bool {
	switch op {
	case opPop:
		return count >= 1
	case opPush:
		return count < exBlocks
	}
	if op/(exBlocks*exOffsets) >= nkeys {
		return false
	}
	return (op%(exBlocks*exOffsets))/exOffsets < count
}

func exApply(m *monitor, op int) {
	switch op {
	case opPop:
		m.pop()
	case opPush:
		m.push(false)
	default:
		ki := op / (exBlocks * exOffsets)
		bi := (op % (exBlocks * exOffsets)) / exOffsets
		off := int64(8 + 8*(op%exOffsets))
		m.put(ki, bi, off, 1+off) // size depends on the offset only: the state space is finite
	}
}

func exOpName(op int) string {
	switch op {
	case opPop:
		return "release"
	case opPush:
		return "push"
	}
	return fmt.Sprintf("store(k%d,blk%d,off%d)", op/(exBlocks*exOffsets), (op%(exBlocks*exOffsets))/exOffsets, op%exOffsets)
}

func exhaustiveEngine(w *run.Worker, mr *metricsReader) {
	cfgs := exConfigs(w.Thorough())
	// Breadth-first until no new state appears (observed: 10 levels); the
	// bound only guards against an unexpectedly infinite state space.
	depth := envInt("C06_DEPTH", 40)
	mine := 0
	for g := range cfgs {
		if g%w.Workers == w.Index {
			mine++
		}
	}
	st := &stats{m: map[string]int64{}}
	complete, closedAll := true, true
	allKeys := make([]local.Key, exMaxKeys)
	for i := range allKeys {
		allKeys[i] = local.NewKeyFromString(fmt.Sprintf("x%d", i))
	}
	w.Cases("exhaustive", mine, func(c *run.Case) {
		ec := cfgs[int(c.Index)*w.Workers+w.Index]
		keys := allKeys[:ec.keys]
		// Hash initialisation: variant 0 makes as many keys as possible share
		// their first slot, variant 1 spreads them, variant 2 is arbitrary.
		r := gen.New(w.Seed, uint64(ec.hv), uint64(ec.size), 0xe8)
		var init uint64
		switch ec.hv {
		case 0:
			init, _ = collidingInit(r, keys, ec.size, ec.getA)
		case 1:
			best := exMaxKeys + 1
			for t := 0; t < 200; t++ {
				cand := r.Uint64()
				cnt := map[int]int{}
				mx := 0
				for _, k := range keys {
					s := slotOf(k, 0, cand, ec.size)
					cnt[s]++
					if cnt[s] > mx {
						mx = cnt[s]
					}
				}
				if mx < best {
					best, init = mx, cand
				}
			}
		default:
			init = r.Uint64()
		}
		cfg := &config{size: ec.size, getA: ec.getA, putA: ec.putA, hashInit: init, device: ec.device, first: 0, count: 1, epoch: 1, keys: keys}
		c.Desc("exhaustive (depth bound %d) %v", depth, cfg)

		nodes := []exNode{{parent: -1, op: -1, count: 1}}
		visited := map[string]struct{}{}
		var buf []byte
		{
			s := newSUT(cfg)
			buf = s.stateKey(buf)
			visited[string(buf)] = struct{}{}
		}
		frontier := []int32{0}
		var path []int8
		transitions := int64(0)
		for d := 0; d < depth; d++ {
			var next []int32
			for _, n := range frontier {
				path = path[:0]
				for x := n; nodes[x].parent >= 0; x = nodes[x].parent {
					path = append(path, nodes[x].op)
				}
				cnt := int(nodes[n].count)
				for op := 0; op < exOps; op++ {
					if !exValid(op, cnt, ec.keys) {
						continue
					}
					s := newSUT(cfg)
					m := newMonitor(c, mr, s, st)
					m.quiet = true
					m.ownTrace = true
					m.ans = m.lookupAll("initially")
					for i := len(path) - 1; i >= 0 && !m.failed; i-- {
						exApply(m, int(path[i]))
					}
					if m.failed {
						// cannot happen: the prefix was checked when it was first explored
						complete = false
						return
					}
					m.quiet = false
					exApply(m, op)
					transitions++
					if m.failed {
						complete = false
						st.add("exhaustive_transitions", transitions)
						return
					}
					buf = s.stateKey(buf)
					if _, seen := visited[string(buf)]; !seen {
						visited[string(buf)] = struct{}{}
						nodes = append(nodes, exNode{parent: n, op: int8(op), count: int8(s.res.count)})
						next = append(next, int32(len(nodes)-1))
						w.Distinct(fmt.Sprintf("ex|%d|%d|%d|%d|%v|%d|%x", ec.keys, ec.size, ec.getA, ec.putA, ec.device, ec.hv, buf))
					}
				}
			}
			frontier = next
			w.Max("max_exhaustive_depth_with_new_states", int64(d+1))
			if len(next) == 0 {
				st.add("exhaustive_configs_closed", 1)
				break
			}
		}
		if len(frontier) != 0 {
			closedAll = false
		}
		st.add("exhaustive_transitions", transitions)
		st.add("exhaustive_states", int64(len(visited)))
		st.add("exhaustive_configs", 1)
		w.Max("max_exhaustive_states_per_config", int64(len(visited)))
		if c.Index == 0 && len(nodes) > 1 {
			// write out the path to the last state discovered
			var ops []string
			for x := int32(len(nodes) - 1); nodes[x].parent >= 0; x = nodes[x].parent {
				ops = append([]string{exOpName(int(nodes[x].op))}, ops...)
			}
			w.Sample(map[string]any{"engine": "exhaustive", "config": cfg.String(), "depth": depth, "states": len(visited), "transitions": transitions, "path_to_last_new_state": ops})
		}
	})
	flush(w, st)
	w.Exhaustive("small scope to closure (3-4 keys x <=3 live blocks x 2 offsets, tables of 1-4 records): every reachable table content expanded by every operation", complete && closedAll)
}
