package main

import (
	"fmt"
	"strings"

	"github.com/buildbarn/bb-storage/pkg/blobstore/local"
	"google.golang.org/grpc/codes"
	"google.golang.org/grpc/status"

	"verif/lib/run"
)

// absLoc is a location in absolute block numbering.
type absLoc struct {
	abs       int
	off, size int64
}

func (l absLoc) String() string { return fmt.Sprintf("B%d+%d/%d", l.abs, l.off, l.size) }

// older mirrors the age order the property speaks about (block, then offset);
// two locations with the same block and offset are equally old.
func older(a, b absLoc) bool { return a.abs < b.abs || (a.abs == b.abs && a.off < b.off) }

type answer struct {
	ok  bool
	loc absLoc
}

func (a answer) String() string {
	if !a.ok {
		return "nothing"
	}
	return a.loc.String()
}

// config of one index instance.
type config struct {
	size     int
	getA     uint32
	putA     int
	hashInit uint64
	device   bool
	first    int
	count    int
	epoch    uint32
	keys     []local.Key
}

func (c *config) String() string {
	be := "memory"
	if c.device {
		be = "device"
	}
	return fmt.Sprintf("records=%d get=%d put=%d init=%#x backend=%s keys=%d first=%d blocks=%d epoch=%d", c.size, c.getA, c.putA, c.hashInit, be, len(c.keys), c.first, c.count, c.epoch)
}

// sut is the real index over a real record array, with the harness resolver
// below and the observing wrapper in between.
type sut struct {
	cfg *config
	res *resolver
	dev *memDevice
	arr *watchArray
	klm local.KeyLocationMap
}

func newSUT(cfg *config) *sut {
	s := &sut{cfg: cfg}
	s.res = newResolver(cfg.first, cfg.count, cfg.epoch, cfg.hashInit^0x5eed)
	var inner local.LocationRecordArray
	if cfg.device {
		s.dev = &memDevice{data: make([]byte, cfg.size*local.BlockDeviceBackedLocationRecordSize)}
		inner = local.NewBlockDeviceBackedLocationRecordArray(s.dev, s.res)
	} else {
		inner = local.NewInMemoryLocationRecordArray(cfg.size, s.res)
	}
	s.arr = &watchArray{inner: inner, size: cfg.size}
	s.klm = local.NewHashingKeyLocationMap(s.arr, cfg.size, cfg.hashInit, cfg.getA, cfg.putA, storageType)
	return s
}

// stateKey is the content of the table as the real record array reports it,
// with block numbers relative to the oldest live block.
func (s *sut) stateKey(buf []byte) []byte {
	buf = append(buf[:0], byte(s.res.count))
	for i := 0; i < s.cfg.size; i++ {
		rec, err := s.arr.inner.Get(i)
		if err != nil {
			buf = append(buf, 0xff)
			continue
		}
		ki := byte(0xfe)
		for j := range s.cfg.keys {
			if s.cfg.keys[j] == rec.RecordKey.Key {
				ki = byte(j)
			}
		}
		buf = append(buf, ki, byte(rec.RecordKey.Attempt), byte(rec.Location.BlockIndex), byte(rec.Location.OffsetBytes), byte(rec.Location.SizeBytes))
	}
	return buf
}

type stats struct {
	m map[string]int64
}

func (s *stats) add(k string, n int64) { s.m[k] += n }

// monitor is the oracle: multi-version model of what was stored, the answers
// of the last whole-universe lookup, and the transition rules of the property.
type monitor struct {
	c  *run.Case
	mr *metricsReader
	s  *sut
	st *stats

	stored  [][]absLoc // per key: every location ever stored (multi-version model)
	ans     []answer
	tainted []bool // per key: its newest stored entry was taken away by a counted discard
	failed  bool
	nonTriv bool
	quiet   bool // replaying a prefix that has already been checked: no coverage counters, no metric reads
	// ownTrace: keep the operation log in the monitor (one monitor per explored
	// path in the exhaustive engine) instead of in the case trace.
	ownTrace bool
	trace    []string
}

func newMonitor(c *run.Case, mr *metricsReader, s *sut, st *stats) *monitor {
	n := len(s.cfg.keys)
	m := &monitor{c: c, mr: mr, s: s, st: st, stored: make([][]absLoc, n), ans: make([]answer, n), tainted: make([]bool, n)}
	return m
}

func (m *monitor) count(k string, n int64) {
	if !m.quiet {
		m.st.add(k, n)
	}
}

func (m *monitor) viol(sig, format string, a ...any) {
	m.failed = true
	if m.ownTrace {
		format += "\n--- configuration: %v\n--- operations from the empty table:\n%s"
		a = append(a, m.s.cfg, strings.Join(m.trace, "\n"))
	}
	m.c.Violation(sig, format, a...)
}

func (m *monitor) logf(format string, a ...any) {
	if m.ownTrace {
		m.trace = append(m.trace, fmt.Sprintf(format, a...))
	} else {
		m.c.Logf(format, a...)
	}
}

func (m *monitor) storedFor(k int, l absLoc) bool {
	for _, x := range m.stored[k] {
		if x == l {
			return true
		}
	}
	return false
}

// newestLive returns the stored locations of key k in live blocks that no
// other live stored location of k is newer than (more than one only for equal
// block+offset with different sizes).
func (m *monitor) newestLive(k int) []absLoc {
	var best []absLoc
	for _, x := range m.stored[k] {
		if !m.s.res.live(x.abs) {
			continue
		}
		switch {
		case len(best) == 0 || older(best[0], x):
			best = append(best[:0], x)
		case !older(x, best[0]):
			dup := false
			for _, b := range best {
				dup = dup || b == x
			}
			if !dup {
				best = append(best, x)
			}
		}
	}
	return best
}

// lookupAll looks every key of the universe up through the real index and
// checks the clauses that concern a single lookup:
//   - only NotFound or a location,
//   - the location was stored for exactly that key and lies in a live block,
//   - (observed probe path) no slot passed on the way to the answer holds an
//     entry of an older block: otherwise releasing that block would cut the
//     answer off although its own block is still there.
func (m *monitor) lookupAll(when string) []answer {
	out := make([]answer, len(m.s.cfg.keys))
	res := m.s.res
	for i, k := range m.s.cfg.keys {
		m.s.arr.reset()
		l, err := m.s.klm.Get(k)
		m.count("lookups", 1)
		if err != nil {
			if status.Code(err) != codes.NotFound {
				m.viol("hashingKeyLocationMap.Get:unexpected-error", "%s: Get(k%d) failed with %v", when, i, err)
			}
			continue
		}
		m.count("lookups_found", 1)
		if l.BlockIndex < 0 || l.BlockIndex >= res.count {
			m.viol("hashingKeyLocationMap.Get:location-in-released-block", "%s: Get(k%d) returned block index %d, but only %d blocks exist", when, i, l.BlockIndex, res.count)
			continue
		}
		a := absLoc{abs: res.first + l.BlockIndex, off: l.OffsetBytes, size: l.SizeBytes}
		out[i] = answer{ok: true, loc: a}
		if !m.storedFor(i, a) {
			other := -1
			for j := range m.stored {
				if j != i && m.storedFor(j, a) {
					other = j
				}
			}
			if other >= 0 {
				m.viol("hashingKeyLocationMap.Get:location-of-another-key", "%s: Get(k%d) returned %v, which was never stored for k%d but for k%d", when, i, a, i, other)
			} else {
				m.viol("hashingKeyLocationMap.Get:location-never-stored", "%s: Get(k%d) returned %v, which was never stored (stored for k%d: %v)", when, i, a, i, m.stored[i])
			}
		}
		g := m.s.arr.gets
		if len(g) > 1 {
			m.count("lookups_probing_further", 1)
		}
		for pi, p := range g {
			if pi == len(g)-1 {
				break
			}
			if !p.valid {
				continue // cannot happen: the lookup would have stopped
			}
			if p.rec.Location.BlockIndex < l.BlockIndex {
				m.viol("hashingKeyLocationMap.Get:answer-behind-entry-of-older-block", "%s: Get(k%d) found %v only after passing slot %d, which holds an entry of the older block index %d: releasing that block would hide the answer", when, i, a, p.slot, p.rec.Location.BlockIndex)
			} else if p.rec.Location.IsOlder(l) {
				m.count("probe_path_same_block_inversions", 1)
			}
		}
	}
	return out
}

func in(a answer, cands []absLoc) bool {
	if !a.ok {
		return len(cands) == 0
	}
	for _, c := range cands {
		if c == a.loc {
			return true
		}
	}
	return false
}

// afterStep runs the whole-history clause for every key after an operation.
// excused[k] says that a discard counted by the index during this operation
// accounts for k's answer having moved away from its newest stored entry.
func (m *monitor) afterStep(when string, after []answer, excused []bool) {
	for k := range after {
		nl := m.newestLive(k)
		match := in(after[k], nl)
		if !match && !m.tainted[k] && !(excused != nil && excused[k]) && !m.failed {
			m.viol("hashingKeyLocationMap.Get:not-newest-live-location", "%s: Get(k%d) = %v, but the newest location stored for it in a live block is %v and no discard was reported that accounts for the difference", when, k, after[k], nl)
		}
		m.tainted[k] = !match
	}
	m.ans = after
}

func (m *monitor) arrayFaults(when string) {
	if m.s.arr.outOfRange {
		m.viol("hashingKeyLocationMap:record-index-out-of-range", "%s: the index accessed a record outside [0,%d)", when, m.s.cfg.size)
		m.s.arr.outOfRange = false
	}
	if m.s.arr.otherErr != nil {
		m.viol("locationRecordArray:unexpected-error", "%s: the record array failed with %v", when, m.s.arr.otherErr)
		m.s.arr.otherErr = nil
	}
}

// put stores (key ki -> block index bi, off, size) through the real index and
// checks the transition.
func (m *monitor) put(ki, bi int, off, size int64) {
	res := m.s.res
	L := absLoc{abs: res.first + bi, off: off, size: size}
	when := fmt.Sprintf("Put(k%d,%v)", ki, L)
	before := m.ans
	if m.quiet {
		// Replay of a step that was checked when this path was first
		// explored: only the model is brought up to date.
		m.s.klm.Put(m.s.cfg.keys[ki], local.Location{BlockIndex: bi, OffsetBytes: off, SizeBytes: size})
		m.stored[ki] = append(m.stored[ki], L)
		m.trace = append(m.trace, when)
		after := m.lookupAll("after " + when)
		excused := make([]bool, len(after))
		for j := range excused {
			excused[j] = true
		}
		m.afterStep("after "+when, after, excused)
		return
	}
	s0 := m.mr.snap()
	m.s.arr.reset()
	err := m.s.klm.Put(m.s.cfg.keys[ki], local.Location{BlockIndex: bi, OffsetBytes: off, SizeBytes: size})
	arrPuts := m.s.arr.puts
	arrGets := len(m.s.arr.gets)
	s1 := m.mr.snap()
	m.stored[ki] = append(m.stored[ki], L)
	if err != nil {
		m.viol("hashingKeyLocationMap.Put:unexpected-error", "%s failed with %v", when, err)
	}
	discards := (s1.iter - s0.iter) + (s1.hist[3] - s0.hist[3])
	m.logf("%s -> table reads=%d writes=%d inserted=%d updated=%d ignoredOlder=%d tooManyAttempts=%d tooManyIterations=%d", when, arrGets, arrPuts,
		s1.hist[0]-s0.hist[0], s1.hist[1]-s0.hist[1], s1.hist[2]-s0.hist[2], s1.hist[3]-s0.hist[3], s1.iter-s0.iter)
	m.count("puts", 1)
	m.count("put_inserted", s1.hist[0]-s0.hist[0])
	m.count("put_updated", s1.hist[1]-s0.hist[1])
	m.count("put_ignored_older", s1.hist[2]-s0.hist[2])
	m.count("put_too_many_attempts", s1.hist[3]-s0.hist[3])
	m.count("put_too_many_iterations", s1.iter-s0.iter)
	if arrPuts >= 2 {
		m.count("puts_displacing", 1)
		m.nonTriv = true
	}
	if arrPuts >= 3 {
		m.count("puts_displacing_chain", 1)
	}
	if discards > 0 {
		m.count("discards_counted", discards)
		m.nonTriv = true
	}

	after := m.lookupAll("after " + when)
	m.arrayFaults(when)
	excused := make([]bool, len(after))
	changed := int64(0)
	var changedDesc []string
	for j := range after {
		if j == ki {
			continue
		}
		if after[j] == before[j] {
			continue
		}
		changed++
		excused[j] = true
		changedDesc = append(changedDesc, fmt.Sprintf("k%d: %v -> %v", j, before[j], after[j]))
		switch {
		case !before[j].ok:
			m.viol("hashingKeyLocationMap.Put:other-key-gained-answer", "%s made Get(k%d) go from nothing to %v", when, j, after[j])
		case after[j].ok && !older(after[j].loc, before[j].loc):
			m.viol("hashingKeyLocationMap.Put:other-key-moved-to-not-older-location", "%s made Get(k%d) go from %v to %v, which is not an older location", when, j, before[j], after[j])
		default:
			if after[j].ok {
				m.count("fallbacks_to_older", 1)
			} else {
				m.count("fallbacks_to_nothing", 1)
			}
		}
		if before[j].ok && older(L, before[j].loc) {
			m.viol("hashingKeyLocationMap.Put:discarded-entry-newer-than-stored", "%s took away Get(k%d) = %v, which is newer than the entry being stored", when, j, before[j])
		}
	}
	// The key being stored: the result must be the newer one of the previous
	// answer and the stored location, unless the stored entry itself (or the
	// entry that answered before) is what the index reports as discarded.
	var want []absLoc
	switch {
	case !before[ki].ok || older(before[ki].loc, L):
		want = []absLoc{L}
	case older(L, before[ki].loc):
		want = []absLoc{before[ki].loc}
		m.count("puts_older_than_present", 1)
	default:
		want = []absLoc{before[ki].loc, L}
		m.count("puts_equal_age_as_present", 1)
	}
	ownLost := false
	if !in(after[ki], want) {
		if !after[ki].ok || older(after[ki].loc, want[0]) {
			ownLost = true
			changed++
			excused[ki] = true
			changedDesc = append(changedDesc, fmt.Sprintf("k%d (stored key): want %v, got %v", ki, want, after[ki]))
			m.count("stored_entry_discarded", 1)
		} else {
			m.viol("hashingKeyLocationMap.Put:stored-key-answer-wrong", "after %s (previous answer %v) Get(k%d) = %v, want %v", when, before[ki], ki, after[ki], want)
		}
	}
	if changed > discards {
		if ownLost && discards == 0 {
			m.viol("hashingKeyLocationMap.Put:stored-key-lost-newest-without-counted-discard", "after %s (previous answer %v) Get(k%d) = %v instead of %v, and the index's metrics report no discard", when, before[ki], ki, after[ki], want)
		} else {
			m.viol("hashingKeyLocationMap.Put:answers-changed-beyond-counted-discards", "%s changed the result of %d keys (%v) but the index's metrics report %d discards", when, changed, changedDesc, discards)
		}
	}
	m.afterStep("after "+when, after, excused)
}

// pop releases the oldest block.
func (m *monitor) pop() {
	before := m.ans
	abs := m.s.res.pop()
	when := fmt.Sprintf("release of B%d", abs)
	m.logf("%s (blocks now B%d..B%d)", when, m.s.res.first, m.s.res.first+m.s.res.count-1)
	m.count("releases", 1)
	after := m.lookupAll("after " + when)
	m.arrayFaults(when)
	for k := range after {
		switch {
		case before[k].ok && before[k].loc.abs == abs:
			m.count("entries_removed_by_release", 1)
			if after[k].ok {
				m.viol("hashingKeyLocationMap.Get(after release):entry-of-released-block-not-removed", "%s: Get(k%d) was %v and is now %v", when, k, before[k], after[k])
			}
		case after[k] != before[k]:
			m.viol("hashingKeyLocationMap.Get(after release):entry-of-other-block-changed", "%s: Get(k%d) was %v, which is not in the released block, and is now %v", when, k, before[k], after[k])
		default:
			if before[k].ok {
				m.count("entries_kept_by_release", 1)
			}
		}
	}
	m.afterStep("after "+when, after, nil)
}

// push appends a block (newEpoch=false) or only opens a new epoch.
func (m *monitor) push(onlyEpoch bool) {
	before := m.ans
	when := "push of a block"
	if onlyEpoch {
		m.s.res.openEpoch()
		when = "new epoch"
		m.count("epochs_opened", 1)
	} else {
		m.s.res.push()
		m.count("pushes", 1)
	}
	m.logf("%s (blocks now B%d..B%d, %d epochs)", when, m.s.res.first, m.s.res.first+m.s.res.count-1, len(m.s.res.epochs))
	after := m.lookupAll("after " + when)
	m.arrayFaults(when)
	for k := range after {
		if after[k] != before[k] {
			m.viol("hashingKeyLocationMap.Get(after push):answer-changed", "%s: Get(k%d) was %v and is now %v", when, k, before[k], after[k])
		}
	}
	m.afterStep("after "+when, after, nil)
}
