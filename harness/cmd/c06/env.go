package main

import (
	"fmt"
	"io"

	"github.com/buildbarn/bb-storage/pkg/blobstore/local"
	"github.com/prometheus/client_golang/prometheus"
	dto "github.com/prometheus/client_model/go"
)

// ---- harness BlockReferenceResolver -------------------------------------
//
// Absolute block numbering: block index i of the block list is absolute block
// first+i. Like the production block lists, a reference is (epoch, blocks from
// the last block of that epoch); every push opens a new epoch, an epoch can
// also be opened without a new block (PersistentBlockList does that whenever
// it persists its state), and epochs whose blocks have all been released are
// forgotten. Epoch 0 never resolves (so that zero-filled records are
// invalid), hash seeds are never 0.

type epoch struct {
	lastAbs int
	seed    uint64
}

type resolver struct {
	first       int // absolute index of block 0
	count       int // live blocks
	oldestEpoch uint32
	epochs      []epoch
	seedCtr     uint64
}

func newResolver(first, count int, epochBase uint32, seed uint64) *resolver {
	r := &resolver{first: first, count: count, oldestEpoch: epochBase, seedCtr: seed | 1}
	r.openEpoch()
	return r
}

func (r *resolver) nextSeed() uint64 {
	r.seedCtr = r.seedCtr*6364136223846793005 + 1442695040888963407
	return r.seedCtr | 1
}

func (r *resolver) openEpoch() {
	r.epochs = append(r.epochs, epoch{lastAbs: r.first + r.count - 1, seed: r.nextSeed()})
}

func (r *resolver) push() {
	r.count++
	r.openEpoch()
}

// pop releases block 0 and returns its absolute index.
func (r *resolver) pop() int {
	abs := r.first
	r.first++
	r.count--
	for len(r.epochs) > 1 && r.epochs[0].lastAbs < r.first {
		r.epochs = r.epochs[1:]
		r.oldestEpoch++
	}
	return abs
}

func (r *resolver) live(abs int) bool { return abs >= r.first && abs < r.first+r.count }

func (r *resolver) BlockReferenceToBlockIndex(ref local.BlockReference) (int, uint64, bool) {
	ei := ref.EpochID - r.oldestEpoch
	if ref.EpochID == 0 || ei >= uint32(len(r.epochs)) {
		return 0, 0, false
	}
	abs := r.epochs[ei].lastAbs - int(ref.BlocksFromLast)
	if !r.live(abs) {
		return 0, 0, false
	}
	return abs - r.first, r.epochs[ei].seed, true
}

func (r *resolver) BlockIndexToBlockReference(idx int) (local.BlockReference, uint64) {
	if idx < 0 || idx >= r.count {
		panic(fmt.Sprintf("harness: BlockIndexToBlockReference(%d) with %d blocks", idx, r.count))
	}
	e := r.epochs[len(r.epochs)-1]
	return local.BlockReference{
		EpochID:        r.oldestEpoch + uint32(len(r.epochs)-1),
		BlocksFromLast: uint16(e.lastAbs - (r.first + idx)),
	}, e.seed
}

// ---- in-memory block device ---------------------------------------------

type memDevice struct {
	data          []byte
	reads, writes int64
	outOfRange    bool
}

func (d *memDevice) ReadAt(p []byte, off int64) (int, error) {
	d.reads++
	if off < 0 || off+int64(len(p)) > int64(len(d.data)) {
		d.outOfRange = true
		return 0, io.ErrUnexpectedEOF
	}
	return copy(p, d.data[off:]), nil
}

func (d *memDevice) WriteAt(p []byte, off int64) (int, error) {
	d.writes++
	if off < 0 || off+int64(len(p)) > int64(len(d.data)) {
		d.outOfRange = true
		return 0, io.ErrShortWrite
	}
	return copy(d.data[off:], p), nil
}

func (d *memDevice) Sync() error  { return nil }
func (d *memDevice) Close() error { return nil }

// ---- observing record array ---------------------------------------------

type probe struct {
	slot  int
	rec   local.LocationRecord
	valid bool
}

// watchArray forwards to the real record array and logs what the index read
// and wrote during the current operation (the observed probe path).
type watchArray struct {
	inner      local.LocationRecordArray
	size       int
	gets       []probe
	puts       int
	outOfRange bool
	otherErr   error
}

func (a *watchArray) reset() {
	a.gets = a.gets[:0]
	a.puts = 0
}

func (a *watchArray) Get(index int) (local.LocationRecord, error) {
	if index < 0 || index >= a.size {
		a.outOfRange = true
		return local.LocationRecord{}, fmt.Errorf("harness: record index %d out of range [0,%d)", index, a.size)
	}
	rec, err := a.inner.Get(index)
	if err != nil && err != local.ErrLocationRecordInvalid && a.otherErr == nil {
		a.otherErr = err
	}
	a.gets = append(a.gets, probe{slot: index, rec: rec, valid: err == nil})
	return rec, err
}

func (a *watchArray) Put(index int, rec local.LocationRecord) error {
	if index < 0 || index >= a.size {
		a.outOfRange = true
		return fmt.Errorf("harness: record index %d out of range [0,%d)", index, a.size)
	}
	a.puts++
	err := a.inner.Put(index, rec)
	if err != nil && a.otherErr == nil {
		a.otherErr = err
	}
	return err
}

// ---- the index's own Prometheus collectors --------------------------------

const storageType = "c06"

var putOutcomes = []string{"Inserted", "Updated", "IgnoredOlder", "TooManyAttempts"}

type metricsReader struct {
	iter prometheus.Counter
	hist [4]prometheus.Metric
}

// errDiscardCollectorMissing: the index registers its collectors with the
// default registry, but not the named one through which it counts discards.
type errDiscardCollectorMissing struct{ name string }

func (e errDiscardCollectorMissing) Error() string {
	return "the index counts discards in " + e.name + " but does not register that collector: the count is exported nowhere"
}

type metricsSnap struct {
	iter int64
	hist [4]int64
}

// newMetricsReader must be called after the first NewHashingKeyLocationMap
// (which registers the vectors). It re-registers identically described
// vectors and takes the existing collectors out of the AlreadyRegisteredError.
func newMetricsReader() (*metricsReader, error) {
	c := prometheus.NewCounterVec(prometheus.CounterOpts{
		Namespace: "buildbarn", Subsystem: "blobstore",
		Name: "hashing_key_location_map_put_too_many_iterations_total",
		Help: "Number of times Put() discarded an entry, because it took the maximum number of iterations, which may indicate the hash table is too small",
	}, []string{"storage_type"})
	h := prometheus.NewHistogramVec(prometheus.HistogramOpts{
		Namespace: "buildbarn", Subsystem: "blobstore",
		Name:    "hashing_key_location_map_put_iterations",
		Help:    "Number of iterations it took for Put()",
		Buckets: prometheus.ExponentialBuckets(1.0, 2.0, 8),
	}, []string{"storage_type", "outcome"})
	m := &metricsReader{}
	err := prometheus.Register(c)
	are, ok := err.(prometheus.AlreadyRegisteredError)
	if !ok {
		if err == nil {
			prometheus.Unregister(c)
			// Is the sibling collector there? Then the index registers its
			// collectors here but left this one out: the discards it counts
			// are exported nowhere.
			if err2 := prometheus.Register(h); err2 != nil {
				if _, ok := err2.(prometheus.AlreadyRegisteredError); ok {
					return nil, errDiscardCollectorMissing{"buildbarn_blobstore_hashing_key_location_map_put_too_many_iterations_total"}
				}
			} else {
				prometheus.Unregister(h)
			}
		}
		return nil, fmt.Errorf("collector buildbarn_blobstore_hashing_key_location_map_put_too_many_iterations_total is not registered by the index as described (%v)", err)
	}
	cv, ok := are.ExistingCollector.(*prometheus.CounterVec)
	if !ok {
		return nil, fmt.Errorf("put_too_many_iterations_total is a %T", are.ExistingCollector)
	}
	m.iter = cv.WithLabelValues(storageType)
	err = prometheus.Register(h)
	are, ok = err.(prometheus.AlreadyRegisteredError)
	if !ok {
		if err == nil {
			prometheus.Unregister(h)
			// the counter above IS registered by the index, this one is not
			return nil, errDiscardCollectorMissing{"buildbarn_blobstore_hashing_key_location_map_put_iterations"}
		}
		return nil, fmt.Errorf("collector buildbarn_blobstore_hashing_key_location_map_put_iterations is not registered by the index as described (%v)", err)
	}
	hv, ok := are.ExistingCollector.(*prometheus.HistogramVec)
	if !ok {
		return nil, fmt.Errorf("put_iterations is a %T", are.ExistingCollector)
	}
	for i, o := range putOutcomes {
		m.hist[i] = hv.WithLabelValues(storageType, o).(prometheus.Metric)
	}
	return m, nil
}

func (m *metricsReader) snap() metricsSnap {
	var s metricsSnap
	var d dto.Metric
	m.iter.Write(&d)
	s.iter = int64(d.Counter.GetValue())
	for i := range m.hist {
		var d dto.Metric
		m.hist[i].Write(&d)
		s.hist[i] = int64(d.Histogram.GetSampleCount())
	}
	return s
}
