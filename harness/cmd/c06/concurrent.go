package main

// Concurrent lookups. KeyLocationMap.Get is called by the stores under a READ
// lock, i.e. by many goroutines at once, while Put and block releases are
// exclusive. This engine fills a real index sequentially, records the
// sequential answer for every key, and then lets several goroutines look the
// whole universe up concurrently with no store or release in between: every
// answer must equal the sequential one (soundness of lookups does not depend
// on who else is looking something up). Built with the race detector, so
// unsynchronised shared state inside Get is reported even when the values
// happen to agree.

import (
	"fmt"
	"runtime"
	"sync"

	"github.com/buildbarn/bb-storage/pkg/blobstore/local"
	"google.golang.org/grpc/codes"
	"google.golang.org/grpc/status"

	"verif/lib/run"
)

// roDevice is a block device without any state of its own besides the bytes.
type roDevice struct{ data []byte }

func (d *roDevice) ReadAt(p []byte, off int64) (int, error) {
	if off < 0 || off+int64(len(p)) > int64(len(d.data)) {
		return 0, fmt.Errorf("harness: read out of range")
	}
	return copy(p, d.data[off:]), nil
}

func (d *roDevice) WriteAt(p []byte, off int64) (int, error) {
	if off < 0 || off+int64(len(p)) > int64(len(d.data)) {
		return 0, fmt.Errorf("harness: write out of range")
	}
	return copy(d.data[off:], p), nil
}
func (d *roDevice) Sync() error  { return nil }
func (d *roDevice) Close() error { return nil }

func concurrentEngine(w *run.Worker) {
	w.Cases("conclookup", w.N(60, 1500), func(c *run.Case) {
		r := c.Rng
		size := primes[r.Intn(4)]
		if r.Chance(1, 3) {
			size = r.Range(5, 40)
		}
		device := r.Chance(2, 3)
		count := r.Range(1, 5)
		res := newResolver(r.Pick(0, 1, 1000), count, uint32(r.Pick(1, 2, 1000)), r.Uint64())
		var arr local.LocationRecordArray
		if device {
			arr = local.NewBlockDeviceBackedLocationRecordArray(&roDevice{data: make([]byte, size*local.BlockDeviceBackedLocationRecordSize)}, res)
		} else {
			arr = local.NewInMemoryLocationRecordArray(size, res)
		}
		getA := uint32(r.Range(2, 16))
		klm := local.NewHashingKeyLocationMap(arr, size, r.Uint64(), getA, r.Range(4, 64), storageType)
		keys := genKeys(r, r.Range(size/2+1, size+size/2), fmt.Sprintf("cc%d", c.Index))
		c.Desc("conclookup size=%d device=%v blocks=%d keys=%d getAttempts=%d", size, device, count, len(keys), getA)
		for i, k := range keys {
			if r.Chance(1, 8) {
				continue // never stored
			}
			for v := r.Range(1, 2); v > 0; v-- {
				bi := r.Intn(count)
				off := int64(r.Intn(1000))
				klm.Put(k, local.Location{BlockIndex: bi, OffsetBytes: off, SizeBytes: sizeOf(bi, off) + int64(i)})
			}
		}
		type ans struct {
			loc local.Location
			nf  bool
		}
		want := make([]ans, len(keys))
		found := 0
		for i, k := range keys {
			l, err := klm.Get(k)
			if err != nil {
				if status.Code(err) != codes.NotFound {
					c.Violation("hashingKeyLocationMap.Get:unexpected-error", "sequential Get(k%d) failed with %v", i, err)
					return
				}
				want[i].nf = true
				continue
			}
			want[i].loc = l
			found++
		}
		if found == 0 {
			return
		}
		old := runtime.GOMAXPROCS(8)
		defer runtime.GOMAXPROCS(old)
		n := r.Range(2, 8)
		rounds := 40
		orders := make([][]int, n)
		for g := range orders {
			orders[g] = r.Perm(len(keys))
		}
		var wg sync.WaitGroup
		var mu sync.Mutex
		bad := 0
		for g := 0; g < n; g++ {
			wg.Add(1)
			go func(g int) {
				defer wg.Done()
				for round := 0; round < rounds; round++ {
					for _, i := range orders[g] {
						l, err := klm.Get(keys[i])
						ok := false
						switch {
						case err == nil:
							ok = !want[i].nf && l == want[i].loc
						case status.Code(err) == codes.NotFound:
							ok = want[i].nf
						}
						if !ok {
							mu.Lock()
							bad++
							if bad == 1 {
								c.Violation("hashingKeyLocationMap.Get(concurrent):answer-differs-from-sequential-lookup", "with %d goroutines looking keys up concurrently and no store or release in between, Get(k%d) returned (%+v, %v); the sequential lookup returned (%+v, notFound=%v)", n, i, l, err, want[i].loc, want[i].nf)
							}
							mu.Unlock()
						}
					}
				}
			}(g)
		}
		wg.Wait()
		w.Count("concurrent_lookups", int64(n*rounds*len(keys)))
		w.Count("concurrent_lookup_rounds", 1)
		w.Distinct(fmt.Sprintf("conc|%d|%v|%d|%d|%d", size, device, count, len(keys), n))
	})
}
