// C04 — block space is never reused while referenced, and never leaked; every
// buffer is consumed or released exactly once.
//
// Engine: assembled local store (lib/asm) on a simulated device, volatile or
// persistent (syncer goroutines on the virtual clock), flat or hierarchical.
// Monitors:
//   - reference-count invariant at quiescent points through the verif-tagged
//     introspection accessors: every block owned by the list has use count
//     1 + (readers/writers the harness holds), every released block has
//     exactly the harness-held references, free + live + awaiting-release +
//     pinned == block count (exact leak detector);
//   - event-log ordering: a region is never handed out by NewBlock while a
//     reader/writer of an earlier incarnation is held, nor (persistent lists)
//     before a state write that began after the block was popped has returned;
//   - held readers return the original bytes when finally consumed;
//   - upload sources and ReadAtClosers are closed exactly once;
//   - fault injection at every failure point (allocation, device write,
//     upload source, state write, data sync, digest mismatch on re-upload).
//
//verif:race
package main

import (
	"context"
	"fmt"
	"strings"
	"sync"
	"time"

	remoteexecution "github.com/bazelbuild/remote-apis/build/bazel/remote/execution/v2"
	"github.com/buildbarn/bb-storage/pkg/blobstore/buffer"
	"github.com/buildbarn/bb-storage/pkg/blobstore/local"
	"github.com/buildbarn/bb-storage/pkg/digest"
	pb "github.com/buildbarn/bb-storage/pkg/proto/blobstore/local"
	"google.golang.org/grpc/codes"
	"google.golang.org/grpc/status"
	"google.golang.org/protobuf/proto"

	"verif/lib/asm"
	"verif/lib/gen"
	"verif/lib/run"
	"verif/lib/sim"
)

func main() {
	run.Main(run.Spec{
		Property: "C04",
		Level:    "fault_enumeration",
		Rule: "case = generated configuration (flat/hierarchical, volatile/persistent list, geometry with 1-3 spare blocks) x history of uploads, reads (consumed, half-read, held open across rotations), existence checks, gated in-flight writers and forced rotations, with one injected fault class per step (NewBlock failure, device write error at the n-th write, upload source error at byte p, state-write failure x k, data-sync failure, digest mismatch on re-upload); " +
			"after every step the quiescent reference-count invariant and the region-reuse ordering are checked; distinct = hash of (configuration, fault kinds x operation kinds); non-trivial = at least one injected fault or one reader held across a rotation",
		Workers:     12,
		CaseTimeout: 120 * time.Second,
		Floors: map[string]int64{"quiescent_checks": 3000, "faults_alloc": 60, "faults_devwrite": 100, "faults_source": 100, "faults_statewrite": 30, "faults_datasync": 30,
			"held_readers_across_rotation": 40, "gated_writers": 100, "pops_before_statewrite_observed": 60, "refresh_alloc_failures": 8},
		Assumptions: []string{"introspection accessors (build tag verif) report the allocator's and block list's own bookkeeping", "quiescence is observed with goroutine dumps (run.Settle)"},
		Race:        true,
		Body:        body,
	})
}

type held struct {
	kind    string // "reader" / "chunk"
	blockID int64
	extra   []int64 // further blocks pinned by the same buffer (the writer of a refresh in progress)
	offset  int64
	want    []byte
	cr      buffer.ChunkReader
	got     []byte
	d       digest.Digest
}

type objT struct {
	d    digest.Digest
	data []byte
}

type env struct {
	c     *run.Case
	w     *run.Worker
	s     *asm.Store
	cfg   asm.Config
	r     *gen.Rng
	ctx   context.Context
	objs  []*objT
	held  []*held
	id    int
	evPos int
	// block list mirror for the ordering monitor
	listIDs  []int64         // IDs of blocks in list order
	popSeq   map[int64]int64 // offset -> event seq of the pop that retired the incarnation at that offset (persistent)
	heldRefs map[int64]int   // blockID -> references held by the harness
	sigParts map[string]bool
	nontriv  bool
	inst     string
	park     *parker
}

// parker parks device writes that target one region (the block an in-flight
// upload is writing into), so that rotations can be driven between the
// individual WriteAt calls of that upload, including its final flush of the
// trailing partial sector.
type parker struct {
	mu      sync.Mutex
	armed   bool
	lo, hi  int64
	waiting []chan struct{}
	total   int
}

func (p *parker) hook(kind string, off int64, n int) {
	if kind != "write" {
		return
	}
	p.mu.Lock()
	if !p.armed || off+int64(n) <= p.lo || off >= p.hi {
		p.mu.Unlock()
		return
	}
	ch := make(chan struct{})
	p.waiting = append(p.waiting, ch)
	p.total++
	p.mu.Unlock()
	<-ch
}

func (p *parker) arm(lo, hi int64) {
	p.mu.Lock()
	p.armed, p.lo, p.hi = true, lo, hi
	p.mu.Unlock()
}

func (p *parker) parked() int {
	p.mu.Lock()
	defer p.mu.Unlock()
	return len(p.waiting)
}

func (p *parker) releaseOne() {
	p.mu.Lock()
	if len(p.waiting) > 0 {
		close(p.waiting[0])
		p.waiting = p.waiting[1:]
	}
	p.mu.Unlock()
}

func (p *parker) disarm() {
	p.mu.Lock()
	p.armed = false
	for _, ch := range p.waiting {
		close(ch)
	}
	p.waiting = nil
	p.mu.Unlock()
}

// drainStore lets the syncer goroutines of a store finish everything they can
// do (settle, advance the virtual clock to the next timer, repeat).
func drainStore(w *run.Worker, s *asm.Store) {
	for i := 0; i < 200; i++ {
		if !run.Settle(90 * time.Second) {
			w.Inconclusive("settle timed out while draining the previous lifetime")
			return
		}
		d, ok := s.M.Clock.NextFire()
		if !ok {
			return
		}
		s.M.Clock.Advance(d)
	}
}

// acRead: the Protobuf read path (AC-style factory: the whole message is read
// from the block at once) under device READ errors. "Buffers are released
// once ... also when a read fails midway": after every failed read the exact
// reference-count equation must hold and every reader must have been closed.
func acRead(ctx context.Context, w *run.Worker, c *run.Case) {
	r := c.Rng
	cfg := asm.GenConfig(r, false)
	cfg.InMemoryBlocks, cfg.Hierarchical = false, false
	if cfg.Sector == 1 {
		cfg.Sector = 16
	}
	if cfg.BlockSectors < 8 {
		cfg.BlockSectors = 8
	}
	cfg.Factory = []string{"ac", "ac", "cas", "raw"}[r.Intn(4)]
	cfg.Label = "c04"
	cfg.Spare = r.Range(1, 2)
	cfg.Records = r.Range(300, 900)
	cfg.GetAttempts, cfg.PutAttempts = 16, 64
	s, err := asm.Build(cfg, asm.NewMedia(cfg))
	if err != nil {
		panic(err)
	}
	e := &env{park: &parker{}, c: c, w: w, s: s, cfg: cfg, r: r, ctx: ctx, popSeq: map[int64]int64{}, heldRefs: map[int64]int{}, sigParts: map[string]bool{}, inst: "ac"}
	c.Desc("acread %v", cfg)
	ac := cfg.Factory == "ac"
	type acObj struct {
		d    digest.Digest
		msg  *remoteexecution.ActionResult
		data []byte
	}
	var objs []*acObj
	block := int(cfg.BlockBytes())
	newObj := func() *acObj {
		e.id++
		payload := gen.UniqueBlob(uint64(c.Index)<<20|uint64(w.Index)<<44|1<<57, uint64(e.id), r.Range(1, block/3))
		if !ac {
			return &acObj{d: gen.SHA256Digest(e.inst, payload), data: payload}
		}
		return &acObj{d: gen.SHA256Digest(e.inst, gen.UniqueBlob(99, uint64(e.id)+uint64(c.Index)<<24, 20)), msg: &remoteexecution.ActionResult{StdoutRaw: payload, ExitCode: int32(e.id)}}
	}
	put := func(o *acObj) error {
		if ac {
			return s.BA.Put(ctx, o.d, buffer.NewProtoBufferFromProto(o.msg, buffer.UserProvided))
		}
		u := &asm.Upload{Data: o.data, Chunks: r.Chunking(len(o.data), false)}
		return s.BA.Put(ctx, o.d, u.CASBuffer(o.d))
	}
	get := func(o *acObj) error {
		if ac {
			m, err := s.BA.Get(ctx, o.d).ToProto(&remoteexecution.ActionResult{}, 1<<26)
			if err == nil && !proto.Equal(m, o.msg) {
				c.Violation("localstore.Get:wrong-bytes", "an AC-style read returned another message")
			}
			return err
		}
		got, err := asm.GetBytes(ctx, s.BA, o.d)
		if err == nil && string(got) != string(o.data) {
			c.Violation("localstore.Get:wrong-bytes", "Get returned wrong bytes")
		}
		return err
	}
	sig := ""
	for st := r.Range(15, 45); st > 0; st-- {
		switch x := r.Intn(10); {
		case x < 4 || len(objs) == 0:
			o := newObj()
			if put(o) == nil {
				objs = append(objs, o)
			}
			sig += "P"
		case x < 6:
			get(objs[r.Intn(len(objs))])
			sig += "G"
		default:
			// a read during which the n-th device read fails
			o := objs[r.Intn(len(objs))]
			rd, _, _ := s.M.Blocks.Counts()
			s.M.Blocks.AddFault(sim.Fault{Kind: "read", Nth: rd + int64(r.Range(1, 2)), Err: status.Error(codes.Internal, "injected read error")})
			err := get(o)
			s.M.Blocks.ClearFaults()
			w.Count("faults_devread", 1)
			if err != nil && !asm.IsNotFound(err) {
				w.Count("reads_failed_by_device_read_error", 1)
				e.nontriv = true
			}
			sig += "F"
		}
		e.quiescent(fmt.Sprintf("acread step (%s)", sig))
	}
	fails := 0
	for k := 0; k < cfg.BlockCount()+2; k++ {
		if put(newObj()) != nil {
			fails++
		}
	}
	if fails > 0 {
		c.Violation("blockAllocator:capacity-permanently-lost", "after reads that failed with device read errors, %d of %d uploads failed at the end of the history (volatile store, nothing held)", fails, cfg.BlockCount()+2)
	}
	w.Distinct("acread|" + cfg.String() + "|" + sig)
}

func body(w *run.Worker) {
	ctx := context.Background()
	w.Cases("acread", w.N(120, 1800), func(c *run.Case) { acRead(ctx, w, c) })
	w.Cases("hist", w.N(240, 2400), func(c *run.Case) {
		r := c.Rng
		cfg := asm.GenConfig(r, r.Bool())
		cfg.InMemoryBlocks = false
		if cfg.Sector == 1 {
			cfg.Sector = 16
		}
		cfg.Factory = []string{"raw", "cas"}[r.Intn(2)]
		cfg.Label = "c04"
		cfg.Spare = r.Range(1, 3)
		if r.Chance(1, 2) {
			cfg.Spare = 1
		}
		if r.Chance(2, 3) { // roomy index so that objects stay reachable
			cfg.Records = r.Range(300, 900)
			cfg.GetAttempts, cfg.PutAttempts = 16, 64
		}
		media := asm.NewMedia(cfg)
		restored := false
		if cfg.Persistent && r.Chance(1, 3) {
			// A previous lifetime (uploads over a few blocks, commits,
			// graceful shutdown): the history proper then runs on a store
			// whose block list and allocator were RESTORED from that state.
			s0, err := asm.Build(cfg, media)
			if err != nil {
				panic(err)
			}
			s0.StartSyncers()
			blk := int(cfg.BlockBytes())
			for i := r.Range(2, 3*cfg.BlockCount()); i > 0; i-- {
				data := gen.UniqueBlob(uint64(c.Index)<<20|uint64(w.Index)<<44|1<<58, uint64(i), r.Range(1, blk/2))
				d := gen.SHA256Digest("", data)
				u := &asm.Upload{Data: data}
				s0.BA.Put(ctx, d, u.CASBuffer(d))
				if r.Chance(1, 3) {
					drainStore(w, s0)
				}
			}
			drainStore(w, s0)
			s0.Shutdown()
			drainStore(w, s0)
			j := media.J
			k := j.Len()
			media = asm.NewMediaFrom(cfg,
				sim.ImageAt(j, "blocks", media.BlocksInit, k, true, cfg.Sector, sim.KeepAll),
				sim.ImageAt(j, "index", media.IndexInit, k, false, 0, sim.KeepAll),
				sim.DirImageAt(j, media.DirInit, k, sim.DirChoice{VolatilePrefix: 1 << 20, UnsyncedData: 1}))
			restored = true
			w.Count("restored_lifetimes", 1)
		}
		park := &parker{}
		var gate *asm.Gate
		media.Blocks.Hook = func(kind string, off int64, n int) {
			if kind == "sync-mid" {
				gate.Pass("sync-mid")
				return
			}
			park.hook(kind, off, n)
		}
		s, err := asm.Build(cfg, media)
		if err != nil {
			panic(err)
		}
		gate = s.Gate
		if cfg.Persistent {
			// Durability form of the ordering clause: when a region is handed
			// out, the state file that would survive a power loss right now
			// (directory operations up to the last directory fsync, file data
			// up to its last fsync) must not list a block at that region: the
			// old block is still referenced by what a restart would load.
			dd := sim.NewDurableDir(media.J, media.DirInit)
			cross := 0
			s.Alloc.Observer = func(id, off int64) {
				k1 := media.J.Len()
				b, ok := dd.File("state")
				if k2 := media.J.Len(); cross < 4 && id%3 == 0 && k1 == k2 {
					// cross-check the incremental tracker against the batch
					// image (only when the syncer goroutines did not append to
					// the journal in between)
					cross++
					ref, rok := sim.DirImageAt(media.J, media.DirInit, k1, sim.DirChoice{})["state"]
					if rok != ok || string(ref) != string(b) {
						w.Inconclusive("harness bug: incremental durable-directory tracker disagrees with DirImageAt")
					}
					w.Count("durable_tracker_crosschecks", 1)
				}
				if !ok {
					return
				}
				var st pb.PersistentState
				if proto.Unmarshal(b, &st) != nil {
					return
				}
				w.Count("durable_state_checks_at_newblock", 1)
				for _, bs := range st.Blocks {
					if bs.BlockLocation.GetOffsetBytes() == off {
						c.Violation("blockAllocator.NewBlock:region-reused-while-durable-state-lists-it", "NewBlock handed out the region at offset %d (incarnation %d), but the state file that survives a power loss at this moment still lists a block at that offset (write offset %d, %d epochs): the release was acted upon before the new state was durable", off, id, bs.WriteOffsetBytes, len(bs.EpochHashSeeds))
					}
				}
			}
		}
		e := &env{park: park, c: c, w: w, s: s, cfg: cfg, r: r, ctx: ctx, popSeq: map[int64]int64{}, heldRefs: map[int64]int{}, sigParts: map[string]bool{}, inst: []string{"", "t", "t/u"}[r.Intn(3)]}
		c.Desc("%v restored=%v", cfg, restored)
		if c.Index == 0 {
			w.Sample(map[string]any{"config": cfg.String()})
		}
		if restored {
			e.sigParts["restored"] = true
		}
		s.StartSyncers()
		e.run()
	})
}

func (e *env) newData(size int) []byte {
	e.id++
	return gen.UniqueBlob(uint64(e.c.Index)<<20|uint64(e.w.Index)<<44, uint64(e.id), size)
}

// drain lets the syncer goroutines finish everything they can do: it settles,
// and while virtual timers are pending it advances the clock to the next one.
func (e *env) drain() bool {
	for i := 0; i < 200; i++ {
		if !run.Settle(90 * time.Second) {
			e.w.Inconclusive("settle timed out in C04 drain: " + run.ActiveGoroutines())
			return false
		}
		d, ok := e.s.M.Clock.NextFire()
		if !ok {
			return true
		}
		e.s.M.Clock.Advance(d)
	}
	e.w.Inconclusive("C04 drain did not converge in 200 rounds")
	return false
}

// scanEvents consumes new events: maintains the list mirror and checks the
// region-reuse ordering.
func (e *env) scanEvents() {
	evs := e.s.Log.Events()
	blocks := e.s.Alloc.Blocks()
	for _, ev := range evs[e.evPos:] {
		switch ev.Kind {
		case "alloc.newblock":
			id, off := ev.A, ev.B
			e.listIDs = append(e.listIDs, id)
			// (1) no held reference into an earlier incarnation at this offset
			for bid, n := range e.heldRefs {
				if n > 0 && blocks[bid].Offset == off && bid != id {
					e.c.Violation("blockAllocator.NewBlock:region-reused-while-referenced", "NewBlock handed out the region at offset %d (incarnation %d) while the harness still holds %d reader/writer reference(s) into incarnation %d", off, id, n, bid)
				}
			}
			// (2) persistent: not before a state write that began after the pop has returned
			if e.cfg.Persistent {
				if p, ok := e.popSeq[off]; ok {
					cleared := false
					var begin int64 = -1
					for _, x := range evs {
						if x.Seq >= ev.Seq {
							break
						}
						if x.Kind == "state.write.begin" {
							begin = x.Seq
						}
						if x.Kind == "state.write.end" && begin > p {
							cleared = true
						}
					}
					if !cleared {
						e.c.Violation("persistentBlockList:region-reused-before-state-written", "NewBlock handed out the region at offset %d (popped at event %d) before a state write that began after the pop had returned", off, p)
					}
					delete(e.popSeq, off)
				}
			}
		case "alloc.newblockat":
			// a block restored from the persistent state (in list order)
			e.listIDs = append(e.listIDs, ev.A)
		case "bl.popfront":
			if len(e.listIDs) == 0 {
				e.c.Violation("harness:list-mirror-underflow", "popfront with an empty mirror")
				continue
			}
			id := e.listIDs[0]
			e.listIDs = e.listIDs[1:]
			e.popSeq[blocks[id].Offset] = ev.Seq
			e.w.Count("pops", 1)
		case "reader.double-close":
			e.c.Violation("readBufferFactory:reader-closed-twice", "a ReadAtCloser handed to the read-buffer factory was closed twice")
		}
	}
	e.evPos = len(evs)
}

// quiescent checks the reference-count invariant. It must be called when no
// operation is in flight.
func (e *env) quiescent(where string) {
	if e.cfg.Persistent {
		if !e.drain() {
			return
		}
	}
	e.scanEvents()
	s := e.s
	s.Lock.Lock()
	defer s.Lock.Unlock()
	free, ok := local.VerifFreeOffsetsSectors(s.RealAlloc)
	if !ok {
		panic("not a block-device-backed allocator")
	}
	var live, awaiting []local.Block
	if s.PBL != nil {
		snap := s.PBL.VerifSnapshot()
		for _, b := range snap.Blocks {
			live = append(live, b.Block)
		}
		awaiting = snap.BlocksToRelease
		if len(awaiting) > 0 && e.s.Gate.Waiting("state.write") == 0 && s.State.PendingFailures() == 0 {
			e.c.Violation("persistentBlockList:released-blocks-not-written-back", "%s: at a quiescent point (syncers parked, no timer pending) %d popped blocks still await a state write", where, len(awaiting))
		}
	} else {
		bs, _ := local.VerifVolatileBlocks(s.BL.BlockList)
		live = bs
	}
	inList := map[int64]bool{}
	pinned := 0
	for _, b := range append(append([]local.Block(nil), live...), awaiting...) {
		bw := b.(*asm.BlockWrap)
		inList[bw.ID] = true
		info, _ := local.VerifGetBlockInfo(bw.Inner)
		if want := int64(1 + e.heldRefs[bw.ID]); info.UseCount != want {
			e.c.Violation("block:use-count-mismatch-at-quiescence", "%s: block incarnation %d (offset %d) is owned by the block list and has use count %d, want %d (1 + %d references held by the harness): a reader, writer or refresh did not release it (or released it twice); open readers: %v", where, bw.ID, bw.Offset, info.UseCount, want, e.heldRefs[bw.ID], s.Log.OpenReaders())
		}
		if bw.Released() != 0 {
			e.c.Violation("blockList:released-block-still-listed", "%s: block %d was released %d times but is still in the list", where, bw.ID, bw.Released())
		}
	}
	for _, bw := range s.Alloc.Blocks() {
		if inList[bw.ID] {
			continue
		}
		info, _ := local.VerifGetBlockInfo(bw.Inner)
		if bw.Released() != 1 {
			e.c.Violation("blockList:block-release-count", "%s: block %d left the list and was released %d times (want exactly 1)", where, bw.ID, bw.Released())
		}
		if want := int64(e.heldRefs[bw.ID]); info.UseCount != want {
			e.c.Violation("block:use-count-mismatch-at-quiescence", "%s: released block incarnation %d (offset %d) has use count %d, want %d (references held by the harness): its region can never be reused", where, bw.ID, bw.Offset, info.UseCount, want)
		}
		if info.UseCount > 0 {
			pinned++
		}
	}
	if got, want := len(free)+len(live)+len(awaiting)+pinned, e.cfg.BlockCount(); got != want {
		e.c.Violation("blockAllocator:capacity-leak", "%s: free(%d) + listed(%d) + awaiting release(%d) + pinned by held references(%d) = %d, but the device has %d blocks", where, len(free), len(live), len(awaiting), pinned, got, want)
	}
	seen := map[int64]bool{}
	for _, f := range free {
		if seen[f] {
			e.c.Violation("blockAllocator:free-list-duplicate", "%s: offset %d is in the free list twice", where, f)
		}
		seen[f] = true
	}
	for _, b := range append(append([]local.Block(nil), live...), awaiting...) {
		bw := b.(*asm.BlockWrap)
		if seen[bw.Offset/int64(e.cfg.Sector)] {
			e.c.Violation("blockAllocator:live-block-in-free-list", "%s: the region of listed block %d is in the free list", where, bw.ID)
		}
	}
	if len(e.held) == 0 {
		if o, cl := s.Factory.Opens.Load(), s.Factory.Closes.Load(); o != cl {
			e.c.Violation("readBufferFactory:reader-not-closed", "%s: %d readers opened, %d closed, none held by the harness; open: %v", where, o, cl, s.Log.OpenReaders())
		}
	}
	e.w.Count("quiescent_checks", 1)
}

func (e *env) blockOf(d digest.Digest) (int64, bool) {
	loc, ok := e.s.KLM.Lookup(e.s.Key(d))
	if !ok {
		return 0, false
	}
	return loc.AbsBlock, true
}

func (e *env) put(o *objT, mode string) error {
	u := &asm.Upload{Data: o.data, Chunks: e.r.Chunking(len(o.data), true)}
	switch mode {
	case "source-error":
		if len(o.data) > 0 {
			u.FailAt = e.r.Intn(len(o.data))
			u.FailErr = asm.ErrInjected
			e.w.Count("faults_source", 1)
		}
	case "mismatch":
		if len(o.data) > 0 {
			b := append([]byte(nil), o.data...)
			b[e.r.Intn(len(b))] ^= 0x10
			u.Data = b
			e.w.Count("faults_mismatch", 1)
		}
	}
	err := e.s.BA.Put(e.ctx, o.d, u.CASBuffer(o.d))
	if n := u.Closes.Load(); n != 1 {
		e.c.Violation("localstore.Put:upload-source-release-count", "Put(%s) -> %v closed the upload source %d times (want exactly 1)", mode, err, n)
	}
	e.c.Logf("put %s size=%d mode=%s -> %v", o.d, len(o.data), mode, err)
	return err
}

func (e *env) run() {
	r, s, cfg := e.r, e.s, e.cfg
	block := int(cfg.BlockBytes())
	steps := r.Range(25, 90)
	for st := 0; st < steps; st++ {
		x := r.Intn(100)
		e.c.Logf("--- step %d x=%d held=%d heldRefs=%v pops=%d", st, x, len(e.held), e.heldRefs, s.BL.Pops.Load())
		switch {
		case x < 30 || len(e.objs) == 0: // upload, possibly with a fault
			size := r.Range(0, block/2+2)
			if r.Chance(1, 3) {
				size = r.Range(block/3, block)
			}
			data := e.newData(size)
			o := &objT{d: gen.SHA256Digest(e.inst, data), data: data}
			mode := "ok"
			switch r.Intn(12) {
			case 0:
				mode = "source-error"
			case 1:
				mode = "mismatch"
			case 2: // allocation failure on the next NewBlock
				s.Alloc.FailErr = status.Error(codes.Unavailable, "injected allocation failure")
				s.Alloc.FailAt[s.Alloc.Calls()+1] = true
				mode = "alloc-fail"
				e.sigParts["alloc-fail:put"] = true
			case 3: // device write error at one of the next writes
				_, wr, _ := s.M.Blocks.Counts()
				s.M.Blocks.AddFault(sim.Fault{Kind: "write", Nth: wr + int64(r.Range(1, 3)), Err: status.Error(codes.Internal, "injected write error"), Short: 0})
				mode = "devwrite-fail"
				e.w.Count("faults_devwrite", 1)
				e.sigParts["devwrite-fail:put"] = true
			case 4:
				if cfg.Persistent {
					s.State.SetFail(r.Range(1, 3), status.Error(codes.Internal, "injected state write failure"))
					e.w.Count("faults_statewrite", 1)
					e.sigParts["statewrite-fail"] = true
				}
			case 5:
				if cfg.Persistent {
					s.DataSync.SetFail(r.Range(1, 2), status.Error(codes.Internal, "injected sync failure"))
					e.w.Count("faults_datasync", 1)
					e.sigParts["datasync-fail"] = true
				}
			}
			if mode != "ok" {
				e.nontriv = true
				e.sigParts[mode] = true
			}
			pm := mode
			if pm != "source-error" && pm != "mismatch" {
				pm = "ok"
			}
			calls0 := s.Alloc.Calls()
			if err := e.put(o, pm); err == nil {
				e.objs = append(e.objs, o)
			}
			if mode == "alloc-fail" {
				if s.Alloc.Calls() > calls0 {
					e.w.Count("faults_alloc", 1)
				}
				delete(s.Alloc.FailAt, calls0+1)
			}
		case x < 45: // re-upload of an existing object (hierarchical: other instance name), maybe with wrong bytes
			o := e.objs[r.Intn(len(e.objs))]
			inst2 := []string{"", "t", "t/u", "v"}[r.Intn(4)]
			o2 := &objT{d: gen.SHA256Digest(inst2, o.data), data: o.data}
			mode := []string{"ok", "ok", "mismatch", "source-error"}[r.Intn(4)]
			if mode != "ok" {
				e.nontriv = true
				e.sigParts["reupload-"+mode] = true
			}
			if err := e.put(o2, mode); err == nil {
				e.objs = append(e.objs, o2)
			}
		case x < 50 && cfg.Hierarchical: // object in an old block re-uploaded under another name, then read under the first name
			var cand []*objT
			pops := s.BL.Pops.Load()
			for _, o := range e.objs {
				if l, ok := s.KLM.Lookup(s.Key(o.d)); ok && l.AbsBlock >= pops && l.AbsBlock-pops < int64(cfg.Old) {
					cand = append(cand, o)
				}
			}
			if len(cand) == 0 {
				break
			}
			o := cand[r.Intn(len(cand))]
			other := []string{"", "t", "t/u", "v", "w/x"}[r.Intn(5)]
			o2 := &objT{d: gen.SHA256Digest(other, o.data), data: o.data}
			if e.put(o2, "ok") == nil {
				e.objs = append(e.objs, o2)
			}
			got, err := asm.GetBytes(e.ctx, s.BA, o.d)
			if err == nil && string(got) != string(o.data) {
				e.c.Violation("localstore.Get:wrong-bytes", "Get returned wrong bytes for %s", o.d)
			}
			e.w.Count("hier_reads_after_reupload_elsewhere", 1)
			e.sigParts["hier-sync-from-canonical"] = true
			e.nontriv = true
		case x < 62: // read: full, half-read then close, or held open
			o := e.objs[r.Intn(len(e.objs))]
			mode := r.Intn(10)
			failAlloc := r.Chance(1, 4)
			calls0 := s.Alloc.Calls()
			if failAlloc {
				s.Alloc.FailErr = status.Error(codes.Unavailable, "injected allocation failure")
				s.Alloc.FailAt[calls0+1] = true
			}
			if r.Chance(1, 10) {
				_, wr, _ := s.M.Blocks.Counts()
				s.M.Blocks.AddFault(sim.Fault{Kind: "write", Nth: wr + 1, Err: status.Error(codes.Internal, "injected write error")})
				e.w.Count("faults_devwrite", 1)
				e.sigParts["devwrite-fail:get"] = true
				e.nontriv = true
			}
			b := s.BA.Get(e.ctx, o.d)
			switch {
			case mode < 4:
				got, err := b.ToByteSlice(1 << 26)
				if err == nil && string(got) != string(o.data) {
					e.c.Violation("localstore.Get:wrong-bytes", "Get returned wrong bytes for %s", o.d)
				}
				e.c.Logf("get %s -> %v", o.d, err)
				if failAlloc && err != nil && strings.Contains(err.Error(), "Failed to refresh blob") {
					e.w.Count("refresh_alloc_failures", 1)
					e.sigParts["alloc-fail:refresh"] = true
					e.nontriv = true
				}
			case mode < 5: // half-read, then close
				cr := b.ToChunkReader(0, r.Range(1, 64))
				if _, err := cr.Read(); err == nil {
					cr.Read()
				}
				cr.Close()
				e.sigParts["halfread"] = true
			case mode < 6:
				b.Discard()
			default: // hold it open
				bid, ok := e.blockOf(o.d)
				cr := b.ToChunkReader(0, r.Range(1, 64))
				first, err := cr.Read()
				if err != nil || !ok {
					cr.Close()
					break
				}
				// The reader may be on the block recorded in the index, or -
				// when the Get refreshed the object - on the block it was
				// copied from. Identify it by its use count below.
				h := &held{kind: "chunk", cr: cr, want: o.data, got: append([]byte(nil), first...), d: o.d, blockID: -1}
				_ = bid
				e.held = append(e.held, h)
				e.identifyHeld(h)
				e.sigParts["held"] = true
			}
			if failAlloc {
				if s.Alloc.Calls() > calls0 {
					e.w.Count("faults_alloc", 1)
					e.nontriv = true
				}
				delete(s.Alloc.FailAt, calls0+1)
			}
		case x < 72: // existence check (refreshes), possibly with an allocation failure
			sb := digest.NewSetBuilder(0)
			for k := r.Range(1, 4); k > 0; k-- {
				sb.Add(e.objs[r.Intn(len(e.objs))].d)
			}
			calls0 := s.Alloc.Calls()
			failAlloc := r.Chance(1, 5)
			if failAlloc {
				s.Alloc.FailErr = status.Error(codes.Unavailable, "injected allocation failure")
				s.Alloc.FailAt[calls0+1] = true
			}
			_, err := s.BA.FindMissing(e.ctx, sb.Build())
			if failAlloc {
				if s.Alloc.Calls() > calls0 {
					e.w.Count("faults_alloc", 1)
					e.nontriv = true
					if err != nil {
						e.w.Count("refresh_alloc_failures", 1)
						e.sigParts["alloc-fail:findmissing"] = true
					}
				}
				delete(s.Alloc.FailAt, calls0+1)
			}
		case x < 80: // consume one held reader
			if len(e.held) > 0 {
				e.consumeHeld(r.Intn(len(e.held)))
			}
		case x < 88: // gated in-flight writer across rotations
			e.gatedWriter()
		default: // forced rotations while the state write is held back (persistent)
			if cfg.Persistent && r.Bool() {
				s.Gate.Close("state.write")
				pops0 := s.BL.Pops.Load()
				for k := r.Range(2, 5); k > 0; k-- {
					data := e.newData(r.Range(block/2, block))
					o := &objT{d: gen.SHA256Digest(e.inst, data), data: data}
					if e.put(o, "ok") == nil {
						e.objs = append(e.objs, o)
					}
				}
				run.Settle(90 * time.Second)
				e.scanEvents() // ordering monitor sees NewBlock events issued while the state write is held
				if s.BL.Pops.Load() > pops0 {
					e.w.Count("pops_before_statewrite_observed", s.BL.Pops.Load()-pops0)
					e.nontriv = true
					e.sigParts["gated-statewrite"] = true
				}
				// Let exactly the parked state write finish while the gate stays
				// closed for the next one: blocks popped AFTER that write took
				// its snapshot are still listed in the file it wrote, so their
				// regions must not be handed out by the rotations that follow.
				if s.Gate.Waiting("state.write") > 0 && r.Chance(2, 3) {
					s.Gate.ReleaseOne("state.write")
					run.Settle(90 * time.Second)
					for k := r.Range(2, 5); k > 0; k-- {
						data := e.newData(r.Range(block/2, block))
						o := &objT{d: gen.SHA256Digest(e.inst, data), data: data}
						if e.put(o, "ok") == nil {
							e.objs = append(e.objs, o)
						}
					}
					run.Settle(90 * time.Second)
					e.scanEvents()
					e.w.Count("rotations_after_partial_state_write", 1)
				}
				s.Gate.Open("state.write")
			} else {
				for k := r.Range(1, 4); k > 0; k-- {
					data := e.newData(r.Range(block/2, block))
					o := &objT{d: gen.SHA256Digest(e.inst, data), data: data}
					if e.put(o, "ok") == nil {
						e.objs = append(e.objs, o)
					}
				}
			}
		}
		s.M.Blocks.ClearFaults()
		e.quiescent(fmt.Sprintf("step %d", st))
	}
	for len(e.held) > 0 {
		e.consumeHeld(0)
	}
	e.quiescent("end")
	// Liveness of capacity: with nothing held, a full round of uploads must
	// be possible (no permanent "No unused blocks available").
	// Injected failures that were not consumed yet (a state write that is to
	// fail n more times keeps popped blocks from being written back) are
	// withdrawn first: the clause is about capacity lost for good.
	s.M.Blocks.ClearFaults()
	if cfg.Persistent {
		s.State.SetFail(0, nil)
		s.DataSync.SetFail(0, nil)
		s.M.Dir.ClearFaults()
		e.drain()
	}
	fails := 0
	var failDiag []string
	for k := 0; k < cfg.BlockCount()+2; k++ {
		data := e.newData(block / 2)
		o := &objT{d: gen.SHA256Digest(e.inst, data), data: data}
		err := e.put(o, "ok")
		if err != nil && cfg.Persistent {
			// One call can need more regions than there are spare blocks (a
			// rotation inside the call pops a block whose region only returns
			// once the state was rewritten): refused now, possible after the
			// syncer ran. Permanent loss = still refused then.
			e.drain()
			e.w.Count("final_fill_retries_after_drain", 1)
			data = e.newData(block / 2)
			o = &objT{d: gen.SHA256Digest(e.inst, data), data: data}
			err = e.put(o, "ok")
		}
		if err != nil {
			fails++
			e.c.Logf("final fill %d failed: %v", k, err)
			s.Lock.Lock()
			free, _ := local.VerifFreeOffsetsSectors(s.RealAlloc)
			diag := fmt.Sprintf("fill %d: %v; free regions %v; heldRefs %v; held %d", k, err, free, e.heldRefs, len(e.held))
			if s.PBL != nil {
				snap := s.PBL.VerifSnapshot()
				diag += fmt.Sprintf("; listed %d awaiting %d releasing %d; state failures pending %d; gate waiting %d; timers %d", len(snap.Blocks), len(snap.BlocksToRelease), snap.BlocksReleasing, s.State.PendingFailures(), s.Gate.Waiting("state.write"), s.M.Clock.Pending())
			}
			for _, bw := range s.Alloc.Blocks() {
				info, _ := local.VerifGetBlockInfo(bw.Inner)
				if info.UseCount != 0 {
					diag += fmt.Sprintf("; block %d@%d use=%d released=%d", bw.ID, bw.Offset, info.UseCount, bw.Released())
				}
			}
			s.Lock.Unlock()
			failDiag = append(failDiag, diag)
		}
		if cfg.Persistent {
			e.drain()
		}
	}
	if fails > 0 {
		e.c.Violation("blockAllocator:capacity-permanently-lost", "with no reader or writer outstanding, %d of %d uploads of half a block failed at the end of the history: %v", fails, cfg.BlockCount()+2, failDiag)
	}
	e.quiescent("after final fill")
	if e.nontriv {
		var parts []string
		for k := range e.sigParts {
			parts = append(parts, k)
		}
		e.w.Distinct(cfg.String() + fmt.Sprint(len(parts)) + strings.Join(sortStrings(parts), ","))
	}
}

func sortStrings(s []string) []string {
	for i := range s {
		for j := i + 1; j < len(s); j++ {
			if s[j] < s[i] {
				s[i], s[j] = s[j], s[i]
			}
		}
	}
	return s
}

// identifyHeld finds the block a just-opened reader pins: the block whose use
// count exceeds what the harness already accounts for.
func (e *env) identifyHeld(h *held) {
	// A background refresh started by the Get may still be copying (it holds
	// a writer reference on the target block until it is done): let it run
	// to completion or to a point where it is parked before counting.
	run.Settle(90 * time.Second)
	e.s.Lock.Lock()
	defer e.s.Lock.Unlock()
	for _, bw := range e.s.Alloc.Blocks() {
		info, _ := local.VerifGetBlockInfo(bw.Inner)
		base := int64(e.heldRefs[bw.ID])
		if bw.Released() == 0 {
			base++
		}
		for k := base; k < info.UseCount; k++ {
			// A buffer with a refresh in progress pins the block it reads
			// from and the block the copy is written to.
			if h.blockID < 0 {
				h.blockID = bw.ID
				h.offset = bw.Offset
			} else {
				h.extra = append(h.extra, bw.ID)
			}
			e.heldRefs[bw.ID]++
		}
	}
	// Nothing found: the buffer was already fully read by a refresh (the reader
	// is closed) - nothing is pinned.
}

func (e *env) consumeHeld(i int) {
	h := e.held[i]
	e.held = append(e.held[:i], e.held[i+1:]...)
	pops := e.s.BL.Pops.Load()
	var err error
	for {
		var chunk []byte
		chunk, err = h.cr.Read()
		if err != nil {
			break
		}
		h.got = append(h.got, chunk...)
	}
	h.cr.Close()
	for _, x := range h.extra {
		e.heldRefs[x]--
	}
	if h.blockID >= 0 {
		e.heldRefs[h.blockID]--
		if pops > h.blockID {
			e.w.Count("held_readers_across_rotation", 1)
			e.nontriv = true
		}
	}
	if err.Error() == "EOF" {
		if string(h.got) != string(h.want) {
			e.c.Violation("localstore.Get:held-reader-wrong-bytes", "a reader of %s that was held open across %d rotations returned bytes that differ from the upload (region overwritten while referenced?)", h.d, pops)
		}
	} else if e.cfg.Factory == "raw" {
		e.c.Violation("localstore.Get:held-reader-error", "a held reader failed with %v", err)
	}
}

// gatedWriter starts an upload whose source blocks after the first chunk,
// forces rotations, checks that the writer's region is not handed out, then
// lets the upload finish.
func (e *env) gatedWriter() {
	r, s, cfg := e.r, e.s, e.cfg
	block := int(cfg.BlockBytes())
	data := e.newData(r.Range(2, block/2+2))
	o := &objT{d: gen.SHA256Digest(e.inst, data), data: data}
	gate := make(chan struct{})
	arrived := make(chan struct{}, 1)
	n := 0
	u := &asm.Upload{Data: data, Chunks: []int{1}, Yield: func() {
		n++
		if n == 2 {
			arrived <- struct{}{}
			<-gate
		}
	}}
	done := make(chan error, 1)
	go func() { done <- s.BA.Put(e.ctx, o.d, u.CASBuffer(o.d)) }()
	select {
	case <-arrived:
	case err := <-done:
		// failed before reaching the gate (allocation error)
		e.c.Logf("gated writer finished early: %v", err)
		close(gate)
		return
	}
	// Identify the writer's block by its use count.
	run.Settle(90 * time.Second)
	wb := int64(-1)
	s.Lock.Lock()
	for _, bw := range s.Alloc.Blocks() {
		info, _ := local.VerifGetBlockInfo(bw.Inner)
		base := int64(e.heldRefs[bw.ID])
		if bw.Released() == 0 {
			base++
		}
		if info.UseCount == base+1 {
			wb = bw.ID
		}
	}
	s.Lock.Unlock()
	if wb >= 0 {
		e.heldRefs[wb]++
	}
	e.w.Count("gated_writers", 1)
	e.nontriv = true
	e.sigParts["gated-writer"] = true
	// rotations
	for k := r.Range(1, cfg.BlockCount()+2); k > 0; k-- {
		fd := e.newData(r.Range(block/2, block))
		fo := &objT{d: gen.SHA256Digest(e.inst, fd), data: fd}
		if e.put(fo, "ok") == nil {
			e.objs = append(e.objs, fo)
		}
		if cfg.Persistent {
			e.drain()
		}
		e.scanEvents()
	}
	// Second phase: park every device write the upload still issues into
	// its block (remaining sectors and the final flush of the trailing
	// partial sector) and rotate while each of them is pending.
	var fillers []chan *objT
	opened := false
	if wb >= 0 && r.Chance(2, 3) {
		off := s.Alloc.Blocks()[wb].Offset
		e.park.arm(off, off+cfg.BlockBytes())
		e.sigParts["parked-flush"] = true
		close(gate)
		opened = true
		for round := 0; round < 6; round++ {
			run.Settle(90 * time.Second)
			if e.park.parked() == 0 {
				break
			}
			e.w.Count("parked_writer_device_writes", 1)
			for k := cfg.BlockCount() + 1; k > 0; k-- {
				fd := e.newData(r.Range(block/2, block))
				fo := &objT{d: gen.SHA256Digest(e.inst, fd), data: fd}
				u := &asm.Upload{Data: fd, Chunks: r.Chunking(len(fd), true)}
				ch := make(chan *objT, 1)
				go func() {
					if s.BA.Put(e.ctx, fo.d, u.CASBuffer(fo.d)) == nil {
						ch <- fo
					} else {
						ch <- nil
					}
				}()
				fillers = append(fillers, ch)
				if cfg.Persistent {
					e.drain()
				} else {
					run.Settle(90 * time.Second)
				}
				e.scanEvents()
			}
			e.park.releaseOne()
		}
		e.park.disarm()
	}
	if !opened {
		close(gate)
	}
	err := <-done
	for _, ch := range fillers {
		if fo := <-ch; fo != nil {
			e.objs = append(e.objs, fo)
		}
	}
	if cfg.Persistent {
		e.drain()
	}
	e.scanEvents()
	if wb >= 0 {
		e.heldRefs[wb]--
	}
	if n := u.Closes.Load(); n != 1 {
		e.c.Violation("localstore.Put:upload-source-release-count", "gated Put -> %v closed the upload source %d times", err, n)
	}
	e.c.Logf("gated put -> %v (writer block %d, pops now %d)", err, wb, s.BL.Pops.Load())
	if err == nil {
		e.objs = append(e.objs, o)
		// An acknowledged upload must be readable or NOT_FOUND, never wrong.
		got, gerr := asm.GetBytes(e.ctx, s.BA, o.d)
		if gerr == nil && string(got) != string(data) {
			e.c.Violation("localstore.Put:gated-upload-wrong-bytes", "an upload that was in flight during rotations reads back wrong bytes")
		}
	}
}
