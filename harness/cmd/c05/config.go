package main

// Group "config": the local CAS as the daemon builds it, through
// NewBlobAccessFromConfiguration (in-memory index and blocks), driven as a
// black box. Objects are exactly one block large, so every upload and every
// touch (a touch may copy the object) allocates at most one block: after a
// touch of X, at most old_blocks further uploads/touches mean at most
// old_blocks further allocations, and X must still be readable ("stays
// readable at least until old_blocks+1 further blocks have been allocated").

import (
	"context"
	"fmt"

	bsconfig "github.com/buildbarn/bb-storage/pkg/blobstore/configuration"
	pb "github.com/buildbarn/bb-storage/pkg/proto/configuration/blobstore"

	"verif/lib/asm"
	"verif/lib/gen"
	"verif/lib/run"
)

func configured(ctx context.Context, w *run.Worker, c *run.Case) {
	r := c.Rng
	old, cur, nw := r.Range(0, 4), r.Range(1, 3), r.Range(1, 3)
	const blockSize = 192
	root := &pb.BlobAccessConfiguration{Backend: &pb.BlobAccessConfiguration_Local{Local: &pb.LocalBlobAccessConfiguration{
		KeyLocationMapBackend:            &pb.LocalBlobAccessConfiguration_KeyLocationMapInMemory_{KeyLocationMapInMemory: &pb.LocalBlobAccessConfiguration_KeyLocationMapInMemory{Entries: 4000}},
		KeyLocationMapMaximumGetAttempts: 16,
		KeyLocationMapMaximumPutAttempts: 64,
		OldBlocks:                        int32(old),
		CurrentBlocks:                    int32(cur),
		NewBlocks:                        int32(nw),
		BlocksBackend:                    &pb.LocalBlobAccessConfiguration_BlocksInMemory_{BlocksInMemory: &pb.LocalBlobAccessConfiguration_BlocksInMemory{BlockSizeBytes: blockSize}},
		HierarchicalInstanceNames:        r.Bool(),
	}}}
	info, err := bsconfig.NewBlobAccessFromConfiguration(nil, root, bsconfig.NewCASBlobAccessCreator(nil, 1<<20, nil))
	if err != nil {
		c.Violation("NewBlobAccessFromConfiguration(local):valid-configuration-rejected", "%v", err)
		return
	}
	ba := info.BlobAccess
	c.Desc("config old/cur/new=%d/%d/%d blockSize=%d", old, cur, nw, blockSize)
	if c.Index == 0 {
		w.Sample(map[string]any{"group": "config", "configuration": fmt.Sprint(root)})
	}
	type obj struct {
		data  []byte
		touch int // value of the event counter at the last successful touch, -1 none
	}
	var objs []*obj
	events := 0 // uploads + touches so far: an upper bound of the blocks allocated
	id := 0
	upload := func() {
		id++
		data := gen.UniqueBlob(uint64(c.Index)<<20|uint64(w.Index)<<44|1<<56, uint64(id), blockSize)
		d := gen.SHA256Digest("cfg", data)
		u := &asm.Upload{Data: data, Chunks: r.Chunking(len(data), false)}
		events++
		if ba.Put(ctx, d, u.CASBuffer(d)) == nil {
			objs = append(objs, &obj{data: data, touch: -1})
		}
	}
	touch := func(o *obj) {
		d := gen.SHA256Digest("cfg", o.data)
		before := events
		events++
		var ok bool
		if r.Bool() {
			got, err := asm.GetBytes(ctx, ba, d)
			ok = err == nil
			if ok && string(got) != string(o.data) {
				c.Violation("localstore(configured).Get:wrong-bytes", "Get returned wrong bytes")
			}
		} else {
			p, err := asm.Present(ctx, ba, d)
			ok = err == nil && p
		}
		if !ok && o.touch >= 0 && before-o.touch <= old {
			c.Violation("localstore(configured):touched-object-lost-within-old-blocks", "an object was touched when %d block-sized uploads/touches had happened; %d such events later (each allocates at most one block, old_blocks=%d) it is absent; store built by NewBlobAccessFromConfiguration with old/current/new = %d/%d/%d", o.touch, before-o.touch, old, old, cur, nw)
		}
		if o.touch >= 0 && before-o.touch <= old {
			w.Count("config_probes_within_bound", 1)
		}
		if ok {
			o.touch = events
		} else {
			o.touch = -1
		}
	}
	for st := r.Range(20, 60); st > 0; st-- {
		if len(objs) == 0 || r.Chance(3, 5) {
			upload()
			continue
		}
		// bias towards objects whose bound is about to expire
		var due []*obj
		for _, o := range objs {
			if o.touch >= 0 && events-o.touch == old {
				due = append(due, o)
			}
		}
		if len(due) > 0 && r.Chance(3, 4) {
			touch(due[r.Intn(len(due))])
		} else {
			n := len(objs)
			k := n - 1 - r.Intn(min(n, old+cur+nw+1))
			touch(objs[k])
		}
	}
	w.Count("config_histories", 1)
	w.Distinct(fmt.Sprintf("config|%d|%d|%d|%d", old, cur, nw, id))
}
