// C05 — an object just read or reported present survives old_blocks more
// rotations; repeating the same Get/FindMissing writes nothing.
//
// Engine: assembled local store (lib/asm). The allocator wrapper counts
// successful NewBlock calls; the model keeps, per object, the allocation count
// at the INVOCATION of the last touching call; an observation of absence whose
// call RETURNED with at most old_blocks allocations since that touch refutes
// the property (sound reading: the touching call looked at the object no
// earlier than its invocation, the observing call no later than its return).
// Index discards are read from the daemon's own Prometheus collectors; a
// discard drops all obligations (the property excludes that case).
//
//verif:race
package main

import (
	"context"
	"fmt"
	"strings"
	"sync"

	"github.com/buildbarn/bb-storage/pkg/blobstore/local"
	"github.com/buildbarn/bb-storage/pkg/digest"
	"google.golang.org/grpc/codes"
	"google.golang.org/grpc/status"

	"verif/lib/asm"
	"verif/lib/gen"
	"verif/lib/run"
)

func main() {
	run.Main(run.Spec{
		Property: "C05",
		Level:    "exploration",
		Rule: "case = generated configuration (old 0-3, current 1-4, new 1-4, both growth policies, flat/hierarchical, both index backends, sector sizes) x history of uploads (sized to force allocations), touches (Get / FindMissing) and probes placed with a bias to exactly old_blocks allocations after the touch; " +
			"distinct = hash of configuration and the (touch, allocations-until-probe) sequence; non-trivial = at least one probe at the exact boundary in a discard-free stretch",
		Workers:     12,
		Floors:      map[string]int64{"boundary_probes": 1500, "boundary_probes_present": 1500, "repeat_calls_checked": 1500, "discard_free_histories": 100, "refreshes_observed": 500, "conc_touch_rounds": 30},
		Assumptions: []string{"allocation count = successful BlockAllocator.NewBlock calls", "the touch is dated at the invocation of the touching call, the observation of absence at the return of the observing call"},
		Race:        true,
		Body:        body,
	})
}

type objT struct {
	d       digest.Digest
	data    []byte
	touch   int64 // allocation count at the invocation of the last touch; -1 none
	touchOp string
}

func body(w *run.Worker) {
	ctx := context.Background()
	w.Cases("seq", w.N(960, 20000), func(c *run.Case) { history(ctx, w, c, false) })
	w.Cases("conctouch", w.N(240, 3000), func(c *run.Case) { history(ctx, w, c, true) })
	w.Cases("config", w.N(240, 6000), func(c *run.Case) { configured(ctx, w, c) })
}

func history(ctx context.Context, w *run.Worker, c *run.Case, concTouch bool) {
	r := c.Rng
	cfg := asm.GenConfig(r, false)
	cfg.Factory = "cas"
	cfg.Label = "c05"
	cfg.InMemoryBlocks = false
	if cfg.Sector == 1 {
		cfg.Sector = 16
	}
	// Make the index roomy most of the time so that discard-free histories dominate.
	if r.Chance(3, 4) {
		cfg.Records = r.Range(400, 2000)
		cfg.GetAttempts, cfg.PutAttempts = 16, 64
	}
	s, err := asm.Build(cfg, asm.NewMedia(cfg))
	if err != nil {
		panic(err)
	}
	im := asm.NewIndexMetrics("c05")
	if !im.OK() {
		panic("index metrics not found")
	}
	c.Desc("%v concTouch=%v", cfg, concTouch)
	if c.Index == 0 {
		w.Sample(map[string]any{"config": cfg.String(), "concTouch": concTouch})
	}
	inst := []string{"", "x", "x/y"}[r.Intn(3)]
	old := int64(cfg.Old)
	block := int(cfg.BlockBytes())
	var objs []*objT
	nextID := 0
	discardBase := im.Discards()
	tainted := false
	var sig strings.Builder

	allocs := func() int64 { return int64(s.Alloc.Allocated()) }
	checkTaint := func() {
		if im.Discards() != discardBase {
			// The index reported a discard / a lookup that gave up: the
			// property makes no promise from here on. Re-arm with a clean slate.
			discardBase = im.Discards()
			for _, o := range objs {
				o.touch = -1
			}
			tainted = true
			w.Count("index_discard_events", 1)
		}
	}
	put := func(size int) *objT {
		nextID++
		data := gen.UniqueBlob(uint64(c.Index)<<20|uint64(w.Index)<<44, uint64(nextID), size)
		d := gen.SHA256Digest(inst, data)
		u := &asm.Upload{Data: data, Chunks: r.Chunking(len(data), false)}
		err := s.BA.Put(ctx, d, u.CASBuffer(d))
		checkTaint()
		if err != nil {
			c.Logf("put size=%d failed: %v", size, err)
			return nil
		}
		o := &objT{d: d, data: data, touch: -1}
		objs = append(objs, o)
		c.Logf("put #%d size=%d allocs=%d", len(objs)-1, size, allocs())
		return o
	}
	// observeAbsent is called when an operation that RETURNED at allocation
	// count aRet saw the object absent.
	observeAbsent := func(i int, o *objT, op string, aRet int64) {
		if o.touch >= 0 && aRet <= o.touch+old {
			var evs []string
			for _, ev := range s.Log.Events() {
				if strings.HasPrefix(ev.Kind, "klm.") || strings.HasPrefix(ev.Kind, "bl.") || strings.HasPrefix(ev.Kind, "alloc.") {
					evs = append(evs, fmt.Sprintf("%s(%d,%d,%s)", ev.Kind, ev.A, ev.B, ev.S))
				}
			}
			if len(evs) > 40 {
				evs = evs[len(evs)-40:]
			}
			last, _ := s.KLM.Lookup(s.Key(o.d))
			for slot := 0; slot < cfg.TableSize(); slot++ {
				rec, err := s.Records.Get(slot)
				evs = append(evs, fmt.Sprintf("slot%d=%x/a%d->%+v err=%v", slot, rec.RecordKey.Key[:4], rec.RecordKey.Attempt, rec.Location, err))
			}
			kk := s.Key(o.d)
			evs = append(evs, fmt.Sprintf("key=%x", kk[:4]))
			c.Violation("localstore:touched-object-lost-within-old-blocks", "object #%d was touched by %s at allocation count %d; %s (returned at allocation count %d) observes it absent although only %d <= old_blocks=%d further blocks were allocated; config %v; index discards=%d get-give-ups=%d; last stored location of the key %+v, pops=%d; recent events: %v", i, o.touchOp, o.touch, op, aRet, aRet-o.touch, old, cfg, im.Discards(), im.GetGiveUps(), last, s.BL.Pops.Load(), evs)
		}
		o.touch = -1
	}
	// touch/probe through Get.
	get := func(i int, checkRepeat bool) {
		o := objs[i]
		a0 := allocs()
		kp0 := s.KLM.Puts.Load()
		boundary := o.touch >= 0 && a0 == o.touch+old
		got, err := asm.GetBytes(ctx, s.BA, o.d)
		aRet := allocs()
		checkTaint()
		if boundary && !tainted {
			w.Count("boundary_probes", 1)
		}
		if err != nil {
			if strings.Contains(err.Error(), "Failed to refresh blob") && (status.Code(err) == codes.Unavailable || strings.Contains(err.Error(), "already been released")) {
				w.Count("refresh_refused_no_space", 1)
				o.touch = -1
				return
			}
			if !asm.IsNotFound(err) {
				c.Violation("localstore.Get:unexpected-error-sequential", "Get failed with %v", err)
				return
			}
			c.Logf("get #%d -> NOT_FOUND allocs %d->%d touch=%d", i, a0, aRet, o.touch)
			observeAbsent(i, o, "Get", aRet)
			return
		}
		if string(got) != string(o.data) {
			c.Violation("localstore.Get:wrong-bytes", "Get returned wrong bytes")
		}
		if boundary {
			w.Count("boundary_probes_present", 1)
			fmt.Fprintf(&sig, "b%d;", i)
		}
		c.Logf("get #%d -> ok allocs %d->%d (touch)", i, a0, aRet)
		o.touch, o.touchOp = a0, "Get"
		if tainted {
			o.touch = -1
		}
		if checkRepeat {
			_, wr0, _ := s.M.Blocks.Counts()
			n0 := s.Alloc.Calls()
			kp1 := s.KLM.Puts.Load()
			_, err2 := asm.GetBytes(ctx, s.BA, o.d)
			_, wr1, _ := s.M.Blocks.Counts()
			n1 := s.Alloc.Calls()
			checkTaint()
			w.Count("repeat_calls_checked", 1)
			repeatOracle(c, w, s, cfg, "Get", aRet-a0, err2, wr1-wr0, n1-n0, copiedBetween(s, kp0, kp1), s.KLM.CopiedKeysSince(kp1))
			if err2 != nil && !tainted {
				if asm.IsNotFound(err2) {
					observeAbsent(i, o, "repeated Get", allocs())
				}
			}
		}
	}
	findMissing := func(idx []int, checkRepeat bool) {
		sb := digest.NewSetBuilder(0)
		for _, i := range idx {
			sb.Add(objs[i].d)
		}
		set := sb.Build()
		a0 := allocs()
		kp0 := s.KLM.Puts.Load()
		pops0 := s.BL.Pops.Load()
		missing, err := s.BA.FindMissing(ctx, set)
		aRet := allocs()
		checkTaint()
		if err != nil {
			if strings.Contains(err.Error(), "Failed to refresh blob") && (status.Code(err) == codes.Unavailable || strings.Contains(err.Error(), "already been released")) {
				// refresh refused for lack of free blocks (tiny geometry): no
				// verdict from this call; forget the touches of the digests involved
				w.Count("refresh_refused_no_space", 1)
				for _, i := range idx {
					objs[i].touch = -1
				}
				return
			}
			c.Violation("localstore.FindMissing:unexpected-error-sequential", "FindMissing failed with %v", err)
			return
		}
		miss := map[digest.Digest]bool{}
		for _, d := range missing.Items() {
			miss[d] = true
		}
		if aRet > a0 {
			w.Count("refreshes_observed", aRet-a0)
		}
		_ = pops0
		for _, i := range idx {
			o := objs[i]
			boundary := o.touch >= 0 && a0 == o.touch+old
			if boundary && !tainted {
				w.Count("boundary_probes", 1)
			}
			if miss[o.d] {
				c.Logf("fm #%d -> missing allocs %d->%d touch=%d", i, a0, aRet, o.touch)
				observeAbsent(i, o, "FindMissing", aRet)
			} else {
				if boundary {
					w.Count("boundary_probes_present", 1)
				}
				c.Logf("fm #%d -> present allocs %d->%d (touch)", i, a0, aRet)
				o.touch, o.touchOp = a0, "FindMissing"
				if tainted {
					// The index reported a discard during this very call (a
					// refresh of another digest of the request displaced
					// entries after this one had been looked up): no promise.
					o.touch = -1
				}
			}
		}
		if checkRepeat {
			_, wr0, _ := s.M.Blocks.Counts()
			n0 := s.Alloc.Calls()
			kp1 := s.KLM.Puts.Load()
			missing2, err2 := s.BA.FindMissing(ctx, set)
			_, wr1, _ := s.M.Blocks.Counts()
			n1 := s.Alloc.Calls()
			checkTaint()
			w.Count("repeat_calls_checked", 1)
			repeatOracle(c, w, s, cfg, "FindMissing", aRet-a0, err2, wr1-wr0, n1-n0, copiedBetween(s, kp0, kp1), s.KLM.CopiedKeysSince(kp1))
			if err2 == nil {
				for _, d := range missing2.Items() {
					if !miss[d] && !tainted {
						for i, o := range objs {
							if o.d == d {
								observeAbsent(i, o, "repeated FindMissing", allocs())
							}
						}
					}
				}
			}
		}
	}

	// alias uploads the content of an existing object under another instance
	// name (hierarchical stores share the data between names; every name has
	// its own index entry, and a touch through a name is a promise for reads
	// through that name).
	alias := func() {
		o := objs[r.Intn(len(objs))]
		names := []string{"", "x", "x/y", "a", "b", "q/r"}
		nm := names[r.Intn(len(names))]
		d := gen.SHA256Digest(nm, o.data)
		for _, p := range objs {
			if p.d == d {
				return
			}
		}
		u := &asm.Upload{Data: o.data, Chunks: r.Chunking(len(o.data), false)}
		err := s.BA.Put(ctx, d, u.CASBuffer(d))
		checkTaint()
		if err != nil {
			c.Logf("alias put failed: %v", err)
			return
		}
		objs = append(objs, &objT{d: d, data: o.data, touch: -1})
		w.Count("alias_uploads", 1)
		c.Logf("put #%d = alias of another object under instance name %q allocs=%d", len(objs)-1, nm, allocs())
	}
	fillOne := func() {
		if cfg.Hierarchical && len(objs) > 0 && r.Chance(1, 5) {
			alias()
			return
		}
		// upload sized to force allocations regularly
		size := r.Range(block/4, block/2+1)
		if r.Chance(1, 6) {
			size = r.Range(0, block)
		}
		put(size)
	}

	// A second upload of an object that is already stored, stalled after it
	// allocated its space: it completes many rotations later, right after the
	// object was touched (and possibly refreshed into a newer block). Its
	// completion must not shorten what the touch promised.
	type stallT struct {
		i    int
		a0   int64
		left int
		gate chan struct{}
		done chan error
	}
	var stalled *stallT
	startStall := func(i int) {
		o := objs[i]
		if len(o.data) < 2 {
			return
		}
		st := &stallT{i: i, a0: allocs(), left: r.Range(4, 60), gate: make(chan struct{}), done: make(chan error, 1)}
		arrived := make(chan struct{}, 1)
		n := 0
		u := &asm.Upload{Data: o.data, Chunks: []int{1}, Yield: func() {
			n++
			if n == 2 {
				arrived <- struct{}{}
				<-st.gate
			}
		}}
		go func() { st.done <- s.BA.Put(ctx, o.d, u.CASBuffer(o.d)) }()
		select {
		case <-arrived:
			stalled = st
			w.Count("stalled_duplicate_uploads", 1)
			c.Logf("stalled re-upload of #%d started at allocs=%d", i, st.a0)
		case err := <-st.done:
			c.Logf("re-upload of #%d ended before the gate: %v", i, err)
			close(st.gate)
		}
		checkTaint()
	}
	finishStall := func() {
		st := stalled
		stalled = nil
		if r.Chance(2, 3) {
			get(st.i, false)
		}
		close(st.gate)
		err := <-st.done
		checkTaint()
		if tainted {
			objs[st.i].touch = -1
		}
		sig.WriteString("S;")
		c.Logf("stalled re-upload of #%d finished after %d allocations: %v", st.i, allocs()-st.a0, err)
	}
	defer func() {
		if stalled != nil {
			close(stalled.gate)
			<-stalled.done
		}
	}()

	steps := r.Range(40, 140)
	for st := 0; st < steps; st++ {
		tainted = false
		if stalled != nil {
			stalled.left--
			if stalled.left <= 0 || allocs()-stalled.a0 >= int64(cfg.Cur+cfg.New) {
				finishStall()
				tainted = false
			}
		}
		// Boundary-seeking: if some object sits exactly at the boundary, probe it with high probability.
		var atBoundary, touched []int
		a := allocs()
		for i, o := range objs {
			if o.touch >= 0 {
				touched = append(touched, i)
				if a == o.touch+old {
					atBoundary = append(atBoundary, i)
				}
			}
		}
		x := r.Intn(100)
		switch {
		case len(atBoundary) > 0 && x < 55:
			i := atBoundary[r.Intn(len(atBoundary))]
			if r.Bool() {
				get(i, r.Chance(1, 2))
			} else {
				idx := []int{i}
				for _, j := range atBoundary {
					if j != i && r.Bool() {
						idx = append(idx, j)
					}
				}
				findMissing(idx, r.Chance(1, 2))
			}
		case x < 8 && stalled == nil && len(objs) > 0:
			i := r.Intn(len(objs))
			if r.Bool() && len(objs) > 4 {
				i = len(objs) - 1 - r.Intn(4)
			}
			startStall(i)
		case x < 70 || len(objs) == 0:
			fillOne()
		case x < 85:
			// touch: a recent or random object
			i := r.Intn(len(objs))
			if r.Bool() && len(objs) > 6 {
				i = len(objs) - 1 - r.Intn(6)
			}
			if concTouch && r.Chance(1, 2) {
				// 2-4 clients touch the same object concurrently
				o := objs[i]
				a0 := allocs()
				n := r.Range(2, 4)
				var wg sync.WaitGroup
				oks := make([]bool, n)
				for k := 0; k < n; k++ {
					wg.Add(1)
					go func(k int) {
						defer wg.Done()
						if k%2 == 0 {
							got, err := asm.GetBytes(ctx, s.BA, o.d)
							oks[k] = err == nil && string(got) == string(o.data)
						} else {
							p, err := asm.Present(ctx, s.BA, o.d)
							oks[k] = err == nil && p
						}
					}(k)
				}
				wg.Wait()
				checkTaint()
				w.Count("conc_touch_rounds", 1)
				any := false
				for _, ok := range oks {
					any = any || ok
				}
				if any && !tainted {
					o.touch, o.touchOp = a0, "concurrent Get/FindMissing"
				} else {
					o.touch = -1
				}
			} else {
				get(i, r.Chance(1, 3))
			}
		default:
			// FindMissing over several
			var idx []int
			for k := r.Range(1, 5); k > 0; k-- {
				idx = append(idx, r.Intn(len(objs)))
			}
			// dedupe
			seen := map[int]bool{}
			var u []int
			for _, i := range idx {
				if !seen[i] {
					seen[i] = true
					u = append(u, i)
				}
			}
			findMissing(u, r.Chance(1, 3))
		}
		_ = touched
	}
	if sig.Len() > 0 {
		w.Distinct(cfg.String() + sig.String())
	}
	if s.Factory.IntegrityFalse.Load() > 0 {
		c.Violation("localstore:data-integrity-error-on-uncorrupted-medium", "integrity callback fired on an uncorrupted medium")
	}
	w.Count("rotations", s.BL.Pops.Load())
	w.Count("histories", 1)
	discardFree.add(w, im, c)
}

// discardFree counts histories in which the index reported nothing.
type dfCounter struct{ last map[*run.Worker]uint64 }

var discardFree = &dfCounter{last: map[*run.Worker]uint64{}}

func (d *dfCounter) add(w *run.Worker, im *asm.IndexMetrics, c *run.Case) {
	cur := im.Discards()
	if cur == d.last[w] {
		w.Count("discard_free_histories", 1)
	}
	d.last[w] = cur
}

// repeatOracle decides the "immediately repeating the same call writes no
// further data" clause. If the first call allocated no block, nothing can have
// aged during it, so the repeat must not write to the data device nor
// allocate. If the first call did allocate (its own refreshes rotated the
// block list), other objects of the same request may legitimately have become
// old meanwhile; what must still hold is that no object copied by the first
// call is copied again by the repeat - unless the first call allocated more
// blocks than there are "current" blocks, in which case its early copies can
// already be old again and no implementation could avoid rewriting them.
// copiedBetween returns the keys whose store in [from, to) followed a copy of
// data (named a location for the first time).
func copiedBetween(s *asm.Store, from, to int64) []local.Key {
	all := s.KLM.CopiedKeysSince(from)
	late := s.KLM.CopiedKeysSince(to)
	return all[:len(all)-len(late)]
}

func repeatOracle(c *run.Case, w *run.Worker, s *asm.Store, cfg asm.Config, op string, allocatedByFirst int64, err2 error, writes, newBlocks int64, keys1, keys2 []local.Key) {
	if err2 != nil {
		return
	}
	if allocatedByFirst == 0 {
		w.Count("repeat_strict_checked", 1)
		if writes != 0 || newBlocks != 0 {
			c.Violation("localstore."+op+":repeated-call-writes-data", "the first %s allocated no block; repeating it immediately caused %d data-device writes and %d NewBlock calls", op, writes, newBlocks)
		}
		return
	}
	if allocatedByFirst > int64(cfg.Cur) {
		w.Count("repeat_checks_skipped_degenerate", 1)
		return
	}
	w.Count("repeat_perkey_checked", 1)
	first := map[local.Key]bool{}
	for _, k := range keys1 {
		first[k] = true
	}
	for _, k := range keys2 {
		if first[k] {
			var ks1, ks2 []string
			for _, x := range keys1 {
				ks1 = append(ks1, fmt.Sprintf("%x", x[:4]))
			}
			for _, x := range keys2 {
				ks2 = append(ks2, fmt.Sprintf("%x", x[:4]))
			}
			var evs []string
			for _, ev := range s.Log.Events() {
				if strings.HasPrefix(ev.Kind, "klm.") || strings.HasPrefix(ev.Kind, "bl.") || strings.HasPrefix(ev.Kind, "alloc.") {
					evs = append(evs, fmt.Sprintf("%s(%d,%d,%s)", ev.Kind, ev.A, ev.B, ev.S))
				}
			}
			if len(evs) > 24 {
				evs = evs[len(evs)-24:]
			}
			c.Violation("localstore."+op+":repeated-call-recopies-object", "an object copied by the first %s (which allocated %d blocks) was copied again by the immediate repeat (%d data writes); keys stored by the first call %v, by the repeat %v; recent events %v", op, allocatedByFirst, writes, ks1, ks2, evs)
			return
		}
	}
}
