package main

// Generator of "worlds": one ActionResult in the AC plus the CAS objects it
// references (opaque files, Directory objects, Tree objects with real bytes).

import (
	"encoding/hex"
	"fmt"
	"math"
	"strings"

	remoteexecution "github.com/bazelbuild/remote-apis/build/bazel/remote/execution/v2"
	"github.com/buildbarn/bb-storage/pkg/digest"
	"google.golang.org/protobuf/encoding/protowire"
	"google.golang.org/protobuf/proto"

	"verif/lib/gen"
	"verif/lib/model"
)

type shapeOpts struct {
	maxFiles    int // output files 0..maxFiles
	maxDirs     int // output directories 0..maxDirs
	treeDepth   int
	maxTreeFile int // files per directory 0..maxTreeFile
	nilPerMille int // probability of leaving a digest field unset
	nilTreeOK   bool
	hostile     bool // unknown fields in trees, repeated roots, opaque directory digests
	nonBytes    bool // allow a non length-delimited unknown top-level field in a Tree
	bigTree     bool // one directory with enough files to cross bufio's 4 KiB buffer
	rootMode    int  // 0 random, 1 always a root digest, 2 never
}

type builtTree struct {
	bytes   []byte
	dg      *remoteexecution.Digest
	root    *remoteexecution.Directory
	rootDg  *remoteexecution.Digest // digest of the marshalled root (nil for an empty tree)
	hasDirs bool
}

type world struct {
	inst     string
	fnEnum   remoteexecution.DigestFunction_Value
	fn       digest.Function
	hashLen  int
	acDigest digest.Digest
	ar       *remoteexecution.ActionResult
	arBytes  []byte
	cas      *casMonitor
	ac       *acStore
	universe map[string]string // every object key created -> role it was created for
	slots    int               // number of digest slots generated
	malRole  string            // role of the malformed slot, if any
	malKind  string
	nTrees   int
	shape    string
}

type builder struct {
	w       *world
	r       *gen.Rng
	mr      *gen.Rng // randomness of the malformation itself (keeps r's stream identical between passes)
	o       shapeOpts
	malAt   int
	slot    int
	trees   []*builtTree
	inlined int
	nils    int
}

var instances = []string{"", "main", "a/b", "ci/linux/x86"}

func randHex(r *gen.Rng, n int) string {
	return hex.EncodeToString(r.Bytes((n + 1) / 2))[:n]
}

func (b *builder) register(d *remoteexecution.Digest, data []byte, role string) {
	k := objKey(d.Hash, d.SizeBytes)
	if data == nil {
		data = []byte{}
	}
	b.w.cas.objects[k] = data
	if _, ok := b.w.universe[k]; !ok {
		b.w.universe[k] = role
	}
}

// opaque creates a fresh object that is never read (only its presence matters).
func (b *builder) opaque(role string) *remoteexecution.Digest {
	size := int64(0)
	switch b.r.Intn(6) {
	case 0:
	case 1:
		size = int64(b.r.Uint64() >> 1) // huge declared sizes are well-formed
	default:
		size = int64(b.r.Intn(1 << 20))
	}
	d := &remoteexecution.Digest{Hash: randHex(b.r, b.w.hashLen), SizeBytes: size}
	b.register(d, nil, role)
	return d
}

// stored hashes real bytes and stores them.
func (b *builder) stored(data []byte, role string) *remoteexecution.Digest {
	dg := gen.DigestOf(b.w.inst, b.w.fnEnum, data)
	d := &remoteexecution.Digest{Hash: dg.GetHashString(), SizeBytes: dg.GetSizeBytes()}
	b.register(d, data, role)
	return d
}

var malKinds = []string{"short", "long", "other-function-length", "uppercase", "non-hex", "negative-size", "empty-hash", "separator"}

func malform(mr *gen.Rng, d *remoteexecution.Digest, hashLen int) (*remoteexecution.Digest, string) {
	k := mr.Intn(len(malKinds))
	h, s := d.Hash, d.SizeBytes
	switch malKinds[k] {
	case "short":
		h = h[:len(h)-1]
	case "long":
		h += "0"
	case "other-function-length":
		n := 32
		if hashLen == 32 {
			n = 40
		}
		h = randHex(mr, n)
	case "uppercase":
		i := strings.IndexAny(h, "abcdef")
		if i < 0 {
			i = 0
			h = "a" + h[1:]
		}
		h = h[:i] + strings.ToUpper(h[i:i+1]) + h[i+1:]
	case "non-hex":
		i := mr.Intn(len(h))
		h = h[:i] + string("gz_ G"[mr.Intn(5)]) + h[i+1:]
	case "negative-size":
		s = []int64{-1, math.MinInt64, -s - 1}[mr.Intn(3)]
	case "empty-hash":
		h = ""
	case "separator":
		i := mr.Intn(len(h))
		h = h[:i] + string("-/"[mr.Intn(2)]) + h[i+1:]
	}
	return &remoteexecution.Digest{Hash: h, SizeBytes: s}, malKinds[k]
}

// place decides what goes into a digest field: the valid digest, nothing, or
// (for the one slot selected by malAt) a malformed variant of it.
func (b *builder) place(role string, d *remoteexecution.Digest, nilOK bool) *remoteexecution.Digest {
	idx := b.slot
	b.slot++
	isNil := nilOK && b.r.Intn(1000) < b.o.nilPerMille
	if idx == b.malAt {
		m, kind := malform(b.mr, d, b.w.hashLen)
		b.w.malRole, b.w.malKind = role, kind
		return m
	}
	if isNil {
		b.nils++
		return nil
	}
	return d
}

func mustMarshal(m proto.Message) []byte {
	data, err := proto.MarshalOptions{Deterministic: true}.Marshal(m)
	if err != nil {
		panic(err)
	}
	return data
}

func (b *builder) genDirectory(depth int, children *[]*remoteexecution.Directory, big bool) *remoteexecution.Directory {
	d := &remoteexecution.Directory{}
	nf := b.r.Intn(b.o.maxTreeFile + 1)
	if big {
		nf = b.r.Range(45, 70)
	}
	for i := 0; i < nf; i++ {
		d.Files = append(d.Files, &remoteexecution.FileNode{
			Name:         fmt.Sprintf("f%d", i),
			Digest:       b.place("tree-file", b.opaque("tree-file"), true),
			IsExecutable: b.r.Bool(),
		})
	}
	if depth > 0 {
		nd := b.r.Intn(3)
		for i := 0; i < nd; i++ {
			var dg *remoteexecution.Digest
			if b.o.hostile && b.r.Chance(1, 4) {
				dg = b.opaque("tree-directory")
			} else {
				child := b.genDirectory(depth-1, children, false)
				dg = b.stored(mustMarshal(child), "tree-directory")
				*children = append(*children, child)
			}
			d.Directories = append(d.Directories, &remoteexecution.DirectoryNode{
				Name:   fmt.Sprintf("d%d", i),
				Digest: b.place("tree-directory", dg, true),
			})
		}
	}
	if b.r.Chance(1, 4) {
		d.Symlinks = append(d.Symlinks, &remoteexecution.SymlinkNode{Name: "l", Target: "../x"})
	}
	return d
}

func (b *builder) genTree() *builtTree {
	t := &builtTree{}
	tree := &remoteexecution.Tree{}
	if !b.r.Chance(1, 8) { // 1/8: a Tree without a root (zero bytes)
		var children []*remoteexecution.Directory
		big := b.o.bigTree && len(b.trees) == 0
		tree.Root = b.genDirectory(b.r.Intn(b.o.treeDepth+1), &children, big)
		// children were appended innermost first; REv2 does not require an order.
		if b.r.Bool() {
			for i, j := 0, len(children)-1; i < j; i, j = i+1, j-1 {
				children[i], children[j] = children[j], children[i]
			}
		}
		tree.Children = children
		t.root = tree.Root
		t.hasDirs = len(children) > 0
	}
	data := mustMarshal(tree)
	if b.o.hostile {
		switch b.r.Intn(6) {
		case 0: // unknown length-delimited field
			data = protowire.AppendTag(data, protowire.Number(b.r.Pick(3, 15, 16, 1000, 1<<20)), protowire.BytesType)
			data = protowire.AppendBytes(data, b.r.Bytes(b.r.Intn(40)))
		case 1: // a second root field: proto3 merges it into the first
			extra := &remoteexecution.Directory{Files: []*remoteexecution.FileNode{{Name: "extra", Digest: b.place("tree-file", b.opaque("tree-file"), true)}}}
			data = protowire.AppendTag(data, 1, protowire.BytesType)
			data = protowire.AppendBytes(data, mustMarshal(extra))
		case 2: // unknown field in front
			pre := protowire.AppendTag(nil, 7, protowire.BytesType)
			pre = protowire.AppendBytes(pre, b.r.Bytes(b.r.Intn(10)))
			data = append(pre, data...)
		case 3:
			if b.o.nonBytes { // proto.Unmarshal accepts it as an unknown field; the streaming visitor refuses it
				data = protowire.AppendTag(data, 9, protowire.VarintType)
				data = protowire.AppendVarint(data, b.r.Uint64())
			}
		}
	}
	t.bytes = data
	t.dg = b.stored(data, "tree")
	if t.root != nil {
		t.rootDg = b.stored(mustMarshal(t.root), "root-directory")
	}
	b.trees = append(b.trees, t)
	return t
}

func (b *builder) build() {
	w, r := b.w, b.r
	ar := &remoteexecution.ActionResult{ExitCode: int32(r.Intn(3))}
	nf := r.Intn(b.o.maxFiles + 1)
	for i := 0; i < nf; i++ {
		f := &remoteexecution.OutputFile{Path: fmt.Sprintf("out/f%d", i), IsExecutable: r.Bool()}
		if r.Chance(1, 5) { // inlined contents: the digest still names a CAS object
			data := r.Bytes(r.Intn(24))
			f.Contents = data
			f.Digest = b.place("output-file", b.stored(data, "output-file"), true)
			b.inlined++
		} else {
			f.Digest = b.place("output-file", b.opaque("output-file"), true)
		}
		ar.OutputFiles = append(ar.OutputFiles, f)
	}
	nd := r.Intn(b.o.maxDirs + 1)
	for i := 0; i < nd; i++ {
		var t *builtTree
		if len(b.trees) > 0 && r.Chance(1, 5) {
			t = b.trees[r.Intn(len(b.trees))]
		} else {
			t = b.genTree()
		}
		od := &remoteexecution.OutputDirectory{Path: fmt.Sprintf("out/d%d", i), IsTopologicallySorted: r.Bool()}
		od.TreeDigest = b.place("tree", t.dg, b.o.nilTreeOK)
		withRoot := r.Bool()
		switch b.o.rootMode {
		case 1:
			withRoot = true
		case 2:
			withRoot = false
		}
		if withRoot {
			rd := t.rootDg
			if rd == nil || (b.o.hostile && r.Chance(1, 5)) {
				rd = b.opaque("root-directory")
			}
			// never nil-ed by chance: the presence of this field is the case dimension
			od.RootDirectoryDigest = b.place("root-directory", rd, false)
		}
		ar.OutputDirectories = append(ar.OutputDirectories, od)
	}
	if r.Chance(1, 4) {
		ar.OutputSymlinks = append(ar.OutputSymlinks, &remoteexecution.OutputSymlink{Path: "out/l", Target: "f0"})
	}
	if r.Chance(3, 5) {
		data := r.Bytes(r.Intn(30))
		if r.Chance(1, 3) {
			ar.StdoutRaw = data
		}
		ar.StdoutDigest = b.place("stdout", b.stored(data, "stdout"), true)
	} else if r.Chance(1, 3) {
		ar.StdoutRaw = []byte("raw only")
	}
	if r.Chance(3, 5) {
		ar.StderrDigest = b.place("stderr", b.opaque("stderr"), true)
	}
	if r.Chance(1, 3) {
		ar.ExecutionMetadata = &remoteexecution.ExecutedActionMetadata{Worker: "w" + randHex(r, 4)}
	}
	w.ar = ar
	w.arBytes = mustMarshal(ar)
	w.ac.data = w.arBytes
	w.slots = b.slot
	w.nTrees = len(b.trees)
	withRoot := 0
	for _, od := range ar.OutputDirectories {
		if od.RootDirectoryDigest != nil {
			withRoot++
		}
	}
	w.shape = fmt.Sprintf("fn=%v inst=%q files=%d dirs=%d(root:%d) trees=%d slots=%d nil=%d inl=%d stdout=%v stderr=%v ar=%s",
		w.fnEnum, w.inst, len(ar.OutputFiles), len(ar.OutputDirectories), withRoot, len(b.trees), b.slot, b.nils, b.inlined,
		ar.StdoutDigest != nil, ar.StderrDigest != nil, gen.Hex8(w.arBytes))
}

// buildWorld generates a world from a copy of the generator state, so that a
// second call with the same state and another malAt yields the same world
// with exactly one digest slot malformed.
func buildWorld(state gen.Rng, o shapeOpts, malAt int, malSeed uint64) *world {
	r := &state
	w := &world{universe: map[string]string{}}
	w.inst = instances[r.Intn(len(instances))]
	w.fnEnum = gen.AllFunctions[r.Intn(len(gen.AllFunctions))]
	if r.Chance(1, 2) {
		w.fnEnum = remoteexecution.DigestFunction_SHA256
	}
	w.fn = digest.MustNewFunction(w.inst, w.fnEnum)
	w.acDigest = gen.DigestOf(w.inst, w.fnEnum, r.Bytes(16))
	w.hashLen = len(w.acDigest.GetHashString())
	w.cas = newCAS(w.inst, w.fnEnum)
	w.ac = &acStore{Store: model.NewStore("ac", digest.KeyWithInstance)}
	b := &builder{w: w, r: r, mr: gen.New(malSeed, uint64(malAt)), o: o, malAt: malAt}
	b.build()
	return w
}

// setTreeDigest rewrites output directory i to reference another Tree object.
func (w *world) setTreeDigest(i int, d *remoteexecution.Digest) {
	w.ar.OutputDirectories[i].TreeDigest = d
	w.arBytes = mustMarshal(w.ar)
	w.ac.data = w.arBytes
}

func randomOpts(r *gen.Rng) shapeOpts {
	o := shapeOpts{maxFiles: 6, maxDirs: 3, treeDepth: 2, maxTreeFile: 4}
	switch r.Intn(10) {
	case 0:
		o.maxFiles = 40
	case 1:
		o.maxFiles, o.maxDirs = 0, 1
	case 2:
		o.maxDirs = 6
	}
	o.nilPerMille = r.Pick(0, 0, 50, 150, 400)
	o.hostile = r.Chance(1, 3)
	o.treeDepth = r.Intn(4)
	o.bigTree = r.Chance(1, 12)
	return o
}
