package main

// The monitors: a model CAS that records what it was asked and what it
// reported (per call), can serve altered bytes under a digest, fail a stream
// at a byte offset, fail the n-th call and change its contents between calls;
// and a model AC that serves the ActionResult through the real
// ACReadBufferFactory.

import (
	"bytes"
	"context"
	"fmt"
	"io"

	remoteexecution "github.com/bazelbuild/remote-apis/build/bazel/remote/execution/v2"
	"github.com/buildbarn/bb-storage/pkg/blobstore"
	"github.com/buildbarn/bb-storage/pkg/blobstore/buffer"
	"github.com/buildbarn/bb-storage/pkg/blobstore/slicing"
	"github.com/buildbarn/bb-storage/pkg/digest"
	"google.golang.org/grpc/codes"
	"google.golang.org/grpc/status"

	"verif/lib/model"
)

// objKey is the identity of a CAS object inside one case (instance name and
// digest function are fixed per case and verified on every call).
func objKey(hash string, size int64) string { return fmt.Sprintf("%s-%d", hash, size) }

// serveSpec overrides how Get serves one key.
type serveSpec struct {
	data    []byte // served instead of the stored bytes when altered is set
	altered bool
	failErr error // with failErr != nil: the stream fails once failAt bytes were delivered
	failAt  int
	bySlice bool // serve through NewBufferFromByteSlice instead of a reader
}

type streamReader struct {
	data        []byte
	off         int
	chunk       int // max bytes per Read; 0 = unlimited
	eofWithData bool
	failErr     error
	failAt      int
	closes      int
	sawEnd      bool // EOF or the injected error was delivered
}

func (r *streamReader) Read(p []byte) (int, error) {
	if r.failErr != nil && r.off >= r.failAt {
		r.sawEnd = true
		return 0, r.failErr
	}
	if r.off >= len(r.data) {
		r.sawEnd = true
		return 0, io.EOF
	}
	n := len(r.data) - r.off
	if n > len(p) {
		n = len(p)
	}
	if r.chunk > 0 && n > r.chunk {
		n = r.chunk
	}
	if r.failErr != nil && r.off+n > r.failAt {
		n = r.failAt - r.off
	}
	copy(p, r.data[r.off:r.off+n])
	r.off += n
	if r.eofWithData && r.off >= len(r.data) && r.failErr == nil {
		r.sawEnd = true
		return n, io.EOF
	}
	return n, nil
}

func (r *streamReader) Close() error { r.closes++; return nil }

type casCall struct {
	op string // "FindMissing" or "Get"
	// FindMissing
	asked   []string
	missing map[string]bool
	// Get
	key     string
	outcome string // "served", "served-altered", "served-failing", "notfound", "fault"
	rd      *streamReader
	err     error // injected or not-found error
}

type casMonitor struct {
	inst   string
	fnEnum remoteexecution.DigestFunction_Value

	objects map[string][]byte
	serve   map[string]*serveSpec
	chunk   int
	eofData bool

	calls []*casCall

	faultAt  int // index of the call that fails (-1: none)
	faultErr error

	// flip: when call number flipAt starts, the object flipKey is removed
	// (flipDelete) or (re-)inserted with flipData.
	flipAt     int
	flipKey    string
	flipDelete bool
	flipData   []byte

	integrityFalse int // data integrity callback invocations with false
	unexpectedOps  int // Put / GetFromComposite on the CAS
}

func newCAS(inst string, fn remoteexecution.DigestFunction_Value) *casMonitor {
	return &casMonitor{inst: inst, fnEnum: fn, objects: map[string][]byte{}, serve: map[string]*serveSpec{}, faultAt: -1, flipAt: -1}
}

func (m *casMonitor) reset() { m.calls = nil }

func (m *casMonitor) keyOf(d digest.Digest) string {
	k := objKey(d.GetHashString(), d.GetSizeBytes())
	if d.GetInstanceName().String() != m.inst || d.GetDigestFunction().GetEnumValue() != m.fnEnum {
		// Asked under a different instance name or digest function: that is a
		// different object, never one the case placed in the CAS.
		return "WRONGSCOPE(" + d.String() + ")"
	}
	return k
}

func (m *casMonitor) begin() (int, error) {
	idx := len(m.calls)
	if idx == m.flipAt {
		if m.flipDelete {
			delete(m.objects, m.flipKey)
		} else {
			m.objects[m.flipKey] = m.flipData
		}
	}
	if idx == m.faultAt {
		return idx, m.faultErr
	}
	return idx, nil
}

func (m *casMonitor) FindMissing(ctx context.Context, digests digest.Set) (digest.Set, error) {
	_, ferr := m.begin()
	call := &casCall{op: "FindMissing", missing: map[string]bool{}}
	m.calls = append(m.calls, call)
	for _, d := range digests.Items() {
		call.asked = append(call.asked, m.keyOf(d))
	}
	if ferr != nil {
		call.err = ferr
		return digest.EmptySet, ferr
	}
	sb := digest.NewSetBuilder(0)
	for _, d := range digests.Items() {
		k := m.keyOf(d)
		if _, ok := m.objects[k]; !ok {
			call.missing[k] = true
			sb.Add(d)
		}
	}
	return sb.Build(), nil
}

func (m *casMonitor) Get(ctx context.Context, d digest.Digest) buffer.Buffer {
	_, ferr := m.begin()
	k := m.keyOf(d)
	call := &casCall{op: "Get", key: k}
	m.calls = append(m.calls, call)
	if ferr != nil {
		call.outcome, call.err = "fault", ferr
		return buffer.NewBufferFromError(ferr)
	}
	data, ok := m.objects[k]
	if !ok {
		call.outcome = "notfound"
		call.err = status.Errorf(codes.NotFound, "model CAS: object %s not found", d)
		return buffer.NewBufferFromError(call.err)
	}
	call.outcome = "served"
	cb := func(valid bool) {
		if !valid {
			m.integrityFalse++
		}
	}
	rd := &streamReader{data: data, chunk: m.chunk, eofWithData: m.eofData}
	bySlice := false
	if s := m.serve[k]; s != nil {
		if s.altered && !bytes.Equal(s.data, data) {
			rd.data = s.data
			call.outcome = "served-altered"
		}
		if s.failErr != nil {
			rd.failErr, rd.failAt = s.failErr, s.failAt
			call.outcome = "served-failing"
		}
		bySlice = s.bySlice && s.failErr == nil
	}
	call.rd = rd
	if bySlice {
		rd.sawEnd = true
		rd.closes = 1
		return blobstore.CASReadBufferFactory.NewBufferFromByteSlice(d, append([]byte(nil), rd.data...), cb)
	}
	return blobstore.CASReadBufferFactory.NewBufferFromReader(d, rd, cb)
}

func (m *casMonitor) GetFromComposite(ctx context.Context, parent, child digest.Digest, slicer slicing.BlobSlicer) buffer.Buffer {
	m.unexpectedOps++
	return buffer.NewBufferFromError(status.Error(codes.Unimplemented, "model CAS: GetFromComposite is not expected"))
}

func (m *casMonitor) Put(ctx context.Context, d digest.Digest, b buffer.Buffer) error {
	m.unexpectedOps++
	b.Discard()
	return status.Error(codes.Unimplemented, "model CAS: Put is not expected")
}

func (m *casMonitor) GetCapabilities(ctx context.Context, instanceName digest.InstanceName) (*remoteexecution.ServerCapabilities, error) {
	return &remoteexecution.ServerCapabilities{CacheCapabilities: &remoteexecution.CacheCapabilities{DigestFunctions: digest.SupportedDigestFunctions}}, nil
}

// acStore is the Action Cache behind the decorator.
type acStore struct {
	*model.Store // Put, FindMissing, GetCapabilities (not exercised)
	data         []byte
	err          error // when set, Get fails with it
	gets         int
	composites   int // GetFromComposite calls that reached the AC directly
}

func (a *acStore) Get(ctx context.Context, d digest.Digest) buffer.Buffer {
	a.gets++
	if a.err != nil {
		return buffer.NewBufferFromError(a.err)
	}
	return blobstore.ACReadBufferFactory.NewBufferFromByteSlice(d, append([]byte(nil), a.data...), func(bool) {})
}

func (a *acStore) GetFromComposite(ctx context.Context, parent, child digest.Digest, slicer slicing.BlobSlicer) buffer.Buffer {
	a.composites++
	b, _ := slicer.Slice(a.Get(ctx, parent), child)
	return b
}

type identitySlicer struct{}

func (identitySlicer) Slice(b buffer.Buffer, child digest.Digest) (buffer.Buffer, []slicing.BlobSlice) {
	return b, nil
}
