package main

// Reference semantics of the property (independent of the streaming code:
// full proto.Unmarshal of the ActionResult and of every Tree) and the verdict
// over one observed execution of the decorator's Get.

import (
	"bytes"
	"context"
	"fmt"
	"math"
	"sort"
	"strings"

	remoteexecution "github.com/bazelbuild/remote-apis/build/bazel/remote/execution/v2"
	"github.com/buildbarn/bb-storage/pkg/blobstore"
	"github.com/buildbarn/bb-storage/pkg/blobstore/completenesschecking"
	"google.golang.org/grpc/codes"
	"google.golang.org/grpc/status"
	"google.golang.org/protobuf/encoding/protowire"
	"google.golang.org/protobuf/proto"

	"verif/lib/run"
)

const site = "completenessCheckingBlobAccess.Get:"

type runCfg struct {
	batch   int
	maxMsg  int
	maxTree int64
	path    int // 0 Get+ToByteSlice, 1 Get+ToProto, 2 GetFromComposite(identity slicer)+ToByteSlice
	label   string
	flaky   bool // the CAS changes during the call: only report-based clauses apply
	// ba, when set, is a decorator instance (built with batch, maxMsg, maxTree)
	// shared by several Gets of a case: "during that call" must not be
	// satisfied by what an earlier call learnt.
	ba blobstore.BlobAccess
}

// expectation is what the reference derives from the AC bytes, the CAS
// contents and the way the CAS is going to serve the Trees.
type expectation struct {
	arOK      bool
	required  map[string]string // object key -> role of the first reference to it
	order     []string
	malformed []string // roles of malformed digests among the references
	nilTrees  int
	treeKeys  []string          // well-formed tree digests, AR order, duplicates kept
	treeIssue map[string]string // tree key -> absent | corrupt-served | stream-error | unparseable
	sumMulti  uint64
	sumDist   uint64
	either    []string // reasons why the property does not decide the outcome of a fault-free run
	// Message size limit (coverage bookkeeping only; the statement says nothing
	// about messages larger than the configured maximum, so no clause uses it).
	arOver  bool // the ActionResult is larger than the limit
	dirOver int  // Directory messages (root/children fields of readable Trees, repeats kept) larger than the limit
	maxDir  int  // largest such Directory message
}

// fieldBoundaries returns the offsets at which the top-level fields of an
// encoded message end (the last one is len(data) for a well-formed message).
func fieldBoundaries(data []byte) []int {
	var out []int
	for off := 0; off < len(data); {
		num, typ, n := protowire.ConsumeTag(data[off:])
		if n < 0 {
			break
		}
		m := protowire.ConsumeFieldValue(num, typ, data[off+n:])
		if m < 0 {
			break
		}
		off += n + m
		out = append(out, off)
	}
	return out
}

// treeDirectories returns the encoded Directory messages (root and children
// fields) of an encoded Tree, in wire order.
func treeDirectories(data []byte) [][]byte {
	var out [][]byte
	for rest := data; len(rest) > 0; {
		num, typ, n := protowire.ConsumeTag(rest)
		if n < 0 {
			break
		}
		m := protowire.ConsumeFieldValue(num, typ, rest[n:])
		if m < 0 {
			break
		}
		if typ == protowire.BytesType && (num == 1 || num == 2) {
			v, _ := protowire.ConsumeBytes(rest[n:])
			out = append(out, v)
		}
		rest = rest[n+m:]
	}
	return out
}

func satAdd(a, b uint64) uint64 {
	if a+b < a {
		return math.MaxUint64
	}
	return a + b
}

// wellFormed is the reference notion of a well-formed digest for the digest
// function of the request: lower-case hexadecimal hash of the function's
// length and a non-negative size.
func wellFormed(d *remoteexecution.Digest, hashLen int) bool {
	if len(d.GetHash()) != hashLen || d.GetSizeBytes() < 0 {
		return false
	}
	for i := 0; i < len(d.Hash); i++ {
		c := d.Hash[i]
		if !(c >= '0' && c <= '9') && !(c >= 'a' && c <= 'f') {
			return false
		}
	}
	return true
}

func (e *expectation) ref(d *remoteexecution.Digest, role string, hashLen int) {
	if d == nil {
		return // an unset field references nothing
	}
	if !wellFormed(d, hashLen) {
		e.malformed = append(e.malformed, role)
		return
	}
	k := objKey(d.Hash, d.SizeBytes)
	if _, ok := e.required[k]; !ok {
		e.required[k] = role
		e.order = append(e.order, k)
	}
}

func evaluate(w *world, cfg runCfg) *expectation {
	e := &expectation{required: map[string]string{}, treeIssue: map[string]string{}}
	ar := &remoteexecution.ActionResult{}
	if w.ac.err != nil || proto.Unmarshal(w.arBytes, ar) != nil {
		return e
	}
	e.arOK = true
	if len(w.arBytes)+2 >= cfg.maxMsg {
		e.either = append(e.either, "action result at the message size limit")
	}
	e.arOver = len(w.arBytes) > cfg.maxMsg
	for _, f := range ar.OutputFiles {
		e.ref(f.Digest, "output-file", w.hashLen)
	}
	e.ref(ar.StdoutDigest, "stdout", w.hashLen)
	e.ref(ar.StderrDigest, "stderr", w.hashLen)
	seenTree := map[string]bool{}
	for _, od := range ar.OutputDirectories {
		e.ref(od.RootDirectoryDigest, "root-directory", w.hashLen)
		if od.TreeDigest == nil {
			// The statement does not say what an output directory without a
			// tree digest is; the code refuses it.
			e.nilTrees++
			continue
		}
		e.ref(od.TreeDigest, "tree", w.hashLen)
		if !wellFormed(od.TreeDigest, w.hashLen) {
			continue
		}
		k := objKey(od.TreeDigest.Hash, od.TreeDigest.SizeBytes)
		e.treeKeys = append(e.treeKeys, k)
		e.sumMulti = satAdd(e.sumMulti, uint64(od.TreeDigest.SizeBytes))
		if !seenTree[k] {
			seenTree[k] = true
			e.sumDist = satAdd(e.sumDist, uint64(od.TreeDigest.SizeBytes))
		}
		data, present := w.cas.objects[k]
		if !present {
			e.treeIssue[k] = "absent"
			continue
		}
		if s := w.cas.serve[k]; s != nil {
			servedLen := len(data)
			if s.altered {
				servedLen = len(s.data)
			}
			if s.failErr != nil && s.failAt <= servedLen {
				e.treeIssue[k] = "stream-error"
				continue
			}
			if s.altered && !bytes.Equal(s.data, data) {
				e.treeIssue[k] = "corrupt-served"
				continue
			}
		}
		tree := &remoteexecution.Tree{}
		if err := proto.Unmarshal(data, tree); err != nil {
			e.treeIssue[k] = "unparseable"
			continue
		}
		// Where the streaming visitor is stricter than proto.Unmarshal, or a
		// size limit is at its edge, the property does not decide.
		for rest := data; len(rest) > 0; {
			num, typ, n := protowire.ConsumeTag(rest)
			if n < 0 {
				break
			}
			m := protowire.ConsumeFieldValue(num, typ, rest[n:])
			if m < 0 {
				break
			}
			if typ != protowire.BytesType {
				e.either = append(e.either, "tree with a non length-delimited top-level field")
			} else if (num == 1 || num == 2) && m+2 >= cfg.maxMsg {
				e.either = append(e.either, "directory at the message size limit")
			}
			rest = rest[n+m:]
		}
		for _, d := range treeDirectories(data) {
			if len(d) > cfg.maxMsg {
				e.dirOver++
			}
			if len(d) > e.maxDir {
				e.maxDir = len(d)
			}
		}
		dirs := append([]*remoteexecution.Directory{}, tree.Children...)
		if tree.Root != nil {
			dirs = append(dirs, tree.Root)
		}
		for _, d := range dirs {
			for _, f := range d.Files {
				e.ref(f.Digest, "tree-file", w.hashLen)
			}
			if od.RootDirectoryDigest != nil {
				for _, c := range d.Directories {
					e.ref(c.Digest, "tree-directory", w.hashLen)
				}
			}
		}
	}
	if e.nilTrees > 0 {
		e.either = append(e.either, "output directory without tree digest")
	}
	lim := uint64(0)
	if cfg.maxTree > 0 {
		lim = uint64(cfg.maxTree)
	}
	if e.sumMulti > lim && !(e.sumDist > lim) {
		e.either = append(e.either, "tree size limit exceeded only when a repeated Tree is counted twice")
	}
	return e
}

func (e *expectation) oversized(cfg runCfg) bool {
	lim := uint64(0)
	if cfg.maxTree > 0 {
		lim = uint64(cfg.maxTree)
	}
	return e.sumDist > lim
}

// leaves lists the referenced objects that are not (also) a Tree of the
// ActionResult. The empty blob can be an empty Tree and an empty Directory at
// the same time.
func (e *expectation) leaves() []string {
	isTree := map[string]bool{}
	for _, k := range e.treeKeys {
		isTree[k] = true
	}
	var out []string
	for _, k := range e.order {
		if !isTree[k] {
			out = append(out, k)
		}
	}
	return out
}

// missingNow lists the required objects absent from the CAS (state based; only
// meaningful when the CAS does not change during the call).
func (e *expectation) missingNow(w *world) []string {
	var out []string
	for _, k := range e.order {
		if _, ok := w.cas.objects[k]; !ok {
			out = append(out, k)
		}
	}
	return out
}

type outcome struct {
	ok    bool
	err   error
	calls int
	exp   *expectation
}

type harness struct {
	c *run.Case
	w *run.Worker
}

func short(k string) string {
	if len(k) > 14 {
		return k[:8] + "…" + k[strings.LastIndexByte(k, '-'):]
	}
	return k
}

// execute runs the real decorator once over the world and applies the oracle.
func (h harness) execute(w *world, cfg runCfg) outcome {
	c, rw := h.c, h.w
	ctx := context.Background()
	w.cas.reset()
	acComposites := w.ac.composites
	ba := cfg.ba
	if ba == nil {
		ba = completenesschecking.NewCompletenessCheckingBlobAccess(w.ac, w.cas, cfg.batch, cfg.maxMsg, cfg.maxTree)
	} else {
		rw.Count("gets_on_reused_decorator", 1)
	}
	exp := evaluate(w, cfg)

	var data []byte
	var err error
	var msg proto.Message
	switch cfg.path {
	case 0:
		b := ba.Get(ctx, w.acDigest)
		// "during that call": everything the CAS reported is in the log now.
		data, err = b.ToByteSlice(1 << 26)
	case 1:
		msg, err = ba.Get(ctx, w.acDigest).ToProto(&remoteexecution.ActionResult{}, 1<<26)
	default:
		data, err = ba.GetFromComposite(ctx, w.acDigest, w.acDigest, identitySlicer{}).ToByteSlice(1 << 26)
	}
	calls := append([]*casCall(nil), w.cas.calls...)
	ok := err == nil
	rw.Count("gets_total", 1)
	rw.Distinct(w.shape + "|" + cfg.label)

	// What the CAS reported during the call.
	present := map[string]bool{}
	asked := map[string]bool{}
	treeServed := map[string]bool{}
	treeTried := map[string]bool{}
	nFM, nGet, maxBatch := 0, 0, 0
	faulted := false
	for _, cl := range calls {
		if cl.err != nil && cl.outcome != "notfound" {
			faulted = true
		}
		if cl.op == "FindMissing" {
			nFM++
			if len(cl.asked) > maxBatch {
				maxBatch = len(cl.asked)
			}
			for _, k := range cl.asked {
				asked[k] = true
				if cl.err == nil && !cl.missing[k] {
					present[k] = true
				}
			}
		} else {
			nGet++
			treeTried[cl.key] = true
			if cl.outcome == "served" {
				treeServed[cl.key] = true
			}
			if cl.rd != nil && cl.rd.closes != 1 {
				rw.Count("tree_streams_not_closed_once", 1)
			}
		}
	}
	rw.Count("cas_findmissing_calls", int64(nFM))
	rw.Count("cas_tree_gets", int64(nGet))
	rw.Max("max_findmissing_batch", int64(maxBatch))
	if w.ac.composites > acComposites {
		rw.Count("ac_getfromcomposite_reached", 1)
	}
	if w.cas.unexpectedOps > 0 {
		rw.Count("cas_unexpected_ops", int64(w.cas.unexpectedOps))
	}
	c.Logf("[%s] batch=%d maxMsg=%d maxTree=%d path=%d -> ok=%v err=%v; cas calls: %d FindMissing, %d Get; required=%d malformed=%v treeIssue=%v either=%v",
		cfg.label, cfg.batch, cfg.maxMsg, cfg.maxTree, cfg.path, ok, err, nFM, nGet, len(exp.order), exp.malformed, exp.treeIssue, exp.either)

	viol := func(class, format string, a ...any) {
		var sb strings.Builder
		for i, cl := range calls {
			if i >= 40 {
				fmt.Fprintf(&sb, "  …%d more\n", len(calls)-i)
				break
			}
			if cl.op == "FindMissing" {
				var ms []string
				for _, k := range cl.asked {
					if cl.missing[k] {
						ms = append(ms, short(k))
					}
				}
				fmt.Fprintf(&sb, "  #%d FindMissing(%d digests) missing=%v err=%v\n", i, len(cl.asked), ms, cl.err)
			} else {
				fmt.Fprintf(&sb, "  #%d Get(%s) %s err=%v\n", i, short(cl.key), cl.outcome, cl.err)
			}
		}
		c.Violation(site+class, format+"\nCAS calls during the Get:\n%s", append(a, sb.String())...)
	}

	if len(calls) > 3 {
		rw.Count("multi_batch_gets", 1)
	}
	if ok {
		rw.Count("results_returned", 1)
		if cfg.flaky {
			rw.Count("flaky_returned", 1)
		}
		if unrequiredAbsent(w, exp) {
			rw.Count("returned_unrequired_directory_absent", 1)
		}
		if exp.maxDir > 0 && exp.maxDir == cfg.maxMsg {
			rw.Count("returned_directory_at_message_limit", 1)
		}
		if exp.dirOver > 0 {
			// The statement does not say that a Directory larger than the
			// message size limit withholds the result (the code refuses it);
			// what it demands - every file listed in it reported present - is
			// asserted below. Observed only.
			rw.Count("observed_returned_with_directory_over_message_limit", 1)
		}
		// Identity of what was returned.
		stored := &remoteexecution.ActionResult{}
		if !exp.arOK {
			viol("returned-from-unreadable-action-cache-entry", "a result was returned although the AC entry is unreadable")
		} else {
			_ = proto.Unmarshal(w.arBytes, stored)
			got := msg
			if got == nil {
				g := &remoteexecution.ActionResult{}
				if uerr := proto.Unmarshal(data, g); uerr != nil {
					viol("returned-different-result", "returned bytes do not parse: %v", uerr)
				}
				got = g
			}
			if !proto.Equal(got, stored) {
				viol("returned-different-result", "the returned ActionResult differs from the stored one")
			}
		}
		// Soundness: every reference was reported present during the call.
		for _, k := range exp.order {
			if present[k] {
				continue
			}
			role := exp.required[k]
			if asked[k] {
				viol("returned-although-not-reported-present("+role+")", "the result was returned although %s object %s was asked about but never reported present", role, k)
			} else {
				viol("unchecked-reference("+role+")", "the result was returned although the CAS was never asked about %s object %s", role, k)
			}
		}
		rw.Count("references_verified_present", int64(len(exp.order)))
		for _, role := range exp.malformed {
			viol("returned-with-malformed-digest("+role+")", "the result was returned although it contains a malformed %s digest (%s %s)", role, w.malRole, w.malKind)
		}
		for _, k := range exp.treeKeys {
			if is := exp.treeIssue[k]; is != "" {
				viol("returned-with-"+is+"-tree", "the result was returned although Tree %s is %s", k, is)
			} else if treeTried[k] && !treeServed[k] {
				viol("returned-with-unreadable-tree", "the result was returned although every Get of Tree %s failed", k)
			}
		}
		if exp.oversized(cfg) {
			viol("returned-with-oversized-trees", "the result was returned although the Trees total %d bytes (distinct) and the limit is %d", exp.sumDist, cfg.maxTree)
		}
		if len(exp.order) > 0 {
			rw.Count("returned_with_references", 1)
		}
		return outcome{ok: true, calls: len(calls), exp: exp}
	}

	// The caller got an error.
	rw.Count("results_refused", 1)
	if len(data) != 0 || msg != nil {
		viol("error-with-data", "an error (%v) was returned together with data", err)
	}
	code := status.Code(err)
	acBad := !exp.arOK
	missing := exp.missingNow(w)
	var treeBad []string
	for _, k := range exp.treeKeys {
		if is := exp.treeIssue[k]; is != "" && is != "absent" {
			treeBad = append(treeBad, is)
		}
	}
	over := exp.oversized(cfg)
	if exp.arOK && !exp.arOver && exp.dirOver > 0 && !cfg.flaky && !faulted && len(treeBad) == 0 {
		rw.Count("refused_directory_over_message_limit", 1)
	}
	switch {
	case acBad:
		rw.Count("refused_ac_entry_unreadable", 1)
	case cfg.flaky:
		rw.Count("refused_flaky", 1)
	case faulted:
		rw.Count("refused_cas_fault", 1)
		rw.Count("refused_cas_fault_"+code.String(), 1)
	case len(treeBad) > 0:
		sort.Strings(treeBad)
		rw.Count("refused_tree_"+treeBad[0], 1)
	case len(exp.either) > 0:
		rw.Count("refused_undecided", 1)
	case len(missing) == 0 && len(exp.malformed) == 0 && !over:
		// Nothing is missing, malformed, corrupt or oversized, and nothing failed.
		// Completeness is not part of C13 as stated (the statement is
		// soundness-only); observed, not a violation. The floor on
		// results_returned makes a decorator that refuses everything
		// inconclusive instead of "held".
		rw.Count("observed_complete_result_refused", 1)
	default:
		// Only causes for which the caller must see NOT_FOUND ("the result
		// does not exist").
		cls := ""
		if len(missing) > 0 {
			cls = "missing-object"
			rw.Count("refused_missing", 1)
			if len(missing) == 1 {
				rw.Count("refused_single_missing_"+exp.required[missing[0]], 1)
			}
		}
		if len(exp.malformed) > 0 {
			if cls != "" {
				cls = "mixed"
			} else {
				cls = "malformed-digest"
			}
			rw.Count("refused_malformed", 1)
			if len(exp.malformed) == 1 {
				rw.Count("refused_single_malformed_"+exp.malformed[0], 1)
			}
		}
		if over {
			if cls != "" {
				cls = "mixed"
			} else {
				cls = "oversized-trees"
			}
			rw.Count("refused_oversized", 1)
		}
		if code != codes.NotFound {
			if cls == "missing-object" {
				viol(cls+"-wrong-error-code", "cause %s must be reported as NOT_FOUND, got %v", cls, err)
			} else {
				// The statement demands "an error" for malformed digests and
				// oversized Trees, not a particular code: observed only.
				rw.Count("observed_"+cls+"_reported_with_other_code", 1)
			}
		}
	}
	return outcome{ok: false, err: err, calls: len(calls), exp: exp}
}
