// C13 — completeness checking: an ActionResult is returned only if everything
// it references was reported present by the CAS during that call.
//
// Monitor: the real completenesschecking.NewCompletenessCheckingBlobAccess
// between a model AC (real ACReadBufferFactory) and a model CAS (real
// CASReadBufferFactory) that records, per call, which digests it was asked
// about and which it reported missing, and which Tree streams it served, how
// (true bytes, altered bytes, failing at a byte offset) and whether a fault
// was injected. The oracle (oracle.go) derives the set of referenced objects
// independently (full proto.Unmarshal of the ActionResult and of the Trees)
// and relates it to what the CAS reported during the call.
//
// Files: cas.go (monitors), world.go (generator), oracle.go (reference and
// verdict), main.go (workloads).
package main

import (
	"fmt"
	"math"
	"runtime/debug"
	"sort"
	"time"

	remoteexecution "github.com/bazelbuild/remote-apis/build/bazel/remote/execution/v2"
	"github.com/buildbarn/bb-storage/pkg/blobstore"
	"github.com/buildbarn/bb-storage/pkg/blobstore/completenesschecking"
	"google.golang.org/grpc/codes"
	"google.golang.org/grpc/status"
	"google.golang.org/protobuf/proto"

	"verif/lib/gen"
	"verif/lib/run"
)

func main() {
	debug.SetGCPercent(400) // many small short-lived messages; the oracle never looks at time or memory
	run.Main(run.Spec{
		Property: "C13",
		Level:    "exploration",
		Rule: "case = generated ActionResult (0-40 output files, 0-6 output directories with/without root digest, nested/empty/shared/hostile Trees, inlined contents, unset and malformed digests, 8 digest functions, 4 instance names) x CAS state and behaviour x decorator configuration (batch size, message size limit, tree size budget) x access path; " +
			"groups: random (random missing subsets, served corruption, stream errors, call faults, CAS changing during the call, AC faults), each-missing (every referenced object removed in turn), each-fault (every CAS call failed in turn, every Tree stream failed at every offset), tree-bytes (every byte of a Tree truncated/flipped, served under the old digest and stored under a recomputed one), budget (limits around the Tree size totals), msg-limit (message size limit at and around the encoded size of the ActionResult and of every Directory message of every Tree, and at every top-level field boundary inside them, with everything present and with one object listed behind the limit absent), each-malformed (every digest slot malformed in turn), changing-cas (a referenced object removed from / inserted into the CAS at every call index of the Get); " +
			"distinct = hash of (ActionResult shape and bytes, variation label); all variations other than the fault-free baseline are non-trivial",
		Workers:     8,
		CaseTimeout: 120 * time.Second,
		Floors: map[string]int64{
			"gets_total":                                       33000,
			"results_returned":                                 2200,
			"returned_with_references":                         2100,
			"references_verified_present":                      29000,
			"refused_missing":                                  3400,
			"refused_single_missing_output-file":               520,
			"refused_single_missing_stdout":                    90,
			"refused_single_missing_stderr":                    90,
			"refused_single_missing_tree":                      180,
			"refused_single_missing_root-directory":            97,
			"refused_single_missing_tree-file":                 2000,
			"refused_single_missing_tree-directory":            140,
			"refused_malformed":                                3200,
			"refused_single_malformed_output-file":             310,
			"refused_single_malformed_stdout":                  51,
			"refused_single_malformed_stderr":                  51,
			"refused_single_malformed_tree":                    130,
			"refused_single_malformed_root-directory":          61,
			"refused_single_malformed_tree-file":               2200,
			"refused_single_malformed_tree-directory":          190,
			"refused_oversized":                                240,
			"refused_cas_fault":                                440,
			"refused_tree_corrupt-served":                      10000,
			"refused_tree_stream-error":                        6700,
			"refused_tree_unparseable":                         6100,
			"returned_unrequired_directory_absent":             660,
			"returned_after_tree_mutation":                     710,
			"budget_at_limit_returned":                         84,
			"multi_batch_gets":                                 9800,
			"flaky_runs":                                       920,
			"flaky_returned":                                   430,
			"gets_on_reused_decorator":                         1000,
			"msglimit_probes":                                  1900,
			"msglimit_oversized_directories_cut_between_nodes": 300,
			"msglimit_cut_between_nodes_absent_behind":         290,
			"refused_directory_over_message_limit":             1200,
			"returned_directory_at_message_limit":              25,
		},
		Assumptions: []string{
			"'reported present during that call' is decided from the model CAS's per-call log of FindMissing requests and replies",
			"an unset digest field references nothing; an output directory without tree_digest is left undecided (the code refuses it)",
			"a Tree is 'unreadable or corrupted' if the bytes served differ from the bytes matching its digest, the stream fails, or proto.Unmarshal rejects it; Trees that proto.Unmarshal accepts but that carry non length-delimited unknown top-level fields are left undecided",
			"'exceeding the configured total size' is required for the sum over distinct Trees; the code also counts a Tree referenced twice twice (left undecided)",
			"a message (ActionResult, Directory inside a Tree) larger than the configured maximum message size is not mentioned by the statement: refusing it is accepted and counted, returning the result is held to the stated clause (everything listed was reported present during the call)",
			"NOT_FOUND is demanded for missing objects (stated), and also for malformed digests and oversized Trees ('likewise'); any error is accepted for corrupted Trees and CAS failures",
		},
		Body: body,
	})
}

var faultCodes = []codes.Code{codes.Unavailable, codes.Internal, codes.DeadlineExceeded, codes.NotFound, codes.Canceled, codes.ResourceExhausted}

func faultErr(i int) error {
	return status.Errorf(faultCodes[i%len(faultCodes)], "injected CAS failure %d", i)
}

func batchFor(r *gen.Rng, nR int) int {
	cands := []int{1, 2, 3, 7, nR - 1, nR, nR + 1, 1000}
	for {
		b := cands[r.Intn(len(cands))]
		if b >= 1 {
			return b
		}
	}
}

// prune removes most objects that exist in the CAS although the ActionResult
// does not reference them in the sense of the property (child directories of
// Trees whose output directory has no root digest): a decorator that demanded
// them would be refusing complete results.
func prune(r *gen.Rng, w *world, exp *expectation) int {
	var ks []string
	for k := range w.universe {
		if _, req := exp.required[k]; !req {
			ks = append(ks, k)
		}
	}
	sort.Strings(ks)
	n := 0
	for _, k := range ks {
		if r.Chance(4, 5) {
			delete(w.cas.objects, k)
			n++
		}
	}
	return n
}

func baseCfg(r *gen.Rng, nR int) runCfg {
	return runCfg{batch: batchFor(r, nR), maxMsg: 1 << 20, maxTree: 1 << 40, path: r.Pick(0, 0, 0, 1, 2)}
}

func cleanOpts(r *gen.Rng) shapeOpts {
	o := randomOpts(r)
	o.nilTreeOK = false
	o.nonBytes = false
	return o
}

// unrequiredAbsent reports whether some directory digest listed in a Tree is
// absent from the CAS and not required (no root digest for its output directory).
func unrequiredAbsent(w *world, exp *expectation) bool {
	for k, role := range w.universe {
		if role != "tree-directory" {
			continue
		}
		if _, req := exp.required[k]; req {
			continue
		}
		if _, ok := w.cas.objects[k]; !ok {
			return true
		}
	}
	return false
}

func body(w *run.Worker) {
	// ------------------------------------------------------------------ random
	w.Cases("random", w.N(2400, 60000), func(c *run.Case) {
		r := c.Rng
		h := harness{c, w}
		o := randomOpts(r)
		o.nilTreeOK = r.Chance(1, 10)
		o.nonBytes = r.Chance(1, 4)
		state := *r.Fork()
		malAt := -1
		if r.Chance(1, 6) {
			probe := buildWorld(state, o, -1, 0)
			malAt = r.Intn(probe.slots + 1)
		}
		wd := buildWorld(state, o, malAt, r.Uint64())
		cfg := baseCfg(r, 1)
		cfg.maxMsg = r.Pick(1<<20, 1<<20, 1<<20, 1<<20, 1<<16, 4096, 1000, 200, 64)
		exp := evaluate(wd, cfg)
		cfg.batch = batchFor(r, len(exp.order))
		prune(r, wd, exp)
		wd.cas.chunk = r.Pick(0, 0, 1, 2, 3, 7, 31, 32, 33, 100, 4095, 4096, 4097)
		wd.cas.eofData = r.Bool()
		mode := ""
		// Which referenced objects are missing.
		switch r.Intn(10) {
		case 0, 1, 2, 3:
		case 4, 5, 6:
			if len(exp.order) > 0 {
				delete(wd.cas.objects, exp.order[r.Intn(len(exp.order))])
				mode += " missing:one"
			}
		case 7, 8:
			p := r.Range(1, 9)
			for _, k := range exp.order {
				if r.Chance(p, 10) {
					delete(wd.cas.objects, k)
				}
			}
			mode += " missing:subset"
		default:
			for _, k := range exp.order {
				delete(wd.cas.objects, k)
			}
			mode += " missing:all"
		}
		// How Trees are served.
		if len(exp.treeKeys) > 0 && r.Chance(1, 4) {
			k := exp.treeKeys[r.Intn(len(exp.treeKeys))]
			if data, ok := wd.cas.objects[k]; ok {
				s := &serveSpec{bySlice: r.Chance(1, 3)}
				switch r.Intn(4) {
				case 0:
					if len(data) > 0 {
						s.altered, s.data = true, data[:r.Intn(len(data))]
						mode += " serve:truncated"
					}
				case 1:
					if len(data) > 0 {
						d2 := append([]byte(nil), data...)
						d2[r.Intn(len(d2))] ^= 1 << r.Intn(8)
						s.altered, s.data = true, d2
						mode += " serve:bitflip"
					}
				case 2:
					s.altered, s.data = true, append(append([]byte(nil), data...), r.Bytes(r.Range(1, 5))...)
					mode += " serve:extended"
				default:
					s.failErr, s.failAt = faultErr(r.Intn(6)), r.Intn(len(data)+1)
					mode += " serve:stream-error"
				}
				wd.cas.serve[k] = s
			}
		}
		if r.Chance(1, 8) {
			wd.cas.faultAt, wd.cas.faultErr = r.Intn(6), faultErr(r.Intn(6))
			mode += fmt.Sprintf(" fault@%d", wd.cas.faultAt)
		}
		leaves := exp.leaves() // Trees keep their state: the reference needs their bytes
		if len(leaves) > 0 && r.Chance(1, 8) {
			// The CAS changes while the decorator is running (concurrent
			// expiry or upload): only what it reported counts.
			k := leaves[r.Intn(len(leaves))]
			wd.cas.flipAt, wd.cas.flipKey = r.Intn(5), k
			if data, ok := wd.cas.objects[k]; ok && r.Bool() {
				wd.cas.flipDelete = true
			} else {
				if data == nil {
					data = []byte{}
				}
				wd.cas.flipData = data
				delete(wd.cas.objects, k)
			}
			cfg.flaky = true
			mode += fmt.Sprintf(" flip@%d", wd.cas.flipAt)
			w.Count("flaky_runs", 1)
		}
		switch r.Intn(40) {
		case 0:
			wd.ac.err = status.Error(codes.NotFound, "model AC: no such action result")
			mode += " ac:notfound"
		case 1:
			wd.ac.err = status.Error(codes.Unavailable, "model AC: down")
			mode += " ac:unavailable"
		case 2:
			wd.arBytes = append([]byte{0xff, 0xff}, wd.arBytes...)
			wd.ac.data = wd.arBytes
			mode += " ac:garbage"
		}
		switch r.Intn(12) {
		case 0:
			ex := evaluate(wd, cfg)
			cfg.maxTree = int64(ex.sumDist) - int64(r.Intn(3)) + 1
			if cfg.maxTree < 0 {
				cfg.maxTree = 0
			}
			mode += " budget:edge"
		case 1:
			cfg.maxTree = int64(r.Intn(200))
			mode += " budget:small"
		}
		cfg.label = "random" + mode
		c.Desc("%s | batch=%d maxMsg=%d maxTree=%d path=%d chunk=%d mal=%d(%s %s)%s", wd.shape, cfg.batch, cfg.maxMsg, cfg.maxTree, cfg.path, wd.cas.chunk, malAt, wd.malRole, wd.malKind, mode)
		if c.Index < 2 {
			w.Sample(map[string]any{"group": "random", "world": wd.shape, "variation": cfg.label, "batch": cfg.batch})
		}
		h.execute(wd, cfg)
		if !cfg.flaky {
			// Same world, other batch size and access path.
			cfg2 := cfg
			cfg2.batch = batchFor(r, len(exp.order))
			cfg2.path = r.Intn(3)
			cfg2.label += fmt.Sprintf(" again(batch=%d,path=%d)", cfg2.batch, cfg2.path)
			h.execute(wd, cfg2)
		}
	})

	// ------------------------------------------------------------ each-missing
	w.Cases("each-missing", w.N(640, 12000), func(c *run.Case) {
		r := c.Rng
		h := harness{c, w}
		o := cleanOpts(r)
		o.nilPerMille = r.Pick(0, 0, 100)
		wd := buildWorld(*r.Fork(), o, -1, 0)
		cfg := baseCfg(r, 1)
		exp := evaluate(wd, cfg)
		nR := len(exp.order)
		prune(r, wd, exp)
		wd.cas.chunk = r.Pick(0, 1, 5, 64)
		c.Desc("%s | every one of %d referenced objects removed in turn", wd.shape, nR)
		cfg.batch = batchFor(r, nR)
		cfg.label = "each-missing base"
		h.execute(wd, cfg)
		if c.Index == 0 {
			w.Sample(map[string]any{"group": "each-missing", "world": wd.shape, "referenced_objects": nR})
		}
		batches := []int{1, 2, 3, 7, nR - 1, nR, nR + 1, 1000}
		// Every third case: one decorator instance for the baseline and all
		// probes (it just saw every object reported present).
		var shared blobstore.BlobAccess
		if c.Index%3 == 0 {
			shared = completenesschecking.NewCompletenessCheckingBlobAccess(wd.ac, wd.cas, cfg.batch, cfg.maxMsg, cfg.maxTree)
			cfg.ba = shared
			cfg.label = "each-missing base (shared decorator)"
			h.execute(wd, cfg)
		}
		for i, k := range exp.order {
			data := wd.cas.objects[k]
			delete(wd.cas.objects, k)
			if shared == nil {
				cfg.batch = batches[(i+int(c.Index))%len(batches)]
			}
			if cfg.batch < 1 {
				cfg.batch = 1
			}
			cfg.path = (i + int(c.Index)) % 3
			cfg.label = fmt.Sprintf("each-missing %s#%d batch=%d", exp.required[k], i, cfg.batch)
			h.execute(wd, cfg)
			w.Count("single_missing_probes", 1)
			wd.cas.objects[k] = data
		}
	})

	// -------------------------------------------------------------- each-fault
	w.Cases("each-fault", w.N(320, 6000), func(c *run.Case) {
		r := c.Rng
		h := harness{c, w}
		o := cleanOpts(r)
		o.maxFiles = r.Pick(3, 6, 12)
		wd := buildWorld(*r.Fork(), o, -1, 0)
		cfg := baseCfg(r, 1)
		exp := evaluate(wd, cfg)
		prune(r, wd, exp)
		cfg.batch = r.Pick(1, 2, 3, 7, len(exp.order)+1)
		wd.cas.chunk = r.Pick(0, 1, 16)
		c.Desc("%s | batch=%d: every CAS call failed in turn, every Tree stream failed at every offset", wd.shape, cfg.batch)
		cfg.label = "each-fault base"
		base := h.execute(wd, cfg)
		for i := 0; i < base.calls && i < 80; i++ {
			wd.cas.faultAt, wd.cas.faultErr = i, faultErr(i+int(c.Index))
			cfg.label = fmt.Sprintf("each-fault call#%d %v", i, status.Code(wd.cas.faultErr))
			h.execute(wd, cfg)
			w.Count("call_fault_probes", 1)
		}
		wd.cas.faultAt = -1
		seen := map[string]bool{}
		for _, k := range exp.treeKeys {
			data, ok := wd.cas.objects[k]
			if seen[k] || !ok {
				continue
			}
			seen[k] = true
			step := 1
			if len(data) > 160 {
				step = len(data)/120 + 1
			}
			for off := 0; off <= len(data); off += step {
				wd.cas.serve[k] = &serveSpec{failErr: faultErr(off + int(c.Index)), failAt: off}
				cfg.label = fmt.Sprintf("each-fault stream@%d/%d", off, len(data))
				h.execute(wd, cfg)
				w.Count("stream_fault_probes", 1)
			}
			delete(wd.cas.serve, k)
		}
	})

	// -------------------------------------------------------------- tree-bytes
	w.Cases("tree-bytes", w.N(240, 5000), func(c *run.Case) {
		r := c.Rng
		h := harness{c, w}
		o := cleanOpts(r)
		o.maxFiles, o.maxDirs, o.bigTree = 3, 2, false
		o.maxTreeFile = r.Pick(1, 2, 3)
		o.treeDepth = r.Intn(3)
		o.nilPerMille = 0
		var wd *world
		for try := 0; ; try++ {
			wd = buildWorld(*r.Fork(), o, -1, 0)
			if len(wd.ar.OutputDirectories) > 0 || try > 20 {
				break
			}
		}
		cfg := baseCfg(r, 1)
		exp := evaluate(wd, cfg)
		prune(r, wd, exp)
		cfg.batch = batchFor(r, len(exp.order))
		if len(wd.ar.OutputDirectories) == 0 {
			c.Desc("%s | no output directory", wd.shape)
			return
		}
		di := r.Intn(len(wd.ar.OutputDirectories))
		orig := wd.ar.OutputDirectories[di].TreeDigest
		k := objKey(orig.Hash, orig.SizeBytes)
		data := wd.cas.objects[k]
		c.Desc("%s | Tree of output directory %d (%d bytes): truncated / bit-flipped at every byte, served under the old digest and stored under a recomputed digest", wd.shape, di, len(data))
		cfg.label = "tree-bytes base"
		h.execute(wd, cfg)
		if c.Index == 0 {
			w.Sample(map[string]any{"group": "tree-bytes", "world": wd.shape, "tree_bytes": len(data)})
		}
		step := 1
		if len(data) > 400 {
			step = len(data)/300 + 1
		}
		bySlice := r.Chance(1, 4)
		for off := 0; off < len(data); off += step {
			// served under the unchanged digest
			wd.cas.serve[k] = &serveSpec{altered: true, data: data[:off], bySlice: bySlice}
			cfg.label = fmt.Sprintf("tree-bytes served-truncated@%d", off)
			h.execute(wd, cfg)
			fl := append([]byte(nil), data...)
			fl[off] ^= 1 << r.Intn(8)
			wd.cas.serve[k] = &serveSpec{altered: true, data: fl, bySlice: bySlice}
			cfg.label = fmt.Sprintf("tree-bytes served-flipped@%d", off)
			h.execute(wd, cfg)
			delete(wd.cas.serve, k)
			w.Count("served_mutation_probes", 2)

			// stored under its own digest: a well-hashed but possibly malformed Tree
			for v, mut := range [][]byte{data[:off], fl} {
				nd := gen.DigestOf(wd.inst, wd.fnEnum, mut)
				np := &remoteexecution.Digest{Hash: nd.GetHashString(), SizeBytes: nd.GetSizeBytes()}
				nk := objKey(np.Hash, np.SizeBytes)
				_, had := wd.cas.objects[nk]
				if !had {
					wd.cas.objects[nk] = mut
				}
				wd.setTreeDigest(di, np)
				cfg.label = fmt.Sprintf("tree-bytes restored-%s@%d", []string{"truncated", "flipped"}[v], off)
				out := h.execute(wd, cfg)
				if out.ok {
					w.Count("returned_after_tree_mutation", 1)
				}
				w.Count("rehashed_mutation_probes", 1)
				if !had {
					delete(wd.cas.objects, nk)
				}
			}
			wd.setTreeDigest(di, orig)
		}
		wd.cas.serve[k] = &serveSpec{altered: true, data: append(append([]byte(nil), data...), byte(r.Intn(256))), bySlice: bySlice}
		cfg.label = "tree-bytes served-extended"
		h.execute(wd, cfg)
		delete(wd.cas.serve, k)
	})

	// ------------------------------------------------------------ changing-cas
	// A referenced object disappears from, or appears in, the CAS when the
	// n-th CAS call of the Get starts (expiry / upload racing with the check).
	// Only what the CAS reported during the call decides.
	w.Cases("changing-cas", w.N(240, 6000), func(c *run.Case) {
		r := c.Rng
		h := harness{c, w}
		o := cleanOpts(r)
		o.maxFiles = r.Pick(3, 6)
		wd := buildWorld(*r.Fork(), o, -1, 0)
		cfg := baseCfg(r, 1)
		exp := evaluate(wd, cfg)
		prune(r, wd, exp)
		cfg.batch = r.Pick(1, 2, 3)
		leaves := exp.leaves()
		c.Desc("%s | batch=%d: one of %d non-Tree references removed/inserted at every CAS call index", wd.shape, cfg.batch, len(leaves))
		if c.Index%2 == 0 {
			cfg.ba = completenesschecking.NewCompletenessCheckingBlobAccess(wd.ac, wd.cas, cfg.batch, cfg.maxMsg, cfg.maxTree)
		}
		cfg.label = "changing-cas base"
		base := h.execute(wd, cfg)
		if len(leaves) == 0 {
			return
		}
		cfg.flaky = true
		for j := 0; j <= base.calls && j < 40; j++ {
			k := leaves[r.Intn(len(leaves))]
			data := wd.cas.objects[k]
			// present, removed when call j starts
			wd.cas.flipAt, wd.cas.flipKey, wd.cas.flipDelete = j, k, true
			cfg.label = fmt.Sprintf("changing-cas %s removed@%d", exp.required[k], j)
			h.execute(wd, cfg)
			// absent, inserted when call j starts
			delete(wd.cas.objects, k)
			wd.cas.flipDelete, wd.cas.flipData = false, data
			cfg.label = fmt.Sprintf("changing-cas %s inserted@%d", exp.required[k], j)
			h.execute(wd, cfg)
			wd.cas.objects[k] = data
			w.Count("flaky_runs", 2)
		}
		wd.cas.flipAt = -1
	})

	// ------------------------------------------------------------------ budget
	w.Cases("budget", w.N(320, 6000), func(c *run.Case) {
		r := c.Rng
		h := harness{c, w}
		o := cleanOpts(r)
		o.maxDirs = r.Pick(1, 2, 4, 6)
		o.nilPerMille = 0
		wd := buildWorld(*r.Fork(), o, -1, 0)
		cfg := baseCfg(r, 1)
		exp := evaluate(wd, cfg)
		prune(r, wd, exp)
		cfg.batch = batchFor(r, len(exp.order))
		T, D := int64(exp.sumMulti), int64(exp.sumDist)
		c.Desc("%s | tree size total: %d with repeats, %d distinct; limits around them", wd.shape, T, D)
		first := int64(0)
		if len(wd.ar.OutputDirectories) > 0 {
			first = wd.ar.OutputDirectories[0].TreeDigest.GetSizeBytes()
		}
		for _, lim := range []int64{0, 1, first - 1, first, D - 1, D, D + 1, T - 1, T, T + 1, 2 * T, 1 << 40, math.MaxInt64} {
			if lim < 0 {
				continue
			}
			cfg.maxTree = lim
			cfg.label = fmt.Sprintf("budget limit=%d (T=%d D=%d)", lim, T, D)
			out := h.execute(wd, cfg)
			if out.ok && lim == T && T > 0 {
				w.Count("budget_at_limit_returned", 1)
			}
			w.Count("budget_probes", 1)
		}
	})

	// --------------------------------------------------------------- msg-limit
	// The message size limit placed at and around the encoded size of every
	// message the decorator has to unmarshal (the ActionResult, every Directory
	// of every Tree) and at every top-level field boundary inside them: a limit
	// that falls exactly between two nodes of a message larger than the limit.
	// Each limit is run with everything present and with one object listed
	// behind the limit absent. Nothing new is asserted: "returned only if every
	// CAS object it references - ... and every file (and, when a root
	// directory digest is given, every directory) listed inside those Trees -
	// was reported present by the CAS during that call" is what execute()
	// checks for every returned result; the statement does not say that an
	// over-limit message must be refused, so refusals are only counted.
	w.Cases("msg-limit", w.N(320, 6000), func(c *run.Case) {
		r := c.Rng
		h := harness{c, w}
		o := cleanOpts(r)
		o.maxFiles = r.Pick(0, 1, 3)
		o.maxDirs = r.Pick(1, 2, 3)
		o.treeDepth = r.Intn(3)
		o.maxTreeFile = r.Pick(2, 5, 9, 14)
		o.bigTree = r.Chance(1, 8)
		o.nilPerMille = r.Pick(0, 0, 100)
		var wd *world
		for try := 0; ; try++ {
			wd = buildWorld(*r.Fork(), o, -1, 0)
			if len(wd.ar.OutputDirectories) > 0 || try > 20 {
				break
			}
		}
		cfg := baseCfg(r, 1)
		exp := evaluate(wd, cfg)
		prune(r, wd, exp)
		cfg.batch = batchFor(r, len(exp.order))
		wd.cas.chunk = r.Pick(0, 0, 1, 7, 64, 4096)
		wd.cas.eofData = r.Bool()

		keysOf := func(ds ...*remoteexecution.Digest) []string {
			var out []string
			for _, d := range ds {
				if d != nil {
					out = append(out, objKey(d.Hash, d.SizeBytes))
				}
			}
			return out
		}
		type msgLimit struct {
			kind   string
			behind []string // objects referenced by the part of the message behind the limit
		}
		limits := map[int]*msgLimit{}
		add := func(l int, kind string, behind []string) {
			if _, dup := limits[l]; l >= 0 && !dup {
				limits[l] = &msgLimit{kind, behind}
			}
		}
		// Every Directory message of every Tree, once per output directory.
		type dirMsg struct {
			data []byte
			ends map[int]bool
		}
		var dirMsgs []dirMsg
		seen := map[string]bool{}
		var sizes [][2]int // message size, 0 = ActionResult / 1 = Directory
		arEnds := fieldBoundaries(wd.arBytes)
		for _, b := range arEnds {
			if b < len(wd.arBytes) {
				rest := &remoteexecution.ActionResult{}
				var ks []string
				if proto.Unmarshal(wd.arBytes[b:], rest) == nil {
					for _, f := range rest.OutputFiles {
						ks = append(ks, keysOf(f.Digest)...)
					}
					for _, od := range rest.OutputDirectories {
						ks = append(ks, keysOf(od.RootDirectoryDigest)...)
					}
					ks = append(ks, keysOf(rest.StdoutDigest, rest.StderrDigest)...)
				}
				add(b, "action-result-boundary", ks)
			}
		}
		sizes = append(sizes, [2]int{len(wd.arBytes), 0})
		for _, k := range exp.treeKeys {
			data, ok := wd.cas.objects[k]
			if !ok {
				continue
			}
			for _, d := range treeDirectories(data) {
				dm := dirMsg{data: d, ends: map[int]bool{}}
				ends := fieldBoundaries(d)
				for _, b := range ends {
					dm.ends[b] = true
				}
				dirMsgs = append(dirMsgs, dm)
				if seen[k] {
					continue
				}
				sizes = append(sizes, [2]int{len(d), 1})
				for _, b := range ends {
					if b == len(d) {
						continue
					}
					rest := &remoteexecution.Directory{}
					var ks []string
					if proto.Unmarshal(d[b:], rest) == nil {
						for _, f := range rest.Files {
							ks = append(ks, keysOf(f.Digest)...)
						}
						for _, s := range rest.Directories {
							ks = append(ks, keysOf(s.Digest)...)
						}
					}
					add(b, "directory-boundary", ks)
				}
			}
			seen[k] = true
		}
		nExact := len(limits)
		for _, s := range sizes {
			kind := []string{"action-result-size", "directory-size"}[s[1]]
			add(s[0], kind, nil)
			add(s[0]-1, kind+"-1", nil)
			add(s[0]+1, kind+"+1", nil)
		}
		var ls []int
		for l := range limits {
			ls = append(ls, l)
		}
		sort.Ints(ls)
		for _, l := range ls {
			if k := limits[l].kind; (k == "directory-boundary" || k == "action-result-boundary") && r.Chance(1, 3) {
				add(l-1, k+"-1", limits[l].behind)
				add(l+1, k+"+1", limits[l].behind)
			}
		}
		ls = ls[:0]
		for l := range limits {
			ls = append(ls, l)
		}
		sort.Ints(ls)
		const maxLimits = 90
		if len(ls) > maxLimits {
			p := r.Perm(len(ls))[:maxLimits]
			sort.Ints(p)
			sel := make([]int, 0, maxLimits)
			for _, i := range p {
				sel = append(sel, ls[i])
			}
			ls = sel
		}
		c.Desc("%s | message size limit at %d node boundaries and around %d message sizes (%d limits run); ActionResult %d bytes, %d Directory messages",
			wd.shape, nExact, len(sizes), len(ls), len(wd.arBytes), len(dirMsgs))
		if c.Index == 0 {
			w.Sample(map[string]any{"group": "msg-limit", "world": wd.shape, "limits": len(ls), "action_result_bytes": len(wd.arBytes), "directory_messages": len(dirMsgs)})
		}
		cfg.label = "msg-limit base"
		h.execute(wd, cfg)
		isTree := map[string]bool{}
		for _, k := range exp.treeKeys {
			isTree[k] = true
		}
		leaves := exp.leaves()
		for i, l := range ls {
			lim := limits[l]
			// Coverage: the ActionResult fits and every Directory larger than the
			// limit is cut by it exactly between two of its nodes.
			nOver, between := 0, true
			for _, dm := range dirMsgs {
				if len(dm.data) > l {
					nOver++
					between = between && dm.ends[l]
				}
			}
			cut := len(wd.arBytes) <= l && nOver > 0 && between
			cfg.maxMsg = l
			cfg.path = (i + int(c.Index)) % 3
			cfg.label = fmt.Sprintf("msg-limit %s limit=%d", lim.kind, l)
			h.execute(wd, cfg)
			w.Count("msglimit_probes", 1)
			if cut {
				w.Count("msglimit_oversized_directories_cut_between_nodes", 1)
			}
			if !cut && !r.Bool() {
				continue
			}
			// One object listed behind the limit (any leaf when there is none) absent.
			var cands []string
			for _, k := range lim.behind {
				if _, present := wd.cas.objects[k]; present && !isTree[k] && exp.required[k] != "" {
					cands = append(cands, k)
				}
			}
			behind := len(cands) > 0
			if !behind {
				for _, k := range leaves {
					if _, present := wd.cas.objects[k]; present {
						cands = append(cands, k)
					}
				}
			}
			if len(cands) == 0 {
				continue
			}
			k := cands[r.Intn(len(cands))]
			data := wd.cas.objects[k]
			delete(wd.cas.objects, k)
			cfg.label += fmt.Sprintf(" absent:%s(behind=%v)", exp.required[k], behind)
			h.execute(wd, cfg)
			wd.cas.objects[k] = data
			w.Count("msglimit_absent_probes", 1)
			if cut && behind {
				w.Count("msglimit_cut_between_nodes_absent_behind", 1)
			}
		}
	})

	// ---------------------------------------------------------- each-malformed
	w.Cases("each-malformed", w.N(400, 6000), func(c *run.Case) {
		r := c.Rng
		h := harness{c, w}
		o := cleanOpts(r)
		o.nilPerMille = r.Pick(0, 0, 100)
		state := *r.Fork()
		probe := buildWorld(state, o, -1, 0)
		c.Desc("%s | every one of %d digest slots malformed in turn", probe.shape, probe.slots)
		seed := r.Uint64()
		for s := 0; s < probe.slots && s < 80; s++ {
			wd := buildWorld(state, o, s, seed)
			cfg := baseCfg(r, 1)
			exp := evaluate(wd, cfg)
			prune(r, wd, exp)
			cfg.batch = batchFor(r, len(exp.order))
			cfg.label = fmt.Sprintf("each-malformed slot#%d %s %s", s, wd.malRole, wd.malKind)
			h.execute(wd, cfg)
			w.Count("malformed_probes", 1)
			w.Count("malformed_kind_"+wd.malKind, 1)
		}
	})
}
