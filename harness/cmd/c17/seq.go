package main

import (
	"bytes"
	"context"
	"fmt"
	"runtime"
	"strings"
	"time"

	"github.com/buildbarn/bb-storage/pkg/blobstore"
	"github.com/buildbarn/bb-storage/pkg/blobstore/buffer"
	"github.com/buildbarn/bb-storage/pkg/blobstore/readcaching"
	"github.com/buildbarn/bb-storage/pkg/blobstore/readfallback"
	"github.com/buildbarn/bb-storage/pkg/digest"
	"github.com/buildbarn/bb-storage/pkg/eviction"
	"google.golang.org/grpc/codes"
	"google.golang.org/grpc/status"

	"verif/lib/gen"
	"verif/lib/model"
	"verif/lib/run"
)

// seqCase: one sequential history against a read-caching or read-fallback
// composite over a replicator stack, checked step by step against the
// placement of the objects in the two recording backends (exact oracle).
//
// Both composites read the "sink" first (fast resp. primary) and fall back to
// the "source" (slow resp. secondary) through the replicator, which copies
// source -> sink. They differ in where uploads go: read caching uploads to the
// slow backend (= source), read fallback to the primary backend (= sink).
func seqCase(c *run.Case, w *run.Worker, r *gen.Rng) {
	// Few Ps: a sequential history has next to no parallelism, and handing
	// every guarded call to an idle P costs more than the call itself.
	old := runtime.GOMAXPROCS(r.Pick(1, 2, 2, 4))
	defer runtime.GOMAXPROCS(old)
	clk := newVClock()
	e := newEnv(c, clk)
	e.seed = r.Uint64()
	kf := digest.KeyWithInstance
	if r.Bool() {
		kf = digest.KeyWithoutInstance
	}
	source := newGStore(e, "source", kf, r.Chance(1, 2))
	sink := newGStore(e, "sink", kf, r.Chance(1, 3))
	st := genStack(r, 0, 2, true)
	repl := st.build(e, source, sink, kf, 0)
	kind := "readCaching"
	var comp blobstore.BlobAccess
	uploadTarget, other := source, sink
	if r.Bool() {
		comp = readcaching.NewReadCachingBlobAccess(source, sink, repl)
	} else {
		kind = "readFallback"
		comp = readfallback.NewReadFallbackBlobAccess(sink, source, repl)
		uploadTarget, other = sink, source
	}
	site := kind + "BlobAccess"
	objs := genUniverse(r, c, r.Range(2, 6), true)
	for _, o := range objs {
		if r.Chance(1, 2) {
			source.inner.Set(o.d, o.data)
		}
		if r.Chance(1, 4) {
			sink.inner.Set(o.d, o.data)
		}
	}
	faulty := r.Chance(6, 10)
	nops := r.Range(6, 18)
	c.Desc("seq %s over %v stream=%v/%v faulty=%v objects=%d ops=%d", kind, st, source.stream, sink.stream, faulty, len(objs), nops)
	w.Count("scen_seq", 1)
	w.Count("scen_seq_"+kind, 1)
	w.Count("scen_seq_stack_"+st.kinds(), 1)
	var history []string
	nontrivial := false // a read fell through to the slow/secondary backend, a call failed, or a FindMissing mixed placements
	q := st.queued()
	// Objects the harness removed from the sink in mid-history (an eviction by
	// a third party; the property quantifies over placements, not over
	// evictions). A queued replicator whose existence cache still remembers
	// the copy then skips the copy, and a decorator above it that reads back
	// from the sink fails with INTERNAL "Blob absent from sink after
	// replication": the documented price of that cache, not a transparency
	// defect. Accepted only in exactly that constellation.
	deletedFromSink := map[string]bool{} // by sink key
	staleQueuedCache := func(o *object, err error, at time.Time) bool {
		if q != nil && deletedFromSink[sink.key(o.d)] && status.Code(err) == codes.Internal &&
			strings.Contains(err.Error(), "Blob absent from sink after replication") && recentBaseSuccessFn(q, sink.key(o.d), at) {
			w.Count("seq_reads_failed_by_stale_queued_cache", 1)
			return true
		}
		return false
	}

	// recentBaseSuccess: did a base copy of key succeed below the queued
	// layer within its existence-cache duration before `at`?
	recentBaseSuccess := func(key string, at time.Time) bool { return recentBaseSuccessFn(q, key, at) }

	for op := 0; op < nops; op++ {
		e.faultPct, e.streamPct, e.cancelPct = 0, 0, 0
		if faulty && r.Chance(1, 3) {
			e.faultPct = r.Pick(10, 25, 50)
			e.streamPct = r.Pick(0, 30)
			e.cancelPct = r.Pick(0, 0, 10)
		}
		ctx, cancel := context.WithCancel(withCaller(context.Background(), op))
		e.register(op, cancel)
		if faulty && r.Chance(1, 25) {
			e.cancel(op)
		}
		ev0 := e.eventCount()
		vAsk := clk.peek()
		o := objs[r.Intn(len(objs))]
		preSink, preSource := sink.inner.Has(o.d), source.inner.Has(o.d)
		k := r.Intn(100)
		if k >= 65 && k < 82 && kind == "readCaching" {
			k = 0 // read caching forwards FindMissing to the slow backend untouched: read instead
		}
		switch {
		case k < 42: // Get
			var data []byte
			var err error
			if !seqCall(c, e, cancel, fmt.Sprintf("Get(%d) through %s over %v", o.idx, kind, st), func() { data, err = comp.Get(ctx, o.d).ToByteSlice(1 << 24) }) {
				return
			}
			nf, canc := e.faultsOf(op)
			disturbed := nf > 0 || canc || staleQueuedCache(o, err, vAsk)
			h := fmt.Sprintf("Get(%d)[sink=%v source=%v] -> %s disturbed=%v", o.idx, preSink, preSource, errRes(err), disturbed)
			history = append(history, h)
			c.Logf("op %d: %s", op, h)
			checkRead(c, w, site, "Get", o, o.data, data, err, preSink, preSource, disturbed)
			nontrivial = nontrivial || !preSink || err != nil
			if err == nil && !preSink {
				w.Count("seq_read_throughs", 1)
				if st.copying() {
					checkCopied(c, w, site, "Get", st, sink, o, recentBaseSuccess(sink.key(o.d), vAsk))
				}
			}
		case k < 50: // GetFromComposite
			var data []byte
			var err error
			if !seqCall(c, e, cancel, fmt.Sprintf("GetFromComposite(%d) through %s over %v", o.idx, kind, st), func() {
				data, err = comp.GetFromComposite(ctx, o.d, o.child, prefixSlicer{}).ToByteSlice(1 << 24)
			}) {
				return
			}
			nf, canc := e.faultsOf(op)
			disturbed := nf > 0 || canc || staleQueuedCache(o, err, vAsk)
			h := fmt.Sprintf("GetFromComposite(%d)[sink=%v source=%v] -> %s disturbed=%v", o.idx, preSink, preSource, errRes(err), disturbed)
			history = append(history, h)
			c.Logf("op %d: %s", op, h)
			checkRead(c, w, site, "GetFromComposite", o, o.childData, data, err, preSink, preSource, disturbed)
			nontrivial = nontrivial || !preSink || err != nil
			if err == nil && !preSink {
				w.Count("seq_read_throughs", 1)
				if st.copying() {
					checkCopied(c, w, site, "GetFromComposite", st, sink, o, recentBaseSuccess(sink.key(o.d), vAsk))
				}
			}
		case k < 65: // Put
			b, tr := model.NewTrackedCASBuffer(o.d, model.SourceSpec{Data: o.data, Chunks: r.Chunking(len(o.data), true)}, buffer.UserProvided)
			var err error
			if !seqCall(c, e, cancel, fmt.Sprintf("Put(%d) through %s", o.idx, kind), func() { err = comp.Put(ctx, o.d, b) }) {
				return
			}
			nf, canc := e.faultsOf(op)
			disturbed := nf > 0 || canc
			h := fmt.Sprintf("Put(%d) -> %s disturbed=%v", o.idx, errRes(err), disturbed)
			history = append(history, h)
			c.Logf("op %d: %s", op, h)
			w.Count("seq_puts", 1)
			puts := 0
			for _, ev := range e.snapshotEvents()[ev0:] {
				if ev.store == other.name {
					c.Violation(site+".Put:upload-reached-other-backend",
						"Put of object %d through %s made a %s call on backend %q; uploads must only go to %q", o.idx, kind, ev.op, other.name, uploadTarget.name)
				} else if ev.op == "Put" {
					puts++
				} else {
					c.Violation(site+".Put:unexpected-backend-call", "Put of object %d made a %s call on %q", o.idx, ev.op, ev.store)
				}
			}
			if puts != 1 {
				c.Violation(site+".Put:upload-not-forwarded-once", "Put of object %d reached backend %q %d times", o.idx, uploadTarget.name, puts)
			}
			if err == nil {
				if !uploadTarget.inner.Has(o.d) {
					c.Violation(site+".Put:acknowledged-upload-not-stored", "Put of object %d succeeded but backend %q does not hold it", o.idx, uploadTarget.name)
				}
			} else if !disturbed {
				c.Violation(site+".Put:error-without-fault", "Put of object %d failed with %v without any injected fault", o.idx, err)
			}
			if tr.Closes() != 1 {
				// Release-exactly-once is property C04, not C17: counted only.
				w.Count("seq_put_source_release_count_not_1", 1)
			}
		case k < 82: // FindMissing (read fallback only; read caching simply forwards to the slow backend)
			idx := pickSubset(r, len(objs), 0, len(objs))
			want := map[int]bool{}
			onlySecondary := 0
			for _, i := range idx {
				inP, inS := sink.inner.Has(objs[i].d), source.inner.Has(objs[i].d)
				if !inP && !inS {
					want[i] = true
				}
				if !inP && inS {
					onlySecondary++
				}
			}
			var m digest.Set
			var err error
			if !seqCall(c, e, cancel, fmt.Sprintf("FindMissing(%v) through %s over %v", idx, kind, st), func() { m, err = comp.FindMissing(ctx, setOf(objs, idx)) }) {
				return
			}
			nf, canc := e.faultsOf(op)
			disturbed := nf > 0 || canc
			got := map[int]bool{}
			unknown := false
			if err == nil {
				for _, d := range m.Items() {
					found := false
					for _, x := range objs {
						if x.d == d {
							got[x.idx] = true
							found = true
						}
					}
					unknown = unknown || !found
				}
			}
			h := fmt.Sprintf("FindMissing(%v) -> %s missing=%v want=%v disturbed=%v", idx, errRes(err), keysOf(got), keysOf(want), disturbed)
			history = append(history, h)
			c.Logf("op %d: %s", op, h)
			w.Count("seq_findmissing", 1)
			if onlySecondary > 0 && len(want) > 0 {
				w.Count("seq_findmissing_mixed", 1)
				nontrivial = true
			}
			if err != nil {
				if !disturbed {
					c.Violation(site+".FindMissing:error-without-fault", "FindMissing(%v) failed with %v without any injected fault", idx, err)
				}
			} else {
				if unknown {
					c.Violation(site+".FindMissing:unknown-digest-reported", "FindMissing(%v) reported a digest that was not asked for", idx)
				}
				for _, i := range idx {
					if want[i] && !got[i] {
						c.Violation(site+".FindMissing:absent-object-reported-present", "FindMissing(%v): object %d is in neither backend but was not reported missing (got %v)", idx, i, keysOf(got))
					}
					if !want[i] && got[i] {
						c.Violation(site+".FindMissing:held-object-reported-missing", "FindMissing(%v): object %d is held by a backend but was reported missing (got %v)", idx, i, keysOf(got))
					}
				}
			}
		case k < 93: // placement change
			gs, name := sink, "sink"
			if r.Bool() {
				gs, name = source, "source"
			}
			if gs.inner.Has(o.d) {
				gs.inner.Delete(o.d)
				if gs == sink {
					deletedFromSink[sink.key(o.d)] = true
				}
				history = append(history, fmt.Sprintf("delete %d from %s", o.idx, name))
			} else {
				gs.inner.Set(o.d, o.data)
				history = append(history, fmt.Sprintf("place %d in %s", o.idx, name))
			}
			c.Logf("op %d: %s", op, history[len(history)-1])
			w.Count("seq_placement_changes", 1)
		default: // clock
			d := time.Duration(r.Pick(1, 5, 1000))
			if q != nil {
				steps := boundarySteps(q.ecDur)
				d = steps[r.Intn(len(steps))]
			}
			clk.Advance(d)
			history = append(history, fmt.Sprintf("advance %v", d))
			c.Logf("op %d: advance clock by %v", op, d)
			w.Count("seq_clock_advances", 1)
		}
		cancel()
	}
	if nontrivial {
		w.Count("nontrivial_seq", 1)
		w.Distinct(fmt.Sprintf("seq|%s|%v|%s", kind, st, strings.Join(history, ";")))
	}
	if firstOf("seq") {
		w.Sample(map[string]any{"kind": "sequential " + kind, "stack": st.String(), "history": history})
	}
	st.checkBounds(c, w)
	unreleased := 0
	for _, tr := range e.trackers {
		if tr.Closes() != 1 {
			unreleased++
		}
	}
	if unreleased > 0 {
		// C04's concern; reported as a counter only.
		w.Count("seq_stream_sources_release_count_not_1", int64(unreleased))
	}
}

func recentBaseSuccessFn(q *layerSpec, key string, at time.Time) bool {
	if q == nil {
		return false
	}
	_, _, calls := q.rec.stats()
	for _, call := range calls {
		if call.err != nil {
			continue
		}
		for _, k := range call.keys {
			if k == key && at.Sub(call.vEnd) <= q.ecDur {
				return true
			}
		}
	}
	return false
}

func keysOf(m map[int]bool) []int {
	var k []int
	for i := 0; i < 16; i++ {
		if m[i] {
			k = append(k, i)
		}
	}
	return k
}

// checkRead is the transparency clause for one sequential read: the composite
// returns the object if and only if one of the backends holds it. A call that
// was hit by an injected fault or a cancellation may fail instead, but it may
// neither invent an object nor claim NOT_FOUND for one that is held.
func checkRead(c *run.Case, w *run.Worker, site, op string, o *object, want, data []byte, err error, inSink, inSource, disturbed bool) {
	checkReadP("seq", c, w, site, op, o, want, data, err, inSink, inSource, disturbed)
}

// checkReadP is checkRead with the prefix of the coverage counters it feeds
// (every engine has floors over its own counters only).
func checkReadP(pfx string, c *run.Case, w *run.Worker, site, op string, o *object, want, data []byte, err error, inSink, inSource, disturbed bool) {
	held := inSink || inSource
	switch {
	case err == nil:
		w.Count(pfx+"_reads_ok", 1)
		if inSink {
			w.Count(pfx+"_reads_from_sink", 1)
		} else {
			w.Count(pfx+"_reads_from_source", 1)
		}
		if !held {
			c.Violation(site+"."+op+":object-from-nowhere", "%s returned object %d although neither backend holds it", op, o.idx)
		} else if !bytes.Equal(data, want) {
			c.Violation(site+"."+op+":wrong-bytes", "%s returned %s for object %d, want %s", op, gen.Hex8(data), o.idx, gen.Hex8(want))
		}
	case status.Code(err) == codes.NotFound:
		w.Count(pfx+"_reads_notfound", 1)
		if held {
			c.Violation(site+"."+op+":not-found-although-held", "%s returned NOT_FOUND (%v) for object %d although a backend holds it (fast/primary=%v slow/secondary=%v)", op, err, o.idx, inSink, inSource)
		}
	default:
		w.Count(pfx+"_reads_failed", 1)
		if !disturbed {
			c.Violation(site+"."+op+":error-without-fault", "%s failed with %v for object %d without any injected fault (fast/primary=%v slow/secondary=%v)", op, err, o.idx, inSink, inSource)
		}
	}
}

// checkCopied: "after a successful read-through with a copying replicator the
// object is present in the fast respectively primary backend". A queued
// replicator may skip the copy while its existence cache remembers a
// successful copy within the configured duration.
func checkCopied(c *run.Case, w *run.Worker, site, op string, st *stackSpec, sink *gstore, o *object, queuedExcuse bool) {
	checkCopiedP("seq", c, w, site, op, st, sink, o, queuedExcuse)
}

func checkCopiedP(pfx string, c *run.Case, w *run.Worker, site, op string, st *stackSpec, sink *gstore, o *object, queuedExcuse bool) {
	if sink.inner.Has(o.d) {
		w.Count(pfx+"_read_through_copied", 1)
		return
	}
	if queuedExcuse {
		w.Count(pfx+"_read_through_skipped_by_queued_cache", 1)
		return
	}
	c.Violation(site+"."+op+":read-through-not-copied",
		"%s read object %d through the copying replicator %v successfully, but the fast/primary backend does not hold it afterwards", op, o.idx, st)
}

// ---------------------------------------------------------------------------
// ecacheCase: sequential histories against the existence cache with exact
// boundary clock advances (duration-1, duration, duration+1), cache sizes 1..4.

func ecacheCase(c *run.Case, w *run.Worker, r *gen.Rng) {
	old := runtime.GOMAXPROCS(1)
	defer runtime.GOMAXPROCS(old)
	clk := newVClock()
	e := newEnv(c, clk)
	e.seed = r.Uint64()
	kf := digest.KeyWithInstance
	if r.Bool() {
		kf = digest.KeyWithoutInstance
	}
	size := r.Range(1, 4)
	dur := cacheDurations[r.Intn(len(cacheDurations))]
	set, setName := eviction.NewLRUSet[string](), "LRU"
	if r.Chance(1, 4) {
		set, setName = eviction.NewFIFOSet[string](), "FIFO"
	}
	cache := digest.NewExistenceCache(clk, kf, size, dur, set)
	backend := newGStore(e, "backend", kf, false)
	ba := blobstore.NewExistenceCachingBlobAccess(backend, cache)
	objs := genUniverse(r, c, r.Range(2, 7), true)
	for _, o := range objs {
		if r.Chance(2, 3) {
			backend.inner.Set(o.d, o.data)
		}
	}
	raw := r.Chance(1, 4)
	faulty := r.Chance(1, 3)
	nops := r.Range(8, 30)
	c.Desc("ecache %s size=%d dur=%v raw=%v faulty=%v objects=%d ops=%d", setName, size, dur, raw, faulty, len(objs), nops)
	w.Count("scen_ecache", 1)
	if raw {
		w.Count("scen_ecache_raw", 1)
	}
	steps := boundarySteps(dur)
	var history []string
	hits := 0
	// Raw mode: the latest virtual time at which each key was added.
	lastAdd := map[string]time.Time{}
	ctx := withCaller(context.Background(), 0)
	for op := 0; op < nops; op++ {
		e.faultPct = 0
		if faulty && r.Chance(1, 5) {
			e.faultPct = 60
		}
		k := r.Intn(100)
		switch {
		case k < 50:
			idx := pickSubset(r, len(objs), 1, len(objs))
			now := clk.peek()
			if raw {
				rest := cache.RemoveExisting(setOf(objs, idx))
				kept := map[digest.Digest]bool{}
				for _, d := range rest.Items() {
					kept[d] = true
				}
				var hidden []int
				for _, i := range idx {
					if kept[objs[i].d] {
						continue
					}
					hidden = append(hidden, i)
					hits++
					w.Count("ecache_hits", 1)
					t, ok := lastAdd[objs[i].d.GetKey(kf)]
					if ok && now.Sub(t) == dur {
						w.Count("ecache_hits_at_exact_duration", 1)
					}
					if !ok || now.Sub(t) > dur {
						c.Violation("ExistenceCache.RemoveExisting:present-without-recent-add",
							"RemoveExisting(%v) at virtual time %d ns dropped object %d as present, but it was not added within %v before that (last add: %v)", idx, now.UnixNano(), i, dur, t)
					}
				}
				for _, i := range idx {
					if t, ok := lastAdd[objs[i].d.GetKey(kf)]; ok && kept[objs[i].d] && now.Sub(t) == dur+1 {
						w.Count("ecache_expired_just_after_duration", 1)
					}
				}
				history = append(history, fmt.Sprintf("RemoveExisting(%v) hid %v", idx, hidden))
			} else {
				ev0 := e.eventCount()
				var m digest.Set
				var err error
				if !seqCall(c, e, nil, "FindMissing through the existence-caching decorator", func() { m, err = ba.FindMissing(ctx, setOf(objs, idx)) }) {
					return
				}
				evs := e.snapshotEvents()
				forwarded := map[string]bool{}
				for _, ev := range evs[ev0:] {
					for _, k := range ev.keys {
						forwarded[k] = true
					}
				}
				w.Count("ecache_findmissing", 1)
				if err != nil {
					history = append(history, fmt.Sprintf("FindMissing(%v) -> %s", idx, errRes(err)))
					c.Logf("op %d: %s", op, history[len(history)-1])
					continue
				}
				missing := map[digest.Digest]bool{}
				for _, d := range m.Items() {
					missing[d] = true
				}
				var present []int
				for _, i := range idx {
					key := backend.key(objs[i].d)
					var last time.Time
					have := false
					for _, ev := range evs[:ev0] {
						for j, k := range ev.keys {
							if ev.op == "FindMissing" && ev.res == "ok" && k == key && ev.present[j] {
								last, have = ev.vtime, true
							}
						}
					}
					if !forwarded[key] {
						hits++
						w.Count("ecache_hits", 1)
						if have && now.Sub(last) == dur {
							w.Count("ecache_hits_at_exact_duration", 1)
						}
					} else if have && now.Sub(last) == dur+1 {
						w.Count("ecache_expired_just_after_duration", 1)
					}
					if missing[objs[i].d] {
						continue
					}
					present = append(present, i)
					if !backend.inner.Has(objs[i].d) {
						w.Count("ecache_stale_present_within_duration", 1)
					}
					if !presentJustified(evs, key, now, 1<<62, dur) {
						c.Violation("existenceCachingBlobAccess.FindMissing:present-without-recent-backend-report",
							"FindMissing(%v) at virtual time %d ns reported object %d present, but the backend did not report it present within %v before that (last report: %v, have=%v)", idx, now.UnixNano(), i, dur, last, have)
					}
				}
				history = append(history, fmt.Sprintf("FindMissing(%v) present=%v", idx, present))
			}
		case k < 62 && raw:
			idx := pickSubset(r, len(objs), 1, len(objs))
			cache.Add(setOf(objs, idx))
			for _, i := range idx {
				lastAdd[objs[i].d.GetKey(kf)] = clk.peek()
			}
			history = append(history, fmt.Sprintf("Add(%v)", idx))
		case k < 70:
			o := objs[r.Intn(len(objs))]
			if backend.inner.Has(o.d) {
				backend.inner.Delete(o.d)
				history = append(history, fmt.Sprintf("delete %d", o.idx))
			} else {
				backend.inner.Set(o.d, o.data)
				history = append(history, fmt.Sprintf("add %d", o.idx))
			}
		default:
			d := steps[r.Intn(len(steps))]
			clk.Advance(d)
			history = append(history, fmt.Sprintf("advance %v", d))
			w.Count("ecache_clock_advances", 1)
		}
		c.Logf("op %d: %s", op, history[len(history)-1])
	}
	if hits > 0 {
		w.Count("nontrivial_ecache", 1)
		w.Distinct(fmt.Sprintf("ecache|%s|%d|%v|%v|%s", setName, size, dur, raw, strings.Join(history, ";")))
	}
	if firstOf("ecache") {
		w.Sample(map[string]any{"kind": "existence cache (sequential)", "set": setName, "size": size, "duration": dur.String(), "raw": raw, "history": history})
	}
}
