package main

import (
	"bytes"
	"fmt"
	"runtime"
	"sort"
	"strings"
	"time"

	"github.com/buildbarn/bb-storage/pkg/blobstore"
	"github.com/buildbarn/bb-storage/pkg/blobstore/readcaching"
	"github.com/buildbarn/bb-storage/pkg/blobstore/readfallback"
	"github.com/buildbarn/bb-storage/pkg/digest"
	"github.com/buildbarn/bb-storage/pkg/eviction"
	"google.golang.org/grpc/codes"
	"google.golang.org/grpc/status"

	"verif/lib/gen"
	"verif/lib/run"
)

// object of a scenario's universe.
type object struct {
	idx       int
	data      []byte
	d         digest.Digest
	childData []byte
	child     digest.Digest
	inSource  bool // initial placement
	inSink    bool
	evicted   bool // removed from the sink by the driver during the scenario
}

// firstOf reports (once per worker process) that a scenario kind is seen for
// the first time: that scenario is written out as a sample.
var sampled = map[string]bool{}

func firstOf(kind string) bool {
	if sampled[kind] {
		return false
	}
	sampled[kind] = true
	return true
}

var instanceNames = []string{"", "a", "b/c"}

// genUniverse generates n objects with unique contents. With alias set, an
// object may instead carry the SAME content as its predecessor under a
// different instance name: under KeyWithInstance those are two objects, under
// KeyWithoutInstance one (a decorator that keys its state with the wrong
// format confuses them). Engines whose oracle reads the placement from
// per-object flags do not use aliases.
func genUniverse(r *gen.Rng, c *run.Case, n int, alias bool) []*object {
	inst := instanceNames[r.Intn(len(instanceNames))]
	var out []*object
	for i := 0; i < n; i++ {
		data := gen.UniqueBlob(uint64(c.Index)<<8|uint64(c.W.Index), uint64(i), r.Range(2, 48))
		in := inst
		if alias && i > 0 && r.Chance(1, 4) {
			data = out[i-1].data
			for in == out[i-1].d.GetInstanceName().String() {
				in = instanceNames[r.Intn(len(instanceNames))]
			}
		}
		o := &object{idx: i, data: data, d: gen.SHA256Digest(in, data)}
		o.childData = data[:len(data)/2]
		o.child = gen.SHA256Digest(in, o.childData)
		out = append(out, o)
	}
	return out
}

// sharedObject reports whether two callers ask for a common object.
func sharedObject(callers []*callerRec) bool {
	seen := map[int]bool{}
	for _, cr := range callers {
		for _, o := range cr.objs {
			if seen[o] {
				return true
			}
		}
		for _, o := range cr.objs {
			seen[o] = true
		}
	}
	return false
}

func setOf(objs []*object, idx []int) digest.Set {
	sb := digest.NewSetBuilder(0)
	for _, i := range idx {
		sb.Add(objs[i].d)
	}
	return sb.Build()
}

func pickSubset(r *gen.Rng, n, lo, hi int) []int {
	k := r.Range(lo, hi)
	if k > n {
		k = n
	}
	p := r.Perm(n)[:k]
	sort.Ints(p)
	return p
}

// concCfg: the schedule/fault dimensions shared by the concurrent scenarios.
type concCfg struct {
	gated        bool
	procs        int
	kf           digest.KeyFormat
	streamSource bool
	streamSink   bool
	faultPct     int
	streamPct    int
	cancelPct    int
	cancelWeight int
	preCancelPct int
	evict        bool
	nCallers     int
	yield        int
}

func (g concCfg) String() string {
	mode := "free"
	if g.gated {
		mode = "gated"
	}
	kf := "key+instance"
	if g.kf == digest.KeyWithoutInstance {
		kf = "key"
	}
	return fmt.Sprintf("%s procs=%d %s stream=%v/%v fault=%d%% midstream=%d%% cancelplan=%d%% cancelw=%d precancel=%d%% evict=%v callers=%d",
		mode, g.procs, kf, g.streamSource, g.streamSink, g.faultPct, g.streamPct, g.cancelPct, g.cancelWeight, g.preCancelPct, g.evict, g.nCallers)
}

func genConcCfg(r *gen.Rng, thorough bool) concCfg {
	g := concCfg{gated: r.Chance(7, 10)}
	g.kf = digest.KeyWithInstance
	if r.Bool() {
		g.kf = digest.KeyWithoutInstance
	}
	g.streamSource = r.Chance(1, 2)
	g.streamSink = r.Chance(1, 3)
	if r.Chance(6, 10) {
		g.faultPct = r.Pick(8, 15, 30)
		if g.streamSource || g.streamSink {
			g.streamPct = r.Pick(0, 20, 50)
		}
	}
	if r.Chance(4, 10) {
		g.cancelWeight = r.Pick(1, 2, 3)
		g.preCancelPct = r.Pick(0, 0, 10)
	}
	if g.gated {
		g.procs = r.Pick(1, 2, 4)
		g.nCallers = r.Pick(2, 3, 3, 4, 4, 5, 6, 8)
		if thorough && r.Chance(1, 10) {
			g.nCallers = r.Range(9, 16)
		}
		g.evict = r.Chance(1, 5)
	} else {
		g.procs = r.Pick(1, 2, 4, 8)
		g.nCallers = r.Range(2, 16)
		g.yield = r.Pick(0, 1, 3, 10)
		if g.faultPct > 0 && r.Chance(1, 3) {
			g.cancelPct = r.Pick(3, 8)
		}
	}
	return g
}

func (g concCfg) apply(e *env) {
	e.faultPct = g.faultPct
	e.streamPct = g.streamPct
	e.cancelPct = g.cancelPct
}

func pickGates(r *gen.Rng, sites []string) map[string]bool {
	m := map[string]bool{}
	for _, s := range sites {
		if r.Chance(6, 10) {
			m[s] = true
		}
	}
	if len(m) == 0 {
		m[sites[r.Intn(len(sites))]] = true
	}
	return m
}

func gateList(m map[string]bool) string {
	var k []string
	for s := range m {
		k = append(k, s)
	}
	sort.Strings(k)
	return strings.Join(k, ",")
}

func boundarySteps(d time.Duration) []time.Duration {
	out := []time.Duration{0, 1, d, d + 1, 2*d + 1}
	if d > 1 {
		out = append(out, d-1, d/2)
	}
	return out
}

func place(objs []*object, source, sink *gstore) {
	for _, o := range objs {
		if o.inSource {
			source.inner.Set(o.d, o.data)
		}
		if o.inSink {
			sink.inner.Set(o.d, o.data)
		}
	}
}

func placementString(objs []*object) string {
	var p []string
	for _, o := range objs {
		s := ""
		if o.inSource {
			s += "S"
		}
		if o.inSink {
			s += "K"
		}
		if s == "" {
			s = "-"
		}
		p = append(p, s)
	}
	return strings.Join(p, ",")
}

// ---------------------------------------------------------------------------
// Scenario kind 1: callers talk to a replicator stack directly.

func replScenario(c *run.Case, w *run.Worker, r *gen.Rng) {
	g := genConcCfg(r, w.Thorough())
	old := runtime.GOMAXPROCS(g.procs)
	defer runtime.GOMAXPROCS(old)
	clk := newVClock()
	e := newEnv(c, clk)
	e.seed = r.Uint64()
	g.apply(e)
	source := newGStore(e, "source", g.kf, g.streamSource)
	sink := newGStore(e, "sink", g.kf, g.streamSink)
	objs := genUniverse(r, c, r.Range(1, 5), true)
	for _, o := range objs {
		o.inSource = r.Chance(17, 20)
		o.inSink = r.Chance(1, 6)
	}
	place(objs, source, sink)
	st := genStack(r, 1, 2, false)
	repl := st.build(e, source, sink, g.kf, g.yield)
	var gates map[string]bool
	if g.gated {
		gates = pickGates(r, st.gateSites())
		e.sch = newSched(gates)
	}
	sc := &scenario{c: c, w: w, r: r, env: e, clk: clk, sch: e.sch, cancelWeight: g.cancelWeight, preCancelPct: g.preCancelPct}
	if q := st.queued(); q != nil && g.gated {
		sc.clockSteps = boundarySteps(q.ecDur)
	}
	if g.evict {
		sc.evict = func(r *gen.Rng) string {
			o := objs[r.Intn(len(objs))]
			if !sink.inner.Has(o.d) {
				return ""
			}
			sink.inner.Delete(o.d)
			o.evicted = true
			return fmt.Sprintf("evict object %d from sink", o.idx)
		}
	}
	for i := 0; i < g.nCallers; i++ {
		cr := &callerRec{id: i}
		switch k := r.Intn(10); {
		case k < 6:
			cr.op = "ReplicateMultiple"
			cr.objs = pickSubset(r, len(objs), 1, 5)
		case k < 9:
			cr.op = "ReplicateSingle"
			cr.objs = []int{r.Intn(len(objs))}
		default:
			cr.op = "ReplicateComposite"
			cr.objs = []int{r.Intn(len(objs))}
		}
		sc.callers = append(sc.callers, cr)
	}
	sc.exec = func(cr *callerRec) {
		switch cr.op {
		case "ReplicateMultiple":
			cr.err = repl.ReplicateMultiple(cr.ctx, setOf(objs, cr.objs))
		case "ReplicateSingle":
			cr.data, cr.err = repl.ReplicateSingle(cr.ctx, objs[cr.objs[0]].d).ToByteSlice(1 << 24)
		case "ReplicateComposite":
			o := objs[cr.objs[0]]
			cr.data, cr.err = repl.ReplicateComposite(cr.ctx, o.d, o.child, prefixSlicer{}).ToByteSlice(1 << 24)
		}
	}
	var ops []string
	for _, cr := range sc.callers {
		ops = append(ops, fmt.Sprintf("%d:%s%v", cr.id, cr.op, cr.objs))
	}
	c.Desc("repl %v | %v | placement=%s gates=[%s] ops=%s", st, g, placementString(objs), gateList(gates), strings.Join(ops, " "))
	w.Count("scen_repl", 1)
	w.Count("scen_repl_"+st.kinds(), 1)
	if g.gated {
		w.Count("scen_gated", 1)
	} else {
		w.Count("scen_free", 1)
	}
	if !sc.run(g.gated, "replicator stack "+st.String()) {
		return
	}
	w.Count("sched_steps", int64(sc.steps))
	w.Count("clock_advances", int64(sc.advances))
	w.Count("sink_evictions", int64(sc.evictions))
	if sharedObject(sc.callers) {
		w.Count("nontrivial_conc", 1)
		w.Distinct(fmt.Sprintf("repl|%v|%s|%s|%s", st, placementString(objs), strings.Join(ops, " "), sc.scheduleHash()))
	}
	if firstOf("repl") {
		w.Sample(map[string]any{"kind": "replicator stack", "stack": st.String(), "config": g.String(), "placement": placementString(objs), "callers": ops, "schedule": sc.schedule})
	}

	st.checkBounds(c, w)

	// "never report success to a caller unless the object was found in, or
	// copied to, the sink after that caller asked".
	events := e.snapshotEvents()
	byID := map[int]*callerRec{}
	for _, cr := range sc.callers {
		byID[cr.id] = cr
	}
	top := st.layers[len(st.layers)-1].kind
	topName := map[string]string{"dedup": "deduplicatingBlobReplicator", "climit": "concurrencyLimitingBlobReplicator", "queued": "queuedBlobReplicator"}[top]
	failedCallers, okCallers := 0, 0
	for _, cr := range sc.callers {
		nf, canc := e.faultsOf(cr.id)
		c.Logf("caller %d %s%v -> %v (ask=%d ret=%d faults=%d cancelled=%v)", cr.id, cr.op, cr.objs, cr.err, cr.A, cr.R, nf, canc)
		if cr.err != nil {
			failedCallers++
			w.Count("caller_errors", 1)
			if status.Code(cr.err) == codes.Canceled {
				w.Count("caller_cancelled_results", 1)
			}
			continue
		}
		okCallers++
		w.Count("caller_successes", 1)
		for _, oi := range cr.objs {
			o := objs[oi]
			if cr.op != "ReplicateMultiple" {
				want := o.data
				if cr.op == "ReplicateComposite" {
					want = o.childData
				}
				if !bytes.Equal(cr.data, want) {
					c.Violation(topName+"."+cr.op+":wrong-bytes", "caller %d got %s for object %d, want %s", cr.id, gen.Hex8(cr.data), o.idx, gen.Hex8(want))
				}
			}
			how := justify(cr, sink.key(o.d), events, byID, !g.gated, st)
			if how == "" {
				c.Violation(topName+"."+cr.op+":success-without-object-in-sink",
					"caller %d (%s%v, asked at %d, returned at %d) was told success for object %d (%s), but between its call and its return the sink neither reported the object present nor accepted a copy of it%s",
					cr.id, cr.op, cr.objs, cr.A, cr.R, o.idx, shortDigest(o.d), queuedNote(st))
			} else {
				w.Count("success_justified_by_"+how, 1)
			}
		}
	}
	if failedCallers > 0 && okCallers > 0 && st.has("dedup") && failureOverlapsSuccess(sc.callers) {
		// A failed and a successful caller whose calls overlapped in time on
		// a shared object: the successful one cannot have relied on the
		// failed one.
		w.Count("dedup_failure_overlapping_success", 1)
	}
}

func failureOverlapsSuccess(callers []*callerRec) bool {
	for _, f := range callers {
		if f.err == nil {
			continue
		}
		for _, s := range callers {
			if s.err == nil && s.A < f.R && f.A < s.R && sharesObject(f, s) {
				return true
			}
		}
	}
	return false
}

func sharesObject(a, b *callerRec) bool {
	for _, x := range a.objs {
		for _, y := range b.objs {
			if x == y {
				return true
			}
		}
	}
	return false
}

func queuedNote(st *stackSpec) string {
	if q := st.queued(); q != nil {
		return fmt.Sprintf(", and no base copy of it succeeded within the existence-cache duration %v before the call", q.ecDur)
	}
	return ""
}

// justify returns how a success for key is justified ("" if it is not).
//
// An event justifies the caller's success if it ended after the caller asked
// and started before the caller returned. In free-running scenarios a caller
// may ask in the instant between another caller's sink operation returning
// and that caller's in-flight entry being removed; there the event of a
// caller whose own call was still in flight at the ask is accepted as well
// (the controlled schedules cannot produce that instant: a caller is only
// started when every other goroutine is parked). A queued replicator in the
// stack additionally justifies success by a base copy that succeeded within
// the existence-cache duration before the ask (DESIGN.md C17, R).
func justify(cr *callerRec, key string, events []*event, callers map[int]*callerRec, relaxed bool, st *stackSpec) string {
	for _, ev := range events {
		if ev.store != "sink" || ev.start >= cr.R {
			continue
		}
		how := ""
		switch ev.op {
		case "Put":
			if ev.res == "ok" && ev.keys[0] == key {
				how = "copy"
			}
		case "Get", "GetFromComposite":
			if ev.res == "ok" && ev.keys[0] == key {
				how = "found_by_get"
			}
		case "FindMissing":
			for i, k := range ev.keys {
				if k == key && i < len(ev.present) && ev.present[i] {
					how = "found_by_findmissing"
				}
			}
		}
		if how == "" {
			continue
		}
		if ev.end > cr.A {
			return how
		}
		if relaxed {
			if l := callers[ev.caller]; l != nil && l.R > cr.A {
				return how + "_of_inflight_caller"
			}
		}
	}
	for _, l := range st.layers {
		if l.kind != "queued" {
			continue
		}
		_, _, calls := l.rec.stats()
		for _, call := range calls {
			if call.err != nil || call.end >= cr.R {
				continue
			}
			for _, k := range call.keys {
				if k == key && cr.vA.Sub(call.vEnd) <= l.ecDur {
					return "queued_existence_cache"
				}
			}
		}
	}
	return ""
}

// ---------------------------------------------------------------------------
// Scenario kind 2: concurrent readers of a read-caching / read-fallback
// composite over a replicator stack.

func compositeScenario(c *run.Case, w *run.Worker, r *gen.Rng) {
	g := genConcCfg(r, w.Thorough())
	old := runtime.GOMAXPROCS(g.procs)
	defer runtime.GOMAXPROCS(old)
	clk := newVClock()
	e := newEnv(c, clk)
	e.seed = r.Uint64()
	g.apply(e)
	source := newGStore(e, "source", g.kf, g.streamSource)
	sink := newGStore(e, "sink", g.kf, g.streamSink)
	objs := genUniverse(r, c, r.Range(1, 5), false)
	for _, o := range objs {
		o.inSource = r.Chance(15, 20)
		o.inSink = r.Chance(1, 5)
	}
	place(objs, source, sink)
	st := genStack(r, 0, 2, true)
	repl := st.build(e, source, sink, g.kf, g.yield)
	kind := "readCaching"
	var comp blobstore.BlobAccess
	if r.Bool() {
		comp = readcaching.NewReadCachingBlobAccess(source, sink, repl)
	} else {
		kind = "readFallback"
		comp = readfallback.NewReadFallbackBlobAccess(sink, source, repl)
	}
	site := kind + "BlobAccess"
	var gates map[string]bool
	if g.gated {
		gates = pickGates(r, append(st.gateSites(), "sink.GetFromComposite", "source.FindMissing"))
		e.sch = newSched(gates)
	}
	sc := &scenario{c: c, w: w, r: r, env: e, clk: clk, sch: e.sch, cancelWeight: g.cancelWeight, preCancelPct: g.preCancelPct}
	if q := st.queued(); q != nil && g.gated {
		sc.clockSteps = boundarySteps(q.ecDur)
	}
	if g.evict {
		sc.evict = func(r *gen.Rng) string {
			o := objs[r.Intn(len(objs))]
			if !sink.inner.Has(o.d) {
				return ""
			}
			sink.inner.Delete(o.d)
			o.evicted = true
			return fmt.Sprintf("evict object %d from sink", o.idx)
		}
	}
	for i := 0; i < g.nCallers; i++ {
		cr := &callerRec{id: i}
		switch k := r.Intn(10); {
		case k < 7 || (k < 9 && kind == "readCaching"):
			cr.op = "Get"
			cr.objs = []int{r.Intn(len(objs))}
		case k < 9:
			cr.op = "FindMissing"
			cr.objs = pickSubset(r, len(objs), 1, 5)
		default:
			cr.op = "GetFromComposite"
			cr.objs = []int{r.Intn(len(objs))}
		}
		sc.callers = append(sc.callers, cr)
	}
	sc.exec = func(cr *callerRec) {
		switch cr.op {
		case "Get":
			cr.data, cr.err = comp.Get(cr.ctx, objs[cr.objs[0]].d).ToByteSlice(1 << 24)
		case "GetFromComposite":
			o := objs[cr.objs[0]]
			cr.data, cr.err = comp.GetFromComposite(cr.ctx, o.d, o.child, prefixSlicer{}).ToByteSlice(1 << 24)
		case "FindMissing":
			m, err := comp.FindMissing(cr.ctx, setOf(objs, cr.objs))
			cr.err = err
			cr.absent = map[int]bool{}
			if err == nil {
				for _, d := range m.Items() {
					found := false
					for _, o := range objs {
						if o.d == d {
							cr.absent[o.idx] = true
							found = true
						}
					}
					if !found {
						cr.absent[-1] = true
					}
				}
			}
		}
	}
	var ops []string
	for _, cr := range sc.callers {
		ops = append(ops, fmt.Sprintf("%d:%s%v", cr.id, cr.op, cr.objs))
	}
	c.Desc("%s over %v | %v | placement=%s gates=[%s] ops=%s", kind, st, g, placementString(objs), gateList(gates), strings.Join(ops, " "))
	w.Count("scen_composite", 1)
	w.Count("scen_composite_"+kind, 1)
	if g.gated {
		w.Count("scen_gated", 1)
	} else {
		w.Count("scen_free", 1)
	}
	if !sc.run(g.gated, kind+" over "+st.String()) {
		return
	}
	w.Count("sched_steps", int64(sc.steps))
	w.Count("clock_advances", int64(sc.advances))
	w.Count("sink_evictions", int64(sc.evictions))
	if sharedObject(sc.callers) {
		w.Count("nontrivial_conc", 1)
		w.Distinct(fmt.Sprintf("%s|%v|%s|%s|%s", kind, st, placementString(objs), strings.Join(ops, " "), sc.scheduleHash()))
	}
	if firstOf("composite") {
		w.Sample(map[string]any{"kind": kind, "stack": st.String(), "config": g.String(), "placement": placementString(objs), "callers": ops, "schedule": sc.schedule})
	}
	st.checkBounds(c, w)

	clean := !e.anyDisturbance() && sc.evictions == 0
	if clean {
		w.Count("composite_clean_scenarios", 1)
	}
	for _, cr := range sc.callers {
		nf, canc := e.faultsOf(cr.id)
		c.Logf("caller %d %s%v -> err=%v data=%s absent=%v (faults=%d cancelled=%v)", cr.id, cr.op, cr.objs, cr.err, gen.Hex8(cr.data), cr.absent, nf, canc)
		switch cr.op {
		case "Get", "GetFromComposite":
			o := objs[cr.objs[0]]
			held := o.inSource || o.inSink
			switch {
			case cr.err == nil:
				w.Count("concurrent_reads_ok", 1)
				want := o.data
				if cr.op == "GetFromComposite" {
					want = o.childData
				}
				if !bytes.Equal(cr.data, want) {
					c.Violation(site+"."+cr.op+":wrong-bytes", "caller %d read %s for object %d, want %s", cr.id, gen.Hex8(cr.data), o.idx, gen.Hex8(want))
				}
				if !held {
					c.Violation(site+"."+cr.op+":object-from-nowhere", "caller %d read object %d which neither backend holds", cr.id, o.idx)
				}
			case status.Code(cr.err) == codes.NotFound:
				w.Count("concurrent_reads_notfound", 1)
				if o.inSource || (o.inSink && !o.evicted) {
					c.Violation(site+"."+cr.op+":not-found-although-held",
						"caller %d got NOT_FOUND (%v) for object %d although a backend holds it (source=%v sink=%v evicted=%v)", cr.id, cr.err, o.idx, o.inSource, o.inSink, o.evicted)
				}
			default:
				w.Count("concurrent_reads_failed", 1)
				if clean {
					c.Violation(site+"."+cr.op+":error-without-fault",
						"caller %d got %v for object %d in a scenario without any injected fault, cancellation or eviction (source=%v sink=%v)", cr.id, cr.err, o.idx, o.inSource, o.inSink)
				}
			}
		case "FindMissing":
			if cr.err != nil {
				w.Count("concurrent_findmissing_failed", 1)
				if clean {
					c.Violation(site+".FindMissing:error-without-fault", "caller %d got %v in a scenario without any injected fault, cancellation or eviction", cr.id, cr.err)
				}
				continue
			}
			w.Count("concurrent_findmissing_ok", 1)
			if cr.absent[-1] {
				c.Violation(site+".FindMissing:unknown-digest-reported", "caller %d was told about a digest it did not ask for", cr.id)
			}
			for _, oi := range cr.objs {
				o := objs[oi]
				switch {
				case o.inSource || (o.inSink && !o.evicted):
					if cr.absent[oi] {
						c.Violation(site+".FindMissing:held-object-reported-missing",
							"caller %d: object %d reported missing although a backend holds it (secondary=%v primary=%v)", cr.id, oi, o.inSource, o.inSink)
					}
				case !o.inSink:
					if !cr.absent[oi] {
						c.Violation(site+".FindMissing:absent-object-reported-present",
							"caller %d: object %d is in neither backend but was not reported missing", cr.id, oi)
					}
				}
			}
		}
	}
	// "after a successful read-through with a copying replicator the object is
	// present in the fast respectively primary backend". Without evictions
	// nothing ever leaves the sink, so the end state decides.
	if st.copying() && sc.evictions == 0 {
		for _, cr := range sc.callers {
			if cr.err != nil || cr.op == "FindMissing" {
				continue
			}
			o := objs[cr.objs[0]]
			if o.inSink {
				continue
			}
			w.Count("concurrent_read_throughs", 1)
			if !sink.inner.Has(o.d) {
				c.Violation(site+"."+cr.op+":read-through-not-copied",
					"caller %d read object %d through the %s replicator %v successfully, but the object is not in the fast/primary backend afterwards", cr.id, o.idx, st.bottom, st)
			}
		}
	}
}

// ---------------------------------------------------------------------------
// Scenario kind 3: concurrent FindMissing callers of an existence-caching
// decorator, clock advances and backend changes in between.

func ecScenario(c *run.Case, w *run.Worker, r *gen.Rng) {
	g := genConcCfg(r, w.Thorough())
	g.streamSource, g.streamSink, g.streamPct = false, false, 0
	old := runtime.GOMAXPROCS(g.procs)
	defer runtime.GOMAXPROCS(old)
	clk := newVClock()
	e := newEnv(c, clk)
	e.seed = r.Uint64()
	g.apply(e)
	backend := newGStore(e, "backend", g.kf, false)
	objs := genUniverse(r, c, r.Range(2, 6), true)
	for _, o := range objs {
		if r.Chance(2, 3) {
			o.inSource = true
			backend.inner.Set(o.d, o.data)
		}
	}
	size := r.Range(1, 4)
	dur := cacheDurations[r.Intn(len(cacheDurations))]
	set := eviction.NewLRUSet[string]()
	setName := "LRU"
	if r.Chance(1, 4) {
		set, setName = eviction.NewFIFOSet[string](), "FIFO"
	}
	ba := blobstore.NewExistenceCachingBlobAccess(backend, digest.NewExistenceCache(clk, g.kf, size, dur, set))
	if g.gated {
		e.sch = newSched(nil)
	}
	sc := &scenario{c: c, w: w, r: r, env: e, clk: clk, sch: e.sch, cancelWeight: g.cancelWeight, preCancelPct: g.preCancelPct}
	if g.gated {
		sc.clockSteps = boundarySteps(dur)
		sc.evict = func(r *gen.Rng) string {
			o := objs[r.Intn(len(objs))]
			if backend.inner.Has(o.d) {
				backend.inner.Delete(o.d)
				return fmt.Sprintf("delete object %d from backend", o.idx)
			}
			backend.inner.Set(o.d, o.data)
			return fmt.Sprintf("add object %d to backend", o.idx)
		}
	}
	g.nCallers += 2
	for i := 0; i < g.nCallers; i++ {
		sc.callers = append(sc.callers, &callerRec{id: i, op: "FindMissing", objs: pickSubset(r, len(objs), 1, len(objs))})
	}
	sc.exec = func(cr *callerRec) {
		m, err := ba.FindMissing(cr.ctx, setOf(objs, cr.objs))
		cr.err = err
		cr.absent = map[int]bool{}
		if err == nil {
			for _, d := range m.Items() {
				for _, o := range objs {
					if o.d == d {
						cr.absent[o.idx] = true
					}
				}
			}
		}
	}
	var ops []string
	for _, cr := range sc.callers {
		ops = append(ops, fmt.Sprintf("%d:FM%v", cr.id, cr.objs))
	}
	c.Desc("existenceCaching[%s size=%d dur=%v] | %v | placement=%s ops=%s", setName, size, dur, g, placementString(objs), strings.Join(ops, " "))
	w.Count("scen_existence_concurrent", 1)
	if g.gated {
		w.Count("scen_gated", 1)
	} else {
		w.Count("scen_free", 1)
	}
	if !sc.run(g.gated, "existence-caching decorator") {
		return
	}
	w.Count("sched_steps", int64(sc.steps))
	w.Count("clock_advances", int64(sc.advances))
	if sharedObject(sc.callers) {
		w.Count("nontrivial_conc", 1)
		w.Distinct(fmt.Sprintf("ec|%s|%d|%v|%s|%s|%s", setName, size, dur, placementString(objs), strings.Join(ops, " "), sc.scheduleHash()))
	}
	if firstOf("ec") {
		w.Sample(map[string]any{"kind": "existence caching (concurrent)", "set": setName, "size": size, "duration": dur.String(), "config": g.String(), "callers": ops, "schedule": sc.schedule})
	}
	events := e.snapshotEvents()
	for _, cr := range sc.callers {
		c.Logf("caller %d FM%v -> err=%v absent=%v (ask=%d ret=%d vA=%d)", cr.id, cr.objs, cr.err, cr.absent, cr.A, cr.R, cr.vA.UnixNano())
		if cr.err != nil {
			continue
		}
		for _, oi := range cr.objs {
			if cr.absent[oi] {
				continue
			}
			key := backend.key(objs[oi].d)
			w.Count("concurrent_present_reports", 1)
			if !presentJustified(events, key, cr.vA, cr.R, dur) {
				c.Violation("existenceCachingBlobAccess.FindMissing:present-without-recent-backend-report",
					"caller %d (asked at virtual time %d ns) was told object %d is present, but the backend did not report it present within %v before that (nor during the call)", cr.id, cr.vA.UnixNano(), oi, dur)
			}
		}
	}
}

// presentJustified: did the backend report key present in a FindMissing call
// that started before `before` and answered at a virtual time no more than dur
// before `at`?
func presentJustified(events []*event, key string, at time.Time, before int64, dur time.Duration) bool {
	for _, ev := range events {
		if ev.op != "FindMissing" || ev.res != "ok" || ev.start >= before {
			continue
		}
		for i, k := range ev.keys {
			if k == key && i < len(ev.present) && ev.present[i] && at.Sub(ev.vtime) <= dur {
				return true
			}
		}
	}
	return false
}
