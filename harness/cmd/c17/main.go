//verif:race

// C17 — read caching, read fallback, replicators and existence caches are
// transparent.
//
// The REAL readcaching / readfallback composites, the REAL deduplicating,
// concurrency-limiting, queued and local replicators and the REAL existence
// cache (digest.ExistenceCache + eviction sets + ExistenceCachingBlobAccess)
// are assembled from their exported constructors over recording model backends
// (gstore = gate + fault plan + event log in front of model.Store) and a
// virtual clock. Five engines observe executions:
//
//   - seq:    sequential histories against a composite, checked step by step
//     against the placement of the objects (exact oracle): reads,
//     uploads, FindMissing, read-through copies, under injected
//     backend failures, mid-stream failures and cancellations.
//   - conc:   2-16 concurrent callers against a replicator stack, a composite
//     or the existence-caching decorator. 70 % of the scenarios are
//     scheduled one gate at a time at settled states (DESIGN.md §3.6:
//     every goroutine parked in two consecutive dumps), with context
//     cancellations, clock advances and sink evictions as further
//     scheduler actions; 30 % run freely (for the race detector).
//     Monitored: in-flight base copies per object / in total, success
//     justification from the sink's event log (logical time stamps),
//     transparency of the reads, stalls (state-based verdict), panics.
//   - ecache: sequential histories against the existence cache with clock
//     advances of exactly duration-1 / duration / duration+1.
//   - cfg:    sequential histories against stacks built by the CONFIGURATION
//     layer (bsconfig.NewBlobAccessFromConfiguration, CAS creator):
//     [existence_caching {] read_fallback | read_caching [}] with a
//     configured replicator over two recording leaves that differ in
//     whether they distinguish instance names, the same contents
//     addressed under several instance names (cfg.go).
//
// Helpers that would belong in lib/: the virtual clock (lib/sim), settle and
// the gate scheduler (lib/run or lib/sim), gstore's event log with return time
// stamps (lib/model only records the start of a call).
package main

import (
	"os"
	"time"

	"verif/lib/gen"
	"verif/lib/run"
)

func main() {
	run.Main(run.Spec{
		Property: "C17",
		Level:    "exploration",
		Rule: "case = (composite kind, replicator stack of 0-2 decorators out of {deduplicating, concurrency-limiting(1-3), queued(cache size 1-4, duration)} over local|noop, key format, stream-/slice-backed backends, placement of 1-7 objects, fault plan) x " +
			"(a sequential history of 6-30 operations | 2-18 concurrent callers over overlapping digest sets under a gate-by-gate schedule with cancellations, clock advances, evictions | the same free-running); " +
			"plus configuration-built stacks: (read_fallback | read_caching) x optional existence_caching(size 1-8, LRU|FIFO|RR) x replicator configuration x (instance-aware | instance-unaware) per leaf x 3-7 objects over 1-3 contents and 4 instance names x a sequential history of 6-18 operations; " +
			"distinct = hash of configuration + operations + executed schedule (released gates in order); non-trivial (only those are counted as distinct) = sequential: a read fell through to the slow/secondary backend, a call failed or a FindMissing mixed placements; concurrent: two callers ask for a common object; existence cache: at least one answer came from the cache; configured: a read fell through, an existence-cache hit, or a digest was asked for whose contents had been reported present under another instance name",
		Workers:     8,
		CaseTimeout: 90 * time.Second,
		Race:        true,
		Floors: map[string]int64{
			"scen_seq":                                    210,
			"scen_gated":                                  133,
			"scen_free":                                   56,
			"scen_ecache":                                 112,
			"seq_read_through_copied":                     203,
			"seq_reads_failed":                            175,
			"seq_puts":                                    406,
			"seq_findmissing_mixed":                       30,
			"settled_with_dedup_waiters":                  196,
			"settled_with_semaphore_waiters":              154,
			"settled_with_queue_waiters":                  280,
			"dedup_failure_overlapping_success":           21,
			"cancelled_while_parked_inside":               21,
			"climit_saturated":                            70,
			"success_justified_by_copy":                   343,
			"success_justified_by_found_by_findmissing":   77,
			"success_justified_by_queued_existence_cache": 28,
			"ecache_hits":                                 686,
			"ecache_hits_at_exact_duration":               77,
			"ecache_expired_just_after_duration":          98,
			"concurrent_read_throughs":                    84,
			"concurrent_present_reports":                  294,
			"composite_clean_scenarios":                   16,
			// cfg group (configuration-built stacks), ~2/3 of the minimum over seeds 1, 2, 3, 5, 7.
			"scen_cfg":                   336,
			"scen_cfg_existence_caching": 260,
			"scen_cfg_leaves_differ_in_instance_awareness": 240,
			"cfg_alias_asked_after_present_held_nowhere":   160,
			"cfg_existence_cache_hits":                     1200,
			"cfg_findmissing_exact_checks":                 2100,
			"cfg_present_reports":                          3100,
			"cfg_read_through_copied":                      105,
		},
		Assumptions: []string{
			"an injected backend failure never uses NOT_FOUND (that code means 'the backend does not hold the object', which is the placement the oracle reasons about)",
			"'after that caller asked' is read over call intervals: a sink operation justifies a caller's success if it returned after the caller's call started",
			"existence cache and backend use the same digest key format (hand-assembled engines; in the cfg group the configuration layer chooses the format and the oracle reads 'the object' as the digest keyed the way the reporting backend keys it)",
			"cfg group: a backend 'reported an object present' if a successful FindMissing did not list it, a read of it succeeded or an upload of it was acknowledged; all configured cache durations are 10^6 h, so every report lies within the configured duration and no verdict depends on the system clock",
			"a read that was itself hit by an injected fault or cancellation may fail; it may still neither invent an object nor answer NOT_FOUND for one that is held",
		},
		Body: body,
	})
}

// caseRng derives the case's generator from c.Rng, the worker index and the
// case index through a full 64-bit mix. (lib/gen.New only xors/adds its seeds
// into the splitmix state, so (worker 0, case 1) and (worker 1, case 0) often
// get the SAME stream: a third of the cases were duplicates across workers
// before this. Belongs in lib/gen.)
func caseRng(c *run.Case) *gen.Rng {
	mix := func(z uint64) uint64 {
		z += 0x9e3779b97f4a7c15
		z = (z ^ (z >> 30)) * 0xbf58476d1ce4e5b9
		z = (z ^ (z >> 27)) * 0x94d049bb133111eb
		return z ^ (z >> 31)
	}
	a := mix(c.Rng.Uint64())
	b := mix(a ^ mix(uint64(c.W.Index)+0x51ed27) ^ mix(mix(uint64(c.Index))+0x2545f491))
	return gen.New(a, b)
}

// Case counts of the cfg group (quick / thorough totals).
const cfgQuick, cfgThorough = 480, 20000

func body(w *run.Worker) {
	if only := os.Getenv("C17_ONLY"); only != "" { // debugging aid: run one group only (floors will be missed)
		switch only {
		case "seq":
			w.Cases("seq", w.N(1200, 50000), func(c *run.Case) { seqCase(c, w, caseRng(c)) })
		case "ecache":
			w.Cases("ecache", w.N(600, 20000), func(c *run.Case) { ecacheCase(c, w, caseRng(c)) })
		case "repl":
			w.Cases("conc", w.N(1000, 30000), func(c *run.Case) { replScenario(c, w, caseRng(c)) })
		case "composite":
			w.Cases("conc", w.N(1000, 30000), func(c *run.Case) { compositeScenario(c, w, caseRng(c)) })
		case "ec":
			w.Cases("conc", w.N(1000, 30000), func(c *run.Case) { ecScenario(c, w, caseRng(c)) })
		case "cfg":
			w.Cases("cfg", w.N(cfgQuick, cfgThorough), func(c *run.Case) { cfgCase(c, w, caseRng(c)) })
		}
		return
	}
	w.Cases("seq", w.N(1200, 50000), func(c *run.Case) { seqCase(c, w, caseRng(c)) })
	w.Cases("ecache", w.N(600, 20000), func(c *run.Case) { ecacheCase(c, w, caseRng(c)) })
	w.Cases("cfg", w.N(cfgQuick, cfgThorough), func(c *run.Case) { cfgCase(c, w, caseRng(c)) })
	w.Cases("conc", w.N(1000, 30000), func(c *run.Case) {
		r := caseRng(c)
		switch k := r.Intn(20); {
		case k < 11:
			replScenario(c, w, r)
		case k < 17:
			compositeScenario(c, w, r)
		default:
			ecScenario(c, w, r)
		}
	})
}
