package main

// Group "cfg": the composites as the daemon builds them. The read_caching /
// read_fallback composite, its replicator stack and (in most cases) an
// existence_caching layer above it are constructed by
// bsconfig.NewBlobAccessFromConfiguration with the real CAS creator; only the
// two leaves are recording model backends (gstore), injected through a
// `grpc { address: "model:<i>" }` backend that a thin creator wrapper resolves.
// What the hand-assembled engines (seq, conc, ecache) cannot see is decided
// here: which digest key format the configuration layer hands to every
// component that keys state by digest (existence cache above the composite,
// existence cache of a queued replicator, deduplicating replicator).
//
// New generated dimensions:
//   - the two leaves differ in whether they distinguish instance names
//     (KeyWithInstance / KeyWithoutInstance independently per leaf, as a `grpc`
//     resp. flat `local` backend would report);
//   - the universe holds the same contents under several instance names;
//   - existence_caching above the composite (cache size 1-8, three
//     replacement policies), replicator stack from the same generator as the
//     other engines, translated into a BlobReplicatorConfiguration.
//
// The caches built by the configuration layer read clock.SystemClock. Their
// durations are configured to 10^6 hours, so no entry expires within a run and
// no verdict depends on the wall clock: "within the configured duration" is
// trivially true for every report of the history.

import (
	"context"
	"fmt"
	"runtime"
	"strings"
	"time"

	"github.com/buildbarn/bb-storage/pkg/blobstore"
	"github.com/buildbarn/bb-storage/pkg/blobstore/buffer"
	bsconfig "github.com/buildbarn/bb-storage/pkg/blobstore/configuration"
	"github.com/buildbarn/bb-storage/pkg/digest"
	"github.com/buildbarn/bb-storage/pkg/program"
	pb "github.com/buildbarn/bb-storage/pkg/proto/configuration/blobstore"
	digestpb "github.com/buildbarn/bb-storage/pkg/proto/configuration/digest"
	evictionpb "github.com/buildbarn/bb-storage/pkg/proto/configuration/eviction"
	grpcpb "github.com/buildbarn/bb-storage/pkg/proto/configuration/grpc"
	"google.golang.org/protobuf/types/known/durationpb"
	"google.golang.org/protobuf/types/known/emptypb"

	"verif/lib/gen"
	"verif/lib/model"
	"verif/lib/run"
)

// cfgForever is the duration configured for every cache of a configured stack.
const cfgForever = 1_000_000 * time.Hour

// cfgCreator is the real CAS BlobAccessCreator, except that a `grpc` backend
// with address "model:<i>" resolves to the i-th recording leaf and reports that
// leaf's own digest key format (what bb-storage's leaves do: `grpc` reports
// KeyWithInstance, a flat `local` KeyWithoutInstance). Everything above the
// leaves is constructed by bb-storage's configuration code.
type cfgCreator struct {
	bsconfig.BlobAccessCreator
	leaves []*gstore
}

func (mc *cfgCreator) NewCustomBlobAccess(tg program.Group, cfg *pb.BlobAccessConfiguration, nested bsconfig.NestedBlobAccessCreator) (bsconfig.BlobAccessInfo, string, error) {
	if g, ok := cfg.Backend.(*pb.BlobAccessConfiguration_Grpc); ok {
		var i int
		if _, err := fmt.Sscanf(g.Grpc.GetClient().GetAddress(), "model:%d", &i); err == nil && i >= 0 && i < len(mc.leaves) {
			return bsconfig.BlobAccessInfo{BlobAccess: mc.leaves[i], DigestKeyFormat: mc.leaves[i].inner.KeyFormat}, "grpc", nil
		}
	}
	return mc.BlobAccessCreator.NewCustomBlobAccess(tg, cfg, nested)
}

func cfgLabel(l string) *pb.BlobAccessConfiguration {
	return &pb.BlobAccessConfiguration{Backend: &pb.BlobAccessConfiguration_Label{Label: l}}
}

func cfgLeaf(i int) *pb.BlobAccessConfiguration {
	return &pb.BlobAccessConfiguration{Backend: &pb.BlobAccessConfiguration_Grpc{Grpc: &pb.GrpcBlobAccessConfiguration{Client: &grpcpb.ClientConfiguration{Address: fmt.Sprintf("model:%d", i)}}}}
}

func cfgExistenceCache(size int, policy evictionpb.CacheReplacementPolicy) *digestpb.ExistenceCacheConfiguration {
	return &digestpb.ExistenceCacheConfiguration{CacheSize: int64(size), CacheDuration: durationpb.New(cfgForever), CacheReplacementPolicy: policy}
}

// replicatorConfiguration translates a generated replicator stack into the
// message NewBlobReplicatorFromConfiguration consumes.
func (s *stackSpec) replicatorConfiguration() *pb.BlobReplicatorConfiguration {
	cur := &pb.BlobReplicatorConfiguration{Mode: &pb.BlobReplicatorConfiguration_Local{Local: &emptypb.Empty{}}}
	if s.bottom == "noop" {
		cur = &pb.BlobReplicatorConfiguration{Mode: &pb.BlobReplicatorConfiguration_Noop{Noop: &emptypb.Empty{}}}
	}
	for _, l := range s.layers {
		switch l.kind {
		case "dedup":
			cur = &pb.BlobReplicatorConfiguration{Mode: &pb.BlobReplicatorConfiguration_Deduplicating{Deduplicating: cur}}
		case "climit":
			cur = &pb.BlobReplicatorConfiguration{Mode: &pb.BlobReplicatorConfiguration_ConcurrencyLimiting{ConcurrencyLimiting: &pb.ConcurrencyLimitingBlobReplicatorConfiguration{Base: cur, MaximumConcurrency: l.limit}}}
		case "queued":
			l.ecDur = cfgForever
			cur = &pb.BlobReplicatorConfiguration{Mode: &pb.BlobReplicatorConfiguration_Queued{Queued: &pb.QueuedBlobReplicatorConfiguration{Base: cur, ExistenceCache: cfgExistenceCache(l.ecSize, evictionpb.CacheReplacementPolicy_LEAST_RECENTLY_USED)}}}
		}
	}
	return cur
}

var cfgInstanceNames = []string{"", "a", "b", "b/c"}

// genAliasUniverse: n objects over 1-3 distinct contents and four instance
// names, so that the same contents addressed under several instance names is
// the normal case. A backend that distinguishes instance names holds those as
// separate objects, one that does not holds them as one.
func genAliasUniverse(r *gen.Rng, c *run.Case, n int) []*object {
	var contents [][]byte
	for i, k := 0, r.Range(1, 3); i < k; i++ {
		contents = append(contents, gen.UniqueBlob(1<<40|uint64(c.Index)<<8|uint64(c.W.Index), uint64(i), r.Range(2, 48)))
	}
	var out []*object
	seen := map[string]bool{}
	for tries := 0; len(out) < n && tries < 60; tries++ {
		ci := r.Intn(len(contents))
		in := cfgInstanceNames[r.Intn(len(cfgInstanceNames))]
		if k := fmt.Sprintf("%d|%s", ci, in); seen[k] {
			continue
		} else {
			seen[k] = true
		}
		data := contents[ci]
		o := &object{idx: len(out), data: data, d: gen.SHA256Digest(in, data)}
		o.childData = data[:len(data)/2]
		o.child = gen.SHA256Digest(in, o.childData)
		out = append(out, o)
	}
	return out
}

func kfName(kf digest.KeyFormat) string {
	if kf == digest.KeyWithInstance {
		return "instance-aware"
	}
	return "instance-unaware"
}

// reportedHeld: did a backend ever tell the stack that it holds d - a
// successful FindMissing that did not list it as missing, a successful read or
// an acknowledged upload - under the key that backend uses for d (instance
// name included exactly where the backend distinguishes it)?
func reportedHeld(evs []*event, leaves []*gstore, d digest.Digest) bool {
	for _, ev := range evs {
		if ev.res != "ok" {
			continue
		}
		for _, st := range leaves {
			if st.name != ev.store {
				continue
			}
			key := st.key(d)
			for j, k := range ev.keys {
				if k != key {
					continue
				}
				if ev.op != "FindMissing" || (j < len(ev.present) && ev.present[j]) {
					return true
				}
			}
		}
	}
	return false
}

func cfgCase(c *run.Case, w *run.Worker, r *gen.Rng) {
	old := runtime.GOMAXPROCS(r.Pick(1, 2, 2, 4))
	defer runtime.GOMAXPROCS(old)
	clk := newVClock()
	e := newEnv(c, clk)
	e.seed = r.Uint64()

	// Leaves: mixed instance awareness in 3 of 4 cases.
	sinkKF, sourceKF := digest.KeyWithInstance, digest.KeyWithInstance
	switch k := r.Intn(8); {
	case k < 3:
		sinkKF = digest.KeyWithoutInstance
	case k < 6:
		sourceKF = digest.KeyWithoutInstance
	case k < 7:
		sinkKF, sourceKF = digest.KeyWithoutInstance, digest.KeyWithoutInstance
	}
	source := newGStore(e, "source", sourceKF, r.Chance(1, 2))
	sink := newGStore(e, "sink", sinkKF, r.Chance(1, 3))
	leaves := []*gstore{sink, source}

	// Replicator: the no-op replicator is a regular configuration directly
	// under a composite (reads fall through without being copied).
	st := genStack(r, 0, 2, false)
	if r.Chance(2, 5) {
		st = &stackSpec{bottom: "noop"}
	}
	kind := "readFallback"
	var composite *pb.BlobAccessConfiguration
	uploadTarget, other := sink, source
	if r.Chance(2, 3) {
		composite = &pb.BlobAccessConfiguration{Backend: &pb.BlobAccessConfiguration_ReadFallback{ReadFallback: &pb.ReadFallbackBlobAccessConfiguration{
			Primary: cfgLabel("sink"), Secondary: cfgLabel("source"), Replicator: st.replicatorConfiguration(),
		}}}
	} else {
		kind = "readCaching"
		uploadTarget, other = source, sink
		composite = &pb.BlobAccessConfiguration{Backend: &pb.BlobAccessConfiguration_ReadCaching{ReadCaching: &pb.ReadCachingBlobAccessConfiguration{
			Slow: cfgLabel("source"), Fast: cfgLabel("sink"), Replicator: st.replicatorConfiguration(),
		}}}
	}
	ec := r.Chance(4, 5)
	ecSize := r.Pick(1, 2, 3, 4, 8)
	policy := evictionpb.CacheReplacementPolicy(r.Pick(int(evictionpb.CacheReplacementPolicy_LEAST_RECENTLY_USED), int(evictionpb.CacheReplacementPolicy_LEAST_RECENTLY_USED),
		int(evictionpb.CacheReplacementPolicy_FIRST_IN_FIRST_OUT), int(evictionpb.CacheReplacementPolicy_RANDOM_REPLACEMENT)))
	top := composite
	shape := kind
	if ec {
		top = &pb.BlobAccessConfiguration{Backend: &pb.BlobAccessConfiguration_ExistenceCaching{ExistenceCaching: &pb.ExistenceCachingBlobAccessConfiguration{
			Backend: composite, ExistenceCache: cfgExistenceCache(ecSize, policy),
		}}}
		shape = fmt.Sprintf("existenceCaching[%d,%v]{%s}", ecSize, policy, kind)
	}
	// The leaves are declared as labels OUTSIDE the existence_caching layer:
	// that layer hands the plain CAS creator (not the wrapper) to its nested
	// backend, labels are resolved before any creator is consulted.
	root := &pb.BlobAccessConfiguration{Backend: &pb.BlobAccessConfiguration_WithLabels{WithLabels: &pb.WithLabelsBlobAccessConfiguration{
		Labels:  map[string]*pb.BlobAccessConfiguration{"sink": cfgLeaf(0), "source": cfgLeaf(1)},
		Backend: top,
	}}}
	info, err := bsconfig.NewBlobAccessFromConfiguration(nil, root, &cfgCreator{BlobAccessCreator: bsconfig.NewCASBlobAccessCreator(nil, 1<<20, nil), leaves: leaves})
	if err != nil {
		c.Violation("NewBlobAccessFromConfiguration("+kind+"):valid-configuration-rejected", "%v: %v", root, err)
		return
	}
	var comp blobstore.BlobAccess = info.BlobAccess
	site := kind + "BlobAccess(configured)"
	ecSite := "existenceCachingBlobAccess(configured over " + kind + ")"

	objs := genAliasUniverse(r, c, r.Range(3, 7))
	for _, o := range objs {
		if r.Chance(1, 2) {
			source.inner.Set(o.d, o.data)
		}
		if r.Chance(1, 5) {
			sink.inner.Set(o.d, o.data)
		}
	}
	faulty := r.Chance(4, 10)
	// Deletions (an eviction by a third party) only in a third of the
	// histories: an existence cache may by design keep answering 'present' for
	// an object the backends have lost since, so the exact FindMissing clause
	// is only evaluated while nothing was deleted. Never from the sink below a
	// queued replicator (its cache would by design skip the next copy).
	allowDelete := r.Chance(1, 3)
	nops := r.Range(6, 18)
	c.Desc("cfg %s over %v sink=%s source=%s stream=%v/%v faulty=%v deletions=%v objects=%d ops=%d", shape, st, kfName(sinkKF), kfName(sourceKF), source.stream, sink.stream, faulty, allowDelete, len(objs), nops)
	w.Count("scen_cfg", 1)
	w.Count("scen_cfg_"+kind, 1)
	w.Count("scen_cfg_stack_"+st.kinds(), 1)
	if ec {
		w.Count("scen_cfg_existence_caching", 1)
	}
	if sinkKF != sourceKF {
		w.Count("scen_cfg_leaves_differ_in_instance_awareness", 1)
	}
	var history []string
	nontrivial := false
	deleted := false
	topPresent := map[string]bool{} // digests (instance name included) the stack reported present so far
	aliasOfPresent := func(o *object) bool {
		for _, x := range objs {
			if x != o && x.d.GetKey(digest.KeyWithoutInstance) == o.d.GetKey(digest.KeyWithoutInstance) && topPresent[x.d.GetKey(digest.KeyWithInstance)] {
				return true
			}
		}
		return false
	}

	for op := 0; op < nops; op++ {
		e.faultPct, e.streamPct, e.cancelPct = 0, 0, 0
		if faulty && r.Chance(1, 3) {
			e.faultPct = r.Pick(10, 25, 50)
			e.streamPct = r.Pick(0, 30)
			e.cancelPct = r.Pick(0, 0, 10)
		}
		ctx, cancel := context.WithCancel(withCaller(context.Background(), op))
		e.register(op, cancel)
		if faulty && r.Chance(1, 25) {
			e.cancel(op)
		}
		ev0 := e.eventCount()
		o := objs[r.Intn(len(objs))]
		preSink, preSource := sink.inner.Has(o.d), source.inner.Has(o.d)
		k := r.Intn(100)
		switch {
		case k < 28: // Get
			var data []byte
			var err error
			if !seqCall(c, e, cancel, fmt.Sprintf("Get(%d) through configured %s over %v", o.idx, shape, st), func() { data, err = comp.Get(ctx, o.d).ToByteSlice(1 << 24) }) {
				return
			}
			nf, canc := e.faultsOf(op)
			disturbed := nf > 0 || canc
			h := fmt.Sprintf("Get(%d=%s)[sink=%v source=%v] -> %s disturbed=%v", o.idx, shortDigest(o.d), preSink, preSource, errRes(err), disturbed)
			history = append(history, h)
			c.Logf("op %d: %s", op, h)
			w.Count("cfg_reads", 1)
			// "return an object if and only if the fast/primary or the
			// slow/secondary backend holds it" - held as that backend keys it.
			checkReadP("cfg", c, w, site, "Get", o, o.data, data, err, preSink, preSource, disturbed)
			nontrivial = nontrivial || !preSink
			if err == nil && !preSink && st.copying() {
				// "after a successful read-through with a copying replicator the
				// object is present in the fast respectively primary backend"
				checkCopiedP("cfg", c, w, site, "Get", st, sink, o, false)
			}
		case k < 35: // GetFromComposite
			var data []byte
			var err error
			if !seqCall(c, e, cancel, fmt.Sprintf("GetFromComposite(%d) through configured %s over %v", o.idx, shape, st), func() {
				data, err = comp.GetFromComposite(ctx, o.d, o.child, prefixSlicer{}).ToByteSlice(1 << 24)
			}) {
				return
			}
			nf, canc := e.faultsOf(op)
			disturbed := nf > 0 || canc
			h := fmt.Sprintf("GetFromComposite(%d=%s)[sink=%v source=%v] -> %s disturbed=%v", o.idx, shortDigest(o.d), preSink, preSource, errRes(err), disturbed)
			history = append(history, h)
			c.Logf("op %d: %s", op, h)
			w.Count("cfg_reads", 1)
			checkReadP("cfg", c, w, site, "GetFromComposite", o, o.childData, data, err, preSink, preSource, disturbed)
			nontrivial = nontrivial || !preSink
			if err == nil && !preSink && st.copying() {
				checkCopiedP("cfg", c, w, site, "GetFromComposite", st, sink, o, false)
			}
		case k < 47: // Put
			b, _ := model.NewTrackedCASBuffer(o.d, model.SourceSpec{Data: o.data, Chunks: r.Chunking(len(o.data), true)}, buffer.UserProvided)
			var err error
			if !seqCall(c, e, cancel, fmt.Sprintf("Put(%d) through configured %s", o.idx, shape), func() { err = comp.Put(ctx, o.d, b) }) {
				return
			}
			nf, canc := e.faultsOf(op)
			disturbed := nf > 0 || canc
			h := fmt.Sprintf("Put(%d=%s) -> %s disturbed=%v", o.idx, shortDigest(o.d), errRes(err), disturbed)
			history = append(history, h)
			c.Logf("op %d: %s", op, h)
			w.Count("cfg_puts", 1)
			// "send uploads only to the slow respectively primary backend"
			puts := 0
			for _, ev := range e.snapshotEvents()[ev0:] {
				if ev.store == other.name {
					c.Violation(site+".Put:upload-reached-other-backend",
						"Put of object %d through configured %s made a %s call on backend %q; uploads must only go to %q", o.idx, shape, ev.op, other.name, uploadTarget.name)
				} else if ev.op == "Put" {
					puts++
				} else {
					c.Violation(site+".Put:unexpected-backend-call", "Put of object %d made a %s call on %q", o.idx, ev.op, ev.store)
				}
			}
			if puts != 1 {
				c.Violation(site+".Put:upload-not-forwarded-once", "Put of object %d reached backend %q %d times", o.idx, uploadTarget.name, puts)
			}
			if err == nil {
				if !uploadTarget.inner.Has(o.d) {
					c.Violation(site+".Put:acknowledged-upload-not-stored", "Put of object %d succeeded but backend %q does not hold it", o.idx, uploadTarget.name)
				}
			} else if !disturbed {
				c.Violation(site+".Put:error-without-fault", "Put of object %d failed with %v without any injected fault", o.idx, err)
			}
		case k < 85: // FindMissing
			idx := pickSubset(r, len(objs), 1, len(objs))
			held := map[int]bool{}
			aliasAsked := map[int]bool{}
			for _, i := range idx {
				held[i] = sink.inner.Has(objs[i].d) || source.inner.Has(objs[i].d)
				aliasAsked[i] = aliasOfPresent(objs[i])
			}
			var m digest.Set
			var err error
			if !seqCall(c, e, cancel, fmt.Sprintf("FindMissing(%v) through configured %s over %v", idx, shape, st), func() { m, err = comp.FindMissing(ctx, setOf(objs, idx)) }) {
				return
			}
			nf, canc := e.faultsOf(op)
			disturbed := nf > 0 || canc
			evs := e.snapshotEvents()
			got := map[int]bool{}
			unknown := false
			if err == nil {
				for _, d := range m.Items() {
					found := false
					for _, x := range objs {
						if x.d == d {
							got[x.idx] = true
							found = true
						}
					}
					unknown = unknown || !found
				}
			}
			var asked []string
			for _, i := range idx {
				asked = append(asked, shortDigest(objs[i].d))
			}
			h := fmt.Sprintf("FindMissing(%v=%s) -> %s missing=%v disturbed=%v", idx, strings.Join(asked, ","), errRes(err), keysOf(got), disturbed)
			history = append(history, h)
			c.Logf("op %d: %s", op, h)
			w.Count("cfg_findmissing", 1)
			if err != nil {
				if !disturbed {
					c.Violation(site+".FindMissing:error-without-fault", "FindMissing(%v) through configured %s failed with %v without any injected fault", idx, shape, err)
				}
				break
			}
			if unknown {
				c.Violation(site+".FindMissing:unknown-digest-reported", "FindMissing(%v) reported a digest that was not asked for", idx)
			}
			// Which digests did the first backend of the FindMissing path see?
			first := sink
			if kind == "readCaching" {
				first = source
			}
			forwarded := map[string]bool{}
			for _, ev := range evs[ev0:] {
				if ev.store == first.name && ev.op == "FindMissing" {
					for _, k := range ev.keys {
						forwarded[k] = true
					}
				}
			}
			for _, i := range idx {
				x := objs[i]
				if aliasAsked[i] {
					// The same contents under another instance name were
					// reported present before: the situation in which a cache
					// keyed more coarsely than a backend would answer wrongly.
					w.Count("cfg_alias_asked_after_present", 1)
					nontrivial = true
					if !held[i] {
						w.Count("cfg_alias_asked_after_present_held_nowhere", 1)
					}
				}
				if ec && !forwarded[first.key(x.d)] {
					w.Count("cfg_existence_cache_hits", 1)
					nontrivial = true
				}
				if !got[i] {
					w.Count("cfg_present_reports", 1)
					topPresent[x.d.GetKey(digest.KeyWithInstance)] = true
					// "An existence cache never hides an object as present
					// unless the backend reported it present within the
					// configured duration" (duration: 10^6 h, i.e. the whole
					// history); without the cache layer the composite itself may
					// only answer from what its backends report. 'It' is the
					// digest as the reporting backend keys it: a backend that
					// distinguishes instance names has said nothing about b/H by
					// reporting a/H.
					if !reportedHeld(evs, leaves, x.d) {
						s := site
						if ec {
							s = ecSite
						}
						c.Violation(s+".FindMissing:present-without-backend-report-for-that-instance-name",
							"FindMissing(%v) through configured %s (sink %s, source %s) reported object %d (%s) present, but no backend ever reported it present, served it or acknowledged an upload of it under the key that backend uses (held now: sink=%v source=%v)",
							idx, shape, kfName(sinkKF), kfName(sourceKF), i, shortDigest(x.d), sink.inner.Has(x.d), source.inner.Has(x.d))
					}
				}
				if kind != "readFallback" || deleted {
					continue
				}
				// "FindMissing through a fallback reports exactly the objects
				// missing from both." Evaluated only while the harness has not
				// deleted anything: then every report of presence a cache may
				// remember is still true, so the cache layer cannot excuse a
				// wrong 'present'.
				w.Count("cfg_findmissing_exact_checks", 1)
				if !held[i] && !got[i] {
					s := site
					if ec {
						s = ecSite
					}
					c.Violation(s+".FindMissing:absent-object-reported-present",
						"FindMissing(%v) through configured %s (sink %s, source %s): object %d (%s) is in neither backend (nothing was ever deleted) but was not reported missing (got %v)",
						idx, shape, kfName(sinkKF), kfName(sourceKF), i, shortDigest(x.d), keysOf(got))
				}
				if held[i] && got[i] {
					if ec {
						// The statement only bounds what an existence cache may
						// hide; a spurious 'missing' above it is recorded, not
						// judged.
						w.Count("cfg_held_object_reported_missing_above_cache", 1)
					} else {
						c.Violation(site+".FindMissing:held-object-reported-missing",
							"FindMissing(%v) through configured %s: object %d (%s) is held by a backend but was reported missing (got %v)", idx, shape, i, shortDigest(x.d), keysOf(got))
					}
				}
			}
		default: // placement change
			gs, name := sink, "sink"
			if r.Bool() {
				gs, name = source, "source"
			}
			if gs.inner.Has(o.d) {
				if !allowDelete || (gs == sink && st.queued() != nil) {
					history = append(history, "skip")
					break
				}
				gs.inner.Delete(o.d)
				deleted = true
				history = append(history, fmt.Sprintf("delete %d=%s from %s", o.idx, shortDigest(o.d), name))
				w.Count("cfg_deletions", 1)
			} else {
				gs.inner.Set(o.d, o.data)
				history = append(history, fmt.Sprintf("place %d=%s in %s", o.idx, shortDigest(o.d), name))
			}
			c.Logf("op %d: %s", op, history[len(history)-1])
		}
		cancel()
	}
	if nontrivial {
		w.Count("nontrivial_cfg", 1)
		w.Distinct(fmt.Sprintf("cfg|%s|%v|%s|%s|%s", shape, st, kfName(sinkKF), kfName(sourceKF), strings.Join(history, ";")))
	}
	if firstOf("cfg") {
		w.Sample(map[string]any{"kind": "configured " + shape, "stack": st.String(), "sink": kfName(sinkKF), "source": kfName(sourceKF), "configuration": fmt.Sprint(root), "history": history})
	}
}
