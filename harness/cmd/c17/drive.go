package main

import (
	"context"
	"fmt"
	"hash/fnv"
	"regexp"
	"runtime"
	"runtime/debug"
	"strings"
	"sync"
	"time"

	"verif/lib/gen"
	"verif/lib/model"
	"verif/lib/run"
)

// callerRec is one concurrent caller: exactly one top-level call.
type callerRec struct {
	id   int
	op   string
	objs []int // indices into the scenario's universe

	ctx    context.Context
	A, R   int64     // logical ask / return time stamps
	vA     time.Time // virtual time at ask
	err    error
	data   []byte
	absent map[int]bool // FindMissing: objects reported missing

	started        bool
	done           bool
	panicMsg       string
	panicStack     string
	cancelledAt    string // "", "gate", "inside" (parked inside bb-storage when cancelled), "running"
	cancelledFirst bool   // context was cancelled before the call started
}

// scenario drives a set of concurrent callers against a system under test,
// either with controlled scheduling (gates released one at a time at settled
// states) or free-running (for the race detector and unplanned schedules).
type scenario struct {
	c   *run.Case
	w   *run.Worker
	r   *gen.Rng
	env *env
	clk *vclock
	sch *sched

	callers []*callerRec
	exec    func(cr *callerRec) // performs cr's call; fills err/data/absent

	clockSteps   []time.Duration // candidate clock advances (nil: clock never moves)
	evict        func(r *gen.Rng) string
	cancelWeight int
	preCancelPct int

	mu        sync.Mutex
	doneCount int
	wg        sync.WaitGroup
	schedule  []string
	steps     int
	evictions int
	advances  int
}

func (sc *scenario) logStep(format string, a ...any) {
	s := fmt.Sprintf(format, a...)
	sc.schedule = append(sc.schedule, s)
	sc.c.Logf("step %d: %s", len(sc.schedule), s)
}

// scheduleHash identifies the interleaving that was executed.
func (sc *scenario) scheduleHash() string {
	h := fnv.New64a()
	for _, s := range sc.schedule {
		h.Write([]byte(s))
		h.Write([]byte{0})
	}
	return fmt.Sprintf("%016x", h.Sum64())
}

func (sc *scenario) start(cr *callerRec) {
	ctx, cancel := context.WithCancel(withCaller(context.Background(), cr.id))
	cr.ctx = ctx
	sc.env.register(cr.id, cancel)
	if sc.preCancelPct > 0 && sc.r.Chance(sc.preCancelPct, 100) {
		cr.cancelledFirst = true
		cr.cancelledAt = "before"
		sc.env.cancel(cr.id)
	}
	cr.started = true
	sc.wg.Add(1)
	go func() {
		defer func() {
			if p := recover(); p != nil {
				sc.mu.Lock()
				cr.panicMsg = fmt.Sprint(p)
				cr.panicStack = string(debug.Stack())
				sc.mu.Unlock()
			}
			sc.mu.Lock()
			cr.R = model.Tick()
			cr.done = true
			sc.doneCount++
			sc.mu.Unlock()
			if sc.sch != nil {
				sc.sch.events.Add(1)
			}
			sc.env.progress.Add(1)
			sc.wg.Done()
		}()
		cr.vA = sc.clk.peek()
		cr.A = model.Tick()
		sc.exec(cr)
	}()
}

func (sc *scenario) nDone() int {
	sc.mu.Lock()
	defer sc.mu.Unlock()
	return sc.doneCount
}

func (sc *scenario) isDone(cr *callerRec) bool {
	sc.mu.Lock()
	defer sc.mu.Unlock()
	return cr.done
}

// driveGated runs the scenario under controlled scheduling. It returns the
// goroutine dump of a proven stall ("" otherwise).
func (sc *scenario) driveGated() string {
	r := sc.r
	n := len(sc.callers)
	started := 0
	initial := r.Range(1, n)
	for ; started < initial; started++ {
		sc.start(sc.callers[started])
	}
	sc.logStep("start callers 0..%d", initial-1)
	for {
		dump := sc.sch.settle()
		if sc.nDone() == n {
			return ""
		}
		di := analyseDump(dump)
		if di.inDedup > 0 {
			sc.w.Count("settled_with_dedup_waiters", 1)
		}
		if di.inSem > 0 {
			sc.w.Count("settled_with_semaphore_waiters", 1)
		}
		if di.inQueued > 0 {
			sc.w.Count("settled_with_queue_waiters", 1)
		}
		if di.inBuffer > 0 {
			sc.w.Count("settled_with_stream_consumers", 1)
		}
		waiters := sc.sch.list()
		if len(waiters) == 0 && started == n {
			// Nothing is left that the driver could release, no virtual
			// timer is armed, every goroutine is parked: callers that have
			// not returned are parked inside bb-storage for good.
			if d := sc.confirmStall(); d != "" {
				return d
			}
			continue
		}
		sc.steps++
		// Candidate actions.
		type action struct {
			kind   string
			weight int
		}
		var acts []action
		if len(waiters) > 0 {
			acts = append(acts, action{"release", 6})
		}
		if started < n {
			wgt := 3
			if len(waiters) == 0 {
				wgt = 1000
			}
			acts = append(acts, action{"start", wgt})
		}
		var cancellable []*callerRec
		if sc.cancelWeight > 0 && len(waiters) > 0 {
			for _, cr := range sc.callers[:started] {
				if !sc.isDone(cr) && cr.cancelledAt == "" {
					cancellable = append(cancellable, cr)
				}
			}
			if len(cancellable) > 0 {
				acts = append(acts, action{"cancel", sc.cancelWeight})
			}
		}
		if len(sc.clockSteps) > 0 && len(waiters) > 0 {
			acts = append(acts, action{"advance", 2})
		}
		if sc.evict != nil && len(waiters) > 0 {
			acts = append(acts, action{"evict", 1})
		}
		total := 0
		for _, a := range acts {
			total += a.weight
		}
		pick := r.Intn(total)
		kind := ""
		for _, a := range acts {
			if pick < a.weight {
				kind = a.kind
				break
			}
			pick -= a.weight
		}
		switch kind {
		case "release":
			gw := waiters[r.Intn(len(waiters))]
			sc.logStep("release %s", gw.id)
			sc.sch.release(gw)
		case "start":
			sc.logStep("start caller %d (%s)", started, sc.callers[started].op)
			sc.start(sc.callers[started])
			started++
		case "cancel":
			cr := cancellable[r.Intn(len(cancellable))]
			if sc.sch.atGate(cr.id) {
				cr.cancelledAt = "gate"
				sc.w.Count("cancelled_while_at_backend_gate", 1)
			} else {
				cr.cancelledAt = "inside"
				sc.w.Count("cancelled_while_parked_inside", 1)
			}
			sc.w.Count("driver_cancellations", 1)
			sc.logStep("cancel caller %d (parked at %s)", cr.id, cr.cancelledAt)
			sc.env.cancel(cr.id)
		case "advance":
			d := sc.clockSteps[r.Intn(len(sc.clockSteps))]
			sc.advances++
			sc.logStep("advance clock by %v", d)
			sc.clk.Advance(d)
		case "evict":
			if s := sc.evict(r); s != "" {
				sc.evictions++
				sc.logStep("%s", s)
			}
		}
		if sc.steps > 5000 {
			sc.w.Inconclusive(fmt.Sprintf("scenario exceeded 5000 scheduling steps: %s", sc.schedule[0]))
			sc.sch.openAll()
		}
	}
}

// confirmStall re-observes a suspected stall a number of times; the verdict is
// state-based (all goroutines parked, no gate held, no timer armed, callers
// outstanding), the wall clock only decides when to look.
func (sc *scenario) confirmStall() string {
	dump := ""
	for i := 0; i < 25; i++ {
		time.Sleep(2 * time.Millisecond)
		dump = sc.sch.settle()
		if sc.nDone() == len(sc.callers) || len(sc.sch.list()) > 0 || sc.clk.Pending() > 0 {
			return ""
		}
	}
	return dump
}

// driveFree lets all callers run without gates.
func (sc *scenario) driveFree() string {
	r := sc.r
	n := len(sc.callers)
	for _, cr := range sc.callers {
		sc.start(cr)
		if r.Chance(1, 3) {
			runtime.Gosched()
		}
	}
	sc.logStep("free-running: %d callers", n)
	if sc.cancelWeight > 0 {
		k := r.Range(1, 2)
		for i := 0; i < k; i++ {
			for y := r.Intn(40); y > 0; y-- {
				runtime.Gosched()
			}
			cr := sc.callers[r.Intn(n)]
			if cr.cancelledAt == "" {
				cr.cancelledAt = "running"
				sc.w.Count("driver_cancellations", 1)
				sc.env.cancel(cr.id)
			}
		}
	}
	done := make(chan struct{})
	go func() { sc.wg.Wait(); close(done) }()
	quiet := 0
	last := int64(-1)
	for {
		select {
		case <-done:
			return ""
		case <-time.After(3 * time.Millisecond):
		}
		p := sc.env.progress.Load()
		d, blocked := allBlocked()
		if blocked && p == last {
			quiet++
		} else {
			quiet = 0
		}
		last = p
		if quiet >= 100 {
			select {
			case <-done:
				return ""
			default:
			}
			return d
		}
	}
}

// abandon unblocks whatever can be unblocked after a stall verdict, so that the
// worker can go on with the next case; goroutines that stay parked forever are
// left behind (they do not disturb later settled states).
func (sc *scenario) abandon() {
	for _, cr := range sc.callers {
		if cr.started {
			sc.env.cancel(cr.id)
		}
	}
	if sc.sch != nil {
		sc.sch.openAll()
	}
	for i := 0; i < 50 && sc.nDone() < len(sc.callers); i++ {
		time.Sleep(time.Millisecond)
	}
}

var stallFrameRe = regexp.MustCompile(`(?m)^(github\.com/buildbarn/bb-storage/[^\s(]+(?:\([^)]*\))?[^\s(]*)\(`)

// stallSite names the bb-storage functions in which goroutines are parked.
func stallSite(dump string) string {
	di := analyseDump(dump)
	// Goroutines parked in the buffer layer (a consumer waiting for its
	// background task) are downstream of whatever the task waits for.
	var sites []string
	for _, s := range di.sites {
		if !strings.Contains(s, "/buffer.") {
			sites = append(sites, s)
		}
	}
	if len(sites) == 0 {
		sites = di.sites
	}
	if len(sites) == 0 {
		return "unknown"
	}
	if len(sites) > 2 {
		sites = sites[:2]
	}
	return strings.Join(sites, "+")
}

func panicSiteOf(stack string) string {
	m := stallFrameRe.FindStringSubmatch(stack)
	if m == nil {
		if strings.Contains(stack, "golang.org/x/sync/semaphore") {
			return "golang.org/x/sync/semaphore"
		}
		return "harness"
	}
	return strings.TrimPrefix(m[1], "github.com/buildbarn/bb-storage/")
}

// run executes the scenario and reports stalls and panics. It returns false if
// the remaining oracles cannot be evaluated.
func (sc *scenario) run(gated bool, label string) bool {
	var dump string
	if gated {
		dump = sc.driveGated()
	} else {
		dump = sc.driveFree()
	}
	if dump != "" {
		var open []string
		for _, cr := range sc.callers {
			if cr.started && !sc.isDone(cr) {
				open = append(open, fmt.Sprintf("caller %d (%s)", cr.id, cr.op))
			}
		}
		sc.c.Violation("stall:"+stallSite(dump),
			"%s: callers parked forever: no gate is held, no virtual timer is armed, every goroutine is parked in consecutive dumps, yet %v never returned\n%s",
			label, open, dump)
		sc.abandon()
		return false
	}
	if sc.sch != nil {
		sc.sch.openAll()
		sc.sch.settle()
	}
	ok := true
	for _, cr := range sc.callers {
		if cr.panicMsg != "" {
			sc.c.Violation("panic:"+panicSiteOf(cr.panicStack), "%s: caller %d (%s) panicked: %s\n%s", label, cr.id, cr.op, cr.panicMsg, cr.panicStack)
			ok = false
		}
	}
	return ok
}

// guarded runs one call of a sequential history in its own goroutine and
// watches for a stall: the call has not returned, every goroutine is parked in
// many consecutive dumps and no backend event was recorded in between (the
// sequential engines hold no gates and arm no timers). It returns the dump of
// a proven stall ("" otherwise) and the recovered panic, if any.
func guarded(e *env, f func()) (stallDump, panicMsg, panicStack string) {
	done := make(chan struct{})
	go func() {
		defer close(done)
		defer func() {
			if p := recover(); p != nil {
				panicMsg = fmt.Sprint(p)
				panicStack = string(debug.Stack())
			}
		}()
		f()
	}()
	t := time.NewTimer(20 * time.Millisecond)
	defer t.Stop()
	select {
	case <-done:
		return
	case <-t.C:
	}
	quiet := 0
	last := int64(-1)
	for {
		select {
		case <-done:
			return
		case <-time.After(3 * time.Millisecond):
		}
		p := e.progress.Load()
		d, blocked := allBlocked()
		if blocked && p == last {
			quiet++
		} else {
			quiet = 0
		}
		last = p
		if quiet >= 100 {
			select {
			case <-done:
				return
			default:
			}
			return d, "", ""
		}
	}
}

// seqCall is guarded plus the reporting shared by the sequential engines; it
// returns false if the history cannot be continued.
func seqCall(c *run.Case, e *env, cancel context.CancelFunc, label string, f func()) bool {
	dump, pm, ps := guarded(e, f)
	if dump != "" {
		if cancel != nil {
			defer cancel() // lets context-aware waits of the abandoned call exit
		}
		c.Violation("stall:"+stallSite(dump), "%s never returned: every goroutine is parked in consecutive dumps, no gate is held, no timer is armed\n%s", label, dump)
		return false
	}
	if pm != "" {
		c.Violation("panic:"+panicSiteOf(ps), "%s panicked: %s\n%s", label, pm, ps)
		return false
	}
	return true
}
