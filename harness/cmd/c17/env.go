package main

import (
	"context"
	"fmt"
	"hash/fnv"
	"regexp"
	"runtime"
	"sort"
	"strings"
	"sync"
	"sync/atomic"
	"time"

	remoteexecution "github.com/bazelbuild/remote-apis/build/bazel/remote/execution/v2"
	"github.com/buildbarn/bb-storage/pkg/blobstore/buffer"
	"github.com/buildbarn/bb-storage/pkg/blobstore/replication"
	"github.com/buildbarn/bb-storage/pkg/blobstore/slicing"
	"github.com/buildbarn/bb-storage/pkg/digest"
	"google.golang.org/grpc/codes"
	"google.golang.org/grpc/status"

	"verif/lib/model"
	"verif/lib/run"
)

// ---------------------------------------------------------------------------
// Caller identity travels in the context: the code under test hands the
// caller's context to every backend / base-replicator call it makes on the
// caller's behalf (also from WithTask goroutines).

type callerKeyT struct{}

func withCaller(ctx context.Context, id int) context.Context {
	return context.WithValue(ctx, callerKeyT{}, id)
}

func callerOf(ctx context.Context) int {
	if v, ok := ctx.Value(callerKeyT{}).(int); ok {
		return v
	}
	return -1
}

// Injected faults never use NOT_FOUND (that is a legitimate answer, it would
// contradict the placement the oracle reasons about) nor CANCELLED (reserved
// for real context cancellations).
var faultCodes = []codes.Code{codes.Unavailable, codes.Internal, codes.DeadlineExceeded, codes.ResourceExhausted}

func hash64(seed uint64, s string, n int) uint64 {
	h := fnv.New64a()
	fmt.Fprintf(h, "%d|%s|%d", seed, s, n)
	z := h.Sum64()
	z = (z ^ (z >> 30)) * 0xbf58476d1ce4e5b9
	z = (z ^ (z >> 27)) * 0x94d049bb133111eb
	return z ^ (z >> 31)
}

// ---------------------------------------------------------------------------
// Gates: a backend / base-replicator call parks here until the scenario driver
// releases it. Gates are deliberately NOT context-aware, so that the driver
// alone decides the order of events.

type gateWaiter struct {
	id     string
	caller int
	site   string
	ch     chan struct{}
}

type sched struct {
	mu      sync.Mutex
	waiting map[string]*gateWaiter
	open    bool
	gated   map[string]bool // gated sites; nil = every site
	events  atomic.Int64
}

func newSched(gated map[string]bool) *sched {
	return &sched{waiting: map[string]*gateWaiter{}, gated: gated}
}

func (s *sched) wait(caller int, site, id string) {
	s.mu.Lock()
	if s.open || (s.gated != nil && !s.gated[site]) {
		s.mu.Unlock()
		return
	}
	w := &gateWaiter{id: id, caller: caller, site: site, ch: make(chan struct{})}
	s.waiting[id] = w
	s.mu.Unlock()
	s.events.Add(1)
	<-w.ch
	s.events.Add(1)
}

func (s *sched) list() []*gateWaiter {
	s.mu.Lock()
	defer s.mu.Unlock()
	out := make([]*gateWaiter, 0, len(s.waiting))
	for _, w := range s.waiting {
		out = append(out, w)
	}
	sort.Slice(out, func(i, j int) bool { return out[i].id < out[j].id })
	return out
}

func (s *sched) release(w *gateWaiter) {
	s.mu.Lock()
	delete(s.waiting, w.id)
	s.mu.Unlock()
	s.events.Add(1)
	close(w.ch)
}

func (s *sched) openAll() {
	s.mu.Lock()
	s.open = true
	ws := s.waiting
	s.waiting = map[string]*gateWaiter{}
	s.mu.Unlock()
	s.events.Add(1)
	for _, w := range ws {
		close(w.ch)
	}
}

func (s *sched) atGate(caller int) bool {
	s.mu.Lock()
	defer s.mu.Unlock()
	for _, w := range s.waiting {
		if w.caller == caller {
			return true
		}
	}
	return false
}

// blockedStates mirrors lib/run's list of parked goroutine states.
var blockedStates = regexp.MustCompile(`^goroutine \d+ \[(chan receive|chan send|select|semacquire|sync\.Mutex\.Lock|sync\.RWMutex\.R?Lock|sync\.Cond\.Wait|sync\.WaitGroup\.Wait|select \(no cases\)|chan receive \(nil chan\)|sleep|IO wait|GC [a-z ]+|finalizer wait|force gc \(idle\)|debug call|cleanup wait|trace reader \(blocked\)|syscall)(, \d+ minutes)?(, locked to thread)?\]:`)

var dumpBuf = make([]byte, 1<<16)

// allBlocked is run.AllBlocked with a reused buffer: run.AllBlocked allocates
// 4 MiB per call, which under -race dominated the run time (thousands of
// settle polls per second). Only the scenario driver calls it.
func allBlocked() (string, bool) {
	var n int
	for {
		n = runtime.Stack(dumpBuf, true)
		if n < len(dumpBuf) {
			break
		}
		dumpBuf = make([]byte, 2*len(dumpBuf))
	}
	dump := string(dumpBuf[:n])
	first := true
	rest := dump
	for len(rest) > 0 {
		g := rest
		if i := strings.Index(rest, "\n\n"); i >= 0 {
			g, rest = rest[:i], rest[i+2:]
		} else {
			rest = ""
		}
		if first { // the caller
			first = false
			continue
		}
		if !strings.HasPrefix(g, "goroutine ") {
			continue
		}
		line := g
		if i := strings.IndexByte(g, '\n'); i >= 0 {
			line = g[:i]
		}
		if !blockedStates.MatchString(line) {
			return dump, false
		}
	}
	return dump, true
}

// settle is DESIGN.md §3.6: poll the goroutine dump until every goroutine
// other than the caller is parked in two consecutive dumps with an unchanged
// harness event counter. The wall clock only decides when to look again.
func (s *sched) settle() string {
	for i := 0; ; i++ {
		e := s.events.Load()
		if _, b1 := allBlocked(); b1 {
			if d2, b2 := allBlocked(); b2 && s.events.Load() == e {
				return d2
			}
		}
		if i < 50 {
			runtime.Gosched()
		} else {
			time.Sleep(20 * time.Microsecond)
		}
	}
}

// dumpInfo classifies the parked goroutines of a settled dump.
type dumpInfo struct {
	atGate   int
	inDedup  int // waiting for another caller's replication of the same blob
	inSem    int // waiting for the concurrency-limiting semaphore
	inQueued int // waiting for the queued replicator's hand-off token
	inBuffer int // parked in the buffer layer (multiplexed clone, background task)
	sites    []string
}

var sutFrameRe = regexp.MustCompile(`(?m)^(github\.com/buildbarn/bb-storage/[^\s(]+(?:\([^)]*\))?[^\s(]*)\(`)

func analyseDump(dump string) dumpInfo {
	var di dumpInfo
	seen := map[string]bool{}
	for i, g := range strings.Split(dump, "\n\n") {
		if i == 0 || !strings.HasPrefix(g, "goroutine ") {
			continue
		}
		if strings.Contains(g, "main.(*sched).wait") {
			di.atGate++
			continue
		}
		m := sutFrameRe.FindStringSubmatch(g)
		if m == nil {
			continue
		}
		site := strings.TrimPrefix(m[1], "github.com/buildbarn/bb-storage/")
		switch {
		case strings.Contains(site, "deduplicatingBlobReplicator).ReplicateMultiple"):
			di.inDedup++
		case strings.Contains(site, "util.AcquireSemaphore"):
			di.inSem++
		case strings.Contains(site, "queuedBlobReplicator).ReplicateMultiple"):
			di.inQueued++
		case strings.Contains(site, "/buffer."):
			di.inBuffer++
		}
		if !seen[site] {
			seen[site] = true
			di.sites = append(di.sites, site)
		}
	}
	sort.Strings(di.sites)
	return di
}

// ---------------------------------------------------------------------------
// Scenario environment: logical-time event log, fault plan, caller registry.

type event struct {
	caller   int
	store    string
	op       string
	keys     []string // keys in the store's key format
	present  []bool   // FindMissing: per key, reported present
	start    int64
	end      int64
	vtime    time.Time // virtual time at which the backend answered
	res      string    // "ok", "notfound", "err:<code>"
	injected bool
}

type env struct {
	c   *run.Case
	clk *vclock
	sch *sched // nil: nothing is gated

	seed      uint64
	faultPct  int // probability (percent) that a backend / base call fails
	cancelPct int // probability (percent) that a backend call first cancels its caller's context
	streamPct int // probability (percent) that a stream-backed Get fails in mid-stream

	mu         sync.Mutex
	events     []*event
	occ        map[string]int
	cancels    map[int]context.CancelFunc
	injected   map[int]int  // caller -> faults injected into its calls
	cancelled  map[int]bool // caller -> its context was cancelled
	trackers   []*model.Tracker
	totalFault int

	progress atomic.Int64 // bumped at every backend event (free-running stall detector)
}

func newEnv(c *run.Case, clk *vclock) *env {
	return &env{c: c, clk: clk, occ: map[string]int{}, cancels: map[int]context.CancelFunc{}, injected: map[int]int{}, cancelled: map[int]bool{}}
}

func (e *env) register(caller int, cancel context.CancelFunc) {
	e.mu.Lock()
	e.cancels[caller] = cancel
	e.mu.Unlock()
}

// cancel cancels a caller's context (driver action or fault plan).
func (e *env) cancel(caller int) {
	e.mu.Lock()
	f := e.cancels[caller]
	e.cancelled[caller] = true
	e.mu.Unlock()
	if f != nil {
		f()
	}
}

func (e *env) faultsOf(caller int) (int, bool) {
	e.mu.Lock()
	defer e.mu.Unlock()
	return e.injected[caller], e.cancelled[caller]
}

func (e *env) anyDisturbance() bool {
	e.mu.Lock()
	defer e.mu.Unlock()
	return e.totalFault > 0 || len(e.cancelled) > 0
}

// arrive is called at the start of every backend / base-replicator call: it
// parks at the gate (when gated) and then consults the fault plan, which is a
// pure function of (scenario seed, caller, site, key, occurrence) and hence
// independent of the schedule.
func (e *env) arrive(ctx context.Context, site, key string, mayFail bool) error {
	caller := callerOf(ctx)
	k := fmt.Sprintf("c%03d|%s|%s", caller, site, key)
	e.progress.Add(1)
	e.mu.Lock()
	n := e.occ[k]
	e.occ[k]++
	e.mu.Unlock()
	if e.sch != nil {
		e.sch.wait(caller, site, fmt.Sprintf("%s#%d", k, n))
	}
	if !mayFail {
		return nil
	}
	h := hash64(e.seed, k, n)
	if int(h%100) < e.faultPct {
		code := faultCodes[int((h>>8)%uint64(len(faultCodes)))]
		e.mu.Lock()
		e.injected[caller]++
		e.totalFault++
		e.mu.Unlock()
		e.c.Logf("  fault: %s key=%s caller=%d -> %v", site, key, caller, code)
		return status.Errorf(code, "injected fault at %s", site)
	}
	if int((h>>24)%100) < e.cancelPct {
		e.c.Logf("  cancel: context of caller %d cancelled at %s key=%s", caller, site, key)
		e.cancel(caller)
	}
	return nil
}

func (e *env) addEvent(ev *event) {
	e.progress.Add(1)
	e.mu.Lock()
	e.events = append(e.events, ev)
	e.mu.Unlock()
}

func (e *env) snapshotEvents() []*event {
	e.mu.Lock()
	defer e.mu.Unlock()
	return append([]*event(nil), e.events...)
}

func (e *env) eventCount() int {
	e.mu.Lock()
	defer e.mu.Unlock()
	return len(e.events)
}

func errRes(err error) string {
	if err == nil {
		return "ok"
	}
	if status.Code(err) == codes.NotFound {
		return "notfound"
	}
	return "err:" + status.Code(err).String()
}

func shortDigest(d digest.Digest) string {
	h := d.GetHashString()
	if len(h) > 6 {
		h = h[:6]
	}
	return d.GetInstanceName().String() + "/" + h
}

// ---------------------------------------------------------------------------
// gstore: gate + fault plan + event log in front of a recording model.Store.
// With stream set, Get hands out stream-backed CAS buffers (so that
// CloneStream / WithTask really run concurrently), optionally failing in
// mid-stream.

type gstore struct {
	name   string
	inner  *model.Store
	env    *env
	stream bool
}

func newGStore(e *env, name string, kf digest.KeyFormat, stream bool) *gstore {
	return &gstore{name: name, inner: model.NewStore(name, kf), env: e, stream: stream}
}

func (s *gstore) key(d digest.Digest) string { return d.GetKey(s.inner.KeyFormat) }

func (s *gstore) begin(ctx context.Context, op string, ds ...digest.Digest) *event {
	ev := &event{caller: callerOf(ctx), store: s.name, op: op, start: model.Tick()}
	for _, d := range ds {
		ev.keys = append(ev.keys, s.key(d))
	}
	return ev
}

func (s *gstore) finish(ev *event, err error, injected bool) {
	ev.res = errRes(err)
	ev.injected = injected
	ev.vtime = s.env.clk.peek()
	ev.end = model.Tick()
	s.env.addEvent(ev)
}

func (s *gstore) GetCapabilities(ctx context.Context, instanceName digest.InstanceName) (*remoteexecution.ServerCapabilities, error) {
	return s.inner.GetCapabilities(ctx, instanceName)
}

func (s *gstore) Get(ctx context.Context, d digest.Digest) buffer.Buffer {
	ev := s.begin(ctx, "Get", d)
	if err := s.env.arrive(ctx, s.name+".Get", shortDigest(d), true); err != nil {
		s.finish(ev, err, true)
		return buffer.NewBufferFromError(err)
	}
	data, err := s.inner.Get(ctx, d).ToByteSlice(1 << 24)
	s.finish(ev, err, false)
	if err != nil {
		return buffer.NewBufferFromError(err)
	}
	src := buffer.BackendProvided(buffer.Irreparable(d))
	if !s.stream {
		return buffer.NewCASBufferFromByteSlice(d, data, src)
	}
	h := hash64(s.env.seed, "stream|"+s.name+"|"+shortDigest(d), 0)
	spec := model.SourceSpec{Data: data}
	if n := len(data); n > 0 {
		// deterministic chunking from the hash
		c := int(h%7) + 1
		for left := n; left > 0; {
			k := c
			if k > left {
				k = left
			}
			spec.Chunks = append(spec.Chunks, k)
			left -= k
			c = c*2 + 1
		}
	}
	if int((h>>16)%100) < s.env.streamPct && len(data) > 1 {
		caller := callerOf(ctx)
		// Decide per (caller, store, digest) so that a retry by another
		// caller is not doomed as well.
		h2 := hash64(s.env.seed, fmt.Sprintf("streamfail|%d|%s|%s", caller, s.name, shortDigest(d)), 0)
		if h2%2 == 0 {
			spec.FailAt = int(h2>>8) % len(data)
			spec.FailErr = status.Errorf(codes.Unavailable, "injected mid-stream fault in %s.Get", s.name)
			s.env.mu.Lock()
			s.env.injected[caller]++
			s.env.totalFault++
			s.env.mu.Unlock()
			s.env.c.Logf("  fault: %s.Get key=%s caller=%d fails in mid-stream at %d", s.name, shortDigest(d), caller, spec.FailAt)
		}
	}
	b, tr := model.NewTrackedCASBuffer(d, spec, src)
	s.env.mu.Lock()
	s.env.trackers = append(s.env.trackers, tr)
	s.env.mu.Unlock()
	return b
}

func (s *gstore) GetFromComposite(ctx context.Context, parent, child digest.Digest, slicer slicing.BlobSlicer) buffer.Buffer {
	ev := s.begin(ctx, "GetFromComposite", parent)
	if err := s.env.arrive(ctx, s.name+".GetFromComposite", shortDigest(parent), true); err != nil {
		s.finish(ev, err, true)
		return buffer.NewBufferFromError(err)
	}
	if err := ctx.Err(); err != nil {
		e := status.FromContextError(err).Err()
		s.finish(ev, e, false)
		return buffer.NewBufferFromError(e)
	}
	data, err := s.inner.GetFromComposite(ctx, parent, child, slicer).ToByteSlice(1 << 24)
	s.finish(ev, err, false)
	if err != nil {
		return buffer.NewBufferFromError(err)
	}
	return buffer.NewCASBufferFromByteSlice(child, data, buffer.BackendProvided(buffer.Irreparable(child)))
}

func (s *gstore) Put(ctx context.Context, d digest.Digest, b buffer.Buffer) error {
	ev := s.begin(ctx, "Put", d)
	if err := s.env.arrive(ctx, s.name+".Put", shortDigest(d), true); err != nil {
		b.Discard()
		s.finish(ev, err, true)
		return err
	}
	err := s.inner.Put(ctx, d, b)
	s.finish(ev, err, false)
	return err
}

func (s *gstore) FindMissing(ctx context.Context, digests digest.Set) (digest.Set, error) {
	items := digests.Items()
	ev := s.begin(ctx, "FindMissing", items...)
	var parts []string
	for _, d := range items {
		parts = append(parts, shortDigest(d))
	}
	if err := s.env.arrive(ctx, s.name+".FindMissing", strings.Join(parts, ","), true); err != nil {
		s.finish(ev, err, true)
		return digest.EmptySet, err
	}
	missing, err := s.inner.FindMissing(ctx, digests)
	if err == nil {
		mk := map[string]bool{}
		for _, d := range missing.Items() {
			mk[s.key(d)] = true
		}
		for _, k := range ev.keys {
			ev.present = append(ev.present, !mk[k])
		}
	}
	s.finish(ev, err, false)
	return missing, err
}

// ---------------------------------------------------------------------------
// recRepl: recording BlobReplicator placed directly below a decorator under
// test. It counts concurrently executing ReplicateMultiple calls per object
// key and in total: the monitored quantity of the concurrency clauses.

type replCall struct {
	caller int
	keys   []string
	start  int64
	end    int64
	vEnd   time.Time
	err    error
}

type recRepl struct {
	name  string
	inner replication.BlobReplicator
	env   *env
	kf    digest.KeyFormat
	yield int

	mu       sync.Mutex
	perKey   map[string]int
	maxKey   int
	total    int
	maxTotal int
	calls    []*replCall
}

func newRecRepl(e *env, name string, inner replication.BlobReplicator, kf digest.KeyFormat, yield int) *recRepl {
	return &recRepl{name: name, inner: inner, env: e, kf: kf, yield: yield, perKey: map[string]int{}}
}

func (r *recRepl) ReplicateSingle(ctx context.Context, d digest.Digest) buffer.Buffer {
	return r.inner.ReplicateSingle(ctx, d)
}

func (r *recRepl) ReplicateComposite(ctx context.Context, parent, child digest.Digest, slicer slicing.BlobSlicer) buffer.Buffer {
	return r.inner.ReplicateComposite(ctx, parent, child, slicer)
}

func (r *recRepl) ReplicateMultiple(ctx context.Context, digests digest.Set) error {
	call := &replCall{caller: callerOf(ctx), start: model.Tick()}
	var parts []string
	for _, d := range digests.Items() {
		call.keys = append(call.keys, d.GetKey(r.kf))
		parts = append(parts, shortDigest(d))
	}
	r.mu.Lock()
	r.total++
	if r.total > r.maxTotal {
		r.maxTotal = r.total
	}
	for _, k := range call.keys {
		r.perKey[k]++
		if r.perKey[k] > r.maxKey {
			r.maxKey = r.perKey[k]
		}
	}
	r.mu.Unlock()
	err := r.env.arrive(ctx, r.name+".ReplicateMultiple", strings.Join(parts, ","), true)
	if err == nil {
		for i := 0; i < r.yield; i++ {
			runtime.Gosched()
		}
		err = r.inner.ReplicateMultiple(ctx, digests)
	}
	r.mu.Lock()
	r.total--
	for _, k := range call.keys {
		r.perKey[k]--
	}
	call.err = err
	call.vEnd = r.env.clk.peek()
	call.end = model.Tick()
	r.calls = append(r.calls, call)
	r.mu.Unlock()
	return err
}

func (r *recRepl) stats() (maxKey, maxTotal int, calls []*replCall) {
	r.mu.Lock()
	defer r.mu.Unlock()
	return r.maxKey, r.maxTotal, append([]*replCall(nil), r.calls...)
}

// prefixSlicer: the child object is the first child.size bytes of the parent.
type prefixSlicer struct{}

func (prefixSlicer) Slice(b buffer.Buffer, child digest.Digest) (buffer.Buffer, []slicing.BlobSlice) {
	data, err := b.ToByteSlice(1 << 24)
	if err != nil {
		return buffer.NewBufferFromError(err), nil
	}
	n := child.GetSizeBytes()
	if n > int64(len(data)) {
		return buffer.NewBufferFromError(status.Error(codes.NotFound, "slicer: child larger than parent")), nil
	}
	return buffer.NewCASBufferFromByteSlice(child, data[:n], buffer.UserProvided), []slicing.BlobSlice{{Digest: child, OffsetBytes: 0, SizeBytes: n}}
}
