package main

import (
	"context"
	"sort"
	"sync"
	"time"

	"github.com/buildbarn/bb-storage/pkg/clock"
)

// vclock is a virtual clock.Clock: Now() moves only when the harness calls
// Advance. Timers, tickers and timeout contexts fire from Advance, in order of
// their deadlines. (lib/sim is still under construction; this is the small
// subset C17 needs. The existence caches only ever call Now().)
type vclock struct {
	mu     sync.Mutex
	now    time.Time
	timers []*vtimer
	reads  int64
}

type vtimer struct {
	c       *vclock
	at      time.Time
	period  time.Duration // >0: ticker
	ch      chan time.Time
	fire    func() // timeout contexts
	stopped bool
}

var _ clock.Clock = (*vclock)(nil)

func newVClock() *vclock { return &vclock{now: time.Unix(1_700_000_000, 0).UTC()} }

func (c *vclock) Now() time.Time {
	c.mu.Lock()
	defer c.mu.Unlock()
	c.reads++
	return c.now
}

// Reads returns how often the code under test consulted the clock.
func (c *vclock) Reads() int64 {
	c.mu.Lock()
	defer c.mu.Unlock()
	return c.reads
}

// peek is Now() for the harness (does not count as a read by the SUT).
func (c *vclock) peek() time.Time {
	c.mu.Lock()
	defer c.mu.Unlock()
	return c.now
}

// Pending is the number of armed timers.
func (c *vclock) Pending() int {
	c.mu.Lock()
	defer c.mu.Unlock()
	n := 0
	for _, t := range c.timers {
		if !t.stopped {
			n++
		}
	}
	return n
}

// Advance moves the clock forward and fires everything that became due.
func (c *vclock) Advance(d time.Duration) {
	c.mu.Lock()
	target := c.now.Add(d)
	for {
		sort.SliceStable(c.timers, func(i, j int) bool { return c.timers[i].at.Before(c.timers[j].at) })
		var due *vtimer
		rest := c.timers[:0]
		for _, t := range c.timers {
			if t.stopped {
				continue
			}
			if due == nil && !t.at.After(target) {
				due = t
				continue
			}
			rest = append(rest, t)
		}
		c.timers = rest
		if due == nil {
			break
		}
		if due.at.After(c.now) {
			c.now = due.at
		}
		if due.fire != nil {
			f := due.fire
			c.mu.Unlock()
			f()
			c.mu.Lock()
		} else {
			select {
			case due.ch <- c.now:
			default:
			}
		}
		if due.period > 0 {
			due.at = due.at.Add(due.period)
			c.timers = append(c.timers, due)
		}
	}
	c.now = target
	c.mu.Unlock()
}

func (t *vtimer) stop() bool {
	t.c.mu.Lock()
	defer t.c.mu.Unlock()
	was := !t.stopped
	t.stopped = true
	return was
}

type vTimerHandle struct{ t *vtimer }

func (h vTimerHandle) Stop() bool { return h.t.stop() }

type vTickerHandle struct{ t *vtimer }

func (h vTickerHandle) Stop() { h.t.stop() }

func (c *vclock) NewTimer(d time.Duration) (clock.Timer, <-chan time.Time) {
	c.mu.Lock()
	defer c.mu.Unlock()
	t := &vtimer{c: c, at: c.now.Add(d), ch: make(chan time.Time, 1)}
	if d <= 0 {
		t.ch <- c.now
		t.stopped = true
		return vTimerHandle{t}, t.ch
	}
	c.timers = append(c.timers, t)
	return vTimerHandle{t}, t.ch
}

func (c *vclock) NewTicker(d time.Duration) (clock.Ticker, <-chan time.Time) {
	if d <= 0 {
		panic("vclock: non-positive ticker interval")
	}
	c.mu.Lock()
	defer c.mu.Unlock()
	t := &vtimer{c: c, at: c.now.Add(d), period: d, ch: make(chan time.Time, 1)}
	c.timers = append(c.timers, t)
	return vTickerHandle{t}, t.ch
}

type vTimeoutCtx struct {
	context.Context
	deadline time.Time
	mu       sync.Mutex
	timedOut bool
}

func (x *vTimeoutCtx) Deadline() (time.Time, bool) { return x.deadline, true }

func (x *vTimeoutCtx) Err() error {
	x.mu.Lock()
	to := x.timedOut
	x.mu.Unlock()
	if err := x.Context.Err(); err != nil {
		if to {
			return context.DeadlineExceeded
		}
		return err
	}
	return nil
}

func (c *vclock) NewContextWithTimeout(parent context.Context, timeout time.Duration) (context.Context, context.CancelFunc) {
	inner, cancel := context.WithCancel(parent)
	c.mu.Lock()
	x := &vTimeoutCtx{Context: inner, deadline: c.now.Add(timeout)}
	t := &vtimer{c: c, at: x.deadline}
	t.fire = func() {
		x.mu.Lock()
		x.timedOut = true
		x.mu.Unlock()
		cancel()
	}
	if timeout <= 0 {
		c.mu.Unlock()
		t.fire()
		return x, cancel
	}
	c.timers = append(c.timers, t)
	c.mu.Unlock()
	return x, func() { t.stop(); cancel() }
}
