package main

import (
	"fmt"
	"strings"
	"time"

	"github.com/buildbarn/bb-storage/pkg/blobstore/replication"
	"github.com/buildbarn/bb-storage/pkg/digest"
	"github.com/buildbarn/bb-storage/pkg/eviction"
	"golang.org/x/sync/semaphore"

	"verif/lib/gen"
	"verif/lib/run"
)

// A replicator stack is built bottom-up from the REAL constructors:
// local|noop  <- rec0 <- layer0 <- rec1 <- layer1 ...; recN is the recording
// replicator directly below layerN, where layerN's concurrency clause is
// observed.

type layerSpec struct {
	kind   string // "dedup", "climit", "queued"
	limit  int64
	ecSize int
	ecDur  time.Duration
	rec    *recRepl
}

type stackSpec struct {
	bottom string // "local" (copying) or "noop"
	layers []*layerSpec
}

func (s *stackSpec) String() string {
	out := s.bottom
	for _, l := range s.layers {
		switch l.kind {
		case "climit":
			out = fmt.Sprintf("climit%d(%s)", l.limit, out)
		case "queued":
			out = fmt.Sprintf("queued[size=%d,dur=%v](%s)", l.ecSize, l.ecDur, out)
		default:
			out = fmt.Sprintf("%s(%s)", l.kind, out)
		}
	}
	return out
}

func (s *stackSpec) kinds() string {
	var k []string
	for _, l := range s.layers {
		k = append(k, l.kind)
	}
	return s.bottom + "+" + strings.Join(k, "+")
}

func (s *stackSpec) copying() bool { return s.bottom == "local" }

func (s *stackSpec) queued() *layerSpec {
	for _, l := range s.layers {
		if l.kind == "queued" {
			return l
		}
	}
	return nil
}

func (s *stackSpec) has(kind string) bool {
	for _, l := range s.layers {
		if l.kind == kind {
			return true
		}
	}
	return false
}

var cacheDurations = []time.Duration{1, 2, 10, 1000, time.Second, time.Minute}

func genStack(r *gen.Rng, minLayers, maxLayers int, allowNoop bool) *stackSpec {
	s := &stackSpec{bottom: "local"}
	if allowNoop && r.Chance(1, 7) {
		s.bottom = "noop"
	}
	n := r.Range(minLayers, maxLayers)
	if s.bottom == "noop" {
		// The no-op replicator is only meaningful directly under a
		// composite: under a decorator that reads back from the sink it
		// is a misconfiguration ("Blob absent from sink after
		// replication").
		n = 0
	}
	kinds := []string{"dedup", "climit", "queued"}
	p := r.Perm(len(kinds))
	for i := 0; i < n && i < len(kinds); i++ {
		l := &layerSpec{kind: kinds[p[i]]}
		switch l.kind {
		case "climit":
			l.limit = int64(r.Range(1, 3))
		case "queued":
			l.ecSize = r.Range(1, 4)
			l.ecDur = cacheDurations[r.Intn(len(cacheDurations))]
		}
		s.layers = append(s.layers, l)
	}
	return s
}

func (s *stackSpec) build(e *env, source, sink *gstore, kf digest.KeyFormat, yield int) replication.BlobReplicator {
	var cur replication.BlobReplicator
	if s.bottom == "noop" {
		cur = replication.NewNoopBlobReplicator(source)
	} else {
		cur = replication.NewLocalBlobReplicator(source, sink)
	}
	for i, l := range s.layers {
		l.rec = newRecRepl(e, fmt.Sprintf("rec%d", i), cur, kf, yield)
		switch l.kind {
		case "dedup":
			cur = replication.NewDeduplicatingBlobReplicator(l.rec, sink, kf)
		case "climit":
			cur = replication.NewConcurrencyLimitingBlobReplicator(l.rec, sink, semaphore.NewWeighted(l.limit))
		case "queued":
			cur = replication.NewQueuedBlobReplicator(source, l.rec, digest.NewExistenceCache(e.clk, kf, l.ecSize, l.ecDur, eviction.NewLRUSet[string]()))
		}
	}
	return cur
}

// gateSites lists the sites of this stack at which a scenario may park calls.
func (s *stackSpec) gateSites() []string {
	out := []string{"source.Get", "sink.Put", "sink.FindMissing", "sink.Get"}
	for i := range s.layers {
		out = append(out, fmt.Sprintf("rec%d.ReplicateMultiple", i))
	}
	return out
}

// checkBounds is the concurrency clause: "Replicator decorators never run more
// than one concurrent copy of the same object (deduplicating) or more copies
// than configured (concurrency-limiting, queued)".
func (s *stackSpec) checkBounds(c *run.Case, w *run.Worker) {
	for _, l := range s.layers {
		mk, mt, calls := l.rec.stats()
		w.Count("base_copies_"+l.kind, int64(len(calls)))
		switch l.kind {
		case "dedup":
			w.Max("max_dedup_copies_per_object", int64(mk))
			if mk > 1 {
				c.Violation("deduplicatingBlobReplicator.ReplicateMultiple:concurrent-copies-of-one-object",
					"the deduplicating replicator of %v had %d base copies of the same object in flight at once", s, mk)
			}
		case "climit":
			w.Max("max_climit_copies", int64(mt))
			if int64(mt) == l.limit {
				w.Count("climit_saturated", 1)
			}
			if int64(mt) > l.limit {
				c.Violation("concurrencyLimitingBlobReplicator.ReplicateMultiple:more-copies-than-configured",
					"the concurrency-limiting replicator of %v (limit %d) had %d base copies in flight at once", s, l.limit, mt)
			}
		case "queued":
			w.Max("max_queued_copies", int64(mt))
			if mt > 1 {
				c.Violation("queuedBlobReplicator.ReplicateMultiple:concurrent-copies",
					"the queued replicator of %v had %d base copies in flight at once", s, mt)
			}
		}
	}
}
