package main

import (
	"fmt"
	"strings"

	remoteexecution "github.com/bazelbuild/remote-apis/build/bazel/remote/execution/v2"
	"github.com/buildbarn/bb-storage/pkg/digest"

	"verif/lib/gen"
	"verif/lib/run"
)

// Histories: CAS buffers created through the read-buffer factory stack of a
// store with a data integrity validation cache
// (blobstore.NewValidationCachingReadBufferFactory on top of
// blobstore.CASReadBufferFactory). The factory remembers digests whose content
// was positively validated and hands out unvalidated buffers for them while
// the entry lives. The unit explored is therefore not one read but a sequence
// of reads through one factory: 1-2 objects (digests), 2-5 attempts, each with
// its own stored content (the medium may be corrupted or repaired between
// reads), constructor, delivery and consumer, with a cache of 1-4 entries.
//
// Oracle gate. The statement: "the consumer observes successful completion
// only if the complete content has exactly the size and hash stated by the
// digest [...] and the integrity callback never receives a positive verdict for
// mismatching content". The only licence to skip validation is a positive
// verdict, and a positive verdict is only ever legitimate for matching
// content. So every attempt on a digest for which the integrity callbacks of
// the earlier attempts of this history have NOT delivered a positive verdict
// is held to the complete single-read oracle (evaluate). Once a positive
// verdict for the digest has been observed, later reads of that digest are by
// design not validated for the cache's lifetime: they are executed (they may
// change the cache) but nothing is asserted about them - not even when their
// content mismatches (counter history_unasserted_after_positive).
//
// The gate reads the earlier attempts' verdict counters AFTER the current
// attempt was consumed, so a verdict that could have reached the cache before
// this attempt's buffer was created has certainly been counted.

type histObject struct {
	fn   remoteexecution.DigestFunction_Value
	size int
	good []byte
	// lie: the digest states the hash of this content but another size; no
	// content matches such a digest, every attempt stores lie.content.
	lie *scenario
	// last: the content variant of the previous attempt (the stored copy
	// usually stays what it was).
	last      *scenario
	bystander bool
	kinds     []string
}

type histAttempt struct {
	obj  int
	sc   *scenario
	cons *consumer
}

type history struct {
	cacheSize int
	kf        digest.KeyFormat
	objects   []*histObject
	attempts  []histAttempt
}

func (h *history) String() string {
	var sb strings.Builder
	fmt.Fprintf(&sb, "history cache=%d keyformat=%d objects=%d:", h.cacheSize, h.kf, len(h.objects))
	for i, a := range h.attempts {
		fmt.Fprintf(&sb, " #%d obj%d %v | %v;", i, a.obj, a.sc, a.cons)
	}
	return sb.String()
}

func genHistObject(r *gen.Rng, bystander bool) *histObject {
	o := &histObject{bystander: bystander}
	o.fn = gen.AllFunctions[r.Intn(len(gen.AllFunctions))]
	o.size = genSize(r)
	if o.size > 5000 {
		o.size = r.Range(1000, 5000) // histories multiply the cost; large blobs are the random engine's
	}
	o.good = genGood(r, o.size)
	if !bystander && sizeLiePossible(o.fn) && r.Chance(1, 6) {
		sc := &scenario{fn: o.fn, size: o.size, errPos: -1}
		sc.kind = fixKind([]string{kindSizeShort, kindSizeLong}[r.Intn(2)], o.fn, o.size)
		fillContent(r, sc, o.good)
		o.lie = sc
	}
	return o
}

// next generates the content stored for the object at its next attempt.
func (o *histObject) next(r *gen.Rng) *scenario {
	sc := &scenario{fn: o.fn, size: o.size, errPos: -1}
	switch {
	case o.lie != nil:
		sc.kind, sc.detail, sc.good, sc.content, sc.d = o.lie.kind, o.lie.detail, o.lie.good, o.lie.content, o.lie.d
	case o.last != nil && r.Chance(2, 3):
		sc.kind, sc.detail, sc.good, sc.content, sc.d = o.last.kind, o.last.detail, o.last.good, o.last.content, o.last.d
	default:
		if o.bystander {
			sc.kind = []string{kindMatch, kindMatch, kindMatch, kindMatch, kindFlip}[r.Intn(5)]
		} else {
			sc.kind = []string{kindMatch, kindFlip, kindFlip, kindTrunc, kindExtend, kindExtend}[r.Intn(6)]
		}
		sc.kind = fixKind(sc.kind, o.fn, o.size)
		fillContent(r, sc, o.good)
	}
	o.last = sc
	return sc
}

func genHistory(r *gen.Rng) *history {
	h := &history{cacheSize: r.Pick(1, 1, 2, 4), kf: digest.KeyWithoutInstance}
	if r.Bool() {
		h.kf = digest.KeyWithInstance
	}
	h.objects = append(h.objects, genHistObject(r, false))
	if r.Chance(1, 3) {
		// A second digest sharing the cache, mostly with matching content:
		// its positive validation must not exempt the first one.
		h.objects = append(h.objects, genHistObject(r, true))
	}
	n := r.Range(2, 5)
	for i := 0; i < n; i++ {
		oi := 0
		if len(h.objects) == 2 && r.Chance(2, 5) {
			oi = 1
		}
		o := h.objects[oi]
		sc := o.next(r)
		// NewBufferFromReader is never cached; it is there so that a read the
		// cache does not see sits between reads it does see.
		sc.ctor = r.Pick(ctorVCByteSlice, ctorVCByteSlice, ctorVCReaderAt, ctorVCReaderAt, ctorVCReader)
		sc.backend = true
		genDelivery(r, sc)
		sc.attempt = len(o.kinds)
		var prior []string
		for j, p := range h.objects {
			if len(p.kinds) > 0 {
				tag := "same:"
				if j != oi {
					tag = "other:"
				}
				prior = append(prior, tag+strings.Join(p.kinds, ","))
			}
		}
		sc.prior = strings.Join(prior, " ")
		o.kinds = append(o.kinds, sc.kind+"/"+ctorNames[sc.ctor])
		h.attempts = append(h.attempts, histAttempt{obj: oi, sc: sc, cons: genConsumer(r, sc.size)})
	}
	return h
}

// cacheable: the factory consults / feeds its cache for this constructor.
func cacheable(ctor int) bool { return ctor == ctorVCByteSlice || ctor == ctorVCReaderAt }

// histGate builds the oracle gate of one attempt from the verdicts of the
// earlier attempts on the same digest, and counts what the attempt covers.
func histGate(t tally, sc *scenario, earlier []*verdicts) func() bool {
	return func() bool {
		neg := false
		for _, v := range earlier {
			if v.pos.Load() > 0 {
				return false
			}
			neg = neg || v.neg.Load() > 0
		}
		t["history_attempts_asserted"]++
		if len(earlier) > 0 {
			t["reread_asserted"]++
			if neg && cacheable(sc.ctor) && !sc.matching() {
				// The situation the cache must not get wrong: the digest was
				// found corrupted before, and is read again through a
				// constructor that consults the cache.
				t["reread_mismatch_after_negative_asserted"]++
			}
		}
		return true
	}
}

func runHistory(c *run.Case, w *run.Worker, t tally, r *gen.Rng) {
	h := genHistory(r)
	c.Desc("%v", h)
	f := newVCFactory(h.cacheSize, h.kf)
	// Verdicts are kept per digest key, not per generated object: two
	// generated objects may have the same digest (e.g. both empty).
	seen := map[string][]*verdicts{}
	if len(h.objects) > 1 {
		t["history_two_digests"]++
	}
	for i := range h.attempts {
		a := &h.attempts[i]
		a.sc.factory = f
		t["fn_"+fnName(a.sc.fn)]++
		key := a.sc.d.GetKey(digest.KeyWithoutInstance)
		v := executeGated(c, w, t, a.sc, a.cons, c.Index < 1 && i < 3, histGate(t, a.sc, seen[key]))
		seen[key] = append(seen[key], v)
	}
}

// runSmallHistory is the small-scope engine's history: every consumer of the
// fixed list reads the same digest with the same stored content through one
// factory, one after the other. Once a positive verdict was delivered (only
// legitimate for matching content, and flagged by evaluate otherwise) nothing
// more would be asserted, so the history ends there.
func runSmallHistory(c *run.Case, w *run.Worker, t tally, base *scenario, list []*consumer) {
	f := newVCFactory(1, digest.KeyWithoutInstance)
	var seen []*verdicts
	for k, cons := range list {
		sc := *base
		sc.factory, sc.attempt = f, k
		if k > 0 {
			sc.prior = "same content, consumers 0.." + fmt.Sprint(k-1) + " of the list"
		}
		v := executeGated(c, w, t, &sc, cons, false, histGate(t, &sc, seen))
		seen = append(seen, v)
		if v.pos.Load() > 0 {
			t["small_history_ended_by_positive_verdict"]++
			return
		}
	}
}
