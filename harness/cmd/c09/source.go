package main

import (
	"context"
	"encoding/hex"
	"errors"
	"fmt"
	"io"
	"strings"
	"sync/atomic"
	"time"

	remoteexecution "github.com/bazelbuild/remote-apis/build/bazel/remote/execution/v2"
	"github.com/buildbarn/bb-storage/pkg/blobstore"
	"github.com/buildbarn/bb-storage/pkg/blobstore/buffer"
	"github.com/buildbarn/bb-storage/pkg/clock"
	"github.com/buildbarn/bb-storage/pkg/digest"
	"github.com/buildbarn/bb-storage/pkg/eviction"
	"google.golang.org/grpc/codes"
	"google.golang.org/grpc/status"

	"verif/lib/gen"
)

// Constructors under observation.
const (
	ctorReader      = iota // buffer.NewCASBufferFromReader
	ctorChunkReader        // buffer.NewCASBufferFromChunkReader
	ctorByteSlice          // buffer.NewCASBufferFromByteSlice
	ctorReaderAt           // blobstore.CASReadBufferFactory.NewBufferFromReaderAt
	numCtors
	// The same factory behind blobstore.NewValidationCachingReadBufferFactory
	// (what pkg/blobstore/configuration builds when a data integrity
	// validation cache is configured). These are exercised as histories: the
	// same digest is read several times through one factory (history.go).
	ctorVCByteSlice = iota - 1 // validationCaching(CAS).NewBufferFromByteSlice
	ctorVCReaderAt             // validationCaching(CAS).NewBufferFromReaderAt
	ctorVCReader               // validationCaching(CAS).NewBufferFromReader
)

var ctorNames = [...]string{"casReaderBuffer", "casChunkReaderBuffer", "casByteSliceBuffer", "casReaderAtBuffer",
	"validationCachingByteSliceBuffer", "validationCachingReaderAtBuffer", "validationCachingReaderBuffer"}

func isVCCtor(ctor int) bool { return ctor >= ctorVCByteSlice }

// Content kinds. The object's complete content C either is the content G the
// digest was computed from ("match") or differs from it in a known way.
const (
	kindMatch     = "match"
	kindFlip      = "flip"      // same size, one bit flipped           -> hash mismatch
	kindTrunc     = "trunc"     // proper prefix of G                   -> too short
	kindExtend    = "extend"    // G followed by extra bytes            -> too long
	kindSizeShort = "sizeshort" // digest = (hash(C), len(C)+k): only the size is wrong -> too short
	kindSizeLong  = "sizelong"  // digest = (hash(C), len(C)-k): only the size is wrong -> too long
)

// mismatchClass is the name of the mismatch in violation signatures.
func mismatchClass(kind string) string {
	switch kind {
	case kindFlip:
		return "hash-mismatch"
	case kindTrunc, kindSizeShort:
		return "too-short"
	case kindExtend, kindSizeLong:
		return "too-long"
	}
	return kind
}

// The source I/O errors that are injected. Pass-through is recognised by
// identity or by code + the marker text, never by the wording of bb-storage's
// own messages.
const srcErrMarker = "c09-src-io"

var ioErrs = []error{
	errors.New(srcErrMarker + ": plain error"),
	status.Error(codes.Unavailable, srcErrMarker+": unavailable"),
	status.Error(codes.Internal, srcErrMarker+": internal"),
	status.Error(codes.InvalidArgument, srcErrMarker+": invalid argument"),
	status.Error(codes.NotFound, srcErrMarker+": not found"),
	status.Error(codes.DataLoss, srcErrMarker+": data loss"),
}

func isSrcErr(err, want error) bool {
	if err == nil || want == nil {
		return false
	}
	if err == want || errors.Is(err, want) {
		return true
	}
	return status.Code(err) == status.Code(want) && strings.Contains(err.Error(), srcErrMarker)
}

// scenario = digest + object content + the way the source hands it out.
type scenario struct {
	fn     remoteexecution.DigestFunction_Value
	d      digest.Digest
	size   int    // size stated by the digest
	good   []byte // content with exactly the digest's size and hash (nil for the sizeshort/sizelong kinds)
	kind   string
	detail string // mutation detail for descriptions / distinct keys

	content []byte // C: the complete content of the object

	errPos int   // >=0: the source fails with ioErr once errPos bytes were delivered
	ioErr  error // nil: none

	chunks       []int // how the source splits the deliverable bytes (0 = empty read/chunk)
	termWithData bool  // reader / reader-at: the terminal condition (EOF or ioErr) is returned together with the last bytes

	ctor    int
	backend bool // BackendProvided (INTERNAL + integrity callback) vs UserProvided (INVALID_ARGUMENT)

	// Histories (validation caching constructors): the factory shared by the
	// attempts and this attempt's position. attempt > 0: the digest (or
	// another digest) was read through the same factory before.
	factory blobstore.ReadBufferFactory
	attempt int
	prior   string // what the earlier attempts on this digest were, for descriptions / distinct keys
}

// sigCtor is the constructor part of violation signatures. Re-reads through a
// caching factory are a failing-input class of their own.
func (sc *scenario) sigCtor() string {
	if sc.attempt > 0 {
		return ctorNames[sc.ctor] + "(reread)"
	}
	return ctorNames[sc.ctor]
}

func (sc *scenario) matching() bool { return sc.kind == kindMatch }

// avail is what the source can deliver before EOF or the injected error.
func (sc *scenario) avail() []byte {
	if sc.ioErr != nil {
		return sc.content[:sc.errPos]
	}
	return sc.content
}

func (sc *scenario) term() error {
	if sc.ioErr != nil {
		return sc.ioErr
	}
	return io.EOF
}

func (sc *scenario) expectedCode() codes.Code {
	if sc.backend {
		return codes.Internal
	}
	return codes.InvalidArgument
}

func (sc *scenario) String() string {
	src := "user"
	if sc.backend {
		src = "backend"
	}
	e := "none"
	if sc.ioErr != nil {
		e = fmt.Sprintf("%q@%d", sc.ioErr.Error(), sc.errPos)
	}
	h := ""
	if sc.attempt > 0 || sc.prior != "" {
		h = fmt.Sprintf(" attempt=%d after[%s]", sc.attempt, sc.prior)
	}
	return fmt.Sprintf("%s fn=%s size=%d kind=%s(%s) content=%s ioerr=%s chunks=%s termWithData=%v source=%s%s",
		ctorNames[sc.ctor], fnName(sc.fn), sc.size, sc.kind, sc.detail, showBytes(sc.content), e, showChunks(sc.chunks), sc.termWithData, src, h)
}

func fnName(fn remoteexecution.DigestFunction_Value) string { return fn.String() }

func showBytes(b []byte) string {
	if len(b) <= 16 {
		return fmt.Sprintf("%d:%s", len(b), hex.EncodeToString(b))
	}
	return gen.Hex8(b)
}

func showChunks(c []int) string {
	if len(c) <= 24 {
		return fmt.Sprint(c)
	}
	return fmt.Sprintf("%v…(%d chunks)", c[:24], len(c))
}

// makeDigest computes the digest of data with the declared size. Where the Go
// standard library has an independent implementation of the function it is
// used, so that a defect in bb-storage's hasher set-up (pkg/digest/bare_function.go)
// shows as "matching content rejected"; BLAKE3 and SHA256TREE use bb-storage's
// generator (third-party hashers, no independent implementation on this image).
func makeDigest(fn remoteexecution.DigestFunction_Value, data []byte, declaredSize int) digest.Digest {
	if fn == remoteexecution.DigestFunction_GITSHA1 || fn == remoteexecution.DigestFunction_SHA256TREE {
		// The hash embeds / depends on the length: a digest that lies only
		// about the size cannot be built; callers do not ask for it.
		declaredSize = len(data)
	}
	if h, ok := gen.IndependentHash(fn, data); ok {
		return digest.MustNewDigest("c09", fn, h, int64(declaredSize))
	}
	d := gen.DigestOf("c09", fn, data)
	return digest.MustNewDigest("c09", fn, d.GetHashString(), int64(declaredSize))
}

func sizeLiePossible(fn remoteexecution.DigestFunction_Value) bool {
	return fn != remoteexecution.DigestFunction_GITSHA1 && fn != remoteexecution.DigestFunction_SHA256TREE
}

// ---------------------------------------------------------------------------
// Scripted sources.

// srcState is what the monitor records about one source.
type srcState struct {
	closes          atomic.Int32
	reads           atomic.Int32
	readsAfterClose atomic.Int32
}

func (s *srcState) onRead() {
	s.reads.Add(1)
	if s.closes.Load() > 0 {
		s.readsAfterClose.Add(1)
	}
}

type scriptReader struct {
	st           *srcState
	avail        []byte
	chunks       []int
	term         error
	termWithData bool

	ci, co, pos int
	done        bool
}

func (r *scriptReader) Read(p []byte) (int, error) {
	r.st.onRead()
	if r.done {
		return 0, r.term
	}
	if len(p) == 0 {
		return 0, nil
	}
	if r.ci >= len(r.chunks) {
		r.done = true
		return 0, r.term
	}
	n := r.chunks[r.ci] - r.co
	if n > len(p) {
		n = len(p) // the consumer's buffer is smaller than this step: short read
	}
	copy(p, r.avail[r.pos:r.pos+n])
	r.pos += n
	r.co += n
	if r.co == r.chunks[r.ci] {
		r.ci++
		r.co = 0
		if r.ci == len(r.chunks) && r.termWithData {
			r.done = true
			return n, r.term // (n>0, EOF) or (n>0, I/O error) in one call
		}
	}
	return n, nil
}

func (r *scriptReader) Close() error { r.st.closes.Add(1); return nil }

type scriptChunkReader struct {
	st     *srcState
	avail  []byte
	chunks []int
	term   error
	ci     int
	pos    int
}

func (r *scriptChunkReader) Read() ([]byte, error) {
	r.st.onRead()
	if r.ci >= len(r.chunks) {
		return nil, r.term
	}
	n := r.chunks[r.ci]
	r.ci++
	c := make([]byte, n) // a fresh slice: consumers may hold on to chunks
	copy(c, r.avail[r.pos:r.pos+n])
	r.pos += n
	if n == 0 && r.ci%2 == 0 {
		return nil, nil // empty chunk as nil slice
	}
	return c, nil
}

func (r *scriptChunkReader) Close() { r.st.closes.Add(1) }

type scriptReaderAt struct {
	st           *srcState
	avail        []byte
	term         error
	termWithData bool
}

func (r *scriptReaderAt) ReadAt(p []byte, off int64) (int, error) {
	r.st.onRead()
	if off < 0 {
		// As os.File and bytes.Reader do. Unvalidated reader-at buffers pass
		// the consumer's offset straight through.
		return 0, errors.New("c09 source: negative offset")
	}
	if off >= int64(len(r.avail)) {
		return 0, r.term
	}
	n := copy(p, r.avail[off:])
	if n < len(p) {
		return n, r.term
	}
	if int(off)+n == len(r.avail) && r.termWithData {
		return n, r.term
	}
	return n, nil
}

func (r *scriptReaderAt) Close() error { r.st.closes.Add(1); return nil }

// verdicts counts the integrity callback's invocations.
type verdicts struct {
	pos, neg atomic.Int32
}

// build constructs the buffer under observation through the real, exported
// constructors.
func (sc *scenario) build() (buffer.Buffer, *srcState, *verdicts) {
	st := &srcState{}
	v := &verdicts{}
	cb := func(valid bool) {
		if valid {
			v.pos.Add(1)
		} else {
			v.neg.Add(1)
		}
	}
	src := buffer.UserProvided
	if sc.backend {
		src = buffer.BackendProvided(cb)
	}
	switch sc.ctor {
	case ctorReader:
		return buffer.NewCASBufferFromReader(sc.d, &scriptReader{st: st, avail: sc.avail(), chunks: sc.chunks, term: sc.term(), termWithData: sc.termWithData}, src), st, v
	case ctorChunkReader:
		return buffer.NewCASBufferFromChunkReader(sc.d, &scriptChunkReader{st: st, avail: sc.avail(), chunks: sc.chunks, term: sc.term()}, src), st, v
	case ctorByteSlice:
		// The slice is handed over; keep the scenario's copy intact.
		return buffer.NewCASBufferFromByteSlice(sc.d, append([]byte{}, sc.content...), src), st, v
	case ctorReaderAt:
		return blobstore.CASReadBufferFactory.NewBufferFromReaderAt(sc.d, &scriptReaderAt{st: st, avail: sc.avail(), term: sc.term(), termWithData: sc.termWithData}, int64(sc.size), cb), st, v
	}
	f := sc.factory
	if f == nil {
		f = newVCFactory(1, digest.KeyWithoutInstance)
	}
	switch sc.ctor {
	case ctorVCByteSlice:
		return f.NewBufferFromByteSlice(sc.d, append([]byte{}, sc.content...), cb), st, v
	case ctorVCReaderAt:
		return f.NewBufferFromReaderAt(sc.d, &scriptReaderAt{st: st, avail: sc.avail(), term: sc.term(), termWithData: sc.termWithData}, int64(sc.size), cb), st, v
	case ctorVCReader:
		return f.NewBufferFromReader(sc.d, &scriptReader{st: st, avail: sc.avail(), chunks: sc.chunks, term: sc.term(), termWithData: sc.termWithData}, cb), st, v
	}
	panic("c09 harness: unknown constructor")
}

// fixedClock: the existence cache behind the validation caching factory asks
// for the time; a constant keeps every entry alive for the whole history and
// keeps the wall clock out of the run.
type fixedClock struct{}

func (fixedClock) Now() time.Time { return time.Unix(1700000000, 0) }
func (fixedClock) NewContextWithTimeout(parent context.Context, timeout time.Duration) (context.Context, context.CancelFunc) {
	panic("c09 harness: fixedClock.NewContextWithTimeout is not used")
}
func (fixedClock) NewTimer(d time.Duration) (clock.Timer, <-chan time.Time) {
	panic("c09 harness: fixedClock.NewTimer is not used")
}
func (fixedClock) NewTicker(d time.Duration) (clock.Ticker, <-chan time.Time) {
	panic("c09 harness: fixedClock.NewTicker is not used")
}

// newVCFactory is the read-buffer factory stack of a store with a data
// integrity validation cache: validation caching on top of the CAS factory.
func newVCFactory(cacheSize int, kf digest.KeyFormat) blobstore.ReadBufferFactory {
	return blobstore.NewValidationCachingReadBufferFactory(
		blobstore.CASReadBufferFactory,
		digest.NewExistenceCache(fixedClock{}, kf, cacheSize, time.Hour, eviction.NewLRUSet[string]()))
}
