package main

import (
	"fmt"
	"io"
	"regexp"
	"runtime/debug"
	"strings"
	"sync/atomic"

	"github.com/buildbarn/bb-storage/pkg/blobstore/buffer"
	"google.golang.org/grpc/codes"
	"google.golang.org/grpc/status"
	"google.golang.org/protobuf/proto"
	"google.golang.org/protobuf/types/known/emptypb"
)

// Consumption methods.
const (
	opToByteSlice   = "ToByteSlice"
	opToProto       = "ToProto"
	opToReader      = "ToReader"
	opToChunkReader = "ToChunkReader"
	opReadAt        = "ReadAt"
	opIntoWriter    = "IntoWriter"
	opDiscard       = "Discard"
	opCloneCopy     = "CloneCopy"
	opCloneStream   = "CloneStream"
)

// Decorations: what bb-storage itself puts around a CAS buffer between its
// construction and the consumer (replicators and the local stores attach
// background tasks, metrics / existence-precondition layers attach error
// handlers). The statement quantifies over "however a CAS buffer is ...
// consumed": a decorated CAS buffer is still a CAS buffer and every consumption
// method of it is held to the same clauses. What the task / handler themselves
// promise (completion order, retries) is C15's / C16's business: the task here
// finishes immediately and the handler passes every error through unchanged.
const (
	wrapTask    = "WithTask"         // b.WithTask(func() error { return nil })
	wrapTaskErr = "WithTask(err)"    // b.WithTask(func() error { return errTask })
	wrapHandler = "WithErrorHandler" // buffer.WithErrorHandler(b, pass-through handler)
)

const taskErrMarker = "c09-task"

var errTask = status.Error(codes.Aborted, taskErrMarker+": background task failed")

func isTaskErr(err error) bool {
	return err != nil && status.Code(err) == codes.Aborted && strings.Contains(err.Error(), taskErrMarker)
}

// passThroughHandler is an ErrorHandler that neither translates errors nor
// supplies replacement buffers.
type passThroughHandler struct{ errors, done atomic.Int32 }

func (h *passThroughHandler) OnError(err error) (buffer.Buffer, error) {
	h.errors.Add(1)
	return nil, err
}
func (h *passThroughHandler) Done() { h.done.Add(1) }

// decorate applies the decorations, innermost first.
func decorate(b buffer.Buffer, wraps []string) buffer.Buffer {
	for _, k := range wraps {
		switch k {
		case wrapTask:
			b = b.WithTask(func() error { return nil })
		case wrapTaskErr:
			b = b.WithTask(func() error { return errTask })
		case wrapHandler:
			b = buffer.WithErrorHandler(b, &passThroughHandler{})
		default:
			panic("c09 harness: unknown decoration " + k)
		}
	}
	return b
}

// wrapPath is the decorations' part of a violation signature: the decorator
// names without arguments, repetitions collapsed ("WithTask>").
func wrapPath(wraps []string) string {
	var sb strings.Builder
	last := ""
	for _, k := range wraps {
		if k == wrapTaskErr {
			k = wrapTask
		}
		if k != last {
			sb.WriteString(k + ">")
			last = k
		}
	}
	return sb.String()
}

func hasTaskErr(wraps []string) bool {
	for _, k := range wraps {
		if k == wrapTaskErr {
			return true
		}
	}
	return false
}

// consumer describes one way of consuming a buffer; clone operations carry the
// consumers of their clones.
type consumer struct {
	wrap  []string // decorations applied to the buffer before op, innermost first
	op    string
	max   int   // ToByteSlice / ToProto / CloneCopy: maximumSizeBytes; ToChunkReader: maximumChunkSizeBytes
	off   int64 // ToChunkReader / ReadAt
	n     int   // ReadAt: len(p)
	reads []int // ToReader: read sizes, cycled (at least one is > 0)
	subs  []*consumer
}

func (c *consumer) String() string {
	if len(c.wrap) > 0 {
		cc := *c
		cc.wrap = nil
		return strings.Join(c.wrap, ">") + ">" + cc.String()
	}
	switch c.op {
	case opToByteSlice, opToProto:
		return fmt.Sprintf("%s(max=%d)", c.op, c.max)
	case opToReader:
		return fmt.Sprintf("ToReader(reads=%v)", c.reads)
	case opToChunkReader:
		return fmt.Sprintf("ToChunkReader(off=%d,max=%d)", c.off, c.max)
	case opReadAt:
		return fmt.Sprintf("ReadAt(len=%d,off=%d)", c.n, c.off)
	case opCloneCopy:
		return fmt.Sprintf("CloneCopy(max=%d)%v", c.max, c.subs)
	case opCloneStream:
		return fmt.Sprintf("CloneStream%v", c.subs)
	}
	return c.op
}

// leafObs is what one consumer observed.
type leafObs struct {
	path string // "ToReader", "CloneStream>ToReader", …
	cons *consumer

	ok        bool  // successful completion observed
	err       error // the error observed otherwise
	hasBytes  bool  // delivered is meaningful
	delivered []byte
	msg       proto.Message // ToProto result
	// resumed: after having reported an error the stream handed out more
	// data or reported a clean end.
	resumed bool
	// noProgress: the stream neither advanced nor failed for an implausible
	// number of calls.
	noProgress bool
	// parentArgInvalid: a CloneCopy above this leaf was given a maximum below
	// the digest's size.
	parentArgInvalid bool
	// decorated: a WithTask / WithErrorHandler decoration sits between the
	// constructor and this leaf; taskErr: one of them is a task that fails.
	decorated bool
	taskErr   bool
	panicked  string
}

type recWriter struct{ b []byte }

func (w *recWriter) Write(p []byte) (int, error) { w.b = append(w.b, p...); return len(p), nil }

// runLeaf consumes b with one non-clone method and records the observation.
// budget bounds the number of calls on streams (no-progress guard).
func runLeaf(b buffer.Buffer, c *consumer, prefix string, above []string, budget int) (o leafObs) {
	o.path = prefix + wrapPath(c.wrap) + c.op
	o.cons = c
	o.decorated = len(above)+len(c.wrap) > 0
	o.taskErr = hasTaskErr(above) || hasTaskErr(c.wrap)
	b = decorate(b, c.wrap)
	switch c.op {
	case opToByteSlice:
		data, err := b.ToByteSlice(c.max)
		o.ok, o.err, o.hasBytes, o.delivered = err == nil, err, true, data
	case opToProto:
		m, err := b.ToProto(&emptypb.Empty{}, c.max)
		o.ok, o.err, o.msg = err == nil, err, m
	case opIntoWriter:
		w := &recWriter{}
		err := b.IntoWriter(w)
		o.ok, o.err, o.hasBytes, o.delivered = err == nil, err, true, w.b
	case opReadAt:
		p := make([]byte, c.n)
		n, err := b.ReadAt(p, c.off)
		// Only p[:n] counts as delivered: the validating reader reads
		// straight into the caller's slice before it can validate, so the
		// bytes beyond n are scratch.
		o.hasBytes, o.delivered = true, p[:n]
		if err == nil || err == io.EOF {
			o.ok = true
		} else {
			o.err = err
		}
	case opToReader:
		r := b.ToReader()
		o.hasBytes = true
		maxRead := 1
		for _, k := range c.reads {
			if k > maxRead {
				maxRead = k
			}
		}
		buf := make([]byte, maxRead)
		after := 0
		for i := 0; ; i++ {
			if i > budget {
				o.noProgress = true
				break
			}
			k := c.reads[i%len(c.reads)]
			if o.err != nil {
				k = maxRead // a zero-length read proves nothing about stickiness
			}
			n, err := r.Read(buf[:k])
			o.delivered = append(o.delivered, buf[:n]...)
			if o.err != nil {
				// Calls after the first error: the error must stick.
				if err == nil || err == io.EOF || n > 0 {
					o.resumed = true
				}
				after++
				if after >= 2 {
					break
				}
				continue
			}
			if err == io.EOF {
				o.ok = true
				break
			}
			if err != nil {
				o.err = err
			}
		}
		r.Close()
	case opToChunkReader:
		r := b.ToChunkReader(c.off, c.max)
		o.hasBytes = true
		after := 0
		for i := 0; ; i++ {
			if i > budget {
				o.noProgress = true
				break
			}
			chunk, err := r.Read()
			if o.err != nil {
				if err == nil || err == io.EOF {
					o.resumed = true
					o.delivered = append(o.delivered, chunk...)
				}
				after++
				if after >= 2 {
					break
				}
				continue
			}
			if err == io.EOF {
				o.ok = true
				break
			}
			if err != nil {
				o.err = err
				continue
			}
			o.delivered = append(o.delivered, chunk...)
		}
		r.Close()
	case opDiscard:
		b.Discard()
	default:
		panic("c09 harness: not a leaf consumer: " + c.op)
	}
	return o
}

var sutFrameRe = regexp.MustCompile(`(?m)^(github\.com/buildbarn/bb-storage/[^\s(]+(?:\([^)]*\))?[^\s(]*)\(`)

func sutSite(stack string) string {
	m := sutFrameRe.FindStringSubmatch(stack)
	if m == nil {
		return "harness"
	}
	return strings.TrimPrefix(m[1], "github.com/buildbarn/bb-storage/")
}

// consume runs a (possibly cloning) consumer. The clones of CloneStream are
// consumed in one goroutine each, as the interface demands; everything else
// runs in the calling goroutine.
func consume(b buffer.Buffer, c *consumer, budget int) []leafObs {
	switch c.op {
	case opCloneCopy:
		b1, b2 := decorate(b, c.wrap).CloneCopy(c.max)
		var out []leafObs
		for i, cl := range []buffer.Buffer{b1, b2} {
			o := runLeaf(cl, c.subs[i], wrapPath(c.wrap)+opCloneCopy+">", c.wrap, budget)
			out = append(out, o)
		}
		return out
	case opCloneStream:
		clones := make([]buffer.Buffer, 0, 3)
		b1, b2 := decorate(b, c.wrap).CloneStream()
		clones = append(clones, b1)
		if len(c.subs) == 3 {
			b2a, b2b := b2.CloneStream()
			clones = append(clones, b2a, b2b)
		} else {
			clones = append(clones, b2)
		}
		type res struct {
			i int
			o leafObs
		}
		ch := make(chan res, len(clones))
		for i := range clones {
			go func(i int) {
				defer func() {
					if r := recover(); r != nil {
						st := string(debug.Stack())
						ch <- res{i, leafObs{path: wrapPath(c.wrap) + opCloneStream + ">" + wrapPath(c.subs[i].wrap) + c.subs[i].op, cons: c.subs[i], panicked: fmt.Sprintf("%v\n%s", r, st)}}
					}
				}()
				ch <- res{i, runLeaf(clones[i], c.subs[i], wrapPath(c.wrap)+opCloneStream+">", c.wrap, budget)}
			}(i)
		}
		out := make([]leafObs, len(clones))
		for range clones {
			r := <-ch
			out[r.i] = r.o
			if r.o.panicked != "" {
				// The other clones may now wait for ever; do not wait for them.
				return []leafObs{r.o}
			}
		}
		return out
	}
	return []leafObs{runLeaf(b, c, "", nil, budget)}
}
