package main

import (
	"bytes"
	"fmt"
	"strings"

	"google.golang.org/grpc/codes"
	"google.golang.org/grpc/status"
	"google.golang.org/protobuf/proto"
	"google.golang.org/protobuf/types/known/emptypb"

	"verif/lib/run"
)

// tally collects counters locally; flushed into the worker once per case.
type tally map[string]int64

func (t tally) flush(w *run.Worker) {
	for k, v := range t {
		w.Count(k, v)
		delete(t, k)
	}
}

// argInvalid: the consumer's own arguments are outside what the Buffer
// interface accepts (maximum size below the digest's size, offset outside
// [0,size], content that is no Protobuf message). Property C09 says nothing
// about the error such a call gets, so for these leaves any error is accepted
// when the content matches, and INVALID_ARGUMENT is accepted in addition to
// the mismatch code when it does not. Successful completion still requires
// matching content.
func argInvalid(sc *scenario, o *leafObs, protoValid bool) bool {
	if o.parentArgInvalid {
		return true
	}
	c := o.cons
	switch c.op {
	case opToByteSlice:
		return c.max < sc.size
	case opToProto:
		return c.max < sc.size || !protoValid
	case opToChunkReader, opReadAt:
		return c.off < 0 || c.off > int64(sc.size)
	}
	return false
}

func leafOffset(c *consumer) int64 {
	if c.op == opToChunkReader || c.op == opReadAt {
		return c.off
	}
	return 0
}

// from returns b[off:], or nothing when off is outside b.
func from(b []byte, off int64) []byte {
	if off < 0 || off > int64(len(b)) {
		return nil
	}
	return b[off:]
}

// expectedOnSuccess is what a consumer that completed successfully must have
// been given: the matching content from its offset (clipped to len(p) for
// ReadAt).
func expectedOnSuccess(good []byte, c *consumer) []byte {
	e := from(good, leafOffset(c))
	if c.op == opReadAt && len(e) > c.n {
		e = e[:c.n]
	}
	return e
}

// evaluate is the oracle: it compares what the consumers and the integrity
// callback observed with what property C09 allows for this scenario.
func evaluate(c *run.Case, t tally, sc *scenario, top *consumer, obs []leafObs, st *srcState, v *verdicts) {
	viol := func(path, class, format string, a ...any) {
		var sb strings.Builder
		for i := range obs {
			o := &obs[i]
			fmt.Fprintf(&sb, "\n    %s %v -> ok=%v err=%v delivered=%s resumed=%v", o.path, o.cons, o.ok, o.err, showBytes(o.delivered), o.resumed)
		}
		c.Violation(sc.sigCtor()+"."+path+":"+class, "%s\n  scenario: %v\n  digest: %s\n  consumer: %v\n  observed:%s\n  integrity callback: %d positive, %d negative; source closed %d times",
			fmt.Sprintf(format, a...), sc, sc.d.String(), top, sb.String(), v.pos.Load(), v.neg.Load(), st.closes.Load())
	}

	protoValid := false
	var wantMsg proto.Message
	if sc.matching() {
		m := &emptypb.Empty{}
		if proto.Unmarshal(sc.good, m) == nil {
			protoValid, wantMsg = true, m
		}
	}
	avail := sc.avail()
	matching := sc.matching()

	for i := range obs {
		o := &obs[i]
		if o.panicked != "" {
			c.Violation("panic:"+sutSite(o.panicked), "panic in a stream clone's consumer: %s\n  scenario: %v\n  consumer: %v", o.panicked, sc, top)
			continue
		}
		t["leaf_"+o.cons.op]++
		if strings.Contains(o.path, opCloneStream+">") {
			t["clone_stream_leaves"]++
		} else if strings.Contains(o.path, opCloneCopy+">") {
			t["clone_copy_leaves"]++
		}
		if o.decorated {
			t["decorated_leaves"]++
			t["decorated_leaf_"+o.cons.op]++
		}
		if o.cons.op == opDiscard {
			continue
		}
		if o.noProgress {
			viol(o.path, "no-progress", "the stream neither ended nor failed within the call budget")
			continue
		}
		invalid := argInvalid(sc, o, protoValid)
		if invalid {
			t["arg_invalid_leaves"]++
		}
		off := leafOffset(o.cons)

		if matching {
			switch {
			case o.ok:
				t["match_completed"]++
				if o.decorated {
					t["decorated_match_completed"]++
				}
				if sc.ioErr != nil {
					t["match_completed_despite_io_error"]++
				}
				// What the consumer was given must itself be the content
				// described by the digest.
				if o.hasBytes {
					if want := expectedOnSuccess(sc.good, o.cons); !bytes.Equal(o.delivered, want) {
						viol(o.path, "wrong-bytes-on-success", "successful completion, but the consumer was given %s instead of %s", showBytes(o.delivered), showBytes(want))
					}
				} else if o.cons.op == opToProto {
					if wantMsg == nil || o.msg == nil || !proto.Equal(o.msg, wantMsg) {
						viol(o.path, "wrong-bytes-on-success", "ToProto succeeded with a message that is not the content's")
					}
				}
			case o.taskErr && isTaskErr(o.err):
				// A decoration's background task failed and the consumer was
				// told so. Which error prevails and when is C15's business.
				t["task_error_received"]++
			case sc.ioErr != nil:
				// The source failed: its error is passed through.
				if isSrcErr(o.err, sc.ioErr) {
					t["io_error_passed_through"]++
				} else if !invalid {
					viol(o.path, "io-error-replaced", "the source failed with %q after %d bytes of matching content, but the consumer received %v", sc.ioErr, sc.errPos, o.err)
				}
			case !invalid:
				// Companion clause (not in the plan's R list): mismatch
				// errors are reserved for mismatches, so matching content
				// from a source that does not fail, consumed with valid
				// arguments, completes.
				// Not part of C09 as stated (the statement is soundness-only:
				// completion ONLY IF the content matches); observed, not a
				// violation. The negative-verdict-on-matching-content clause
				// and the match_completed floor cover the realistic cases.
				t["observed_matching_content_failed"]++
			default:
				t["arg_invalid_errors"]++
			}
			if !o.ok && o.hasBytes {
				// Whatever was handed out before the error is the source's data.
				t["prefix_checked"]++
				if !bytes.HasPrefix(from(avail, off), o.delivered) {
					viol(o.path, "delivered-not-prefix", "delivered %s is not a prefix of the source's content from offset %d", showBytes(o.delivered), off)
				}
			}
			continue
		}

		// Mismatching content.
		if o.ok || o.resumed {
			what := "observed successful completion"
			if !o.ok {
				what = "was handed more data / a clean end after the error"
			}
			viol(o.path, "completed-"+mismatchClass(sc.kind), "content does not match the digest (%s) but the consumer %s", mismatchClass(sc.kind), what)
			continue
		}
		t["mismatch_rejected"]++
		if o.decorated {
			t["decorated_mismatch_rejected"]++
		}
		if sc.attempt > 0 {
			t["reread_mismatch_rejected"]++
		}
		code := status.Code(o.err)
		switch {
		case o.taskErr && isTaskErr(o.err):
			// The statement's error-code clause does not know about background
			// tasks; a failed task's error in place of the mismatch error is
			// recorded, not flagged (C15 owns it). Completion and withholding
			// are still asserted.
			t["task_error_received_on_mismatch"]++
		case sc.ioErr != nil && isSrcErr(o.err, sc.ioErr):
			t["io_error_passed_through"]++
		case code == sc.expectedCode():
			t["mismatch_code_ok"]++
			if sc.ioErr != nil {
				t["mismatch_detected_before_io_error"]++
			}
		case invalid && code == codes.InvalidArgument:
			t["arg_invalid_errors"]++
		case sc.ioErr != nil:
			viol(o.path, "io-error-replaced", "the source failed with %q after %d bytes, but the consumer received %v (neither that error nor %v)", sc.ioErr, sc.errPos, o.err, sc.expectedCode())
		default:
			src := "user"
			if sc.backend {
				src = "backend"
			}
			viol(o.path, "wrong-error-code-"+src, "%s mismatch on %s-provided data must be reported as %v, got %v", mismatchClass(sc.kind), src, sc.expectedCode(), o.err)
		}
		if o.hasBytes {
			// Delivered bytes are a prefix of what the source handed out
			// (from the consumer's offset) …
			t["prefix_checked"]++
			if !bytes.HasPrefix(from(avail, off), o.delivered) {
				viol(o.path, "delivered-not-prefix", "delivered %s is not a prefix of the source's content from offset %d", showBytes(o.delivered), off)
			}
			// … and when the source had at least as many bytes as the digest
			// states, the final portion (up to the digest's size) is withheld.
			if len(avail) >= sc.size {
				t["withheld_checked"]++
				if len(o.delivered) > 0 && off+int64(len(o.delivered)) >= int64(sc.size) {
					viol(o.path, "final-portion-not-withheld", "%d bytes from offset %d were delivered although the content mismatches a digest of %d bytes", len(o.delivered), off, sc.size)
				}
			}
		}
		if o.cons.op == opToReader || o.cons.op == opToChunkReader {
			t["sticky_checked"]++
		}
	}

	// Integrity callback: never positive for mismatching, never negative for
	// matching content. How often it is called is recorded, not asserted.
	pos, neg := v.pos.Load(), v.neg.Load()
	if matching {
		if neg > 0 {
			viol(top.op, "callback-negative-on-match", "the integrity callback received %d negative verdict(s) for content that matches the digest", neg)
		}
		if pos > 0 {
			t["verdict_positive_on_match"]++
		}
	} else {
		if pos > 0 {
			viol(top.op, "callback-positive-on-mismatch", "the integrity callback received %d positive verdict(s) for content that does not match the digest (%s)", pos, mismatchClass(sc.kind))
		}
		if neg > 0 {
			t["verdict_negative_on_mismatch"]++
		}
	}
	if pos+neg > 1 {
		t["verdict_more_than_once"]++
	}

	// Recorded, not asserted (release-once is C04's business).
	if sc.ctor != ctorByteSlice {
		if st.closes.Load() == 1 {
			t["source_closed_once"]++
		} else {
			t["source_close_count_other"]++
		}
		if st.readsAfterClose.Load() > 0 {
			t["source_read_after_close"]++
		}
	}
}
