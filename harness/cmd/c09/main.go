// C09 — CAS buffers never complete a read of content that mismatches its digest.
//
// Monitor: the real buffer constructors (NewCASBufferFromReader,
// NewCASBufferFromChunkReader, NewCASBufferFromByteSlice and the CAS read-buffer
// factory's reader-at path) are given scripted sources whose complete content,
// split into reads/chunks, terminal condition (EOF, EOF together with the last
// bytes, I/O error at a position) are generated; every Buffer consumption method
// (ToByteSlice, ToProto, ToReader, ToChunkReader at any offset and chunk size,
// ReadAt, IntoWriter, CloneCopy, CloneStream incl. nested clones, Discard) is
// run against them. The oracle (oracle.go) knows the digest, the content and the
// script and decides from what the consumer and the integrity callback observed:
//
//	completion      successful completion only if the content has the digest's size and hash,
//	                and then the bytes handed to the consumer are that content;
//	error           size/hash mismatch -> INVALID_ARGUMENT (user) / INTERNAL (backend);
//	                a source I/O error is passed through;
//	withholding     bytes delivered before the error are a prefix of the source's bytes and,
//	                when the source had >= size bytes, stop short of the digest's size;
//	                once an error was reported no data / clean end follows;
//	callback        no positive verdict for mismatching, no negative verdict for matching content.
//
// Two engines: "random" (generated scenarios, all digest functions, sizes up
// to 200 KB) and "small" (exhaustive small scope: every content variant x every
// split into chunks x every error position x every constructor x every consumer
// for digest sizes 0..3 quick / 0..6 thorough).
//
// Decorations (consume.go): between constructor and consumption the buffer may
// be decorated the way bb-storage's own layers do it - WithTask (once, twice,
// with a failing task) and WithErrorHandler (pass-through handler), before a
// clone operation, on the clones, or both. A decorated CAS buffer is held to
// the same clauses.
//
// Histories (history.go, engine "history" and part of "small"): the buffers
// come from blobstore.NewValidationCachingReadBufferFactory(CASReadBufferFactory)
// and the same digest is read several times through one factory, with the
// stored content possibly changing between the reads. Every read of a digest
// for which no positive integrity verdict has been observed yet is held to the
// complete oracle; reads after a positive verdict are by design unvalidated
// and nothing is asserted about them.
package main

import (
	"fmt"
	"time"

	remoteexecution "github.com/bazelbuild/remote-apis/build/bazel/remote/execution/v2"

	"verif/lib/gen"
	"verif/lib/run"
)

func main() {
	run.Main(run.Spec{
		Property: "C09",
		Level:    "exploration",
		Rule: "random: case = (digest function, size 0..200k, content kind match/bit-flip/truncated/extended/size-only-lie, optional source I/O error at a position, split into reads/chunks incl. empty ones and EOF-with-data, " +
			"constructor reader/chunk reader/byte slice/reader-at factory, user/backend source) x one consumption (ToByteSlice, ToProto, ToReader with a read-size pattern, ToChunkReader(off,max), ReadAt(len,off), IntoWriter, CloneCopy, CloneStream with 2-3 concurrent clone consumers, Discard), " +
			"1/3 of them decorated (WithTask x1/x2/failing task, pass-through WithErrorHandler, both orders) at the root, at the clones or both; " +
			"history: case = one validation-caching read-buffer factory (cache of 1-4 digests, key with/without instance) x 1-2 digests x 2-5 successive reads, each with its own stored content (unchanged with p=2/3, else re-drawn match/flip/trunc/extend; size-lying digests keep their content), factory constructor byte slice/reader-at/reader, delivery and consumption as above; oracle applies to every read of a digest not yet positively validated in that history; " +
			"small: every (digest size<=3 quick/<=6 thorough, content variant, error position, composition of the deliverable bytes, empty-chunk placement, EOF-with-data) x constructors x sources x a fixed list of ~65-165 consumers (15 of them decorated), " +
			"plus for every unsplit script a history of 24 successive reads (a window of that list) through one validation-caching factory per cacheable constructor; " +
			"distinct = hash of scenario+consumer; non-trivial = the content mismatches the digest or the source fails, i.e. the monitor must see a rejection",
		Workers:     8,
		CaseTimeout: 120 * time.Second,
		// ~1/5 of what quick observes at seed 1.
		Floors: map[string]int64{
			"executions":                   150000,
			"mismatch_rejected":            150000,
			"match_completed":              12000,
			"withheld_checked":             110000,
			"prefix_checked":               150000,
			"sticky_checked":               70000,
			"io_error_passed_through":      44000,
			"verdict_negative_on_mismatch": 38000,
			"verdict_positive_on_match":    5000,
			"clone_stream_leaves":          60000,
			"clone_copy_leaves":            22000,
			"random_large_blobs":           500,
			"random_eof_with_data":         20000,
			"random_empty_chunks":          28000,
			"ctor_casReaderBuffer":         68000,
			"ctor_casChunkReaderBuffer":    68000,
			"ctor_casByteSliceBuffer":      5500,
			"ctor_casReaderAtBuffer":       8000,
			"kind_match":                   19000,
			"kind_flip":                    24000,
			"kind_trunc":                   14000,
			"kind_extend":                  66000,
			"kind_sizeshort":               6000,
			"kind_sizelong":                21000,
			"leaf_ToByteSlice":             23000,
			"leaf_ToProto":                 7500,
			"leaf_ToReader":                24000,
			"leaf_ToChunkReader":           56000,
			"leaf_ReadAt":                  57000,
			"leaf_IntoWriter":              12000,
			"leaf_Discard":                 14000,
			// Decorated buffers and histories (~1/5 of quick at seed 1).
			"decorated_leaves":                        49000,
			"decorated_mismatch_rejected":             38000,
			"decorated_match_completed":               3200,
			"decorated_leaf_ToByteSlice":              4800,
			"decorated_leaf_ToProto":                  3200,
			"decorated_leaf_ToReader":                 8000,
			"decorated_leaf_ToChunkReader":            16000,
			"decorated_leaf_ReadAt":                   8000,
			"decorated_leaf_IntoWriter":               4800,
			"ctor_validationCachingByteSliceBuffer":   3500,
			"ctor_validationCachingReaderAtBuffer":    4400,
			"ctor_validationCachingReaderBuffer":      1600,
			"history_attempts_asserted":               8600,
			"history_two_digests":                     800,
			"reread_asserted":                         5500,
			"reread_mismatch_after_negative_asserted": 3300,
			"fn_BLAKE3":                               5000,
			"fn_GITSHA1":                              5000,
			"fn_MD5":                                  5000,
			"fn_SHA1":                                 5000,
			"fn_SHA256":                               5000,
			"fn_SHA256TREE":                           5000,
			"fn_SHA384":                               5000,
			"fn_SHA512":                               5000,
			"thorough:executions":                     6000000,
			"thorough:random_large_blobs":             10000,
		},
		Assumptions: []string{
			"sources are sticky: after EOF or an I/O error every further read returns the same condition",
			"the object's complete content is the script's content even when the source fails before delivering all of it (verdict clauses refer to it)",
			"for consumer calls with invalid arguments (maximum size below the digest's size, offset outside [0,size], content that is no Protobuf message) any error is accepted; success still requires matching content",
			"ReadAt/Read deliver p[:n]; bytes the validating reader wrote beyond n into the caller's slice are scratch",
			"digests of MD5/SHA1/SHA256/SHA384/SHA512/GITSHA1 come from the Go standard library, BLAKE3/SHA256TREE from bb-storage's own generator",
			"decorations: the background task returns at once and the error handler passes every error through without a replacement buffer (what tasks and handlers promise is C15's / C16's); when a task fails, its error in place of the mismatch / source error is accepted",
			"validation caching: after a positive integrity verdict for a digest, later reads of that digest through the same factory are by design not validated; nothing is asserted about them. The cache's clock is constant (entries never expire within a history)",
		},
		Body: body,
	})
}

func body(w *run.Worker) {
	t := tally{}
	w.Cases("random", w.N(200000, 3000000), func(c *run.Case) {
		r := caseRng(c, w)
		sc := genScenario(r)
		cons := genConsumer(r, sc.size)
		c.Desc("%v | %v", sc, cons)
		if len(sc.content) >= 60000 {
			t["random_large_blobs"]++
		}
		if sc.termWithData {
			t["random_eof_with_data"]++
		}
		for _, k := range sc.chunks {
			if k == 0 {
				t["random_empty_chunks"]++
				break
			}
		}
		t["fn_"+fnName(sc.fn)]++
		execute(c, w, t, sc, cons, c.Index < 2)
		t.flush(w)
	})

	w.Cases("history", w.N(12000, 200000), func(c *run.Case) {
		runHistory(c, w, t, caseRng(c, w))
		t.flush(w)
	})

	maxSize := 3
	if w.Thorough() {
		maxSize = 6
	}
	scripts := enumScripts(maxSize)
	mine := 0
	for i := range scripts {
		if i%w.Workers == w.Index {
			mine++
		}
	}
	w.Cases("small", mine, func(c *run.Case) {
		idx := int(c.Index)*w.Workers + w.Index
		s := scripts[idx]
		c.Desc("small #%d: %v", idx, s)
		runSmall(c, w, t, idx, s)
		t.flush(w)
	})
	w.Exhaustive(fmt.Sprintf("small scope: digest sizes 0..%d x content variants x error positions x compositions x empty-chunk placements x EOF-with-data x constructors x sources x consumer list", maxSize), true)
}

func mix64(z uint64) uint64 {
	z += 0x9e3779b97f4a7c15
	z = (z ^ (z >> 30)) * 0xbf58476d1ce4e5b9
	z = (z ^ (z >> 27)) * 0x94d049bb133111eb
	return z ^ (z >> 31)
}

// caseRng derives the case's generator from c.Rng. lib/gen.New only XORs/adds
// its seeds into the splitmix state, so (seed, worker, index) triples that
// differ in a few low bits alias: observed at seed 1, all 8 workers drew
// permutations of the same 25 000 random cases, and seeds 1/2/3/7 likewise.
// The value drawn from c.Rng is therefore re-keyed with avalanched copies of
// the worker index and the seed. Still a pure function of (seed, worker, group,
// index): --replay reproduces the case.
func caseRng(c *run.Case, w *run.Worker) *gen.Rng {
	return gen.New(mix64(c.Rng.Uint64() ^ mix64(uint64(w.Index)+1) ^ mix64(mix64(w.Seed)+0xc09)))
}

// execute runs one (scenario, consumer) pair against the real code and hands
// the observations to the oracle.
func execute(c *run.Case, w *run.Worker, t tally, sc *scenario, cons *consumer, sample bool) {
	executeGated(c, w, t, sc, cons, sample, nil)
}

// executeGated is execute for one attempt of a history: gate is asked after
// the consumption whether the oracle applies to this attempt (see history.go);
// the attempt's integrity verdicts are returned for the later attempts' gates.
func executeGated(c *run.Case, w *run.Worker, t tally, sc *scenario, cons *consumer, sample bool, gate func() bool) *verdicts {
	b, st, v := sc.build()
	budget := 8*(len(sc.content)+sc.size+len(sc.chunks)) + 200
	obs := consume(b, cons, budget)
	if cons.op == opCloneCopy && cons.max < sc.size {
		for i := range obs {
			obs[i].parentArgInvalid = true
		}
	}
	t["executions"]++
	t["ctor_"+ctorNames[sc.ctor]]++
	t["kind_"+sc.kind]++
	t["top_"+cons.op]++
	if sc.ioErr != nil {
		t["io_error_scenarios"]++
	}
	if sc.backend {
		t["backend_source"]++
	} else {
		t["user_source"]++
	}
	if !sc.matching() || sc.ioErr != nil {
		w.Distinct(sc.String() + "|" + cons.String())
	}
	if gate != nil && !gate() {
		t["history_unasserted_after_positive"]++
	} else {
		evaluate(c, t, sc, cons, obs, st, v)
	}
	if sample {
		var o []string
		for i := range obs {
			o = append(o, fmt.Sprintf("%s: ok=%v err=%v delivered=%s", obs[i].path, obs[i].ok, obs[i].err, showBytes(obs[i].delivered)))
		}
		w.Sample(map[string]any{"scenario": sc.String(), "digest": sc.d.String(), "consumer": cons.String(), "observed": o,
			"callback_positive": v.pos.Load(), "callback_negative": v.neg.Load()})
	}
	return v
}

// ---------------------------------------------------------------------------
// Random engine.

// protoShaped returns n bytes that parse as a Protobuf message (unknown
// fields) whenever that is possible for the length (n != 1).
func protoShaped(r *gen.Rng, n int) []byte {
	out := make([]byte, 0, n)
	for n > 0 {
		switch {
		case n == 1:
			out = append(out, byte(r.Intn(256)))
			n = 0
		case n-2 < 128:
			k := n - 2
			out = append(append(out, 0x0a, byte(k)), r.Bytes(k)...)
			n = 0
		case n-3 >= 128 && n-3 < 16384:
			k := n - 3
			out = append(append(out, 0x0a, byte(k&0x7f|0x80), byte(k>>7)), r.Bytes(k)...)
			n = 0
		case n-4 >= 16384 && n-4 < 2097152:
			k := n - 4
			out = append(append(out, 0x0a, byte(k&0x7f|0x80), byte((k>>7)&0x7f|0x80), byte(k>>14)), r.Bytes(k)...)
			n = 0
		default:
			out = append(out, 0x08, byte(r.Intn(128)))
			n -= 2
		}
	}
	return out
}

func genSize(r *gen.Rng) int {
	switch k := r.Intn(1000); {
	case k < 60:
		return r.Intn(2) // 0, 1
	case k < 650:
		return r.Range(0, 40)
	case k < 920:
		return r.Range(41, 300)
	case k < 985:
		return r.Range(1000, 5000) // several SHA256TREE chunks
	default:
		return r.Pick(65535, 65536, 65537, 131072, 131073, 65536+r.Intn(140000)) // default clone chunk size boundary
	}
}

// fixKind replaces content kinds that are impossible for the size / function.
func fixKind(kind string, fn remoteexecution.DigestFunction_Value, size int) string {
	if size == 0 && (kind == kindFlip || kind == kindTrunc || kind == kindSizeShort) {
		kind = kindExtend
	}
	if !sizeLiePossible(fn) {
		if kind == kindSizeShort {
			kind = kindTrunc
		} else if kind == kindSizeLong {
			kind = kindExtend
		}
	}
	return kind
}

func genGood(r *gen.Rng, size int) []byte {
	if r.Bool() {
		return protoShaped(r, size)
	}
	return r.Bytes(size)
}

func genScenario(r *gen.Rng) *scenario {
	sc := &scenario{errPos: -1}
	sc.fn = gen.AllFunctions[r.Intn(len(gen.AllFunctions))]
	sc.size = genSize(r)
	sc.kind = fixKind([]string{kindMatch, kindMatch, kindMatch, kindFlip, kindFlip, kindTrunc, kindTrunc, kindExtend, kindExtend, kindSizeShort, kindSizeLong}[r.Intn(11)], sc.fn, sc.size)
	fillContent(r, sc, genGood(r, sc.size))
	sc.ctor = r.Pick(ctorReader, ctorReader, ctorReader, ctorChunkReader, ctorChunkReader, ctorChunkReader, ctorByteSlice, ctorReaderAt)
	sc.backend = r.Bool() || sc.ctor == ctorReaderAt
	genDelivery(r, sc)
	return sc
}

// fillContent derives the object's content (and the digest) from the content
// good that has the digest's size, according to sc.kind. For all kinds but
// sizeshort/sizelong the digest is that of good.
func fillContent(r *gen.Rng, sc *scenario, good []byte) {
	small := func(max int) int { // 1..max, biased to 1 and 2
		if max < 1 {
			return 1
		}
		k := r.Pick(1, 1, 2, r.Range(1, 16), r.Range(1, max))
		if k > max {
			k = max
		}
		return k
	}
	switch sc.kind {
	case kindMatch:
		sc.good, sc.content, sc.detail = good, good, "-"
		sc.d = makeDigest(sc.fn, good, sc.size)
	case kindFlip:
		pos := r.Pick(0, sc.size-1, r.Intn(sc.size))
		bit := r.Intn(8)
		cpy := append([]byte{}, good...)
		cpy[pos] ^= 1 << uint(bit)
		sc.good, sc.content, sc.detail = good, cpy, fmt.Sprintf("byte %d bit %d", pos, bit)
		sc.d = makeDigest(sc.fn, good, sc.size)
	case kindTrunc:
		l := r.Pick(0, sc.size-1, r.Intn(sc.size))
		sc.good, sc.content, sc.detail = good, good[:l:l], fmt.Sprintf("to %d", l)
		sc.d = makeDigest(sc.fn, good, sc.size)
	case kindExtend:
		k := small(64)
		if r.Chance(1, 200) {
			k = 70000 // more than one default chunk of trailing data
		}
		sc.good, sc.content, sc.detail = good, append(append([]byte{}, good...), r.Bytes(k)...), fmt.Sprintf("by %d", k)
		sc.d = makeDigest(sc.fn, good, sc.size)
	case kindSizeShort: // content k bytes shorter than stated, hash is the content's
		k := small(sc.size)
		sc.content, sc.detail = good[:sc.size-k:sc.size-k], fmt.Sprintf("content %d bytes, hash of content", sc.size-k)
		sc.d = makeDigest(sc.fn, sc.content, sc.size)
	case kindSizeLong: // content k bytes longer than stated, hash is the content's
		k := small(64)
		sc.content, sc.detail = append(append([]byte{}, good...), r.Bytes(k)...), fmt.Sprintf("content %d bytes, hash of content", sc.size+k)
		sc.d = makeDigest(sc.fn, sc.content, sc.size)
	}
}

// genDelivery generates how the source of sc.ctor hands the content out: an
// optional I/O error at a position, the split into reads/chunks, and whether
// the terminal condition comes together with the last bytes.
func genDelivery(r *gen.Rng, sc *scenario) {
	sc.errPos, sc.ioErr = -1, nil
	if sc.ctor != ctorByteSlice && sc.ctor != ctorVCByteSlice && r.Chance(1, 4) {
		l := len(sc.content)
		sc.errPos = r.Pick(0, sc.size-1, sc.size, l, r.Intn(l+1))
		if sc.errPos < 0 {
			sc.errPos = 0
		}
		if sc.errPos > l {
			sc.errPos = l
		}
		sc.ioErr = ioErrs[r.Intn(len(ioErrs))]
	}
	n := len(sc.avail())
	sc.chunks = r.Chunking(n, true)
	if r.Chance(1, 8) {
		sc.chunks = append([]int{0}, sc.chunks...)
	}
	if r.Chance(1, 8) {
		for i := r.Range(1, 3); i > 0; i-- {
			sc.chunks = append(sc.chunks, 0)
		}
	}
	sc.termWithData = r.Bool()
}

func genMax(r *gen.Rng, size int) int {
	m := r.Pick(size, size, size+1, size+r.Range(1, 100), 1<<20, 1<<30, size-1, size/2, 0)
	if m < 0 {
		m = 0
	}
	return m
}

func genOff(r *gen.Rng, size int) int64 {
	return int64(r.Pick(0, 0, 1, size/2, size-1, size, size, r.Intn(size+1), r.Intn(size+1), -1, size+1, size+r.Range(1, 100)))
}

func genLeaf(r *gen.Rng, size int, allowDiscard bool) *consumer {
	k := r.Intn(13)
	if !allowDiscard && k == 12 {
		k = r.Intn(12)
	}
	switch k {
	case 0, 1:
		return &consumer{op: opToByteSlice, max: genMax(r, size)}
	case 2:
		return &consumer{op: opToProto, max: genMax(r, size)}
	case 3, 4:
		var reads []int
		for i := r.Range(1, 4); i > 0; i-- {
			reads = append(reads, r.Pick(1, 1, 2, 3, 7, 0, size, size+1, size-1, 64, 4096, r.Range(1, 70000)))
		}
		pos := false
		for i := range reads {
			if reads[i] < 0 {
				reads[i] = 0
			}
			pos = pos || reads[i] > 0
		}
		if !pos {
			reads[0] = 1
		}
		return &consumer{op: opToReader, reads: reads}
	case 5, 6, 7:
		return &consumer{op: opToChunkReader, off: genOff(r, size), max: r.Pick(1, 2, 3, 7, size, size+1, 100, 65536, r.Range(1, 70000))}
	case 8, 9, 10:
		off := genOff(r, size)
		rest := size - int(off)
		n := r.Pick(0, 1, rest, rest-1, rest+1, size, r.Intn(size+2), r.Intn(size+2))
		if n < 0 {
			n = 0
		}
		return &consumer{op: opReadAt, off: off, n: n}
	case 11:
		return &consumer{op: opIntoWriter}
	}
	return &consumer{op: opDiscard}
}

func fixLeaf(c *consumer) *consumer {
	if c.op == opToChunkReader && c.max < 1 {
		c.max = 1
	}
	return c
}

// genWrap generates a stack of decorations (innermost first): background tasks
// (once, twice, failing), a pass-through error handler, and both orders of the
// two, as bb-storage's replicators, local stores and metrics layers stack them.
func genWrap(r *gen.Rng) []string {
	switch r.Intn(12) {
	case 0, 1, 2, 3:
		return []string{wrapTask}
	case 4, 5:
		return []string{wrapTask, wrapTask}
	case 6, 7:
		return []string{wrapHandler}
	case 8:
		return []string{wrapHandler, wrapTask}
	case 9:
		return []string{wrapTask, wrapHandler}
	case 10:
		return []string{wrapTaskErr}
	}
	return []string{wrapTask, wrapTaskErr}
}

// genConsumer generates a consumption: a leaf, or a clone operation with one
// leaf per clone; about a third are decorated, at the root (before cloning),
// at the clones (after cloning), or both.
func genConsumer(r *gen.Rng, size int) *consumer {
	var c *consumer
	switch k := r.Intn(100); {
	case k < 62:
		c = fixLeaf(genLeaf(r, size, r.Chance(1, 4)))
	case k < 75:
		c = &consumer{op: opCloneCopy, max: genMax(r, size), subs: []*consumer{fixLeaf(genLeaf(r, size, true)), fixLeaf(genLeaf(r, size, true))}}
	default:
		n := 2
		if r.Chance(1, 3) {
			n = 3
		}
		c = &consumer{op: opCloneStream}
		for i := 0; i < n; i++ {
			c.subs = append(c.subs, fixLeaf(genLeaf(r, size, true)))
		}
	}
	if r.Chance(1, 3) {
		where := r.Intn(3) // 0 root, 1 clones, 2 both
		if len(c.subs) == 0 || where != 1 {
			c.wrap = genWrap(r)
		}
		if where != 0 {
			for _, s := range c.subs {
				if r.Bool() {
					s.wrap = genWrap(r)
				}
			}
		}
	}
	return c
}

// ---------------------------------------------------------------------------
// Small-scope exhaustive engine.

type smallScript struct {
	size         int
	variant      int // index into variants(size)
	errPos       int // -1 none
	mask         int // composition of the deliverable bytes: bit i = boundary after byte i
	empties      int // 0 none, 1 leading, 2 trailing, 3 before the last chunk
	termWithData bool
}

func (s smallScript) String() string {
	return fmt.Sprintf("size=%d variant=%d errPos=%d mask=%b empties=%d termWithData=%v", s.size, s.variant, s.errPos, s.mask, s.empties, s.termWithData)
}

type variant struct {
	kind    string
	detail  string
	good    []byte
	content []byte
}

// smallGood is the fixed content of a given size (Protobuf-shaped when possible).
func smallGood(size int) []byte {
	return protoShaped(gen.New(0xc09, uint64(size)), size)
}

func variants(size int) []variant {
	good := smallGood(size)
	vs := []variant{{kind: kindMatch, detail: "-", good: good, content: good}}
	if size > 0 {
		f := append([]byte{}, good...)
		f[0] ^= 1
		vs = append(vs, variant{kind: kindFlip, detail: "byte 0 bit 0", good: good, content: f})
		l := append([]byte{}, good...)
		l[size-1] ^= 0x80
		vs = append(vs, variant{kind: kindFlip, detail: "last byte bit 7", good: good, content: l})
	}
	for l := 0; l < size; l++ {
		vs = append(vs, variant{kind: kindTrunc, detail: fmt.Sprintf("to %d", l), good: good, content: good[:l:l]})
	}
	x := gen.New(0xc09e, uint64(size)).Bytes(2)
	vs = append(vs, variant{kind: kindExtend, detail: "by 1", good: good, content: append(append([]byte{}, good...), x[:1]...)})
	vs = append(vs, variant{kind: kindExtend, detail: "by 2", good: good, content: append(append([]byte{}, good...), x...)})
	if size > 0 {
		vs = append(vs, variant{kind: kindSizeShort, detail: "content 1 byte shorter, hash of content", content: good[: size-1 : size-1]})
	}
	vs = append(vs, variant{kind: kindSizeLong, detail: "content 1 byte longer, hash of content", content: append(append([]byte{}, good...), x[:1]...)})
	return vs
}

func enumScripts(maxSize int) []smallScript {
	var out []smallScript
	for size := 0; size <= maxSize; size++ {
		for vi, v := range variants(size) {
			l := len(v.content)
			for errPos := -1; errPos <= l; errPos++ {
				a := l
				if errPos >= 0 {
					a = errPos
				}
				masks := 1
				if a > 1 {
					masks = 1 << uint(a-1)
				}
				for mask := 0; mask < masks; mask++ {
					nchunks := 0
					if a > 0 {
						nchunks = 1
						for m := mask; m != 0; m &= m - 1 {
							nchunks++
						}
					}
					for empties := 0; empties < 4; empties++ {
						if nchunks == 0 && empties > 1 {
							continue
						}
						if nchunks == 1 && empties == 3 {
							continue // same as leading
						}
						for _, twd := range []bool{false, true} {
							out = append(out, smallScript{size: size, variant: vi, errPos: errPos, mask: mask, empties: empties, termWithData: twd})
						}
					}
				}
			}
		}
	}
	return out
}

func chunksOf(a, mask, empties int) []int {
	var ch []int
	if a > 0 {
		cur := 0
		for i := 0; i < a; i++ {
			cur++
			if i == a-1 || mask&(1<<uint(i)) != 0 {
				ch = append(ch, cur)
				cur = 0
			}
		}
	}
	switch empties {
	case 1:
		ch = append([]int{0}, ch...)
	case 2:
		ch = append(ch, 0)
	case 3:
		last := ch[len(ch)-1]
		ch = append(append(ch[:len(ch)-1:len(ch)-1], 0), last)
	}
	return ch
}

var smallConsumerCache = map[int][]*consumer{}

// smallHistoryLen is the number of successive reads of one digest in the
// small-scope engine's histories.
const smallHistoryLen = 24

// smallConsumers is the fixed consumer list for a digest size.
func smallConsumers(size int) []*consumer {
	if cs, ok := smallConsumerCache[size]; ok {
		return cs
	}
	var cs []*consumer
	for _, m := range []int{size - 1, size, size + 10} {
		if m >= 0 {
			cs = append(cs, &consumer{op: opToByteSlice, max: m})
		}
	}
	cs = append(cs, &consumer{op: opToProto, max: size + 10})
	for _, rd := range [][]int{{1}, {2}, {3}, {7}, {0, 1}} {
		cs = append(cs, &consumer{op: opToReader, reads: rd})
	}
	for off := -1; off <= size+1; off++ {
		for _, m := range []int{1, 2, 3, 7} {
			cs = append(cs, &consumer{op: opToChunkReader, off: int64(off), max: m})
		}
		for n := 0; n <= size+1; n++ {
			cs = append(cs, &consumer{op: opReadAt, off: int64(off), n: n})
		}
	}
	cs = append(cs, &consumer{op: opIntoWriter}, &consumer{op: opDiscard})
	bs := func(m int) *consumer { return &consumer{op: opToByteSlice, max: m} }
	rd := func(k int) *consumer { return &consumer{op: opToReader, reads: []int{k}} }
	cr := func(off, m int) *consumer { return &consumer{op: opToChunkReader, off: int64(off), max: m} }
	ra := func(off, n int) *consumer { return &consumer{op: opReadAt, off: int64(off), n: n} }
	iw := &consumer{op: opIntoWriter}
	di := &consumer{op: opDiscard}
	pr := &consumer{op: opToProto, max: size + 10}
	cs = append(cs,
		&consumer{op: opCloneCopy, max: size + 10, subs: []*consumer{bs(size), rd(2)}},
		&consumer{op: opCloneCopy, max: size, subs: []*consumer{cr(size/2, 1), ra(0, size)}},
		&consumer{op: opCloneCopy, max: size + 10, subs: []*consumer{iw, di}},
	)
	if size > 0 {
		cs = append(cs, &consumer{op: opCloneCopy, max: size - 1, subs: []*consumer{bs(size), iw}})
	}
	cs = append(cs,
		&consumer{op: opCloneStream, subs: []*consumer{bs(size), bs(size + 10)}},
		&consumer{op: opCloneStream, subs: []*consumer{cr(0, 1), iw}},
		&consumer{op: opCloneStream, subs: []*consumer{rd(1), di}},
		&consumer{op: opCloneStream, subs: []*consumer{di, rd(3)}},
		&consumer{op: opCloneStream, subs: []*consumer{di, di}},
		&consumer{op: opCloneStream, subs: []*consumer{ra(0, size), cr(size, 2)}},
		&consumer{op: opCloneStream, subs: []*consumer{ra(size/2, 1), pr}},
		&consumer{op: opCloneStream, subs: []*consumer{cr(size+1, 2), cr(-1, 3)}},
		&consumer{op: opCloneStream, subs: []*consumer{bs(size), cr(1, 1), iw}},
		&consumer{op: opCloneStream, subs: []*consumer{di, ra(size, 1), rd(7)}},
	)
	if size > 0 {
		cs = append(cs, &consumer{op: opCloneStream, subs: []*consumer{bs(size - 1), rd(3)}})
	}
	// Decorated buffers: every consumption method behind a background task,
	// a few behind two tasks, a failing task and a pass-through error handler,
	// and decorations on either side of a clone operation.
	wr := func(c *consumer, wraps ...string) *consumer { cc := *c; cc.wrap = wraps; return &cc }
	cs = append(cs,
		wr(bs(size), wrapTask), wr(pr, wrapTask), wr(rd(3), wrapTask, wrapTask),
		wr(cr(0, 1), wrapTask), wr(cr(size/2, 2), wrapTask, wrapTask),
		wr(ra(0, size), wrapTask), wr(iw, wrapTask), wr(di, wrapTask),
		wr(cr(0, 2), wrapTaskErr),
		wr(rd(2), wrapHandler), wr(cr(0, 2), wrapHandler, wrapTask), wr(ra(0, size), wrapTask, wrapHandler),
		wr(&consumer{op: opCloneStream, subs: []*consumer{cr(0, 1), di}}, wrapTask),
		&consumer{op: opCloneStream, subs: []*consumer{wr(cr(0, 2), wrapTask), wr(rd(2), wrapTask)}},
		wr(&consumer{op: opCloneCopy, max: size, subs: []*consumer{cr(0, 3), wr(iw, wrapTask)}}, wrapTask),
	)
	smallConsumerCache[size] = cs
	return cs
}

func runSmall(c *run.Case, w *run.Worker, t tally, idx int, s smallScript) {
	v := variants(s.size)[s.variant]
	fn := gen.AllFunctions[idx%len(gen.AllFunctions)]
	if (v.kind == kindSizeShort || v.kind == kindSizeLong) && !sizeLiePossible(fn) {
		fn = remoteexecution.DigestFunction_SHA256
	}
	base := scenario{fn: fn, size: s.size, good: v.good, kind: v.kind, detail: v.detail, content: v.content, errPos: -1, termWithData: s.termWithData}
	if v.good != nil {
		base.d = makeDigest(fn, v.good, s.size)
	} else {
		base.d = makeDigest(fn, v.content, s.size)
	}
	if s.errPos >= 0 {
		base.errPos = s.errPos
		base.ioErr = ioErrs[idx%len(ioErrs)]
	}
	base.chunks = chunksOf(len(base.avail()), s.mask, s.empties)
	for ctor := 0; ctor < numCtors; ctor++ {
		switch ctor {
		case ctorByteSlice:
			if s.errPos >= 0 || s.mask != 0 || s.empties != 0 || s.termWithData {
				continue
			}
		case ctorReaderAt:
			if s.mask != 0 || s.empties != 0 {
				continue
			}
		}
		for _, backend := range []bool{false, true} {
			if ctor == ctorReaderAt && !backend {
				continue
			}
			for _, cons := range smallConsumers(s.size) {
				sc := base
				sc.ctor, sc.backend = ctor, backend
				execute(c, w, t, &sc, cons, false)
			}
		}
	}
	// The same script behind a validation caching factory: the whole consumer
	// list reads the same digest, one read after the other, through one
	// factory (see history.go for the oracle's gate).
	if s.mask == 0 && s.empties == 0 {
		for _, ctor := range []int{ctorVCByteSlice, ctorVCReaderAt} {
			if ctor == ctorVCByteSlice && (s.errPos >= 0 || s.termWithData) {
				continue
			}
			sc := base
			sc.ctor, sc.backend = ctor, true
			// A window of the consumer list, starting at a different place
			// for every script.
			list := smallConsumers(s.size)
			win := make([]*consumer, 0, smallHistoryLen)
			for k := 0; k < smallHistoryLen && k < len(list); k++ {
				win = append(win, list[(idx*7+k)%len(list)])
			}
			runSmallHistory(c, w, t, &sc, win)
		}
	}
}
