// C02 — after a crash and restart no object is served with wrong bytes.
//
// Engine: the persistent local store assembled around journalled simulated
// media (blocks device, index device, state directory). One harness-scheduled
// workload (uploads, refreshes, rotations, sync rounds parked at PRNG-chosen
// gate points while other operations and the second state writer run, injected
// sync / state-write / directory failures) yields a totally ordered I/O
// journal. For every crash point and a set of loss choices (subsets of
// unsynced sector writes incl. torn multi-sector writes, subsets of index
// record writes, prefixes of unsynced directory operations, unsynced file
// data) the post-crash media are materialised, the store is restarted on them
// and every key ever uploaded is read back with the RAW factory (byte
// comparison) or the CAS factory. The restarted store is then used further
// (uploads across several rotations) and the survivors are re-checked; nested
// crashes of the restarted store are enumerated as well.
package main

import (
	"context"
	"fmt"
	"runtime"
	"strings"
	"time"

	"github.com/buildbarn/bb-storage/pkg/digest"
	"google.golang.org/grpc/codes"
	"google.golang.org/grpc/status"

	"verif/lib/asm"
	"verif/lib/gen"
	"verif/lib/run"
	"verif/lib/sim"
)

func main() {
	run.Main(run.Spec{
		Property: "C02",
		Level:    "fault_enumeration",
		Rule: "workload = generated persistent configuration x harness-scheduled history (Put/Get/FindMissing/filler rotations, sync rounds parked before/inside/after the data sync or around the state write while further operations and block-release state writes run, injected sync/state/directory failures); " +
			"case = (workload, crash point between two journalled I/O operations, loss choice: keep-all / lose-all / lose-data-keep-index / keep-data-lose-index / random subsets / torn sector subsets x directory choice); evaluations = restarts; distinct = hash of (workload id, crash point, loss choice); non-trivial = the crash image differs from the no-loss image or the restarted store served at least one object",
		Workers:     14,
		CaseTimeout: 30 * time.Minute,
		Floors:      map[string]int64{"restarts": 8000, "objects_served_after_crash": 20000, "crash_points": 1500, "lossy_images": 4000, "torn_images": 500, "parked_sync_rounds": 60, "release_statewrites_during_sync": 20, "post_restart_uploads": 5000, "survivor_rechecks": 20000, "nested_restarts": 200, "state_versions_seen": 100, "inflight_uploads_finished_out_of_order": 20},
		Assumptions: []string{"index record writes are lost whole, never torn (as the statement says)", "data writes are torn at sector granularity only", "directory namespace operations after the last directory fsync are lost as a suffix (ordered metadata)", "a sync makes durable exactly the writes issued before it started"},
		Body:        body,
	})
}

type model struct {
	// every content whose upload was ever STARTED per key
	contents map[digest.Digest][][]byte
	order    []digest.Digest
}

func (m *model) add(d digest.Digest, data []byte) {
	if _, ok := m.contents[d]; !ok {
		m.order = append(m.order, d)
	}
	m.contents[d] = append(m.contents[d], data)
}

func (m *model) member(d digest.Digest, got []byte) bool {
	for _, c := range m.contents[d] {
		if string(c) == string(got) {
			return true
		}
	}
	return false
}

func (m *model) clone() *model {
	n := &model{contents: map[digest.Digest][][]byte{}, order: append([]digest.Digest(nil), m.order...)}
	for k, v := range m.contents {
		n.contents[k] = append([][]byte(nil), v...)
	}
	return n
}

type inflightPut struct {
	gate chan struct{}
	done chan error
}

type wl struct {
	inflight   []*inflightPut
	c          *run.Case
	w          *run.Worker
	r          *gen.Rng
	cfg        asm.Config
	s          *asm.Store
	m          *model
	ac         bool
	id         uint64
	inst       string
	ctx        context.Context
	tag        uint64
	noInflight bool
	stuck      bool
}

func tail(s []string, n int) []string {
	if len(s) > n {
		return s[len(s)-n:]
	}
	return s
}

func body(w *run.Worker) {
	ctx := context.Background()
	w.Cases("workload", w.N(56, 560), func(c *run.Case) {
		r := c.Rng
		cfg := genCfg(r)
		s, err := asm.Build(cfg, asm.NewMedia(cfg))
		if err != nil {
			panic(err)
		}
		x := &wl{c: c, w: w, r: r, cfg: cfg, s: s, m: &model{contents: map[digest.Digest][][]byte{}}, ctx: ctx, inst: []string{"", "p"}[r.Intn(2)],
			ac: cfg.Mutable && !cfg.Hierarchical && r.Bool(), tag: uint64(c.Index)<<20 | uint64(w.Index)<<44}
		c.Desc("%v ac=%v", cfg, x.ac)
		if c.Index == 0 {
			w.Sample(map[string]any{"config": cfg.String(), "acStyle": x.ac})
		}
		x.runWorkload(r.Range(25, 70), true)
		if x.stuck {
			return
		}
		x.enumerate(1)
	})
}

func genCfg(r *gen.Rng) asm.Config {
	cfg := asm.GenConfig(r, true)
	cfg.InMemoryBlocks, cfg.InMemoryIndex = false, false
	if cfg.Sector == 1 || cfg.Sector == 512 {
		cfg.Sector = 16
	}
	cfg.BlockSectors = int64(r.Range(4, 16))
	cfg.Records = r.Range(150, 400)
	cfg.GetAttempts, cfg.PutAttempts = 16, 64
	cfg.Factory = "raw"
	cfg.Label = "c02"
	cfg.Spare = r.Range(1, 3)
	return cfg
}

func (x *wl) newData(size int) []byte {
	x.id++
	return gen.UniqueBlob(x.tag, x.id, size)
}

func (x *wl) put(d digest.Digest, data []byte) error {
	x.m.add(d, data) // started
	u := &asm.Upload{Data: data, Chunks: x.r.Chunking(len(data), false)}
	if x.ac {
		return x.s.BA.Put(x.ctx, d, u.PlainBuffer())
	}
	return x.s.BA.Put(x.ctx, d, u.CASBuffer(d))
}

func (x *wl) putNew(size int) {
	data := x.newData(size)
	var d digest.Digest
	if x.ac {
		if len(x.m.order) > 2 && x.r.Bool() {
			d = x.m.order[x.r.Intn(len(x.m.order))] // overwrite an existing key with a new value
		} else {
			d = gen.SHA256Digest(x.inst, x.newData(12))
		}
	} else {
		d = gen.SHA256Digest(x.inst, data)
	}
	err := x.put(d, data)
	x.c.Logf("put %s size=%d -> %v", d, size, err)
}

// startInflight begins an upload that parks inside its unlocked copy phase
// (space is allocated, the data has not arrived); finishInflight lets one of
// the parked uploads complete, in PRNG order, i.e. possibly out of allocation
// order.
func (x *wl) startInflight() {
	block := int(x.cfg.BlockBytes())
	data := x.newData(x.r.Range(2, block/3+2))
	d := gen.SHA256Digest(x.inst, data)
	if x.ac {
		d = gen.SHA256Digest(x.inst, x.newData(12))
	}
	x.m.add(d, data)
	f := &inflightPut{gate: make(chan struct{}), done: make(chan error, 1)}
	arrived := make(chan struct{}, 1)
	n := 0
	u := &asm.Upload{Data: data, Chunks: []int{1}, Yield: func() {
		n++
		if n == 2 {
			arrived <- struct{}{}
			<-f.gate
		}
	}}
	go func() {
		if x.ac {
			f.done <- x.s.BA.Put(x.ctx, d, u.PlainBuffer())
		} else {
			f.done <- x.s.BA.Put(x.ctx, d, u.CASBuffer(d))
		}
	}()
	select {
	case <-arrived:
		x.inflight = append(x.inflight, f)
		x.w.Count("inflight_uploads_started", 1)
	case err := <-f.done:
		x.c.Logf("in-flight upload ended early: %v", err)
	}
}

func (x *wl) finishInflight() {
	if len(x.inflight) == 0 {
		return
	}
	i := x.r.Intn(len(x.inflight))
	f := x.inflight[i]
	x.inflight = append(x.inflight[:i], x.inflight[i+1:]...)
	close(f.gate)
	err := <-f.done
	if i != 0 {
		x.w.Count("inflight_uploads_finished_out_of_order", 1)
	}
	x.c.Logf("in-flight upload finished: %v", err)
}

// someOps performs a few foreground operations (used while a sync round is parked).
func (x *wl) someOps(n int) {
	block := int(x.cfg.BlockBytes())
	for i := 0; i < n; i++ {
		if x.r.Chance(1, 5) && len(x.inflight) < 3 && !x.noInflight {
			x.startInflight()
			continue
		}
		if x.r.Chance(1, 4) {
			x.finishInflight()
			continue
		}
		switch k := x.r.Intn(10); {
		case k < 5:
			x.putNew(x.r.Range(1, block/2))
		case k < 7 && len(x.m.order) > 0:
			d := x.m.order[x.r.Intn(len(x.m.order))]
			_, err := asm.GetBytes(x.ctx, x.s.BA, d)
			x.c.Logf("get %s -> %v", d, err)
		case k < 8 && len(x.m.order) > 0:
			sb := digest.NewSetBuilder(0)
			for j := x.r.Range(1, 3); j > 0; j-- {
				sb.Add(x.m.order[x.r.Intn(len(x.m.order))])
			}
			x.s.BA.FindMissing(x.ctx, sb.Build())
		default:
			x.putNew(x.r.Range(block/2, block)) // filler forcing a rotation
		}
	}
}

// runWorkload drives the store; every syncer activity is started by the harness.
func (x *wl) runWorkload(steps int, faults bool) {
	s, r := x.s, x.r
	var rel *asm.Task
	finishRel := func() {
		if rel != nil {
			rel.WaitRelease()
			rel = nil
		}
	}
	for st := 0; st < steps; st++ {
		switch k := r.Intn(100); {
		case k < 45:
			x.someOps(r.Range(1, 4))
		case k < 55: // release path state write
			finishRel()
			s.PumpRelease()
		case k < 62 && faults:
			switch r.Intn(4) {
			case 0:
				s.DataSync.SetFail(r.Range(1, 2), status.Error(codes.Internal, "injected sync failure"))
			case 1:
				s.State.SetFail(r.Range(1, 2), status.Error(codes.Internal, "injected state write failure"))
			default:
				kind := []string{"create", "fwrite", "fsync", "close", "rename", "dirsync", "remove"}[r.Intn(7)]
				s.M.Dir.AddFaultNext(kind, int64(r.Range(1, 2)), fmt.Errorf("injected %s failure", kind))
			}
		default: // a sync round, parked at a PRNG-chosen point while other things happen
			if !s.PutPending() {
				x.someOps(1)
				if !s.PutPending() {
					continue
				}
			}
			finishRel()
			point := []string{"", "datasync", "sync-mid", "datasync.done", "state.write", "state.write.done"}[r.Intn(6)]
			if point != "" {
				s.Gate.Close(point)
			}
			t := s.StartPutRound(x.ctx)
			reached := t.RunUntilParked(point)
			if reached != "" {
				x.w.Count("parked_sync_rounds", 1)
				x.c.Logf("sync round parked at %s", reached)
				x.someOps(r.Range(1, 5))
				// the second state writer runs while the sync round is parked
				if s.ReleasePending() && r.Chance(2, 3) {
					rel = s.StartReleaseRound()
					if !strings.HasPrefix(reached, "state.write") {
						rel.WaitRelease() // it can complete: the store lock of the state writer is free
						rel = nil
						x.w.Count("release_statewrites_during_sync", 1)
					}
				}
				if r.Bool() {
					x.someOps(r.Range(1, 3))
				}
				if rel != nil && strings.HasPrefix(reached, "state.write") && r.Chance(2, 3) {
					// Let only the parked writer through; the second state writer
					// then parks at the same (still closed) gate while uploads
					// continue: regions freed by the first writer are allocatable
					// although the second state file is not durable yet.
					// (The writer parked at the gate may be the put round or an
					// earlier release round that woke up; either way one of the
					// two proceeds and the other arrives at the gate next.)
					s.Gate.ReleaseOne(point)
					parked := false
					for spin, idle := 0, 0; ; spin++ {
						if s.Gate.Waiting(point) > 0 {
							parked = true
							break
						}
						if d, ok := s.M.Clock.NextFire(); ok {
							s.M.Clock.Advance(d)
							idle = 0
							continue
						}
						if t.Finished() && (rel.Finished() || !s.ReleasePending()) {
							idle++
							if idle > 50 {
								break
							}
						}
						if spin%16 == 15 {
							time.Sleep(20 * time.Microsecond)
						} else {
							runtime.Gosched()
						}
					}
					if parked {
						x.w.Count("second_state_writer_parked", 1)
						// enough uploads to cycle through the free list
						x.someOps(r.Range(2, 4+x.cfg.BlockCount()))
					}
				}
				s.Gate.Open(point)
			}
			t.Wait()
			if t.Stuck {
				x.c.Violation("periodicSyncer:retries-never-succeed", "a sync round did not finish although the virtual clock was advanced through more than 3000 timers: a transient failure (injected sync / state-write / directory failure) is retried forever without succeeding; error log tail: %v", tail(s.ErrLog.Messages(), 3))
				x.stuck = true
				return
			}
			finishRel()
		}
	}
	for len(x.inflight) > 0 {
		x.finishInflight()
	}
	finishRel()
}

type lossChoice struct {
	name      string
	keepData  sim.Keep
	keepIndex sim.Keep
	dir       sim.DirChoice
	torn      bool
}

func (x *wl) choices(k int, r *gen.Rng, j *sim.Journal) []lossChoice {
	vol := sim.VolatileDirOps(j, k)
	dirs := []sim.DirChoice{{VolatilePrefix: 0, UnsyncedData: 0}, {VolatilePrefix: 1 << 20, UnsyncedData: 1}}
	if vol > 0 {
		dirs = append(dirs, sim.DirChoice{VolatilePrefix: r.Intn(vol + 1), UnsyncedData: r.Intn(3) * r.Intn(40)})
	}
	pickDir := func() sim.DirChoice { return dirs[r.Intn(len(dirs))] }
	out := []lossChoice{
		{name: "keep-all", keepData: sim.KeepAll, keepIndex: sim.KeepAll, dir: dirs[1]},
		{name: "keep-all-olddir", keepData: sim.KeepAll, keepIndex: sim.KeepAll, dir: dirs[0]},
		{name: "lose-all", keepData: sim.KeepNone, keepIndex: sim.KeepNone, dir: dirs[0]},
		{name: "lose-data-keep-index", keepData: sim.KeepNone, keepIndex: sim.KeepAll, dir: dirs[1]},
		{name: "lose-data-keep-index-olddir", keepData: sim.KeepNone, keepIndex: sim.KeepAll, dir: dirs[0]},
		{name: "keep-data-lose-index", keepData: sim.KeepAll, keepIndex: sim.KeepNone, dir: pickDir()},
	}
	nr := 3
	if x.w.Thorough() {
		nr = 6
	}
	for i := 0; i < nr; i++ {
		seed := r.Uint64()
		pd, pi := r.Range(1, 3), r.Range(1, 3)
		kd := func(e sim.Entry, sct int) bool { return gen.New(seed, uint64(e.Seq)).Intn(4) < pd }
		ki := func(e sim.Entry, sct int) bool { return gen.New(seed, 7, uint64(e.Seq)).Intn(4) < pi }
		out = append(out, lossChoice{name: fmt.Sprintf("random-%d", i), keepData: kd, keepIndex: ki, dir: pickDir()})
	}
	for i := 0; i < 2; i++ {
		seed := r.Uint64()
		kd := func(e sim.Entry, sct int) bool { return gen.New(seed, uint64(e.Seq), uint64(sct)).Bool() }
		out = append(out, lossChoice{name: fmt.Sprintf("torn-%d", i), keepData: kd, keepIndex: sim.KeepAll, dir: pickDir(), torn: true})
	}
	return out
}

// enumerate crashes the workload's media at every crash point.
func (x *wl) enumerate(depth int) {
	j := x.s.M.J
	n := j.Len()
	entries := j.Entries()
	versions := 0
	for _, e := range entries {
		if e.Kind == "rename" {
			versions++
		}
	}
	x.w.Count("state_versions_seen", int64(versions))
	x.w.Count("journal_ops", int64(n))
	maxPoints := 90
	if x.w.Thorough() {
		maxPoints = 400
	}
	points := map[int]bool{}
	if n+1 <= maxPoints {
		for k := 0; k <= n; k++ {
			points[k] = true
		}
		x.w.Count("workloads_all_crash_points", 1)
	} else {
		// Always include the neighbourhood of every sync and directory
		// operation, fill up with random points.
		for i, e := range entries {
			if e.Target == "dir" || strings.HasPrefix(e.Kind, "sync") {
				points[i], points[i+1] = true, true
			}
		}
		for len(points) > maxPoints {
			for k := range points {
				delete(points, k)
				break
			}
		}
		for len(points) < maxPoints {
			points[x.r.Intn(n+1)] = true
		}
	}
	noLoss := func(k int) string {
		return gen.Hex8(sim.ImageAt(j, "blocks", x.s.M.BlocksInit, k, true, x.cfg.Sector, sim.KeepAll)) + gen.Hex8(sim.ImageAt(j, "index", x.s.M.IndexInit, k, false, 0, sim.KeepAll))
	}
	for k := 0; k <= n; k++ {
		if !points[k] {
			continue
		}
		x.w.Count("crash_points", 1)
		cr := gen.New(x.tag, uint64(k), 99)
		ref := noLoss(k)
		for _, ch := range x.choices(k, cr, j) {
			bi := sim.ImageAt(j, "blocks", x.s.M.BlocksInit, k, true, x.cfg.Sector, ch.keepData)
			ii := sim.ImageAt(j, "index", x.s.M.IndexInit, k, false, 0, ch.keepIndex)
			di := sim.DirImageAt(j, x.s.M.DirInit, k, ch.dir)
			lossy := gen.Hex8(bi)+gen.Hex8(ii) != ref
			if lossy {
				x.w.Count("lossy_images", 1)
				if ch.torn {
					x.w.Count("torn_images", 1)
				}
			}
			served := x.restartAndCheck(fmt.Sprintf("k=%d/%d %s dir=%+v", k, n, ch.name, ch.dir), bi, ii, di, cr, depth)
			x.w.Count("restarts", 1)
			x.w.AddEvaluations(1)
			if lossy || served > 0 {
				x.w.Distinct(fmt.Sprintf("%d|%d|%d|%s", x.w.Index, x.c.Index, k, ch.name))
			}
		}
	}
}

func okUnavailable(err error) bool {
	switch status.Code(err) {
	case codes.Unavailable:
		return true
	case codes.Internal:
		return strings.Contains(err.Error(), "has already been released")
	}
	return false
}

// restartAndCheck builds a store on the crash images and applies the oracle.
func (x *wl) restartAndCheck(what string, bi, ii []byte, di map[string][]byte, cr *gen.Rng, depth int) int {
	cfg := x.cfg
	if cr.Chance(1, 4) && !x.ac {
		cfg.Factory = "cas"
	}
	media := asm.NewMediaFrom(cfg, bi, ii, di)
	s2, err := asm.Build(cfg, media)
	if err != nil {
		x.c.Violation("persistentStateStore:restart-failed", "%s: the store cannot be restarted on the crash image: %v", what, err)
		return 0
	}
	defer s2.Close()
	var survivors []digest.Digest
	for _, d := range x.m.order {
		present, perr := asm.Present(x.ctx, s2.BA, d)
		s2.PumpRelease()
		got, gerr := asm.GetBytes(x.ctx, s2.BA, d)
		s2.PumpRelease()
		if gerr == nil {
			x.w.Count("objects_served_after_crash", 1)
			if !x.m.member(d, got) {
				x.c.Violation("localstore.Get:wrong-bytes-after-crash", "%s: after the crash Get(%s) returned %s, which is none of the %d contents ever uploaded for that key (factory %s)", what, d, gen.Hex8(got), len(x.m.contents[d]), cfg.Factory)
			} else {
				survivors = append(survivors, d)
			}
			continue
		}
		if perr == nil && present {
			if asm.IsNotFound(gerr) || !okUnavailable(gerr) {
				x.c.Violation("localstore.FindMissing:present-but-unreadable-after-crash", "%s: after the crash FindMissing reports %s present but the Get right after fails with %v (factory %s)", what, d, gerr, cfg.Factory)
			}
		} else if !asm.IsNotFound(gerr) && !okUnavailable(gerr) && cfg.Factory == "raw" {
			x.c.Violation("localstore.Get:unexpected-error-after-crash", "%s: Get(%s) fails with %v", what, d, gerr)
		}
	}
	if len(survivors) == 0 && cr.Chance(2, 3) {
		return 0
	}
	// Keep using the restarted store: uploads across several rotations must
	// never change what a survivor returns.
	y := &wl{c: x.c, w: x.w, r: cr, cfg: cfg, s: s2, m: x.m.clone(), ac: x.ac, inst: x.inst, ctx: x.ctx, tag: x.tag ^ cr.Uint64() | 1<<63}
	block := int(cfg.BlockBytes())
	nup := cr.Range(2, 2*cfg.BlockCount())
	for i := 0; i < nup; i++ {
		data := y.newData(cr.Range(block/4, block))
		d := gen.SHA256Digest("after", data)
		u := &asm.Upload{Data: data}
		var perr error
		if x.ac {
			perr = s2.BA.Put(x.ctx, d, u.PlainBuffer())
		} else {
			perr = s2.BA.Put(x.ctx, d, u.CASBuffer(d))
		}
		y.m.add(d, data)
		s2.PumpRelease()
		x.w.Count("post_restart_uploads", 1)
		if perr != nil && !okUnavailable(perr) {
			x.c.Violation("localstore.Put:upload-refused-after-restart", "%s: upload %d after the restart failed with %v", what, i, perr)
		}
		if i%2 == 1 && cr.Chance(1, 3) {
			s2.SyncNow()
		}
		for _, sd := range survivors {
			got, gerr := asm.GetBytes(x.ctx, s2.BA, sd)
			s2.PumpRelease()
			x.w.Count("survivor_rechecks", 1)
			if gerr == nil && !x.m.member(sd, got) {
				x.c.Violation("localstore.Get:survivor-overwritten-after-restart", "%s: object %s was served correctly right after the restart; after %d further uploads it returns %s (space reused while still indexed?)", what, sd, i+1, gen.Hex8(got))
			}
		}
	}
	// Nested crash of the restarted store.
	nestedEvery := 12
	if x.w.Thorough() {
		nestedEvery = 4
	}
	if depth > 0 && cr.Intn(nestedEvery) == 0 {
		y.runWorkload(cr.Range(4, 12), false)
		j2 := media.J
		n2 := j2.Len()
		for t := 0; t < 4; t++ {
			k2 := cr.Intn(n2 + 1)
			chs := y.choices(k2, cr, j2)
			ch := chs[cr.Intn(len(chs))]
			b3 := sim.ImageAt(j2, "blocks", media.BlocksInit, k2, true, cfg.Sector, ch.keepData)
			i3 := sim.ImageAt(j2, "index", media.IndexInit, k2, false, 0, ch.keepIndex)
			d3 := sim.DirImageAt(j2, media.DirInit, k2, ch.dir)
			y.restartAndCheck(fmt.Sprintf("%s; nested k=%d/%d %s", what, k2, n2, ch.name), b3, i3, d3, cr, depth-1)
			x.w.Count("nested_restarts", 1)
		}
	}
	return len(survivors)
}
