package main

import (
	"fmt"

	remoteexecution "github.com/bazelbuild/remote-apis/build/bazel/remote/execution/v2"

	"verif/lib/gen"
	"verif/lib/run"
)

// compositions returns every chunking of n bytes into non-empty chunks.
func compositions(n int) [][]int {
	if n == 0 {
		return [][]int{{}}
	}
	var out [][]int
	for first := 1; first <= n; first++ {
		for _, rest := range compositions(n - first) {
			out = append(out, append([]int{first}, rest...))
		}
	}
	return out
}

type exhTuple struct {
	size    int
	variant int // 0 CR, 1 RD (error/EOF after the data), 2 RD (error/EOF with the data)
	chunks  []int
	failAt  int
}

func exhLeaf(id int, variant int, good []byte, chunks []int, failAt int) *spec {
	s := &spec{id: id, content: good, good: true, failAt: failAt, chunks: chunks}
	switch variant {
	case 0:
		s.kind = kCR
	case 1:
		s.kind = kRD
	case 2:
		s.kind = kRD
		s.errWithData, s.eofWithData = true, true
	case 3:
		s.kind = kBS
	case 4:
		s.kind = kRA
	}
	return s
}

func exhConsumers(n int) []consumer {
	var cs []consumer
	cs = append(cs, consumer{kind: cByteSlice, stopAfter: -1})
	cs = append(cs, consumer{kind: cIntoWriter, stopAfter: -1})
	for _, rs := range []int{1, 2, n + 1} {
		cs = append(cs, consumer{kind: cReader, readMax: rs, readFixed: true, stopAfter: -1})
	}
	for off := 0; off <= n; off++ {
		for _, mc := range []int{1, 2, n + 1} {
			cs = append(cs, consumer{kind: cChunkReader, off: off, max: mc, stopAfter: -1})
		}
		seen := map[int]bool{}
		for _, pl := range []int{0, 1, n - off, n - off + 1} {
			if !seen[pl] {
				seen[pl] = true
				cs = append(cs, consumer{kind: cReadAt, off: off, plen: pl, stopAfter: -1})
			}
		}
	}
	return cs
}

// exhaustive enumerates, for every object size up to S: base kind x every
// chunking of the base x every failure position x replacement kind x every
// chunking of the replacement x (no second failure | second failure at every
// position, answered by a clean byte slice or by the handler giving up) x
// consumers with every start offset.
func exhaustive(w *run.Worker) {
	S := 3
	if w.Thorough() {
		S = 6
	}
	var mine []exhTuple
	i := 0
	for size := 0; size <= S; size++ {
		for variant := 0; variant < 3; variant++ {
			for failAt := 0; failAt <= size; failAt++ {
				for _, ch := range compositions(failAt) {
					// the base's chunking beyond the failure position is never read
					if i%w.Workers == w.Index {
						mine = append(mine, exhTuple{size: size, variant: variant, chunks: ch, failAt: failAt})
					}
					i++
				}
			}
		}
	}
	completed := 0
	w.Cases("exhaustive", len(mine), func(c *run.Case) {
		t := mine[c.Index]
		c.Desc("size=%d base variant=%d chunks=%v failAt=%d x all replacements x all consumers", t.size, t.variant, t.chunks, t.failAt)
		good := make([]byte, t.size)
		for k := range good {
			good[k] = byte('a' + k)
		}
		consumers := exhConsumers(t.size)
		sub := int64(0)
		for rv := 0; rv < 5; rv++ {
			for fail2 := -1; fail2 <= t.size; fail2++ {
				if rv == 3 && fail2 >= 0 {
					continue // byte slices do not fail
				}
				if rv == 4 && fail2 >= t.size {
					continue // a reader-at never reads beyond its size
				}
				limit := t.size
				if fail2 >= 0 {
					limit = fail2
				}
				chs := [][]int{nil}
				if rv < 3 {
					chs = compositions(limit)
				}
				for _, rch := range chs {
					for final := 0; final < 2; final++ {
						if fail2 < 0 && final == 1 {
							continue
						}
						for _, cons := range consumers {
							base := exhLeaf(1, t.variant, good, t.chunks, t.failAt)
							repl := exhLeaf(2, rv, good, rch, fail2)
							h := &hspec{id: 1, script: []resp{{buf: repl}}}
							if fail2 >= 0 && final == 0 {
								h.script = append(h.script, resp{buf: exhLeaf(3, 3, good, nil, -1)})
							}
							sc := &scenario{good: good, fn: remoteexecution.DigestFunction_SHA256, cons: cons,
								root: &spec{id: 4, kind: kNEST, inner: base, h: h, failAt: -1}}
							var st stats
							viol, trace := runScenario(sc, gen.New(1), &st)
							sub++
							account(w, sc, &st, "exh_")
							if sub%4 == 0 {
								w.Distinct(fmt.Sprintf("exh|%d|%d|%v|%d|%d|%v|%d|%d|%v", t.size, t.variant, t.chunks, t.failAt, rv, rch, fail2, final, cons))
							}
							report(c, sc, viol, trace)
						}
					}
				}
			}
		}
		w.Count("exh_subcases", sub)
		completed++
	})
	w.Exhaustive(fmt.Sprintf("sizes<=%d: base kind x base chunking x failure position x replacement kind x replacement chunking x second failure x consumers/offsets", S), completed == len(mine))
}
