// C16 — I/O-error recovery resumes at the right offset: each byte delivered
// exactly once.
//
// Monitor: the real buffer.WithErrorHandler / casErrorHandlingBuffer /
// errorHandling{Chunk,}Reader / offsetChunkReader / discard code is driven by
// fault-injecting sources (chunk readers, readers, reader-ats with scripted
// chunkings and a scripted I/O error at a chosen position) and by recording
// error handlers with a script of answers (replacement buffers of every kind,
// each with its own chunking and its own failure; buffers in a known error
// state; buffers that carry their own handler; wrong content; nil+error).
// Every consumption method of the Buffer interface reads the result. The
// oracle has two independent halves:
//
//   - observed counters: bytes the consumer received, the error it got, the
//     sequence of errors every handler was offered, its Done count, how often
//     every source returned its injected error;
//   - a reference stitching function over the scenario (ref.go) which says
//     what those must be.
//
// What is asserted, and no more (each with its own signature):
//   - a consumer that reports success received exactly the object's bytes
//     (from its start offset / for its range): bytes-not-exactly-once;
//   - success is never reported when the stitched content differs from the
//     object: integrity-not-enforced-across-stitch;
//   - when every failure was answered with a buffer that can deliver the
//     rest, the consumer succeeds: unjustified-error (the visible form of a
//     duplicated or skipped range, which the validation layer turns into an
//     error);
//   - before an error the consumer only ever saw a prefix of what it asked
//     for (when no source carries wrong bytes): bytes-before-error-not-a-prefix;
//   - an error returned by the handler is what the consumer gets:
//     handler-error-not-delivered;
//   - every injected I/O error that a source actually returned is offered to
//     the handler once: io-error-not-offered / io-error-offered-twice, and the
//     handler is offered nothing else where the reference is exact:
//     onerror-unexpected-error;
//   - Done exactly once per handler: done-never-called /
//     done-called-more-than-once; no OnError after Done: onerror-after-done.
//
// Deliberately NOT asserted: how often sources are closed (C04's business;
// counted as obs_*), error codes of integrity errors (C09), whether integrity
// errors of streams are offered to the handler, io.EOF vs nil of ReadAt.
package main

import (
	"bytes"
	"encoding/hex"
	"fmt"
	"io"
	"strings"
	"sync"
	"time"

	remoteexecution "github.com/bazelbuild/remote-apis/build/bazel/remote/execution/v2"
	"github.com/buildbarn/bb-storage/pkg/blobstore/buffer"
	"google.golang.org/protobuf/proto"

	"verif/lib/gen"
	"verif/lib/run"
)

// ---- consumers ----

const (
	cByteSlice = iota
	cReader
	cChunkReader
	cIntoWriter
	cReadAt
	cProto
	cCloneCopy
	cCloneStream
	cDiscard
	nConsumers
)

var consumerNames = []string{"ToByteSlice", "ToReader", "ToChunkReader", "IntoWriter", "ReadAt", "ToProto", "CloneCopy", "CloneStream", "Discard"}

type consumer struct {
	kind      int
	off       int // ToChunkReader, ReadAt
	max       int // ToChunkReader: maximum chunk size
	readMax   int // ToReader: reads of 0..readMax bytes (readFixed: exactly readMax)
	readFixed bool
	plen      int // ReadAt: len(p)
	stopAfter int // stream consumers: close after this many bytes (-1: read to the end)
}

func (c consumer) String() string {
	s := consumerNames[c.kind]
	switch c.kind {
	case cReader:
		s += fmt.Sprintf("(reads<=%d)", c.readMax)
	case cChunkReader:
		s += fmt.Sprintf("(off=%d,max=%d)", c.off, c.max)
	case cReadAt:
		s += fmt.Sprintf("(off=%d,len=%d)", c.off, c.plen)
	}
	if c.stopAfter >= 0 {
		s += fmt.Sprintf("[close after %d]", c.stopAfter)
	}
	return s
}

// consumer classes with respect to the reference.
const (
	clStream      = iota // reads the validated stitched stream to its end
	clStreamEarly        // closes early: prefixes only
	clRetry              // whole operation retried
	clResolveOnly        // Discard / invalid offset: nothing is read
	clLenient            // ReadAt with a negative offset: only generic clauses
)

func (c consumer) class(size int) int {
	switch c.kind {
	case cByteSlice, cProto, cCloneCopy:
		return clRetry
	case cReadAt:
		if c.off < 0 {
			return clLenient
		}
		return clRetry
	case cDiscard:
		return clResolveOnly
	case cChunkReader:
		if c.off < 0 || c.off > size {
			return clResolveOnly
		}
	}
	if c.stopAfter >= 0 {
		return clStreamEarly
	}
	return clStream
}

type outcome struct {
	err       error
	delivered []byte
	msg       proto.Message
	completed bool // consumed to the end (not closed early)
}

type scenario struct {
	good []byte
	fn   remoteexecution.DigestFunction_Value
	root *spec // always kNEST
	cons consumer
}

func (sc *scenario) String() string {
	return fmt.Sprintf("n=%d fn=%v %v <- %v", len(sc.good), sc.fn, sc.root, sc.cons)
}

func readAll(r io.Reader, c consumer, rng *gen.Rng, out *outcome) {
	for {
		if c.stopAfter >= 0 && len(out.delivered) >= c.stopAfter {
			return
		}
		n := c.readMax
		if !c.readFixed {
			n = rng.Range(0, c.readMax)
		}
		p := make([]byte, n)
		k, err := r.Read(p)
		out.delivered = append(out.delivered, p[:k]...)
		if err == io.EOF {
			out.completed = true
			return
		}
		if err != nil {
			out.err = err
			out.completed = true
			return
		}
	}
}

// consume applies the scenario's consumption method to the real buffer.
func consume(b buffer.Buffer, sc *scenario, rng *gen.Rng) []outcome {
	c := sc.cons
	size := len(sc.good)
	var o outcome
	switch c.kind {
	case cByteSlice:
		o.delivered, o.err = b.ToByteSlice(size + 10)
		o.completed = true
	case cReader:
		r := b.ToReader()
		readAll(r, c, rng, &o)
		r.Close()
	case cChunkReader:
		r := b.ToChunkReader(int64(c.off), c.max)
		for {
			if c.stopAfter >= 0 && len(o.delivered) >= c.stopAfter {
				break
			}
			chunk, err := r.Read()
			if err == io.EOF {
				o.completed = true
				break
			}
			if err != nil {
				o.err = err
				o.completed = true
				break
			}
			o.delivered = append(o.delivered, chunk...)
		}
		r.Close()
	case cIntoWriter:
		var w bytes.Buffer
		o.err = b.IntoWriter(&w)
		o.delivered = w.Bytes()
		o.completed = true
	case cReadAt:
		p := make([]byte, c.plen)
		n, err := b.ReadAt(p, int64(c.off))
		if err != nil && err != io.EOF {
			o.err = err
		} else {
			o.delivered = p[:n]
		}
		o.completed = true
	case cProto:
		o.msg, o.err = b.ToProto(&remoteexecution.Digest{}, size+10)
		o.completed = true
	case cCloneCopy:
		b1, b2 := b.CloneCopy(size + 10)
		var o2 outcome
		o.delivered, o.err = b1.ToByteSlice(size + 10)
		o2.delivered, o2.err = b2.ToByteSlice(size + 10)
		o.completed, o2.completed = true, true
		return []outcome{o, o2}
	case cCloneStream:
		b1, b2 := b.CloneStream()
		var o2 outcome
		var wg sync.WaitGroup
		wg.Add(1)
		r2 := rng.Fork()
		go func() {
			defer wg.Done()
			r := b2.ToReader()
			readAll(r, consumer{readMax: c.readMax, stopAfter: -1}, r2, &o2)
			r.Close()
		}()
		o.delivered, o.err = b1.ToByteSlice(size + 10)
		o.completed = true
		wg.Wait()
		return []outcome{o, o2}
	case cDiscard:
		b.Discard()
		o.completed = true
	}
	return []outcome{o}
}

// ---- one scenario: run the real code, run the reference, compare ----

type result struct {
	sig, detail string
}

type stats struct {
	success, handlerErr, integrityErr, otherErr     int
	offered, handlers                               int
	srcNotClosed, srcClosedTwice, srcReadAfterClose int
	R                                               *ref
	multiFailure                                    bool
}

func expectedRange(sc *scenario) []byte {
	size := len(sc.good)
	c := sc.cons
	switch c.kind {
	case cChunkReader:
		if c.off < 0 || c.off > size {
			return nil
		}
		return sc.good[c.off:]
	case cReadAt:
		if c.off < 0 || c.off >= size {
			return nil
		}
		end := c.off + c.plen
		if end > size {
			end = size
		}
		return sc.good[c.off:end]
	}
	return sc.good
}

func runScenario(sc *scenario, rng *gen.Rng, st *stats) (viol []result, trace []string) {
	site := "withErrorHandler." + consumerNames[sc.cons.kind]
	bad := func(class, format string, a ...any) {
		viol = append(viol, result{sig: site + ":" + class, detail: fmt.Sprintf(format, a...)})
	}
	size := len(sc.good)
	class := sc.cons.class(size)

	// --- the real code ---
	w := &world{good: sc.good, d: gen.DigestOf("c16", sc.fn, sc.good), srcs: map[int]*srcState{}, hs: map[int]*hState{}}
	b := w.build(sc.root)
	outs := consume(b, sc, rng)

	// --- the reference ---
	R := newRef(sc.good)
	st.R = R
	root := R.resolve(sc.root)
	var t term
	switch class {
	case clStream, clStreamEarly:
		if root.leaf != nil {
			if e, ok := errLike(root.leaf); ok {
				t = term{e: e}
			} else {
				t = term{ok: true}
			}
		} else {
			t = R.open(root, false)
			if t.ok && R.pos < size {
				R.deviated = true // premature end of the stitched stream
			}
		}
	case clRetry:
		plen := -1
		if sc.cons.kind == cReadAt {
			plen = sc.cons.plen
		}
		t = R.attempt(root, sc.cons.off, plen, false)
	case clResolveOnly, clLenient:
		// nothing is read: only the handler applications of resolve() are predicted
	}

	want := expectedRange(sc)
	for i, o := range outs {
		who := ""
		if len(outs) > 1 {
			who = fmt.Sprintf(" (clone %d)", i)
		}
		w.logf("consumer%s: err=%v delivered=%d bytes completed=%v", who, o.err, len(o.delivered), o.completed)
		// (1) success => exactly the object's bytes.
		okBytes := bytes.Equal(o.delivered, want)
		if sc.cons.kind == cProto && o.err == nil {
			ref := &remoteexecution.Digest{}
			okBytes = proto.Unmarshal(sc.good, ref) == nil && o.msg != nil && proto.Equal(ref, o.msg)
		}
		succeeded := o.err == nil && o.completed && sc.cons.kind != cDiscard
		if succeeded {
			st.success++
			if !okBytes {
				if R.deviated {
					bad("integrity-not-enforced-across-stitch", "consumer%s reports success with %d bytes %s although the stitched content differs from the object %s", who, len(o.delivered), hx(o.delivered), hx(want))
				} else {
					bad("bytes-not-exactly-once", "consumer%s reports success but received %s, want %s", who, hx(o.delivered), hx(want))
				}
			}
		}
		switch class {
		case clStream, clRetry:
			switch {
			case R.deviated:
				if o.err == nil {
					bad("integrity-not-enforced-across-stitch", "consumer%s reports success although the stitched stream deviates from the object (reference delivered %d bytes)", who, R.pos)
				} else {
					st.integrityErr++
				}
			case t.ok:
				if o.err != nil {
					bad("unjustified-error", "consumer%s got %v although every failure was answered with a buffer that delivers the rest of the object", who, o.err)
				}
			default:
				if !t.e.matches(o.err) {
					bad("handler-error-not-delivered", "consumer%s got %v, want the error %v", who, o.err, t.e)
				} else if t.e.class == refHErr || t.e.class == refGiveUp {
					st.handlerErr++
				} else {
					st.otherErr++
				}
			}
		case clResolveOnly, clLenient:
			if sc.cons.kind != cDiscard && o.err == nil {
				bad("success-with-invalid-offset", "consumer%s reports success for an invalid offset", who)
			}
		}
		// (2) nothing but a prefix before an error / an early close.
		if !succeeded && !R.deviated && sc.cons.kind != cProto && sc.cons.kind != cReadAt && !bytes.HasPrefix(want, o.delivered) {
			bad("bytes-before-error-not-a-prefix", "consumer%s received %s before err=%v, which is not a prefix of %s", who, hx(o.delivered), o.err, hx(want))
		}
	}

	// (3) handlers: offers and Done.
	nFailures := 0
	for id, rh := range R.hs {
		h := w.hs[id]
		if !rh.constructed {
			continue
		}
		if h == nil {
			if class != clLenient && class != clStreamEarly && !R.deviated {
				bad("onerror-sequence", "handler#%d was never constructed although the reference requests its buffer", id)
			}
			continue
		}
		obs := h.onErr
		nFailures += len(obs)
		exp := rh.exp
		if class == clLenient {
			continue
		}
		L := 0
		for L < len(exp) && exp[L].reliable {
			L++
		}
		for i := 0; i < L && i < len(obs); i++ {
			if !exp[i].e.matches(obs[i]) {
				bad("onerror-unexpected-error", "handler#%d: OnError call %d got %v, want %v (observed %v, expected %v)", id, i, obs[i], exp[i].e, obs, expStr(exp))
				break
			}
		}
		if len(obs) < L && class != clStreamEarly {
			bad("io-error-not-offered", "handler#%d was offered %d errors %v, but %d were due: %v", id, len(obs), obs, L, expStr(exp))
		}
		if len(obs) > len(exp) && !R.deviated {
			cls := "onerror-unexpected-error"
			for j := 0; j < len(exp) && j < len(obs); j++ {
				if sameErr(obs[j], obs[len(exp)]) {
					cls = "io-error-offered-twice"
				}
			}
			bad(cls, "handler#%d was offered %d errors %v, the reference knows only %v", id, len(obs), obs, expStr(exp))
		}
	}
	st.offered = nFailures
	st.handlers = len(w.ord)
	st.multiFailure = nFailures >= 2
	for _, h := range w.ord {
		id := h.spec.id
		if rh := R.hs[id]; (rh == nil || !rh.constructed) && class != clLenient && !R.deviated {
			bad("onerror-sequence", "handler#%d was constructed although the reference never requests its buffer", id)
		}
		// generic: no injected error twice.
		for i := range h.onErr {
			for j := 0; j < i; j++ {
				if tagged(h.onErr[i]) && sameErr(h.onErr[i], h.onErr[j]) {
					bad("io-error-offered-twice", "handler#%d was offered %v twice: %v", id, h.onErr[i], h.onErr)
				}
			}
		}
		switch {
		case h.done == 0:
			bad("done-never-called", "handler#%d: Done was never called (OnError calls: %d)", id, len(h.onErr))
		case h.done > 1:
			bad("done-called-more-than-once", "handler#%d: Done was called %d times", id, h.done)
		}
		if h.onErrAfterDone > 0 {
			bad("onerror-after-done", "handler#%d: %d OnError calls after Done", id, h.onErrAfterDone)
		}
	}
	// (4) instrumented: a source with the object's content that returned its
	// error must have seen it offered (to whichever handler encloses it).
	for id, s := range w.srcs {
		// Recorded, not asserted (release-exactly-once is C04's statement).
		switch {
		case s.closes == 0:
			st.srcNotClosed++
		case s.closes > 1:
			st.srcClosedTwice++
		}
		if s.readsAfterClose > 0 {
			st.srcReadAfterClose++
		}
		offers := 0
		for _, h := range w.ord {
			for _, e := range h.onErr {
				if sameErr(e, ioErr(id)) {
					offers++
				}
			}
		}
		// (Once the validation layer has rejected the stitched stream, or the
		// consumer has closed early, nothing is read any more: an error that a
		// source returned together with data, or while a replacement was being
		// opened, may then stay buffered below the handler.)
		if s.errReturns > 0 && offers == 0 && s.spec.good && !R.deviated && class != clStreamEarly && class != clLenient {
			bad("io-error-not-offered", "source %v returned its error %d times but no handler was offered it", s.spec, s.errReturns)
		}
		if s.errReturns == 0 && offers > 0 {
			bad("onerror-unexpected-error", "source %v never returned its error but a handler was offered it", s.spec)
		}
	}
	return viol, w.tr
}

func expStr(exp []expOffer) string {
	var p []string
	for _, e := range exp {
		s := e.e.String()
		if !e.reliable {
			s += "?"
		}
		p = append(p, s)
	}
	return "[" + strings.Join(p, " ") + "]"
}

func hx(b []byte) string {
	if len(b) > 48 {
		return fmt.Sprintf("%d:%s…%s", len(b), hex.EncodeToString(b[:16]), hex.EncodeToString(b[len(b)-8:]))
	}
	return fmt.Sprintf("%d:%s", len(b), hex.EncodeToString(b))
}

// ---- generators ----

type genCtx struct {
	r            *gen.Rng
	good         []byte
	nextID       int
	nextH        int
	trustedWrong bool // wrong content allowed in byte-slice / reader-at buffers
	big          bool
}

func (g *genCtx) chunking(n int) []int {
	if n > 4096 {
		// large objects: a few big chunks with some small ones
		var out []int
		for n > 0 {
			c := g.r.Pick(1, 7, 4096, 65536, 65537, 100000)
			if c > n {
				c = n
			}
			out = append(out, c)
			n -= c
		}
		return out
	}
	return g.r.Chunking(n, true)
}

func (g *genCtx) leaf(allowErrKinds bool) *spec {
	r := g.r
	g.nextID++
	s := &spec{id: g.nextID, failAt: -1, good: true, content: g.good, user: r.Chance(1, 4)}
	k := r.Intn(20)
	switch {
	case k < 7:
		s.kind = kCR
	case k < 13:
		s.kind = kRD
	case k < 15:
		s.kind = kRA
	case k < 17:
		s.kind = kBS
	case k < 18:
		s.kind = kCBS
	default:
		s.kind = kERR
	}
	if s.kind == kERR && !allowErrKinds {
		s.kind = kCR
	}
	if s.kind == kERR {
		s.eref = errRef{class: refIO, a: s.id}
		return s
	}
	size := len(g.good)
	// content variant
	isTrusted := s.kind == kBS || s.kind == kRA
	if r.Chance(3, 20) && (!isTrusted || g.trustedWrong) {
		c := append([]byte(nil), g.good...)
		switch v := r.Intn(3); {
		case v == 0 && size > 0:
			j := r.Intn(size)
			c[j] ^= byte(1 << uint(r.Intn(8)))
			s.variant = fmt.Sprintf("flip@%d", j)
		case v == 1 && size > 0:
			t := r.Intn(size)
			c = c[:t]
			s.variant = fmt.Sprintf("trunc@%d", t)
		default:
			k := r.Range(1, 3)
			c = append(c, r.Bytes(k)...)
			s.variant = fmt.Sprintf("ext+%d", k)
		}
		s.content = c
		s.good = false
	}
	n := len(s.content)
	switch s.kind {
	case kCR, kRD:
		if r.Chance(11, 20) {
			s.failAt = g.position(n)
		}
	case kRA:
		if n > 0 && r.Chance(1, 2) {
			s.failAt = r.Intn(n)
		}
	}
	limit := n
	if s.failAt >= 0 {
		limit = s.failAt
	}
	if s.kind == kCR || s.kind == kRD {
		s.chunks = g.chunking(limit)
	}
	if s.kind == kRD {
		s.errWithData = r.Bool()
		s.eofWithData = r.Bool()
	}
	return s
}

// position picks a failure position in [0,n], favouring the ends.
func (g *genCtx) position(n int) int {
	switch g.r.Intn(8) {
	case 0:
		return 0
	case 1:
		return n
	case 2:
		if n > 0 {
			return n - 1
		}
	}
	return g.r.Range(0, n)
}

func (g *genCtx) buf(depth int, allowErrKinds bool) *spec {
	if depth > 0 && g.r.Chance(3, 20) {
		return g.nest(g.buf(depth-1, true), depth-1)
	}
	return g.leaf(allowErrKinds)
}

func (g *genCtx) clean() *spec {
	s := g.leaf(false)
	s.content, s.good, s.variant, s.failAt = g.good, true, "", -1
	if s.kind == kCR || s.kind == kRD {
		s.chunks = g.chunking(len(g.good))
	}
	return s
}

func (g *genCtx) nest(inner *spec, depth int) *spec {
	r := g.r
	g.nextH++
	h := &hspec{id: g.nextH}
	g.nextID++
	s := &spec{id: g.nextID, kind: kNEST, inner: inner, h: h, failAt: -1}
	n := r.Pick(0, 1, 1, 2, 2, 2, 3, 4)
	if g.big && n > 2 {
		n = 2
	}
	for i := 0; i < n; i++ {
		switch {
		case r.Chance(1, 8):
			h.script = append(h.script, resp{isErr: true})
		case i == n-1 && r.Chance(3, 5):
			h.script = append(h.script, resp{buf: g.clean()})
		default:
			h.script = append(h.script, resp{buf: g.buf(depth, true)})
		}
	}
	return s
}

// sanitize removes what the documented limitations of bb-storage exclude from
// the property: a byte-slice / reader-at backed ("validated") buffer finishes
// the handler at once and is trusted, so when it ends up as the *outermost*
// buffer neither its I/O errors are offered (TODO in
// validated_reader_at_buffer.go) nor its content validated. Such a leaf is
// made clean. The dry run uses a throw-away reference.
func sanitize(sc *scenario) {
	for i := 0; i < 8; i++ {
		R := newRef(sc.good)
		root := R.resolve(sc.root)
		if root.leaf == nil || !trusted(root.leaf) || (root.leaf.good && root.leaf.failAt < 0) {
			return
		}
		root.leaf.content, root.leaf.good, root.leaf.variant, root.leaf.failAt = sc.good, true, "", -1
	}
}

func protoObject(r *gen.Rng, size int) []byte {
	m := &remoteexecution.Digest{Hash: hex.EncodeToString(r.Bytes((size + 1) / 2)), SizeBytes: int64(r.Intn(1 << 20))}
	if size == 0 {
		m = &remoteexecution.Digest{}
	}
	b, _ := proto.Marshal(m)
	return b
}

func genScenario(r *gen.Rng, w *run.Worker) *scenario {
	sc := &scenario{}
	// size
	var size int
	switch k := r.Intn(1000); {
	case k < 30:
		size = 0
	case k < 430:
		size = r.Range(1, 8)
	case k < 880:
		size = r.Range(9, 64)
	case k < 997:
		size = r.Range(65, 300)
	default:
		size = r.Pick(65535, 65536, 65537, 131073, 70000)
	}
	// consumer
	c := consumer{kind: r.Pick(cByteSlice, cByteSlice, cReader, cReader, cReader, cChunkReader, cChunkReader, cChunkReader, cChunkReader, cIntoWriter, cIntoWriter, cReadAt, cReadAt, cReadAt, cProto, cCloneCopy, cCloneStream, cDiscard), stopAfter: -1}
	if size > 4096 && (c.kind == cCloneStream || c.kind == cProto) {
		c.kind = cReader
	}
	if c.kind == cProto {
		sc.good = protoObject(r, size)
	} else {
		sc.good = r.Bytes(size)
	}
	size = len(sc.good)
	switch c.kind {
	case cReader, cCloneStream:
		c.readMax = r.Pick(1, 2, 3, 8, size+1, 2*size+3)
	case cChunkReader:
		c.max = r.Pick(1, 2, 3, 7, size+1, 65536)
		switch k := r.Intn(25); {
		case k == 0:
			c.off = r.Pick(-1, size+1, size+100)
		case k == 1:
			c.off = size
		default:
			c.off = r.Range(0, size)
		}
	case cReadAt:
		switch k := r.Intn(40); {
		case k == 0:
			c.off = -1
		case k == 1:
			c.off = size + r.Range(0, 3)
		default:
			c.off = r.Range(0, size)
		}
		rest := size - c.off
		c.plen = r.Pick(0, 1, rest, rest, rest+2, r.Range(0, size+1))
		if c.plen < 0 {
			c.plen = 0
		}
	}
	if size > 4096 {
		if c.readMax < 1000 {
			c.readMax = r.Pick(4096, 65536, 100000)
		}
		if c.max < 1000 {
			c.max = r.Pick(4096, 65536, 100000)
		}
	}
	if (c.kind == cReader || c.kind == cChunkReader) && r.Chance(1, 6) && c.off >= 0 && c.off <= size {
		c.stopAfter = r.Range(0, size-c.off)
	}
	sc.cons = c
	sc.fn = gen.AllFunctions[r.Pick(2, 2, 2, 2, 0, 1, 3, 4, 5, 6, 7)]

	cl := c.class(size)
	g := &genCtx{r: r, good: sc.good, trustedWrong: cl == clStream || cl == clStreamEarly, big: size > 4096}
	depth := r.Pick(0, 0, 1, 1, 2)
	base := g.buf(depth, true)
	if r.Chance(3, 4) && base.kind != kNEST && base.kind != kERR && base.failAt < 0 && (base.kind == kCR || base.kind == kRD) {
		// make the base fail more often: that is what the property is about
		base.failAt = g.position(len(base.content))
		base.chunks = g.chunking(base.failAt)
	}
	sc.root = g.nest(base, depth)
	sanitize(sc)
	return sc
}

// ---- body ----

func main() {
	run.Main(run.Spec{
		Property: "C16",
		Level:    "fault_enumeration",
		Rule: "random: case = object (0..300 bytes, a few around 64 KiB; 8 digest functions) x base buffer (chunk reader / reader / reader-at / byte slice / known error state / buffer with its own handler; own chunking incl. empty chunks, short reads, error or EOF delivered with or after the last bytes; optional I/O error at any position 0..n; optional wrong content) x handler script of 0..4 answers (replacement of any of those kinds with its own chunking, failure and content; or nil+error) nested up to depth 2 x consumer (ToByteSlice, ToReader with read sizes, ToChunkReader(off,max), IntoWriter, ReadAt(off,len), ToProto, CloneCopy, CloneStream with two goroutines, Discard; early close); " +
			"exhaustive: sizes 0..S (S=3 quick, 6 thorough) x base kind x every chunking of the base x every failure position x replacement kind x every chunking of the replacement x every second failure position x consumers with every offset; " +
			"distinct = hash of the scenario shape (kinds, chunkings, failure positions, variants, consumer); non-trivial = at least one error was offered to a handler",
		Workers:     8,
		CaseTimeout: 120 * time.Second,
		Floors: map[string]int64{
			"stitches_at_offset_gt0":            10000,
			"stitch_inside_replacement_chunk":   1300,
			"cases_two_or_more_offers":          10000,
			"replacement_failed_itself":         10000,
			"error_state_buffer_offered":        2000,
			"handler_error_delivered":           7000,
			"integrity_error_after_stitch":      400,
			"wrong_byte_in_delivered_range":     70,
			"nested_error_passed_to_outer":      200,
			"failure_before_resume_offset":      2000,
			"failure_at_eof_position":           10000,
			"success_after_recovery":            12000,
			"done_exactly_once_checked":         25000,
			"consumer_ToChunkReader_offset_gt0": 5000,
			"consumer_ToByteSlice":              1300,
			"consumer_ToReader":                 2000,
			"consumer_ToChunkReader":            2500,
			"consumer_IntoWriter":               1300,
			"consumer_ReadAt":                   2000,
			"consumer_ToProto":                  600,
			"consumer_CloneCopy":                600,
			"consumer_CloneStream":              600,
			"consumer_Discard":                  600,
			"consumer_early_close":              700,
			"large_objects":                     30,
			// the enumeration is deterministic: its size is known exactly
			"quick:exh_subcases":                     61050,
			"thorough:exh_subcases":                  6193626,
			"thorough:stitches_at_offset_gt0":        400000,
			"thorough:wrong_byte_in_delivered_range": 5000,
			"thorough:nested_error_passed_to_outer":  15000,
			"thorough:large_objects":                 2000,
		},
		Assumptions: []string{
			"a failed source keeps returning its error (sticky), and returns correct bytes before the failure position unless the scenario gives it wrong content",
			"byte-slice and reader-at backed 'validated' buffers are trusted by contract: wrong content in them is only used where the stitched stream is validated above (stream consumers, not as outermost buffer); a failing reader-at buffer as outermost buffer is excluded (documented TODO in validated_reader_at_buffer.go: the handler is finished at once) and only observed in group readerat_base",
			"an error where the reference predicts success is a violation (unjustified-error): with all failures answered by good replacements the statement's only error sources (handler error, digest mismatch) are absent",
		},
		Body: body,
	})
}

func report(c *run.Case, sc *scenario, viol []result, trace []string) {
	for _, v := range viol {
		c.Violation(v.sig, "%s\n--- scenario: %v\n--- events:\n  %s", v.detail, sc, strings.Join(trace, "\n  "))
	}
}

func account(w *run.Worker, sc *scenario, st *stats, prefix string) {
	R := st.R
	w.Count("stitches_at_offset_gt0", int64(R.stitches))
	w.Count("stitches_at_offset_0", int64(R.stitchesAtZero))
	w.Count("stitch_inside_replacement_chunk", int64(R.stitchMidChunk))
	w.Count("replacement_failed_itself", int64(R.replFailed))
	w.Count("error_state_buffer_offered", int64(R.errBufOffered))
	w.Count("failure_before_resume_offset", int64(R.failBeforeResum))
	w.Count("wrong_byte_in_delivered_range", int64(R.wrongSkipped))
	w.Count("nested_error_passed_to_outer", int64(R.nestedPassedUp))
	w.Count("failure_at_eof_position", int64(R.eofPosFailure))
	w.Count("handler_finished_immediately", int64(R.detached))
	w.Count("onerror_calls", int64(st.offered))
	w.Count("obs_source_never_closed", int64(st.srcNotClosed))
	w.Count("obs_source_closed_more_than_once", int64(st.srcClosedTwice))
	w.Count("obs_source_read_after_close", int64(st.srcReadAfterClose))
	w.Count("handler_error_delivered", int64(st.handlerErr))
	w.Count("integrity_error_after_stitch", int64(st.integrityErr))
	if st.multiFailure {
		w.Count("cases_two_or_more_offers", 1)
	}
	if st.offered > 0 {
		w.Count("success_after_recovery", int64(st.success))
	} else {
		w.Count("success_without_failure", int64(st.success))
	}
	w.Count("done_exactly_once_checked", int64(st.handlers))
	w.Count(prefix+"consumer_"+consumerNames[sc.cons.kind], 1)
	if sc.cons.kind == cChunkReader && sc.cons.off > 0 {
		w.Count("consumer_ToChunkReader_offset_gt0", 1)
	}
	if sc.cons.stopAfter >= 0 {
		w.Count("consumer_early_close", 1)
	}
}

// caseRng derives the case's generator from c.Rng and, once more, from seed,
// worker and case index. lib/run seeds c.Rng with gen.New(seed, worker, group,
// index), and gen.New folds its arguments with xor-then-add of one constant
// without mixing, so small arguments cancel: (worker, index) and (worker xor
// a, index xor b) yield the same stream, and so do (seed, worker) and (seed',
// worker xor k). Measured before this work-around: all 8 workers ran the same
// 7500 random scenarios (permuted), and seeds 1, 2, 3 ran the same multiset.
// Folding in multiplied (hence spread over all 64 bits) copies makes workers,
// indices and seeds independent; the stream is still a function of (seed,
// worker, group, index) only.
func caseRng(c *run.Case, w *run.Worker) *gen.Rng {
	const k = 0x9e3779b97f4a7c15
	return gen.New(c.Rng.Uint64(), (w.Seed+1)*k, (uint64(w.Index)+1)*0xbf58476d1ce4e5b9, (uint64(c.Index)+1)*0x94d049bb133111eb)
}

func body(w *run.Worker) {
	// --- random scenarios ---
	w.Cases("random", w.N(60000, 4000000), func(c *run.Case) {
		r := caseRng(c, w)
		sc := genScenario(r, w)
		desc := sc.String()
		c.Desc("%s", desc)
		var st stats
		viol, trace := runScenario(sc, r.Fork(), &st)
		account(w, sc, &st, "")
		if st.offered > 0 {
			w.Distinct(desc)
		}
		if len(sc.good) > 4096 {
			w.Count("large_objects", 1)
		}
		if c.Index < 40 && st.offered >= 2 && st.success > 0 {
			w.Sample(map[string]any{"scenario": desc, "events": trace})
		}
		report(c, sc, viol, trace)
	})

	// --- observation only: a failing reader-at buffer as outermost buffer ---
	w.Cases("readerat_base", w.N(200, 2000), func(c *run.Case) {
		r := caseRng(c, w)
		size := r.Range(1, 40)
		good := r.Bytes(size)
		base := &spec{id: 1, kind: kRA, content: good, good: true, failAt: r.Intn(size)}
		root := &spec{id: 2, kind: kNEST, inner: base, failAt: -1, h: &hspec{id: 1, script: []resp{{buf: &spec{id: 3, kind: kBS, content: good, good: true, failAt: -1}}}}}
		sc := &scenario{good: good, fn: remoteexecution.DigestFunction_SHA256, root: root, cons: consumer{kind: r.Pick(cByteSlice, cReader, cIntoWriter), readMax: 8, stopAfter: -1}}
		c.Desc("%v", sc)
		wd := &world{good: good, d: gen.DigestOf("c16", sc.fn, good), srcs: map[int]*srcState{}, hs: map[int]*hState{}}
		b := wd.build(root)
		outs := consume(b, sc, r.Fork())
		h := wd.hs[1]
		switch {
		case len(h.onErr) == 0 && outs[0].err != nil:
			w.Count("obs_readerat_outermost_error_bypasses_handler", 1)
		case len(h.onErr) > 0:
			w.Count("obs_readerat_outermost_error_offered", 1)
		}
		if outs[0].err == nil && !bytes.Equal(outs[0].delivered, good) {
			c.Violation("withErrorHandler(readerAt)."+consumerNames[sc.cons.kind]+":bytes-not-exactly-once", "success with %s, want %s", hx(outs[0].delivered), hx(good))
		}
		if h.done != 1 {
			c.Violation("withErrorHandler(readerAt)."+consumerNames[sc.cons.kind]+":done-not-exactly-once", "Done called %d times", h.done)
		}
	})

	// --- exhaustive small scope ---
	exhaustive(w)
}
