package main

import (
	"errors"
	"io"
)

// Fault-injecting sources. Every source serves a fixed content with a fixed
// chunking and, optionally, fails with a fixed error at a fixed position. A
// failure is sticky: once the failure position has been reached every further
// read returns the same error again (a broken connection does not heal).
// Each source records how often it returned its error and how often it was
// closed; the monitor relates these counts to what the handler was offered.

type srcState struct {
	spec            *spec
	reads           int
	errReturns      int // number of calls that returned the injected error
	closes          int
	readsAfterClose int
}

// crSource is a buffer.ChunkReader.
type crSource struct {
	st     *srcState
	chunks [][]byte
	i      int
	err    error // nil: end of file after the chunks
}

func (r *crSource) Read() ([]byte, error) {
	r.st.reads++
	if r.st.closes > 0 {
		r.st.readsAfterClose++
	}
	if r.i < len(r.chunks) {
		c := r.chunks[r.i]
		r.i++
		return c, nil
	}
	if r.err != nil {
		r.st.errReturns++
		return nil, r.err
	}
	return nil, io.EOF
}

func (r *crSource) Close() { r.st.closes++ }

// rdSource is an io.ReadCloser performing short reads along a chunking.
type rdSource struct {
	st       *srcState
	data     []byte // the bytes before the terminal event
	chunks   []int
	ci       int
	cleft    int
	pos      int
	term     error // io.EOF or the injected error
	withData bool  // deliver the terminal event together with the last bytes
}

func (r *rdSource) terminal() error {
	if r.term != io.EOF {
		r.st.errReturns++
	}
	return r.term
}

func (r *rdSource) Read(p []byte) (int, error) {
	r.st.reads++
	if r.st.closes > 0 {
		r.st.readsAfterClose++
	}
	if r.pos == len(r.data) {
		return 0, r.terminal()
	}
	if len(p) == 0 {
		return 0, nil
	}
	for r.cleft == 0 {
		if r.ci >= len(r.chunks) {
			r.cleft = len(r.data) - r.pos
			break
		}
		r.cleft = r.chunks[r.ci]
		r.ci++
		if r.cleft == 0 {
			return 0, nil // an empty chunk is a zero-length read
		}
	}
	n := len(p)
	if n > r.cleft {
		n = r.cleft
	}
	copy(p, r.data[r.pos:r.pos+n])
	r.pos += n
	r.cleft -= n
	if r.pos == len(r.data) && r.withData {
		return n, r.terminal()
	}
	return n, nil
}

func (r *rdSource) Close() error {
	r.st.closes++
	return nil
}

// raSource is a buffer.ReadAtCloser. A read that touches a byte at or beyond
// failAt returns the bytes before failAt together with the injected error.
type raSource struct {
	st     *srcState
	data   []byte
	failAt int
	err    error
}

func (r *raSource) ReadAt(p []byte, off int64) (int, error) {
	r.st.reads++
	if r.st.closes > 0 {
		r.st.readsAfterClose++
	}
	if off < 0 {
		return 0, errors.New("raSource.ReadAt: negative offset")
	}
	o := int(off)
	if r.failAt >= 0 && o+len(p) > r.failAt {
		n := 0
		if o < r.failAt {
			n = copy(p, r.data[o:r.failAt])
		}
		r.st.errReturns++
		return n, r.err
	}
	if o >= len(r.data) {
		return 0, io.EOF
	}
	n := copy(p, r.data[o:])
	if n < len(p) {
		return n, io.EOF
	}
	return n, nil
}

func (r *raSource) Close() error {
	r.st.closes++
	return nil
}
