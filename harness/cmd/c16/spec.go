package main

import (
	"fmt"
	"io"
	"strings"
	"sync"

	"github.com/buildbarn/bb-storage/pkg/blobstore/buffer"
	"github.com/buildbarn/bb-storage/pkg/digest"
	"google.golang.org/grpc/codes"
	"google.golang.org/grpc/status"
)

// kind of a buffer in a scenario.
type kind int

const (
	kCR   kind = iota // buffer.NewCASBufferFromChunkReader over a crSource
	kRD               // buffer.NewCASBufferFromReader over an rdSource
	kRA               // buffer.NewValidatedBufferFromReaderAt over an raSource ("trusted")
	kBS               // buffer.NewValidatedBufferFromByteSlice ("trusted")
	kCBS              // buffer.NewCASBufferFromByteSlice (an error buffer when the content mismatches)
	kERR              // buffer.NewBufferFromError: known error state
	kNEST             // buffer.WithErrorHandler(inner, h): a buffer with its own handler
)

var kindNames = []string{"CR", "RD", "RA", "BS", "CBS", "ERR", "EH"}

// spec describes one buffer of a scenario: a leaf with its source script, or
// a buffer wrapped with its own error handler.
type spec struct {
	id      int
	kind    kind
	content []byte // bytes the source yields from offset 0 when nothing fails
	good    bool   // content == the object
	variant string // "", "flip@j", "trunc@t", "ext+k"
	chunks  []int  // chunking of content[:failAt] resp. content (CR, RD)
	failAt  int    // -1: no failure; else position of the injected I/O error
	// RD details.
	errWithData bool
	eofWithData bool
	user        bool   // buffer.UserProvided instead of BackendProvided
	eref        errRef // kERR: the error of the buffer
	inner       *spec  // kNEST
	h           *hspec // kNEST
}

// resp is one scripted answer of a handler: a replacement buffer or an error.
type resp struct {
	buf   *spec
	isErr bool
}

type hspec struct {
	id     int
	script []resp
}

// errRef identifies an error in the reference's vocabulary.
type errRef struct {
	class int
	a, b  int
}

const (
	refNone    = iota
	refIO      // injected I/O error of source a
	refHErr    // scripted error response b of handler a
	refGiveUp  // handler a ran out of script
	refOther   // an error bb-storage produced itself (integrity, offset, ...)
	refOtherIO // refOther or refIO of source a (self-validated attempt on a wrong-content source that also fails)
)

var ioCodes = []codes.Code{codes.Unavailable, codes.Internal, codes.DeadlineExceeded, codes.Aborted, codes.Unknown, codes.NotFound}

func ioErr(id int) error {
	return status.Errorf(ioCodes[id%len(ioCodes)], "c16 io-error src#%d", id)
}

func hErr(h, k int) error {
	return status.Errorf(ioCodes[(h+k+1)%len(ioCodes)], "c16 handler#%d response#%d error", h, k)
}

func giveUpErr(h int) error {
	return status.Errorf(codes.Unavailable, "c16 handler#%d gave up", h)
}

func (e errRef) err() error {
	switch e.class {
	case refIO:
		return ioErr(e.a)
	case refHErr:
		return hErr(e.a, e.b)
	case refGiveUp:
		return giveUpErr(e.a)
	}
	return nil
}

func (e errRef) String() string {
	switch e.class {
	case refIO:
		return fmt.Sprintf("io#%d", e.a)
	case refHErr:
		return fmt.Sprintf("herr#%d.%d", e.a, e.b)
	case refGiveUp:
		return fmt.Sprintf("giveup#%d", e.a)
	case refOther:
		return "other"
	case refOtherIO:
		return fmt.Sprintf("other|io#%d", e.a)
	}
	return "none"
}

func sameErr(a, b error) bool {
	if a == nil || b == nil {
		return a == b
	}
	if a == b {
		return true
	}
	sa, sb := status.Convert(a), status.Convert(b)
	return sa.Code() == sb.Code() && sa.Message() == sb.Message()
}

func tagged(err error) bool {
	if err == nil {
		return false
	}
	m := err.Error()
	// (Not just "c16 ": a hex checksum in an integrity error may end in "c16".)
	return strings.Contains(m, "c16 io-error src#") || strings.Contains(m, "c16 handler#")
}

// matches says whether an observed error is the one the reference names.
func (e errRef) matches(err error) bool {
	if err == nil || err == io.EOF {
		return false
	}
	switch e.class {
	case refOther:
		return !tagged(err)
	case refOtherIO:
		return !tagged(err) || sameErr(err, ioErr(e.a))
	case refNone:
		return false
	}
	return sameErr(err, e.err())
}

func (s *spec) String() string {
	switch s.kind {
	case kNEST:
		var parts []string
		for k, r := range s.h.script {
			if r.isErr {
				parts = append(parts, fmt.Sprintf("err%d", k))
			} else {
				parts = append(parts, r.buf.String())
			}
		}
		return fmt.Sprintf("EH%d(%v|%s)", s.h.id, s.inner, strings.Join(parts, ","))
	case kERR:
		return fmt.Sprintf("ERR%d", s.id)
	}
	v := s.variant
	if v != "" {
		v = " " + v
	}
	t := ""
	if s.kind == kRD {
		if s.errWithData {
			t += "e"
		}
		if s.eofWithData {
			t += "f"
		}
	}
	ch := ""
	if s.kind == kCR || s.kind == kRD {
		if len(s.chunks) <= 12 {
			ch = fmt.Sprintf(" c%v", s.chunks)
		} else {
			ch = fmt.Sprintf(" c[%d chunks]", len(s.chunks))
		}
	}
	return fmt.Sprintf("%s%s%d{f%d%s%s}", kindNames[s.kind], t, s.id, s.failAt, v, ch)
}

// ---- the real objects of one scenario ----

type hState struct {
	w    *world
	spec *hspec
	mu   sync.Mutex
	next int
	// observed
	onErr          []error
	done           int
	onErrAfterDone int
}

type world struct {
	good []byte
	d    digest.Digest
	mu   sync.Mutex
	srcs map[int]*srcState
	hs   map[int]*hState
	ord  []*hState // handlers in order of construction
	tr   []string
	// integrity callback observations (recorded, not asserted)
	validTrue, validFalse int
}

func (w *world) logf(format string, a ...any) {
	w.mu.Lock()
	if len(w.tr) < 200 {
		w.tr = append(w.tr, fmt.Sprintf(format, a...))
	}
	w.mu.Unlock()
}

func (h *hState) OnError(err error) (buffer.Buffer, error) {
	h.mu.Lock()
	h.onErr = append(h.onErr, err)
	if h.done > 0 {
		h.onErrAfterDone++
	}
	k := h.next
	h.next++
	h.mu.Unlock()
	if k >= len(h.spec.script) {
		e := giveUpErr(h.spec.id)
		h.w.logf("handler#%d.OnError(%v) -> gives up", h.spec.id, err)
		return nil, e
	}
	r := h.spec.script[k]
	if r.isErr {
		e := hErr(h.spec.id, k)
		h.w.logf("handler#%d.OnError(%v) -> error %v", h.spec.id, err, e)
		return nil, e
	}
	h.w.logf("handler#%d.OnError(%v) -> replacement %v", h.spec.id, err, r.buf)
	return h.w.build(r.buf), nil
}

func (h *hState) Done() {
	h.mu.Lock()
	h.done++
	h.mu.Unlock()
	h.w.logf("handler#%d.Done()", h.spec.id)
}

func (w *world) source(s *spec) buffer.Source {
	if s.user {
		return buffer.UserProvided
	}
	return buffer.BackendProvided(func(valid bool) {
		w.mu.Lock()
		if valid {
			w.validTrue++
		} else {
			w.validFalse++
		}
		w.mu.Unlock()
	})
}

// build constructs the real bb-storage buffer for a spec.
func (w *world) build(s *spec) buffer.Buffer {
	switch s.kind {
	case kNEST:
		h := &hState{w: w, spec: s.h}
		w.mu.Lock()
		w.hs[s.h.id] = h
		w.ord = append(w.ord, h)
		w.mu.Unlock()
		return buffer.WithErrorHandler(w.build(s.inner), h)
	case kERR:
		return buffer.NewBufferFromError(s.eref.err())
	case kBS:
		return buffer.NewValidatedBufferFromByteSlice(append([]byte(nil), s.content...))
	case kCBS:
		return buffer.NewCASBufferFromByteSlice(w.d, append([]byte(nil), s.content...), w.source(s))
	}
	st := &srcState{spec: s}
	w.mu.Lock()
	w.srcs[s.id] = st
	w.mu.Unlock()
	data := append([]byte(nil), s.content...)
	var ferr error
	limit := len(data)
	if s.failAt >= 0 {
		ferr = ioErr(s.id)
		limit = s.failAt
	}
	switch s.kind {
	case kCR:
		src := &crSource{st: st, err: ferr}
		p := 0
		for _, c := range s.chunks {
			src.chunks = append(src.chunks, data[p:p+c:p+c])
			p += c
		}
		return buffer.NewCASBufferFromChunkReader(w.d, src, w.source(s))
	case kRD:
		src := &rdSource{st: st, data: data[:limit], chunks: s.chunks, term: io.EOF, withData: s.eofWithData}
		if ferr != nil {
			src.term = ferr
			src.withData = s.errWithData
		}
		return buffer.NewCASBufferFromReader(w.d, src, w.source(s))
	case kRA:
		return buffer.NewValidatedBufferFromReaderAt(&raSource{st: st, data: data, failAt: s.failAt, err: ferr}, int64(len(data)))
	}
	panic("unknown kind")
}
