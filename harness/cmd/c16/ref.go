package main

// The reference: a small executable model of what the property states, over
// the scenario's spec tree. It never touches bb-storage; it predicts
//   - which errors every handler is offered, in order (expOffer),
//   - what the consumer must end up with (success with the object's bytes, or
//     a specific error a handler returned, or "some error" once the stitched
//     stream deviates from the object).
//
// Stitch semantics (streams): a buffer with a handler delivers the bytes of
// its current underlying buffer; when that one reports an I/O error the error
// is offered to the handler, and the replacement is opened *at the number of
// bytes delivered so far* without validation; validation against the digest
// happens once, above the outermost stitch.
//
// Retry semantics (ToByteSlice, ToProto, ReadAt, CloneCopy): the whole
// operation is attempted against the underlying buffer (which validates
// itself); a failure is offered to the handler and the operation is repeated
// against the replacement.
//
// bb-storage applies a handler to buffers in a known state at once
// (with_error_handler.go): an error buffer's error is offered immediately,
// a byte-slice / reader-at backed "validated" buffer finishes the handler
// immediately (Done) and is returned as is. resolve() mirrors that.

type expOffer struct {
	e        errRef
	reliable bool // false once the stitched stream has deviated from the object
}

type refH struct {
	spec        *hspec
	next        int
	exp         []expOffer
	constructed bool
}

// rnode is a resolved buffer: a plain leaf, or a buffer with a live handler.
type rnode struct {
	leaf *spec
	base *rnode
	h    *refH
}

type term struct {
	ok bool // stream: end of file; retry: operation succeeded
	e  errRef
}

type ref struct {
	good     []byte
	hs       map[int]*refH
	pos      int  // bytes delivered by the outermost stitched stream
	deviated bool // the stitched stream is no longer a prefix of the object
	// coverage facts
	stitches        int // replacement opened at an offset > 0
	stitchesAtZero  int
	stitchMidChunk  int // resume offset strictly inside a chunk of the replacement
	replFailed      int // a replacement buffer failed itself
	errBufOffered   int // a known-error-state buffer's error was offered
	failBeforeResum int // a replacement whose failure lies before the resume offset
	wrongSkipped    int // wrong byte of a replacement in the already-delivered range (never delivered)
	nestedPassedUp  int // an inner handler's error was offered to the outer handler
	eofPosFailure   int // failure after the last byte, before end of file
	detached        int // handler finished immediately on a validated buffer
	depth           int
}

func newRef(good []byte) *ref {
	return &ref{good: good, hs: map[int]*refH{}}
}

func (R *ref) handler(h *hspec) *refH {
	x, ok := R.hs[h.id]
	if !ok {
		x = &refH{spec: h}
		R.hs[h.id] = x
	}
	return x
}

// take records an offer and returns the handler's scripted answer.
func (R *ref) take(h *refH, e errRef) (resp, errRef) {
	h.exp = append(h.exp, expOffer{e: e, reliable: !R.deviated})
	k := h.next
	h.next++
	if k >= len(h.spec.script) {
		return resp{isErr: true}, errRef{class: refGiveUp, a: h.spec.id}
	}
	r := h.spec.script[k]
	if r.isErr {
		return r, errRef{class: refHErr, a: h.spec.id, b: k}
	}
	return r, errRef{}
}

func errLike(s *spec) (errRef, bool) {
	switch {
	case s.kind == kERR:
		return s.eref, true
	case s.kind == kCBS && !s.good:
		return errRef{class: refOther}, true
	}
	return errRef{}, false
}

func trusted(s *spec) bool {
	return s.kind == kBS || s.kind == kRA || (s.kind == kCBS && s.good)
}

// resolve mirrors buffer.WithErrorHandler on specs.
func (R *ref) resolve(s *spec) *rnode {
	if s.kind != kNEST {
		return &rnode{leaf: s}
	}
	h := R.handler(s.h)
	h.constructed = true
	b := R.resolve(s.inner)
	for {
		if b.leaf == nil {
			return &rnode{base: b, h: h}
		}
		if e, ok := errLike(b.leaf); ok {
			R.errBufOffered++
			r, re := R.take(h, e)
			if r.isErr {
				// Done; the result is an error buffer carrying the handler's error.
				return &rnode{leaf: &spec{kind: kERR, id: -1, eref: re, failAt: -1}}
			}
			b = R.resolve(r.buf)
			continue
		}
		if trusted(b.leaf) {
			R.detached++
			return b // Done; handler detached
		}
		return &rnode{base: b, h: h}
	}
}

func (R *ref) deliver(b []byte) {
	for i := range b {
		p := R.pos + i
		if p >= len(R.good) || R.good[p] != b[i] {
			R.deviated = true
		}
	}
	R.pos += len(b)
}

// open walks the unvalidated stream of n opened at offset R.pos.
func (R *ref) open(n *rnode, isReplacement bool) term {
	if n.leaf != nil {
		return R.openLeaf(n.leaf, isReplacement)
	}
	cur := n.base
	first := true
	for {
		t := R.open(cur, isReplacement || !first)
		if t.ok {
			return t
		}
		if !first {
			R.replFailed++
		}
		if cur.leaf == nil {
			R.nestedPassedUp++
		}
		r, re := R.take(n.h, t.e)
		if r.isErr {
			return term{e: re}
		}
		cur = R.resolve(r.buf)
		first = false
	}
}

func (R *ref) openLeaf(s *spec, isReplacement bool) term {
	pos := R.pos
	if isReplacement {
		if pos > 0 {
			R.stitches++
		} else {
			R.stitchesAtZero++
		}
	}
	if e, ok := errLike(s); ok {
		if s.kind == kERR {
			R.errBufOffered++
		}
		return term{e: e}
	}
	c := s.content
	if isReplacement && !s.good {
		// wrong byte in the range that has been delivered already?
		for i := 0; i < pos && i < len(c) && i < len(R.good); i++ {
			if c[i] != R.good[i] {
				R.wrongSkipped++
				break
			}
		}
	}
	if isReplacement && pos > 0 && (s.kind == kCR || s.kind == kRD) {
		o := 0
		for _, n := range s.chunks {
			if o < pos && pos < o+n {
				R.stitchMidChunk++
			}
			o += n
		}
	}
	switch s.kind {
	case kBS, kCBS, kRA:
		if pos > len(c) {
			return term{e: errRef{class: refOther}} // offset beyond the replacement's size
		}
		if s.kind != kRA || s.failAt < 0 || pos >= len(c) {
			R.deliver(c[pos:])
			return term{ok: true}
		}
		if s.failAt > pos {
			R.deliver(c[pos:s.failAt])
		} else if isReplacement {
			R.failBeforeResum++
		}
		return term{e: errRef{class: refIO, a: s.id}}
	}
	// kCR, kRD: read from the start, the first pos bytes are thrown away.
	if s.failAt >= 0 {
		if pos < s.failAt {
			R.deliver(c[pos:s.failAt])
		} else if isReplacement && s.failAt < pos {
			R.failBeforeResum++
		}
		if s.failAt == len(c) {
			R.eofPosFailure++
		}
		return term{e: errRef{class: refIO, a: s.id}}
	}
	if pos < len(c) {
		R.deliver(c[pos:])
	}
	return term{ok: true}
}

// attempt models a whole-operation retry. For ReadAt, off/plen give the
// range; for the other operations plen < 0.
func (R *ref) attempt(n *rnode, off, plen int, isReplacement bool) term {
	if n.leaf != nil {
		return R.attemptLeaf(n.leaf, off, plen)
	}
	cur := n.base
	first := true
	for {
		t := R.attempt(cur, off, plen, isReplacement || !first)
		if t.ok {
			return t
		}
		if !first {
			R.replFailed++
		}
		if cur.leaf == nil {
			R.nestedPassedUp++
		}
		r, re := R.take(n.h, t.e)
		if r.isErr {
			return term{e: re}
		}
		cur = R.resolve(r.buf)
		first = false
	}
}

func (R *ref) attemptLeaf(s *spec, off, plen int) term {
	if e, ok := errLike(s); ok {
		if s.kind == kERR {
			R.errBufOffered++
		}
		return term{e: e}
	}
	switch s.kind {
	case kBS, kCBS:
		return term{ok: true}
	case kRA:
		if s.failAt < 0 {
			return term{ok: true}
		}
		if plen >= 0 && off+plen <= s.failAt {
			return term{ok: true} // the range read does not touch the failure
		}
		return term{e: errRef{class: refIO, a: s.id}}
	}
	// kCR, kRD validate themselves and always read the whole stream.
	if s.good {
		if s.failAt >= 0 {
			if s.failAt == len(s.content) {
				R.eofPosFailure++
			}
			return term{e: errRef{class: refIO, a: s.id}}
		}
		return term{ok: true}
	}
	if s.failAt >= 0 {
		return term{e: errRef{class: refOtherIO, a: s.id}}
	}
	return term{e: errRef{class: refOther}}
}
