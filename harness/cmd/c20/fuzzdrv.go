package main

// Driver of Go's native (coverage-guided) fuzz engine for the thorough tier.
// The test binary of this very package is built with fuzz instrumentation
// against the same bb-storage tree as the check and every target is run with
// an iteration budget (-test.fuzztime=Nx) from an empty corpus cache, so one
// thorough run never depends on an earlier one. A fuzz engine that cannot be
// built or started makes the run inconclusive, never a violation.

import (
	"bytes"
	"crypto/md5"
	"fmt"
	"os"
	"os/exec"
	"path/filepath"
	"regexp"
	"strconv"
	"strings"
	"time"
)

type fuzzFinding struct {
	sig, detail string
}

type fuzzResult struct {
	findings     []fuzzFinding
	inconclusive []string
	execs        map[string]int64
	interesting  map[string]int64
	falseAlarms  int64 // failing inputs of the engine that replay cleanly
}

var fuzzTargets = []string{"FuzzReadPath", "FuzzWritePath", "FuzzCompactBinary", "FuzzDigest"}

var (
	execsRe     = regexp.MustCompile(`execs: (\d+)`)
	interestRe  = regexp.MustCompile(`new interesting: (\d+) \(total: (\d+)\)`)
	violationRe = regexp.MustCompile(`VERIF-VIOLATION sig=(\S+) :: `)
	failingRe   = regexp.MustCompile(`Failing input written to (\S+)`)
)

func verifDir() string {
	if d := os.Getenv("VERIF_DIR"); d != "" {
		return d
	}
	return "/verif"
}

// runNativeFuzz builds the instrumented test binary and runs the targets one
// after the other. perTarget is the iteration budget of each.
func runNativeFuzz(perTarget int64, parallel int) *fuzzResult {
	res := &fuzzResult{execs: map[string]int64{}, interesting: map[string]int64{}}
	vd := verifDir()
	harness := filepath.Join(vd, "harness")
	tmp, err := os.MkdirTemp("", "c20-fuzz-")
	if err != nil {
		res.inconclusive = append(res.inconclusive, "native fuzzing: no temp dir: "+err.Error())
		return res
	}
	defer os.RemoveAll(tmp)
	env := append(os.Environ(), "GOFLAGS=-mod=mod", "GOPROXY=off")
	// do not leak the worker's identity into `go` or the test binary
	clean := env[:0]
	for _, e := range env {
		if strings.HasPrefix(e, "GOTOOLCHAIN=") || strings.HasPrefix(e, "GOSUMDB=") || strings.HasPrefix(e, "VERIF_WORKER=") || strings.HasPrefix(e, "GORACE=") {
			continue
		}
		clean = append(clean, e)
	}
	env = clean

	args := []string{"test", "-c", "-fuzz=Fuzz", "-tags", "verif"}
	if repo := os.Getenv("VERIF_REPO_DIR"); repo != "" && repo != "/repo" {
		sum := md5.Sum([]byte(repo + "\n"))
		mod := filepath.Join(vd, ".build", fmt.Sprintf("%x", sum)[:12], "go.mod")
		if _, err := os.Stat(mod); err != nil {
			res.inconclusive = append(res.inconclusive, "native fuzzing: generated go.mod for "+repo+" not found at "+mod)
			return res
		}
		args = append(args, "-modfile="+mod)
	}
	bin := filepath.Join(tmp, "c20.test")
	args = append(args, "-o", bin, "./cmd/c20")
	build := exec.Command("go", args...)
	build.Dir = harness
	build.Env = env
	if out, err := build.CombinedOutput(); err != nil {
		res.inconclusive = append(res.inconclusive, fmt.Sprintf("native fuzzing: building the instrumented test binary failed (%v): %s", err, tail(string(out), 1500)))
		return res
	}
	if _, err := os.Stat(bin); err != nil {
		res.inconclusive = append(res.inconclusive, "native fuzzing: go test -c produced no binary")
		return res
	}

	for _, target := range fuzzTargets {
		// The engine declares an input failing when its worker process does not
		// answer within about a second ("fuzzing process hung or terminated
		// unexpectedly"). On an overloaded machine that happens to healthy
		// workers. Such an input is therefore replayed in-process through the
		// same oracle: only what the oracle (or a crash of this process) confirms
		// is a finding; otherwise the target is started again, at most 3 times.
		for attempt := 1; ; attempt++ {
			again := runFuzzTarget(res, bin, tmp, target, attempt, perTarget, parallel, env)
			if !again {
				break
			}
			if attempt == 3 {
				res.inconclusive = append(res.inconclusive, "native fuzzing: "+target+": the engine lost its worker process in 3 attempts although the reported inputs replay cleanly in-process (machine overloaded?)")
				break
			}
		}
	}
	return res
}

// runFuzzTarget runs one target once. It returns true when the run ended in an
// engine artifact and should be repeated.
func runFuzzTarget(res *fuzzResult, bin, tmp, target string, attempt int, perTarget int64, parallel int, env []string) (again bool) {
	vd := verifDir()
	cwd := filepath.Join(tmp, fmt.Sprintf("run-%s-%d", target, attempt))
	os.MkdirAll(cwd, 0o755)
	cmd := exec.Command(bin,
		"-test.run=^$", "-test.fuzz=^"+target+"$",
		"-test.fuzztime="+strconv.FormatInt(perTarget, 10)+"x",
		"-test.fuzzcachedir="+filepath.Join(tmp, fmt.Sprintf("cache-%s-%d", target, attempt)),
		"-test.parallel="+strconv.Itoa(parallel),
		"-test.timeout=0",
	)
	cmd.Dir = cwd
	cmd.Env = env
	var out bytes.Buffer
	cmd.Stdout = &out
	cmd.Stderr = &out
	err := cmd.Run()
	o := out.String()
	if od := os.Getenv("VERIF_OUT"); od != "" {
		os.WriteFile(filepath.Join(od, fmt.Sprintf("fuzz-%s-%d.log", target, attempt)), out.Bytes(), 0o644)
	}
	if m := execsRe.FindAllStringSubmatch(o, -1); len(m) > 0 {
		n, _ := strconv.ParseInt(m[len(m)-1][1], 10, 64)
		res.execs[target] += n
	}
	if m := interestRe.FindAllStringSubmatch(o, -1); len(m) > 0 {
		n, _ := strconv.ParseInt(m[len(m)-1][2], 10, 64)
		if n > res.interesting[target] {
			res.interesting[target] = n
		}
	}
	if err == nil {
		if res.execs[target] == 0 {
			res.inconclusive = append(res.inconclusive, "native fuzzing: "+target+" reported no executions: "+tail(o, 600))
		}
		return false
	}
	// Failure: an oracle message, an engine artifact, or an engine problem.
	var crasher string
	var corpus []byte
	if m := failingRe.FindStringSubmatch(o); m != nil {
		src := m[1]
		if !filepath.IsAbs(src) {
			src = filepath.Join(cwd, src)
		}
		if b, err := os.ReadFile(src); err == nil {
			corpus = b
			crasher = fmt.Sprintf("\nfailing input (go fuzz corpus format, %s):\n%s", filepath.Base(src), tail(string(b), 2000))
		}
	}
	save := func() {
		if corpus == nil {
			return
		}
		sum := md5.Sum(corpus)
		dst := filepath.Join(vd, "replays", fmt.Sprintf("C20-fuzz-%s-%x", target, sum[:8]))
		os.MkdirAll(filepath.Dir(dst), 0o755)
		if os.WriteFile(dst, corpus, 0o644) == nil {
			crasher += "\ncopied to " + dst
		}
	}
	if ms := violationRe.FindAllStringSubmatchIndex(o, -1); len(ms) > 0 {
		save()
		seen := map[string]bool{}
		for i, m := range ms {
			sig := o[m[2]:m[3]]
			if seen[sig] {
				continue
			}
			seen[sig] = true
			end := len(o)
			if i+1 < len(ms) {
				end = ms[i+1][0]
			}
			d := o[m[1]:end]
			if len(d) > 6000 {
				d = d[:6000] + "…"
			}
			res.findings = append(res.findings, fuzzFinding{sig, "found by the native fuzz target " + target + ": " + d + crasher})
		}
		return false
	}
	if corpus != nil {
		// No oracle message: replay in-process. A genuine crash takes this worker
		// process down (the driver of the check reports that as panic:/fatal:), a
		// genuine hang is caught by the watchdog below.
		vals, perr := parseCorpus(corpus)
		if perr != nil {
			res.inconclusive = append(res.inconclusive, fmt.Sprintf("native fuzzing: %s reported a failing input that cannot be read back (%v): %s", target, perr, tail(o, 600)))
			return false
		}
		cs := &collectSink{}
		done := make(chan error, 1)
		go func() { done <- replayCorpus(target, vals, cs) }()
		select {
		case rerr := <-done:
			if rerr != nil {
				res.inconclusive = append(res.inconclusive, fmt.Sprintf("native fuzzing: %s: %v", target, rerr))
				return false
			}
		case <-time.After(5 * time.Minute):
			save()
			res.findings = append(res.findings, fuzzFinding{"hang:" + target, "the input on which the fuzz engine lost its worker does not finish within 5 minutes when replayed in-process" + crasher})
			return false
		}
		if len(cs.v) > 0 {
			save()
			for _, f := range cs.v {
				res.findings = append(res.findings, fuzzFinding{f.sig, "found by the native fuzz target " + target + " (confirmed by in-process replay): " + f.detail + crasher})
			}
			return false
		}
		res.falseAlarms++
		return true
	}
	if strings.Contains(o, "fuzzing process hung or terminated unexpectedly") {
		// The worker was lost on an entry of the seed corpus (no failing input is
		// written for those). The seeds come from the generators of this check
		// and inputs of the same shapes run in-process in the generated campaign,
		// where a crash or a hang cannot go unnoticed; so: try again.
		res.falseAlarms++
		return true
	}
	res.inconclusive = append(res.inconclusive, fmt.Sprintf("native fuzzing: %s did not run to completion (%v): %s", target, err, tail(o, 1200)))
	return false
}

func tail(s string, n int) string {
	if len(s) > n {
		return "…" + s[len(s)-n:]
	}
	return s
}
