package main

// Driver of Go's native (coverage-guided) fuzz engine for the thorough tier.
// The test binary of this very package is built with fuzz instrumentation
// against the same bb-storage tree as the check and every target is run with
// an iteration budget (-test.fuzztime=Nx) from an empty corpus cache, so one
// thorough run never depends on an earlier one. A fuzz engine that cannot be
// built or started makes the run inconclusive, never a violation.

import (
	"bytes"
	"crypto/md5"
	"fmt"
	"os"
	"os/exec"
	"path/filepath"
	"regexp"
	"strconv"
	"strings"
)

type fuzzFinding struct {
	sig, detail string
}

type fuzzResult struct {
	findings     []fuzzFinding
	inconclusive []string
	execs        map[string]int64
	interesting  map[string]int64
}

var fuzzTargets = []string{"FuzzReadPath", "FuzzWritePath", "FuzzCompactBinary", "FuzzDigest"}

var (
	execsRe     = regexp.MustCompile(`execs: (\d+)`)
	interestRe  = regexp.MustCompile(`new interesting: (\d+) \(total: (\d+)\)`)
	violationRe = regexp.MustCompile(`VERIF-VIOLATION sig=(\S+) :: `)
	failingRe   = regexp.MustCompile(`Failing input written to (\S+)`)
)

func verifDir() string {
	if d := os.Getenv("VERIF_DIR"); d != "" {
		return d
	}
	return "/verif"
}

// runNativeFuzz builds the instrumented test binary and runs the targets one
// after the other. perTarget is the iteration budget of each.
func runNativeFuzz(perTarget int64, parallel int) *fuzzResult {
	res := &fuzzResult{execs: map[string]int64{}, interesting: map[string]int64{}}
	vd := verifDir()
	harness := filepath.Join(vd, "harness")
	tmp, err := os.MkdirTemp("", "c20-fuzz-")
	if err != nil {
		res.inconclusive = append(res.inconclusive, "native fuzzing: no temp dir: "+err.Error())
		return res
	}
	defer os.RemoveAll(tmp)
	env := append(os.Environ(), "GOFLAGS=-mod=mod", "GOPROXY=off")
	// do not leak the worker's identity into `go` or the test binary
	clean := env[:0]
	for _, e := range env {
		if strings.HasPrefix(e, "GOTOOLCHAIN=") || strings.HasPrefix(e, "GOSUMDB=") || strings.HasPrefix(e, "VERIF_WORKER=") || strings.HasPrefix(e, "GORACE=") {
			continue
		}
		clean = append(clean, e)
	}
	env = clean

	args := []string{"test", "-c", "-fuzz=Fuzz", "-tags", "verif"}
	if repo := os.Getenv("VERIF_REPO_DIR"); repo != "" && repo != "/repo" {
		sum := md5.Sum([]byte(repo + "\n"))
		mod := filepath.Join(vd, ".build", fmt.Sprintf("%x", sum)[:12], "go.mod")
		if _, err := os.Stat(mod); err != nil {
			res.inconclusive = append(res.inconclusive, "native fuzzing: generated go.mod for "+repo+" not found at "+mod)
			return res
		}
		args = append(args, "-modfile="+mod)
	}
	bin := filepath.Join(tmp, "c20.test")
	args = append(args, "-o", bin, "./cmd/c20")
	build := exec.Command("go", args...)
	build.Dir = harness
	build.Env = env
	if out, err := build.CombinedOutput(); err != nil {
		res.inconclusive = append(res.inconclusive, fmt.Sprintf("native fuzzing: building the instrumented test binary failed (%v): %s", err, tail(string(out), 1500)))
		return res
	}
	if _, err := os.Stat(bin); err != nil {
		res.inconclusive = append(res.inconclusive, "native fuzzing: go test -c produced no binary")
		return res
	}

	for _, target := range fuzzTargets {
		cwd := filepath.Join(tmp, "run-"+target)
		os.MkdirAll(cwd, 0o755)
		cmd := exec.Command(bin,
			"-test.run=^$", "-test.fuzz=^"+target+"$",
			"-test.fuzztime="+strconv.FormatInt(perTarget, 10)+"x",
			"-test.fuzzcachedir="+filepath.Join(tmp, "cache-"+target),
			"-test.parallel="+strconv.Itoa(parallel),
			"-test.timeout=0",
		)
		cmd.Dir = cwd
		cmd.Env = env
		var out bytes.Buffer
		cmd.Stdout = &out
		cmd.Stderr = &out
		err := cmd.Run()
		o := out.String()
		if od := os.Getenv("VERIF_OUT"); od != "" {
			os.WriteFile(filepath.Join(od, "fuzz-"+target+".log"), out.Bytes(), 0o644)
		}
		if m := execsRe.FindAllStringSubmatch(o, -1); len(m) > 0 {
			n, _ := strconv.ParseInt(m[len(m)-1][1], 10, 64)
			res.execs[target] = n
		}
		if m := interestRe.FindAllStringSubmatch(o, -1); len(m) > 0 {
			n, _ := strconv.ParseInt(m[len(m)-1][2], 10, 64)
			res.interesting[target] = n
		}
		if err == nil {
			if res.execs[target] == 0 {
				res.inconclusive = append(res.inconclusive, "native fuzzing: "+target+" reported no executions: "+tail(o, 600))
			}
			continue
		}
		// Failure: an oracle message, an unexplained failing input, or an engine problem.
		var crasher string
		if m := failingRe.FindStringSubmatch(o); m != nil {
			src := m[1]
			if !filepath.IsAbs(src) {
				src = filepath.Join(cwd, src)
			}
			if b, err := os.ReadFile(src); err == nil {
				dst := filepath.Join(vd, "replays", "C20-fuzz-"+target+"-"+filepath.Base(src))
				os.MkdirAll(filepath.Dir(dst), 0o755)
				if os.WriteFile(dst, b, 0o644) == nil {
					crasher = fmt.Sprintf("\nfailing input (go fuzz corpus format) copied to %s:\n%s", dst, tail(string(b), 2000))
				}
			}
		}
		if ms := violationRe.FindAllStringSubmatchIndex(o, -1); len(ms) > 0 {
			seen := map[string]bool{}
			for i, m := range ms {
				sig := o[m[2]:m[3]]
				if seen[sig] {
					continue
				}
				seen[sig] = true
				end := len(o)
				if i+1 < len(ms) {
					end = ms[i+1][0]
				}
				d := o[m[1]:end]
				if len(d) > 6000 {
					d = d[:6000] + "…"
				}
				res.findings = append(res.findings, fuzzFinding{sig, "found by the native fuzz target " + target + ": " + d + crasher})
			}
			continue
		}
		if crasher != "" {
			res.findings = append(res.findings, fuzzFinding{"fuzz:" + target + ":failing-input-without-oracle-message", tail(o, 3000) + crasher})
			continue
		}
		res.inconclusive = append(res.inconclusive, fmt.Sprintf("native fuzzing: %s did not run to completion (%v): %s", target, err, tail(o, 1200)))
	}
	return res
}

func tail(s string, n int) string {
	if len(s) > n {
		return "…" + s[len(s)-n:]
	}
	return s
}
