// C20 — digest / resource-name codecs round-trip and reject bad input; digest
// sets obey set algebra.
//
// Monitor: the exported functions of the real pkg/digest are driven with
// generated valid digests (all eight functions, all four compressors, hostile
// but valid instance names), curated malformed inputs (one defect each),
// structure-aware mutations, token soups and arbitrary bytes, and with random
// programs of set operations. The oracles (oracle.go) compare what the real
// code returns with an independently written description of the value space
// and with Go-map reference sets. The thorough tier additionally runs Go's
// coverage-guided fuzz engine over the same oracles (fuzz_test.go, fuzzdrv.go).
package main

import (
	"bytes"
	"crypto/sha256"
	"encoding/binary"
	"fmt"
	"os"
	"strconv"
	"strings"
	"time"

	remoteexecution "github.com/bazelbuild/remote-apis/build/bazel/remote/execution/v2"
	"github.com/buildbarn/bb-storage/pkg/digest"

	"verif/lib/gen"
	"verif/lib/run"
)

// caseSink adapts a run.Case to the oracle's sink.
type caseSink struct {
	c *run.Case
	w *run.Worker
}

func (s caseSink) Violation(sig, format string, a ...any) { s.c.Violation(sig, format, a...) }
func (s caseSink) Count(name string, n int64)             { s.w.Count(name, n) }

func main() {
	run.Main(run.Spec{
		Property: "C20",
		Level:    "exploration",
		Rule: "codec case = one valid digest (function x hash shape x size shape x instance name of 0-7 hostile-but-valid components) formatted/parsed through read path, write path (random uuid), REv2 message and compact binary under all 4 compressors, its ancestor chain, and key equality against 3 single-component variants; " +
			"malformed case = 12 inputs each carrying exactly one defect of a curated class; hostile case = 16 mutated / token-soup / random-byte strings through both resource-name parsers, NewInstanceName and the compact-binary parser; " +
			"set case = a random program of 3-12 set operations over 1-6 sets drawn from a universe of <=24 digests with shared hashes across 1-4 instance names; " +
			"distinct = hash of the generated components / inputs / program; non-trivial = every case (each evaluates at least one oracle clause on real code)",
		Workers: 8,
		// The only long case is the one that waits for the native fuzz engine.
		CaseTimeout: 40 * time.Minute,
		Floors: map[string]int64{
			"roundtrip_read_ok": 20000, "roundtrip_write_ok": 20000, "roundtrip_proto_ok": 5000, "roundtrip_compact_ok": 5000,
			"ancestor_chains_depth3plus": 800, "key_pairs_equal": 500, "key_pairs_differ_in_instance_only": 500, "key_pairs_differ": 3000,
			"dot_component_instances":    50,
			"rejected_wrong-hash-length": 400, "rejected_non-lowercase-hex-hash": 400, "rejected_bad-size": 400, "rejected_reserved-keyword-in-instance-name": 400,
			"rejected_unknown-compressor": 400, "rejected_unknown-function": 400, "rejected_truncated-path": 400,
			"rejected_hash-length": 200, "rejected_hash-chars": 200, "rejected_negative-size": 200, "rejected_instance_redundant-slash": 200, "rejected_instance_reserved-keyword": 200,
			"rejected_compact-truncated": 200, "rejected_compact-unknown-function": 200, "rejected_compact-negative-size": 100, "rejected_compact-varint-overflow": 100,
			"hostile_accepted": 3000, "hostile_rejected": 20000, "instance_names_accepted": 1000,
			"set_ops_union": 2000, "set_ops_difference": 2000, "set_ops_partition": 2000, "set_ops_remove_empty": 1000, "set_union_with_duplicates_across_sets": 500,
			"set_partition_multi_instance": 500, "set_empty_operands": 300, "set_remove_empty_removed_some": 300,
			"thorough:fuzz_execs": 400000,
		},
		Assumptions: []string{
			"valid instance name = no leading/trailing/double slash and no reserved keyword as a component; every other byte string (incl. '.', '..', NUL, non-UTF-8) is a valid name, because NewInstanceName and both parsers accept it",
			"inputs that the parsers merely normalise (redundant slashes inside a resource name, '+5'/'05'/'-0' sizes, components after the size, a non-minimal varint) are not in the must-reject class; for them only 'accepted => valid digest' and parse∘format∘parse = parse are asserted",
			"the exported Must* constructors, NewInstanceNameFromComponents with an empty component, and accessors of the zero Digest panic by documented contract; they take programmer-supplied, not wire-supplied, values and are not driven with invalid arguments",
			"the order of PartitionByInstanceName's result and the gRPC code of rejections are not part of the statement and are not asserted",
		},
		Body: body,
	})
}

func body(w *run.Worker) {
	// A fixed share of the work of the thorough tier is the native fuzz engine;
	// it is started first by worker 0 and runs beside the generated campaign.
	var fuzzDone chan *fuzzResult
	if rg := os.Getenv("VERIF_REPLAY_GROUP"); w.Thorough() && w.Index == 0 && (rg == "" || rg == "nativefuzz") {
		budget := int64(600000) // executions per fuzz target
		if s := os.Getenv("VERIF_SCALE"); s != "" {
			if f, err := strconv.ParseFloat(s, 64); err == nil {
				budget = int64(float64(budget) * f)
			}
		}
		if budget < 1000 {
			budget = 1000
		}
		fuzzDone = make(chan *fuzzResult, 1)
		go func() { fuzzDone <- runNativeFuzz(budget, 4) }()
	}

	w.Cases("codec", w.N(16000, 400000), func(c *run.Case) { codecCase(c, w) })
	w.Cases("malformed", w.N(4000, 100000), func(c *run.Case) { malformedCase(c, w) })
	w.Cases("hostile", w.N(8000, 200000), func(c *run.Case) { hostileCase(c, w) })
	w.Cases("sets", w.N(6000, 150000), func(c *run.Case) { setCase(c, w) })
	if w.Index == 0 {
		w.Cases("enumerated", 1, func(c *run.Case) { enumeratedCase(c, w) })
	}

	if fuzzDone != nil {
		w.Cases("nativefuzz", 1, func(c *run.Case) {
			c.Desc("native fuzz engine: %v, iteration budget per target", fuzzTargets)
			res := <-fuzzDone
			for _, t := range fuzzTargets {
				w.Count("fuzz_execs", res.execs[t])
				w.Count("fuzz_execs_"+t, res.execs[t])
				w.Count("fuzz_interesting_inputs_"+t, res.interesting[t])
			}
			w.Count("fuzz_engine_false_alarms_replayed_clean", res.falseAlarms)
			for _, f := range res.findings {
				c.Violation(f.sig, "%s", f.detail)
			}
			for _, s := range res.inconclusive {
				w.Inconclusive(s)
			}
		})
	}
}

// caseRng derives the case's generator from (seed, worker, group, index), like
// c.Rng, but through a cryptographic hash. lib/gen.New mixes its (small) seed
// words only by XOR-ing them into the low bits of the splitmix state, so the
// streams of c.Rng for (worker w, index i) and (worker w', index i') coincide
// for most pairs: the eight workers of this check generated almost the same
// 24 k inputs eight times (measured: 23 539 of 23 818 distinct keys shared
// between worker 0 and worker 1). Replays stay exact: the derivation uses only
// values the replay file records.
func caseRng(c *run.Case) *gen.Rng {
	h := sha256.Sum256([]byte(fmt.Sprintf("C20|%d|%d|%s|%d", c.W.Seed, c.W.Index, c.Group, c.Index)))
	return gen.New(binary.LittleEndian.Uint64(h[0:8]), binary.LittleEndian.Uint64(h[8:16]), binary.LittleEndian.Uint64(h[16:24]))
}

// ---- codec ----

func codecCase(c *run.Case, w *run.Worker) {
	r := caseRng(c)
	s := caseSink{c, w}
	cm := genComps(r, true)
	u := genUUID(r)
	other := genInstance(r, true)
	c.Desc("codec %v uuid=%s other=%q", cm, u, other)
	w.Distinct("codec|" + cm.String())
	if c.Index == 0 {
		w.Sample(map[string]any{"group": "codec", "function": cm.fn.String(), "hash": cm.hash, "size": cm.size, "instance": cm.inst})
	}
	d, ok := build(s, cm)
	if !ok {
		return
	}
	w.Count("fn_"+cm.fn.String(), 1)
	if hasDotComponent(cm.inst) {
		w.Count("dot_component_instances", 1)
	}
	if _, ok := checkWellFormed(s, "Function.NewDigest", d); !ok {
		return
	}
	checkConstructorsAgree(s, cm, d)
	checkRoundTrips(s, cm, d, u, other)
	checkAncestors(s, cm, d)
	for i := 0; i < 3; i++ {
		v, what := variant(r, cm)
		if refInvalidClass(v) != "" {
			continue
		}
		dv, ok := build(s, v)
		if !ok {
			continue
		}
		c.Logf("variant (%s) %v", what, v)
		checkKeys(s, cm, v, d, dv)
	}
	// Generator.Sum hands out digests without validation: their shape must be
	// that of a validated digest (packed-string invariant).
	if r.Chance(1, 8) {
		data := r.Bytes(r.Intn(200))
		g := d.GetDigestFunction().NewGenerator(int64(len(data)))
		g.Write(data)
		sum := g.Sum()
		if sc, ok := checkWellFormed(s, "Generator.Sum", sum); ok {
			want, err := d.GetDigestFunction().NewDigest(sc.hash, int64(len(data)))
			if err != nil || want != sum {
				s.Violation("Generator.Sum:differs-from-NewDigest", "Sum()=%q NewDigest(same components)=%q, %v", sum, str(want, err), err)
			}
			if ih, ok := gen.IndependentHash(cm.fn, data); ok && ih != sc.hash {
				s.Violation("Generator.Sum:wrong-hash", "%v of %d bytes: %s, independent implementation: %s", cm.fn, len(data), sc.hash, ih)
			}
			w.Count("generator_sums_checked", 1)
		}
	}
}

// ---- curated malformed inputs ----

func malformedCase(c *run.Case, w *run.Worker) {
	r := caseRng(c)
	s := caseSink{c, w}
	c.Desc("12 curated malformed inputs")
	for i := 0; i < 6; i++ {
		cm := genComps(r, false)
		write := r.Bool()
		in, class := malformedPath(r, write, cm)
		w.Distinct("mal|" + in)
		if c.Index == 0 && i < 2 {
			w.Sample(map[string]any{"group": "malformed", "write": write, "class": class, "input": in})
		}
		c.Logf("%s write=%v %q", class, write, in)
		guard(s, fmt.Sprintf("parse(write=%v) of %q", write, in), func() {
			var err error
			site := "NewDigestFromByteStreamReadPath"
			if write {
				site = "NewDigestFromByteStreamWritePath"
				_, _, err = digest.NewDigestFromByteStreamWritePath(in)
			} else {
				_, _, err = digest.NewDigestFromByteStreamReadPath(in)
			}
			mustReject(s, site, class, in, err)
		})
	}
	// Function.NewDigest / NewDigestFromProto / GetDigestFunction
	for i := 0; i < 3; i++ {
		cm := genComps(r, true)
		in, err := digest.NewInstanceName(cm.inst)
		if err != nil {
			s.Violation("NewInstanceName:valid-name-rejected", "NewInstanceName(%q) = %v", cm.inst, err)
			continue
		}
		fn, fallback, hash, size := cm.fn, 0, cm.hash, cm.size
		switch r.Intn(6) {
		case 0: // wrong length, including the lengths of the other functions
			n := r.Pick(0, 1, 32, 40, 64, 96, 128, len(hash)-1, len(hash)+1, 2*len(hash), genUnsupportedLen(r))
			if n == len(hash) {
				n++
			}
			hash = genHex(r, n)
		case 1:
			hash = badHash(r, hash)
		case 2:
			size = -1 - int64(r.Uint64()>>uint(1+r.Intn(63)))
		case 3:
			fn = unknownFunctionEnums[r.Intn(len(unknownFunctionEnums))]
			fallback = r.Pick(0, 32, 40, 64, 96, 128)
			if fn != remoteexecution.DigestFunction_UNKNOWN {
				fallback = r.Pick(0, 64)
			} else if r.Bool() {
				fallback = genUnsupportedLen(r)
			}
		case 4: // UNKNOWN + length inference with a hash of another length
			fn = remoteexecution.DigestFunction_UNKNOWN
			fallback = r.Pick(32, 40, 64, 96, 128)
			if fallback == len(hash) {
				hash = hash + "0"
			}
		default: // valid, through the same path (keeps the oracle honest)
		}
		c.Logf("NewDigest fn=%v fallback=%d hash=%q size=%d", fn, fallback, hash, size)
		w.Distinct(fmt.Sprintf("nd|%v|%d|%s|%d", fn, fallback, hash, size))
		guard(s, "Function.NewDigest", func() { checkNewDigest(s, in, fn, fallback, hash, size) })
	}
	guard(s, "NewDigestFromProto(nil)", func() {
		f := digest.MustNewFunction("", remoteexecution.DigestFunction_SHA256)
		_, err := f.NewDigestFromProto(nil)
		mustReject(s, "Function.NewDigestFromProto", "nil-message", "nil", err)
	})
	// instance names
	for i := 0; i < 2; i++ {
		name := genInstance(r, true)
		cs := splitSlash(name)
		switch r.Intn(5) {
		case 0:
			name = "/" + name
		case 1:
			name = name + "/"
		case 2:
			j := r.Intn(len(cs) + 1)
			cs = append(cs[:j:j], append([]string{""}, cs[j:]...)...)
			name = strings.Join(cs, "/")
			if len(cs) == 1 {
				name = "/"
			}
		default:
			j := r.Intn(len(cs) + 1)
			kw := reserved[r.Intn(len(reserved))]
			cs = append(cs[:j:j], append([]string{kw}, cs[j:]...)...)
			name = strings.Join(cs, "/")
			// the component-wise constructor must reject the keyword as well
			guard(s, "NewInstanceNameFromComponents", func() {
				_, err := digest.NewInstanceNameFromComponents(cs)
				mustReject(s, "NewInstanceNameFromComponents", "reserved-keyword", name, err)
			})
		}
		c.Logf("instance name %q", name)
		w.Distinct("in|" + name)
		guard(s, "NewInstanceName", func() { checkInstanceName(s, name) })
	}
	// compact binary
	{
		cm := genComps(r, true)
		in, _ := digest.NewInstanceName(cm.inst)
		d, ok := build(s, cm)
		if !ok {
			return
		}
		cb := d.GetCompactBinary()
		var b []byte
		var class string
		switch r.Intn(4) {
		case 0:
			b, class = cb[:r.Intn(len(cb))], "compact-truncated"
		case 1:
			b = append([]byte(nil), cb...)
			for {
				b[0] = byte(r.Intn(256))
				if fnByEnum(remoteexecution.DigestFunction_Value(b[0])) == nil {
					break
				}
			}
			class = "compact-unknown-function"
		case 2:
			b = append(append([]byte(nil), cb[:1+len(cm.hash)/2]...), genVarint(-1-int64(r.Uint64()>>uint(1+r.Intn(63))))...)
			class = "compact-negative-size"
		default:
			b = append(append([]byte(nil), cb[:1+len(cm.hash)/2]...), bytes.Repeat([]byte{0xff}, r.Range(10, 14))...)
			b = append(b, 0x01)
			class = "compact-varint-overflow"
		}
		c.Logf("%s %x", class, b)
		w.Distinct("cb|" + string(b))
		guard(s, "NewDigestFromCompactBinary", func() {
			_, err := in.NewDigestFromCompactBinary(bytes.NewReader(b))
			mustReject(s, "InstanceName.NewDigestFromCompactBinary", class, fmt.Sprintf("%x", b), err)
		})
	}
}

// ---- hostile input: mutations, token soup, arbitrary bytes ----

func hostileCase(c *run.Case, w *run.Worker) {
	r := caseRng(c)
	s := caseSink{c, w}
	c.Desc("16 hostile strings (mutated names, token soups, random bytes)")
	for i := 0; i < 16; i++ {
		var in string
		kind := r.Intn(10)
		switch {
		case kind < 6: // mutation of a valid name
			cm, cm2 := genComps(r, true), genComps(r, true)
			comp, comp2 := compressors[r.Intn(len(compressors))], compressors[r.Intn(len(compressors))]
			var p, o string
			if r.Bool() {
				p, o = refWritePath(cm, genUUID(r).String(), comp), refReadPath(cm2, comp2)
			} else {
				p, o = refReadPath(cm, comp), refWritePath(cm2, genUUID(r).String(), comp2)
			}
			in = mutate(r, p, o)
			w.Count("hostile_mutations", 1)
		case kind < 8:
			in = tokenSoup(r)
			w.Count("hostile_token_soups", 1)
		default:
			in = string(r.Bytes(r.Intn(96)))
			w.Count("hostile_random_bytes", 1)
		}
		if len(in) < 300 {
			c.Logf("input %q", in)
		} else {
			c.Logf("input %q… (%d bytes)", in[:300], len(in))
		}
		w.Distinct("hostile|" + in)
		short := in
		if len(short) > 200 {
			short = short[:200] + "…"
		}
		guard(s, fmt.Sprintf("NewDigestFromByteStreamReadPath(%q)", short), func() {
			if checkParsePath(s, false, in) {
				w.Count("hostile_accepted_read", 1)
			}
		})
		guard(s, fmt.Sprintf("NewDigestFromByteStreamWritePath(%q)", short), func() {
			if checkParsePath(s, true, in) {
				w.Count("hostile_accepted_write", 1)
				noteLenientWritePath(w, c, in)
			}
		})
		guard(s, fmt.Sprintf("NewInstanceName(%q)", short), func() { checkInstanceName(s, in) })
		// compact binary: mutated encodings and the raw bytes
		var b []byte
		if r.Bool() {
			cm := genComps(r, false)
			if d, ok := build(s, cm); ok {
				b = d.GetCompactBinary()
				switch r.Intn(4) {
				case 0:
					b = b[:r.Intn(len(b)+1)]
				case 1:
					b[r.Intn(len(b))] ^= byte(1 << uint(r.Intn(8)))
				case 2:
					b = append(b, r.Bytes(r.Intn(12))...)
				default:
					b[0] = byte(r.Intn(16))
				}
			}
		} else {
			b = []byte(in)
		}
		inName, _ := digest.NewInstanceName(genInstance(r, true))
		guard(s, fmt.Sprintf("NewDigestFromCompactBinary(%x)", b), func() {
			if checkCompactBinary(s, inName, b) {
				w.Count("hostile_accepted_compact", 1)
			}
		})
	}
}

// noteLenientWritePath records (it does not flag: the class is not in the
// statement's list) accepted write resource names in which the component after
// the uuid is neither "blobs" nor "compressed-blobs".
func noteLenientWritePath(w *run.Worker, c *run.Case, in string) {
	fs := strings.FieldsFunc(in, func(r rune) bool { return r == '/' })
	for i, f := range fs {
		if f == "uploads" {
			if i+2 < len(fs) && fs[i+2] != "blobs" && fs[i+2] != "compressed-blobs" {
				w.Count("observed_write_path_accepted_without_blobs_keyword", 1)
			}
			return
		}
	}
}

// ---- sets ----

type pset struct {
	s   digest.Set
	ref refSet
	how string
}

func setCase(c *run.Case, w *run.Worker) {
	r := caseRng(c)
	s := caseSink{c, w}
	// Universe: few hashes/sizes shared across few instance names and functions.
	nInst := r.Range(1, 4)
	insts := make([]string, nInst)
	for i := range insts {
		switch r.Intn(4) {
		case 0:
			insts[i] = []string{"", "a", "a/b", "a/b/c", "b", "ab", "a-b"}[r.Intn(7)]
		default:
			insts[i] = genInstance(r, true)
		}
	}
	nHash := r.Range(1, 6)
	type hs struct {
		fn   remoteexecution.DigestFunction_Value
		hash string
		size int64
	}
	hashes := make([]hs, nHash)
	for i := range hashes {
		fi := fnTable[r.Intn(len(fnTable))]
		sz := genSize(r)
		if r.Chance(1, 3) {
			sz = 0
		}
		hashes[i] = hs{fi.enum, genHex(r, fi.hexLen), sz}
		if i > 0 && r.Chance(1, 4) { // same hash, other size (or the same function's other hash, same size)
			hashes[i] = hashes[i-1]
			hashes[i].size = genSize(r)
		}
	}
	nU := r.Range(1, 24)
	var universe []digest.Digest
	for i := 0; i < nU; i++ {
		h := hashes[r.Intn(nHash)]
		cm := comps{fn: h.fn, hash: h.hash, size: h.size, inst: insts[r.Intn(nInst)]}
		d, ok := build(s, cm)
		if !ok {
			return
		}
		universe = append(universe, d)
	}
	c.Desc("sets: universe of %d digests over instance names %q, %d hashes", nU, insts, nHash)
	var prog []string
	step := func(format string, a ...any) {
		m := fmt.Sprintf(format, a...)
		prog = append(prog, m)
		c.Logf("%s", m)
	}
	var pool []pset
	add := func(p pset) { pool = append(pool, p) }

	// initial sets
	nSets := r.Range(1, 6)
	for i := 0; i < nSets; i++ {
		ref := refSet{}
		var sb digest.SetBuilder
		sb = digest.NewSetBuilder(r.Pick(0, 0, 1, nU, 2*nU))
		adds := 0
		switch r.Intn(6) {
		case 0: // empty
		default:
			adds = r.Intn(2*nU + 1)
		}
		for j := 0; j < adds; j++ {
			d := universe[r.Intn(nU)]
			sb = sb.Add(d)
			ref[d.String()] = d
		}
		if sb.Length() != len(ref) {
			s.Violation("SetBuilder.Length:differs", "Length=%d after adding %d distinct digests", sb.Length(), len(ref))
		}
		set := sb.Build()
		step("build(%d adds,%d distinct)", adds, len(ref))
		checkSet(s, "SetBuilder.Build", set, ref)
		add(pset{set, ref, "build"})
	}
	if r.Chance(1, 4) {
		add(pset{digest.EmptySet, refSet{}, "EmptySet"})
	}
	pick := func() pset { return pool[r.Intn(len(pool))] }
	snapshot := func() [][]digest.Digest {
		out := make([][]digest.Digest, len(pool))
		for i, p := range pool {
			out[i] = append([]digest.Digest(nil), p.s.Items()...)
		}
		return out
	}

	steps := r.Range(3, 12)
	for st := 0; st < steps; st++ {
		before := snapshot()
		nBefore := len(pool)
		var op string
		switch r.Intn(9) {
		case 0, 1, 2: // union of k sets
			op = "GetUnion"
			k := r.Pick(0, 1, 2, 2, 3, 3, 4, 5, 8)
			var in []digest.Set
			ref := refSet{}
			total := 0
			empties := 0
			for i := 0; i < k; i++ {
				p := pick()
				in = append(in, p.s)
				total += len(p.ref)
				if len(p.ref) == 0 {
					empties++
				}
				for kk, d := range p.ref {
					ref[kk] = d
				}
			}
			got := digest.GetUnion(in)
			step("union(%d sets,%d elements,%d distinct)", k, total, len(ref))
			w.Count("set_ops_union", 1)
			if total > len(ref) {
				w.Count("set_union_with_duplicates_across_sets", 1)
			}
			if empties > 0 || k == 0 {
				w.Count("set_empty_operands", 1)
			}
			if checkSet(s, op, got, ref) {
				add(pset{got, ref, op})
			}
		case 3, 4: // difference and intersection
			op = "GetDifferenceAndIntersection"
			a, b := pick(), pick()
			onlyA, both, onlyB := digest.GetDifferenceAndIntersection(a.s, b.s)
			ra, rb, rboth := refSet{}, refSet{}, refSet{}
			for k, d := range a.ref {
				if _, ok := b.ref[k]; ok {
					rboth[k] = d
				} else {
					ra[k] = d
				}
			}
			for k, d := range b.ref {
				if _, ok := a.ref[k]; !ok {
					rb[k] = d
				}
			}
			step("diff(|A|=%d,|B|=%d,|both|=%d)", len(a.ref), len(b.ref), len(rboth))
			w.Count("set_ops_difference", 1)
			if len(a.ref) == 0 || len(b.ref) == 0 {
				w.Count("set_empty_operands", 1)
			}
			if len(rboth) > 0 && len(ra) > 0 && len(rb) > 0 {
				w.Count("set_difference_all_three_nonempty", 1)
			}
			ok1 := checkSet(s, op+"(onlyA)", onlyA, ra)
			ok2 := checkSet(s, op+"(both)", both, rboth)
			ok3 := checkSet(s, op+"(onlyB)", onlyB, rb)
			if ok1 && ok2 && ok3 {
				add(pset{onlyA, ra, op})
				add(pset{both, rboth, op})
				add(pset{onlyB, rb, op})
			}
		case 5, 6: // partition by instance name
			op = "Set.PartitionByInstanceName"
			a := pick()
			parts := a.s.PartitionByInstanceName()
			byInst := map[string]refSet{}
			for k, d := range a.ref {
				in := d.GetInstanceName().String()
				if byInst[in] == nil {
					byInst[in] = refSet{}
				}
				byInst[in][k] = d
			}
			step("partition(%d elements,%d names)", len(a.ref), len(byInst))
			w.Count("set_ops_partition", 1)
			if len(byInst) > 1 {
				w.Count("set_partition_multi_instance", 1)
			}
			if len(byInst) > 2 {
				w.Count("set_partition_3plus_instances", 1)
			}
			if len(parts) != len(byInst) {
				s.Violation(op+":wrong-number-of-parts", "%d parts for %d instance names (set %v)", len(parts), len(byInst), a.s.Items())
				break
			}
			seen := map[string]bool{}
			for _, p := range parts {
				f, ok := p.First()
				if !ok {
					s.Violation(op+":empty-part", "a part is empty")
					continue
				}
				in := f.GetInstanceName().String()
				if seen[in] {
					s.Violation(op+":instance-name-in-two-parts", "instance name %q in two parts", in)
					continue
				}
				seen[in] = true
				// the part must be exactly the elements of that name (this also
				// shows that it holds a single instance name)
				if checkSet(s, op, p, byInst[in]) {
					add(pset{p, byInst[in], op})
				}
			}
		case 7: // filter out the empty blob
			op = "Set.RemoveEmptyBlob"
			a := pick()
			got := a.s.RemoveEmptyBlob()
			ref := refSet{}
			for k, d := range a.ref {
				if d.GetSizeBytes() != 0 {
					ref[k] = d
				}
			}
			step("removeEmpty(%d->%d)", len(a.ref), len(ref))
			w.Count("set_ops_remove_empty", 1)
			if len(ref) < len(a.ref) {
				w.Count("set_remove_empty_removed_some", 1)
			}
			if checkSet(s, op, got, ref) {
				add(pset{got, ref, op})
			}
		default:
			op = "Digest.ToSingletonSet"
			d := universe[r.Intn(nU)]
			got := d.ToSingletonSet()
			ref := refSet{d.String(): d}
			step("singleton")
			if checkSet(s, op, got, ref) {
				add(pset{got, ref, op})
			}
		}
		// Sets are immutable: no operation may have changed a set that existed before.
		for i := 0; i < nBefore; i++ {
			items := pool[i].s.Items()
			same := len(items) == len(before[i])
			for j := 0; same && j < len(items); j++ {
				same = items[j] == before[i][j]
			}
			if !same {
				s.Violation(op+":changed-an-existing-set", "after %s the set #%d (made by %s) changed from %v to %v", op, i, pool[i].how, before[i], items)
				return
			}
		}
		if len(pool) > 48 {
			pool = pool[len(pool)-48:]
		}
	}
	w.Distinct("sets|" + strings.Join(prog, " ") + universe[0].String())
	if c.Index == 0 {
		w.Sample(map[string]any{"group": "sets", "universe": nU, "instance_names": insts, "program": prog})
	}
}

// ---- small exhaustive enumerations (worker 0) ----

func enumeratedCase(c *run.Case, w *run.Worker) {
	s := caseSink{c, w}
	c.Desc("enumerations: function enum values -1000..1000, every single-byte compact-binary prefix, every truncation of one encoding per function, RemoveUnsupportedDigestFunctions over all subsets of enum values 0..11")
	in, _ := digest.NewInstanceName("enum/erated")
	for e := -1000; e <= 1000; e++ {
		for _, fb := range []int{0, 32, 40, 64, 96, 128, 7} {
			guard(s, "GetDigestFunction", func() {
				checkNewDigest(s, in, remoteexecution.DigestFunction_Value(e), fb, strings.Repeat("a", 64), 1)
			})
		}
	}
	for _, fi := range fnTable {
		d, ok := build(s, comps{fn: fi.enum, hash: strings.Repeat("0123456789abcdef", 8)[:fi.hexLen], size: 300, inst: "enum/erated"})
		if !ok {
			continue
		}
		cb := d.GetCompactBinary()
		for n := 0; n < len(cb); n++ {
			guard(s, "NewDigestFromCompactBinary", func() {
				_, err := in.NewDigestFromCompactBinary(bytes.NewReader(cb[:n]))
				mustReject(s, "InstanceName.NewDigestFromCompactBinary", "compact-truncated", fmt.Sprintf("%x", cb[:n]), err)
			})
		}
	}
	for b := 0; b < 256; b++ {
		buf := append([]byte{byte(b)}, bytes.Repeat([]byte{0x11}, 64)...)
		buf = append(buf, 0x02)
		guard(s, "NewDigestFromCompactBinary", func() { checkCompactBinary(s, in, buf) })
	}
	// RemoveUnsupportedDigestFunctions: intersection with the supported set, deduplicated.
	for mask := 0; mask < 1<<12; mask++ {
		var rep []remoteexecution.DigestFunction_Value
		want := map[remoteexecution.DigestFunction_Value]bool{}
		for b := 0; b < 12; b++ {
			if mask&(1<<b) != 0 {
				e := remoteexecution.DigestFunction_Value(b)
				rep = append(rep, e, e)
				if fnByEnum(e) != nil {
					want[e] = true
				}
			}
		}
		got := digest.RemoveUnsupportedDigestFunctions(rep)
		seen := map[remoteexecution.DigestFunction_Value]bool{}
		bad := len(got) != len(want)
		for _, g := range got {
			if !want[g] || seen[g] {
				bad = true
			}
			seen[g] = true
		}
		if bad {
			s.Violation("RemoveUnsupportedDigestFunctions:not-the-intersection", "reported %v -> %v", rep, got)
			break
		}
	}
	w.Count("enumerated_checks", 1)
	w.Exhaustive("function-enum -1000..1000 x 7 fallback lengths", true)
	w.Exhaustive("every truncation of one compact encoding per function", true)
}
