package main

// Native fuzz targets for the thorough tier. They are compiled by
// `go test -c -fuzz=Fuzz` from fuzzdrv.go and run with an iteration budget;
// the oracles are the ones of the generated campaign (oracle.go). A failing
// input makes the target fail with a line "VERIF-VIOLATION sig=<signature> :: <detail>".

import (
	"fmt"
	"os"
	"strings"
	"testing"

	remoteexecution "github.com/bazelbuild/remote-apis/build/bazel/remote/execution/v2"
	"github.com/buildbarn/bb-storage/pkg/digest"
	"github.com/google/uuid"

	"verif/lib/gen"
)

type fuzzSink struct {
	v []string
}

func (s *fuzzSink) Violation(sig, format string, a ...any) {
	// Finding P6 is reported by the generated campaign under its own
	// signature; the fuzz engine stops at the first failing input, so P6 would
	// hide everything else from it.
	if sig == sigP6 && os.Getenv("VERIF_FUZZ_REPORT_P6") == "" {
		return
	}
	d := fmt.Sprintf(format, a...)
	if len(d) > 4000 {
		d = d[:4000] + "…"
	}
	s.v = append(s.v, "VERIF-VIOLATION sig="+sig+" :: "+strings.ReplaceAll(d, "\n", "\n\t"))
}
func (s *fuzzSink) Count(string, int64) {}
func (s *fuzzSink) finish(t *testing.T) {
	if len(s.v) > 0 {
		t.Fatal(strings.Join(s.v, "\n"))
	}
}

func seedPaths(f *testing.F, write bool) {
	r := gen.New(0xc20, 1)
	for i := 0; i < 40; i++ {
		cm := genComps(r, false)
		comp := compressors[i%len(compressors)]
		p := refReadPath(cm, comp)
		if write {
			p = refWritePath(cm, genUUID(r).String(), comp)
		}
		f.Add(p)
		if i%4 == 0 {
			m, _ := malformedPath(r, write, cm)
			f.Add(m)
			f.Add(tokenSoup(r))
		}
	}
	f.Add("")
	f.Add("/")
	f.Add("blobs")
	f.Add("uploads")
	f.Add("compressed-blobs/zstd/blake3")
}

func FuzzReadPath(f *testing.F) {
	seedPaths(f, false)
	f.Fuzz(func(t *testing.T, in string) {
		s := &fuzzSink{}
		guard(s, "NewDigestFromByteStreamReadPath", func() { checkParsePath(s, false, in) })
		s.finish(t)
	})
}

func FuzzWritePath(f *testing.F) {
	seedPaths(f, true)
	f.Fuzz(func(t *testing.T, in string) {
		s := &fuzzSink{}
		guard(s, "NewDigestFromByteStreamWritePath", func() { checkParsePath(s, true, in) })
		s.finish(t)
	})
}

func FuzzCompactBinary(f *testing.F) {
	r := gen.New(0xc20, 2)
	for i := 0; i < 32; i++ {
		cm := genComps(r, false)
		d := digest.MustNewDigest(cm.inst, cm.fn, cm.hash, cm.size)
		f.Add(d.GetCompactBinary(), cm.inst)
	}
	f.Add([]byte{}, "")
	f.Add([]byte{1}, "a//b")
	f.Fuzz(func(t *testing.T, b []byte, inst string) {
		s := &fuzzSink{}
		guard(s, "NewInstanceName", func() { checkInstanceName(s, inst) })
		if ok, _ := refValidInstance(inst); ok {
			if in, err := digest.NewInstanceName(inst); err == nil {
				guard(s, "NewDigestFromCompactBinary", func() { checkCompactBinary(s, in, b) })
			}
		}
		s.finish(t)
	})
}

func FuzzDigest(f *testing.F) {
	r := gen.New(0xc20, 3)
	for i := 0; i < 48; i++ {
		cm := genComps(r, true)
		u := genUUID(r)
		f.Add(int32(cm.fn), 0, cm.hash, cm.size, cm.inst, u[:])
	}
	f.Add(int32(0), 64, strings.Repeat("a", 64), int64(-1), "a/blobs", []byte{})
	f.Fuzz(func(t *testing.T, fn int32, fallback int, hash string, size int64, inst string, ub []byte) {
		s := &fuzzSink{}
		guard(s, "NewInstanceName", func() { checkInstanceName(s, inst) })
		if ok, _ := refValidInstance(inst); !ok {
			s.finish(t)
			return
		}
		in, err := digest.NewInstanceName(inst)
		if err != nil {
			s.finish(t)
			return
		}
		e := remoteexecution.DigestFunction_Value(fn)
		guard(s, "Function.NewDigest", func() { checkNewDigest(s, in, e, fallback, hash, size) })
		if e == remoteexecution.DigestFunction_UNKNOWN {
			e = inferredByLen[fallback]
		}
		cm := comps{fn: e, hash: hash, size: size, inst: inst}
		if refInvalidClass(cm) == "" {
			var u uuid.UUID
			copy(u[:], ub)
			guard(s, "codecs", func() {
				d, ok := build(s, cm)
				if !ok {
					return
				}
				if _, ok := checkWellFormed(s, "Function.NewDigest", d); !ok {
					return
				}
				checkConstructorsAgree(s, cm, d)
				checkRoundTrips(s, cm, d, u, "other/name")
				checkAncestors(s, cm, d)
			})
		}
		s.finish(t)
	})
}
