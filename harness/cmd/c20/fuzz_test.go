package main

// Native fuzz targets for the thorough tier. They are compiled by
// `go test -c -fuzz=Fuzz` from fuzzdrv.go and run with an iteration budget;
// the oracles are the ones of the generated campaign (oracle.go). A failing
// input makes the target fail with a line "VERIF-VIOLATION sig=<signature> :: <detail>".

import (
	"os"
	"strings"
	"testing"

	"github.com/buildbarn/bb-storage/pkg/digest"

	"verif/lib/gen"
)

func newSink() *collectSink {
	return &collectSink{reportP6: os.Getenv("VERIF_FUZZ_REPORT_P6") != ""}
}

func finish(t *testing.T, s *collectSink) {
	if len(s.v) == 0 {
		return
	}
	var l []string
	for _, f := range s.v {
		l = append(l, "VERIF-VIOLATION sig="+f.sig+" :: "+strings.ReplaceAll(f.detail, "\n", "\n\t"))
	}
	t.Fatal(strings.Join(l, "\n"))
}

func seedPaths(f *testing.F, write bool) {
	r := gen.New(0xc20, 1)
	for i := 0; i < 40; i++ {
		cm := genComps(r, false)
		comp := compressors[i%len(compressors)]
		p := refReadPath(cm, comp)
		if write {
			p = refWritePath(cm, genUUID(r).String(), comp)
		}
		f.Add(p)
		if i%4 == 0 {
			m, _ := malformedPath(r, write, cm)
			f.Add(m)
			f.Add(tokenSoup(r))
		}
	}
	f.Add("")
	f.Add("/")
	f.Add("blobs")
	f.Add("uploads")
	f.Add("compressed-blobs/zstd/blake3")
}

func FuzzReadPath(f *testing.F) {
	seedPaths(f, false)
	f.Fuzz(func(t *testing.T, in string) {
		s := newSink()
		bodyReadPath(s, in)
		finish(t, s)
	})
}

func FuzzWritePath(f *testing.F) {
	seedPaths(f, true)
	f.Fuzz(func(t *testing.T, in string) {
		s := newSink()
		bodyWritePath(s, in)
		finish(t, s)
	})
}

func FuzzCompactBinary(f *testing.F) {
	r := gen.New(0xc20, 2)
	for i := 0; i < 32; i++ {
		cm := genComps(r, false)
		d := digest.MustNewDigest(cm.inst, cm.fn, cm.hash, cm.size)
		f.Add(d.GetCompactBinary(), cm.inst)
	}
	f.Add([]byte{}, "")
	f.Add([]byte{1}, "a//b")
	f.Fuzz(func(t *testing.T, b []byte, inst string) {
		s := newSink()
		bodyCompactBinary(s, b, inst)
		finish(t, s)
	})
}

func FuzzDigest(f *testing.F) {
	r := gen.New(0xc20, 3)
	for i := 0; i < 48; i++ {
		cm := genComps(r, true)
		u := genUUID(r)
		f.Add(int32(cm.fn), 0, cm.hash, cm.size, cm.inst, u[:])
	}
	f.Add(int32(0), 64, strings.Repeat("a", 64), int64(-1), "a/blobs", []byte{})
	f.Fuzz(func(t *testing.T, fn int32, fallback int, hash string, size int64, inst string, ub []byte) {
		s := newSink()
		bodyDigest(s, fn, fallback, hash, size, inst, ub)
		finish(t, s)
	})
}

// TestParseCorpus keeps the corpus-file reader of the driver honest.
func TestParseCorpus(t *testing.T) {
	v, err := parseCorpus([]byte("go test fuzz v1\nint32(9)\nint(0)\nstring(\"a\\xffb\")\nint64(-5)\nstring(\"\")\n[]byte(\"\\x00\\x01\")\n"))
	if err != nil || len(v) != 6 || v[0].(int32) != 9 || v[1].(int) != 0 || v[2].(string) != "a\xffb" || v[3].(int64) != -5 || v[4].(string) != "" || string(v[5].([]byte)) != "\x00\x01" {
		t.Fatalf("parseCorpus: %v %v", v, err)
	}
	if err := replayCorpus("FuzzDigest", v, newSink()); err != nil {
		t.Fatal(err)
	}
}
