package main

// Oracles of C20. They are independent of lib/run so that the native fuzz
// targets (fuzz_test.go) and the generated campaign (main.go) share them: every
// oracle reports through the small sink interface.
//
// Everything in this file that describes what a *valid* digest / instance name
// looks like (fnTable, refValidInstance, refValidDigest, reserved keywords) is
// written down here independently of pkg/digest: it is the reference the
// observed behaviour of the real code is compared with.

import (
	"bytes"
	"encoding/hex"
	"fmt"
	"path"
	"runtime/debug"
	"sort"
	"strconv"
	"strings"

	remoteexecution "github.com/bazelbuild/remote-apis/build/bazel/remote/execution/v2"
	"github.com/buildbarn/bb-storage/pkg/digest"
	"github.com/google/uuid"
)

type sink interface {
	Violation(sig, format string, a ...any)
	Count(name string, n int64)
}

// ---- reference description of the value space ----

type fnInfo struct {
	enum   remoteexecution.DigestFunction_Value
	hexLen int
	midfix string // path component naming the function ("" = inferred from the hash length)
}

// The eight supported functions (REv2 enum values 3,2,1,8,5,6,10,9).
var fnTable = []fnInfo{
	{remoteexecution.DigestFunction_MD5, 32, ""},
	{remoteexecution.DigestFunction_SHA1, 40, ""},
	{remoteexecution.DigestFunction_SHA256, 64, ""},
	{remoteexecution.DigestFunction_SHA256TREE, 64, "sha256tree"},
	{remoteexecution.DigestFunction_SHA384, 96, ""},
	{remoteexecution.DigestFunction_SHA512, 128, ""},
	{remoteexecution.DigestFunction_GITSHA1, 40, "gitsha1"},
	{remoteexecution.DigestFunction_BLAKE3, 64, "blake3"},
}

func fnByEnum(e remoteexecution.DigestFunction_Value) *fnInfo {
	for i := range fnTable {
		if fnTable[i].enum == e {
			return &fnTable[i]
		}
	}
	return nil
}

// supportedHexLen: hash lengths that select a function when a resource name
// carries no explicit function.
var inferredByLen = map[int]remoteexecution.DigestFunction_Value{
	32: remoteexecution.DigestFunction_MD5, 40: remoteexecution.DigestFunction_SHA1, 64: remoteexecution.DigestFunction_SHA256,
	96: remoteexecution.DigestFunction_SHA384, 128: remoteexecution.DigestFunction_SHA512,
}

var reserved = []string{"blobs", "uploads", "actions", "actionResults", "operations", "capabilities", "compressed-blobs"}

func isReserved(s string) bool {
	for _, k := range reserved {
		if s == k {
			return true
		}
	}
	return false
}

type compressorInfo struct {
	enum   remoteexecution.Compressor_Value
	midfix string
}

// Every compressor of the protocol.
var compressors = []compressorInfo{
	{remoteexecution.Compressor_IDENTITY, "blobs"},
	{remoteexecution.Compressor_ZSTD, "compressed-blobs/zstd"},
	{remoteexecution.Compressor_DEFLATE, "compressed-blobs/deflate"},
	{remoteexecution.Compressor_BROTLI, "compressed-blobs/brotli"},
}

func knownCompressor(c remoteexecution.Compressor_Value) bool {
	for _, k := range compressors {
		if k.enum == c {
			return true
		}
	}
	return false
}

// comps is a digest written out in components.
type comps struct {
	fn   remoteexecution.DigestFunction_Value
	hash string
	size int64
	inst string
}

func (c comps) String() string {
	return fmt.Sprintf("{fn=%v hash=%q size=%d inst=%q}", c.fn, c.hash, c.size, c.inst)
}

func splitSlash(s string) []string {
	if s == "" {
		return nil
	}
	return strings.Split(s, "/")
}

// refValidInstance: no leading, trailing or double slash, no reserved keyword
// as a component. Everything else (dots, spaces, any byte) is a valid name.
func refValidInstance(s string) (bool, string) {
	if s == "" {
		return true, ""
	}
	for _, c := range strings.Split(s, "/") {
		if c == "" {
			return false, "redundant-slash"
		}
		if isReserved(c) {
			return false, "reserved-keyword"
		}
	}
	return true, ""
}

func lowerHex(s string) bool {
	for i := 0; i < len(s); i++ {
		c := s[i]
		if !(c >= '0' && c <= '9' || c >= 'a' && c <= 'f') {
			return false
		}
	}
	return true
}

// refInvalidClass returns "" for a valid digest or the class of its defect.
func refInvalidClass(c comps) string {
	fi := fnByEnum(c.fn)
	if fi == nil {
		return "unknown-function"
	}
	if len(c.hash) != fi.hexLen {
		return "hash-length"
	}
	if !lowerHex(c.hash) {
		return "hash-chars"
	}
	if c.size < 0 {
		return "negative-size"
	}
	if ok, why := refValidInstance(c.inst); !ok {
		return "instance-" + why
	}
	return ""
}

// refJoin joins the non-empty elements with "/": the documented resource-name
// layout. Used only to build inputs and to classify finding P6.
func refJoin(elems ...string) string {
	var out []string
	for _, e := range elems {
		if e != "" {
			out = append(out, e)
		}
	}
	return strings.Join(out, "/")
}

func refReadPath(c comps, comp compressorInfo) string {
	return refJoin(c.inst, comp.midfix, fnByEnum(c.fn).midfix, c.hash, strconv.FormatInt(c.size, 10))
}

func refWritePath(c comps, u string, comp compressorInfo) string {
	return refJoin(c.inst, "uploads", u, comp.midfix, fnByEnum(c.fn).midfix, c.hash, strconv.FormatInt(c.size, 10))
}

func hasDotComponent(inst string) bool {
	for _, c := range splitSlash(inst) {
		if c == "." || c == ".." {
			return true
		}
	}
	return false
}

// sigP6 is the signature of candidate defect P6 (DESIGN.md §5): the formatters
// build the resource name with path.Join, which *cleans* "." and ".."
// components that NewInstanceName (and the parsers) accept.
const sigP6 = "Digest.GetByteStream{Read,Write}Path:dot-component-of-instance-name-cleaned-by-path.Join"

// ---- observing a digest ----

// observe reads a digest back through its accessors (every accessor re-parses
// the packed string).
func observe(d digest.Digest) comps {
	return comps{
		fn:   d.GetDigestFunction().GetEnumValue(),
		hash: d.GetHashString(),
		size: d.GetSizeBytes(),
		inst: d.GetInstanceName().String(),
	}
}

// checkWellFormed: a digest handed out by the package (site says by whom) must
// be non-degenerate according to the reference description, and its accessors
// must agree with one another. This is the generic form of "malformed input is
// rejected": whatever was accepted, the result must be a valid digest.
func checkWellFormed(s sink, site string, d digest.Digest) (comps, bool) {
	c := observe(d)
	if cls := refInvalidClass(c); cls != "" {
		s.Violation(site+":accepted-malformed-"+cls, "%s returned a degenerate digest %v (packed %q)", site, c, d.String())
		return c, false
	}
	ok := true
	hb := d.GetHashBytes()
	if hex.EncodeToString(hb) != c.hash {
		s.Violation("Digest.GetHashBytes:differs-from-hash-string", "GetHashBytes=%x GetHashString=%q", hb, c.hash)
		ok = false
	}
	p := d.GetProto()
	if p.GetHash() != c.hash || p.GetSizeBytes() != c.size {
		s.Violation("Digest.GetProto:differs-from-accessors", "GetProto=%v accessors=%v", p, c)
		ok = false
	}
	if d.String() != d.GetKey(digest.KeyWithInstance) {
		s.Violation("Digest.String:differs-from-key", "String=%q key=%q", d.String(), d.GetKey(digest.KeyWithInstance))
		ok = false
	}
	f := d.GetDigestFunction()
	if !d.UsesDigestFunction(f) || f.GetInstanceName().String() != c.inst {
		s.Violation("Digest.GetDigestFunction:inconsistent", "UsesDigestFunction(GetDigestFunction())=false or instance name differs for %v", c)
		ok = false
	}
	return c, ok
}

// build constructs the digest of valid components through the real
// constructors. All constructors must agree.
func build(s sink, c comps) (digest.Digest, bool) {
	in, err := digest.NewInstanceName(c.inst)
	if err != nil {
		s.Violation("NewInstanceName:valid-name-rejected", "NewInstanceName(%q) = %v", c.inst, err)
		return digest.BadDigest, false
	}
	if in.String() != c.inst {
		s.Violation("InstanceName.String:round-trip-differs", "NewInstanceName(%q).String() = %q", c.inst, in.String())
		return digest.BadDigest, false
	}
	f, err := in.GetDigestFunction(c.fn, 0)
	if err != nil {
		s.Violation("InstanceName.GetDigestFunction:supported-function-rejected", "GetDigestFunction(%v) = %v", c.fn, err)
		return digest.BadDigest, false
	}
	if f.GetEnumValue() != c.fn || f.GetInstanceName() != in {
		s.Violation("Function:accessors-differ", "GetDigestFunction(%v) on %q -> enum %v instance %q", c.fn, c.inst, f.GetEnumValue(), f.GetInstanceName().String())
		return digest.BadDigest, false
	}
	d, err := f.NewDigest(c.hash, c.size)
	if err != nil {
		s.Violation("Function.NewDigest:valid-digest-rejected", "NewDigest(%v) = %v", c, err)
		return digest.BadDigest, false
	}
	if o := observe(d); o != c {
		s.Violation("Function.NewDigest:accessors-differ-from-input", "NewDigest(%v) reads back as %v (packed %q)", c, o, d.String())
		return d, false
	}
	return d, true
}

// checkConstructorsAgree: the other constructors yield the same digest.
func checkConstructorsAgree(s sink, c comps, d digest.Digest) {
	in, _ := digest.NewInstanceName(c.inst)
	// from components
	in2, err := digest.NewInstanceNameFromComponents(splitSlash(c.inst))
	if err != nil || in2 != in {
		s.Violation("NewInstanceNameFromComponents:differs-from-NewInstanceName", "components %q -> %q, %v", splitSlash(c.inst), in2.String(), err)
	}
	if got := in.GetComponents(); strings.Join(got, "/") != c.inst || len(got) != len(splitSlash(c.inst)) {
		s.Violation("InstanceName.GetComponents:differs", "GetComponents(%q) = %q", c.inst, got)
	}
	f, _ := in.GetDigestFunction(c.fn, 0)
	d2, err := f.NewDigestFromProto(&remoteexecution.Digest{Hash: c.hash, SizeBytes: c.size})
	if err != nil || d2 != d {
		s.Violation("Function.NewDigestFromProto:differs-from-NewDigest", "%v -> %q, %v (want %q)", c, str(d2, err), err, d.String())
	}
	if fe, ok := inferredByLen[len(c.hash)]; ok && fe == c.fn {
		// function inferred from the hash length
		f3, err := in.GetDigestFunction(remoteexecution.DigestFunction_UNKNOWN, len(c.hash))
		if err != nil {
			s.Violation("InstanceName.GetDigestFunction:length-inference-failed", "UNKNOWN with length %d: %v", len(c.hash), err)
		} else if d3, err := f3.NewDigest(c.hash, c.size); err != nil || d3 != d {
			s.Violation("InstanceName.GetDigestFunction:length-inference-differs", "%v -> %q, %v", c, str(d3, err), err)
		}
	}
	d4 := d.GetDigestFunction()
	if d5, err := d4.NewDigest(c.hash, c.size); err != nil || d5 != d {
		s.Violation("Digest.GetDigestFunction:rebuild-differs", "%v -> %q, %v", c, str(d5, err), err)
	}
}

func str(d digest.Digest, err error) string {
	if err != nil || d == digest.BadDigest {
		return "<bad>"
	}
	return d.String()
}

// checkRoundTrips: format -> parse = identity, for all four codecs and every
// compressor.
func checkRoundTrips(s sink, c comps, d digest.Digest, u uuid.UUID, otherInst string) {
	in := d.GetInstanceName()
	for _, comp := range compressors {
		// read path
		p := d.GetByteStreamReadPath(comp.enum)
		d2, c2, err := digest.NewDigestFromByteStreamReadPath(p)
		if err != nil || d2 != d || c2 != comp.enum {
			ref := refReadPath(c, comp)
			if hasDotComponent(c.inst) && p != ref && p == path.Clean(ref) {
				s.Count("p6_observed", 1)
				s.Violation(sigP6, "read path of %v with %v is %q (plain join: %q); parsing it back gives %q, %v, %v", c, comp.enum, p, ref, str(d2, err), c2, err)
			} else {
				s.Violation("Digest.GetByteStreamReadPath:round-trip-differs", "read path of %v with %v is %q; parsing it back gives %q, %v, %v", c, comp.enum, p, str(d2, err), c2, err)
			}
		} else {
			s.Count("roundtrip_read_ok", 1)
			if p == refReadPath(c, comp) {
				s.Count("format_matches_documented_layout", 1)
			} else {
				s.Count("format_differs_from_documented_layout", 1)
			}
		}
		// write path
		p = d.GetByteStreamWritePath(u, comp.enum)
		d2, c2, err = digest.NewDigestFromByteStreamWritePath(p)
		if err != nil || d2 != d || c2 != comp.enum {
			ref := refWritePath(c, u.String(), comp)
			if hasDotComponent(c.inst) && p != ref && p == path.Clean(ref) {
				s.Count("p6_observed", 1)
				s.Violation(sigP6, "write path of %v with %v is %q (plain join: %q); parsing it back gives %q, %v, %v", c, comp.enum, p, ref, str(d2, err), c2, err)
			} else {
				s.Violation("Digest.GetByteStreamWritePath:round-trip-differs", "write path of %v with %v is %q; parsing it back gives %q, %v, %v", c, comp.enum, p, str(d2, err), c2, err)
			}
		} else {
			s.Count("roundtrip_write_ok", 1)
			if p == refWritePath(c, u.String(), comp) {
				s.Count("format_matches_documented_layout", 1)
			} else {
				s.Count("format_differs_from_documented_layout", 1)
			}
			// a trailing ${path} is permitted after the size
			if d3, c3, err := digest.NewDigestFromByteStreamWritePath(p + "/some/file.txt"); err != nil || d3 != d || c3 != comp.enum {
				s.Violation("NewDigestFromByteStreamWritePath:trailing-path-changes-result", "%q + trailing path -> %q, %v, %v", p, str(d3, err), c3, err)
			}
		}
	}
	// REv2 message
	f := d.GetDigestFunction()
	if d2, err := f.NewDigestFromProto(d.GetProto()); err != nil || d2 != d {
		s.Violation("Digest.GetProto:round-trip-differs", "%v -> proto %v -> %q, %v", c, d.GetProto(), str(d2, err), err)
	} else {
		s.Count("roundtrip_proto_ok", 1)
	}
	// compact binary (does not carry the instance name: the parser is given one)
	cb := d.GetCompactBinary()
	r := bytes.NewReader(append(append([]byte(nil), cb...), 0xAA, 0x55))
	if d2, err := in.NewDigestFromCompactBinary(r); err != nil || d2 != d {
		s.Violation("Digest.GetCompactBinary:round-trip-differs", "%v -> %x -> %q, %v", c, cb, str(d2, err), err)
	} else {
		s.Count("roundtrip_compact_ok", 1)
		if r.Len() == 2 {
			s.Count("compact_self_delimiting", 1)
		}
	}
	if oin, err := digest.NewInstanceName(otherInst); err == nil {
		want := c
		want.inst = otherInst
		if d2, err := oin.NewDigestFromCompactBinary(bytes.NewReader(cb)); err != nil || observe(d2) != want {
			s.Violation("InstanceName.NewDigestFromCompactBinary:other-instance-differs", "%x under %q -> %q, %v", cb, otherInst, str(d2, err), err)
		}
	}
}

// checkAncestors: the list of ancestor-instance digests is exactly the chain of
// component prefixes "", c1, c1/c2, ..., full name.
func checkAncestors(s sink, c comps, d digest.Digest) {
	cs := splitSlash(c.inst)
	got := d.GetDigestsWithParentInstanceNames()
	if len(got) != len(cs)+1 {
		s.Violation("Digest.GetDigestsWithParentInstanceNames:wrong-length", "%q (%d components) -> %d digests: %v", c.inst, len(cs), len(got), got)
		return
	}
	for i, g := range got {
		want := c
		want.inst = strings.Join(cs[:i], "/")
		if o := observe(g); o != want {
			s.Violation("Digest.GetDigestsWithParentInstanceNames:not-component-prefix-chain", "element %d of the ancestors of %v is %v, want %v", i, c, o, want)
			return
		}
	}
	if got[len(got)-1] != d {
		s.Violation("Digest.GetDigestsWithParentInstanceNames:last-is-not-self", "last=%q self=%q", got[len(got)-1], d)
	}
	s.Count("ancestor_chains_checked", 1)
	if len(cs) >= 3 {
		s.Count("ancestor_chains_depth3plus", 1)
	}
}

// checkKeys: equal keys exactly when the components agree.
func checkKeys(s sink, a, b comps, da, db digest.Digest) {
	sameNoInst := a.fn == b.fn && a.hash == b.hash && a.size == b.size
	same := sameNoInst && a.inst == b.inst
	if got := da.GetKey(digest.KeyWithInstance) == db.GetKey(digest.KeyWithInstance); got != same {
		s.Violation("Digest.GetKey(KeyWithInstance):equality-differs-from-components", "%v vs %v: keys %q / %q equal=%v, components equal=%v", a, b, da.GetKey(digest.KeyWithInstance), db.GetKey(digest.KeyWithInstance), got, same)
	}
	if got := da.GetKey(digest.KeyWithoutInstance) == db.GetKey(digest.KeyWithoutInstance); got != sameNoInst {
		s.Violation("Digest.GetKey(KeyWithoutInstance):equality-differs-from-components", "%v vs %v: keys %q / %q equal=%v, components equal=%v", a, b, da.GetKey(digest.KeyWithoutInstance), db.GetKey(digest.KeyWithoutInstance), got, sameNoInst)
	}
	if got := da == db; got != same {
		s.Violation("Digest:go-equality-differs-from-components", "%v vs %v: ==:%v components equal=%v", a, b, got, same)
	}
	if same {
		s.Count("key_pairs_equal", 1)
	} else if sameNoInst {
		s.Count("key_pairs_differ_in_instance_only", 1)
	} else {
		s.Count("key_pairs_differ", 1)
	}
}

// ---- hostile input ----

// mustReject: an input of a curated malformed class was accepted.
func mustReject(s sink, site, class, input string, err error) {
	if err == nil {
		s.Violation(site+":accepted-"+class, "%s accepted malformed input (%s): %q", site, class, input)
		return
	}
	s.Count("rejected_"+class, 1)
}

// checkParsePath: totality and soundness of one of the two resource-name
// parsers on an arbitrary string. Accepted input must yield a valid digest and
// a known compressor, and parse∘format∘parse = parse.
func checkParsePath(s sink, write bool, input string) (accepted bool) {
	site := "NewDigestFromByteStreamReadPath"
	parse := digest.NewDigestFromByteStreamReadPath
	if write {
		site = "NewDigestFromByteStreamWritePath"
		parse = digest.NewDigestFromByteStreamWritePath
	}
	d, comp, err := parse(input)
	if err != nil {
		s.Count("hostile_rejected", 1)
		return false
	}
	s.Count("hostile_accepted", 1)
	c, ok := checkWellFormed(s, site, d)
	if !ok {
		return true
	}
	if !knownCompressor(comp) {
		s.Violation(site+":accepted-unknown-compressor", "%q -> compressor %v", input, comp)
		return true
	}
	// idempotence
	var p string
	if write {
		p = d.GetByteStreamWritePath(uuid.Nil, comp)
	} else {
		p = d.GetByteStreamReadPath(comp)
	}
	d2, comp2, err := parse(p)
	if err != nil || d2 != d || comp2 != comp {
		ci := compressors[0]
		for _, k := range compressors {
			if k.enum == comp {
				ci = k
			}
		}
		ref := refReadPath(c, ci)
		if write {
			ref = refWritePath(c, uuid.Nil.String(), ci)
		}
		if hasDotComponent(c.inst) && p != ref && p == path.Clean(ref) {
			s.Count("p6_observed", 1)
			s.Violation(sigP6, "%s(%q) = %v, %v; formatted again: %q (plain join: %q); parsed again: %q, %v, %v", site, input, c, comp, p, ref, str(d2, err), comp2, err)
		} else {
			s.Violation(site+":parse-format-parse-differs", "%s(%q) = %v, %v; formatted again: %q; parsed again: %q, %v, %v", site, input, c, comp, p, str(d2, err), comp2, err)
		}
	}
	return true
}

// checkInstanceName: NewInstanceName accepts exactly the reference-valid names.
func checkInstanceName(s sink, name string) {
	in, err := digest.NewInstanceName(name)
	ok, why := refValidInstance(name)
	switch {
	case ok && err != nil:
		s.Violation("NewInstanceName:valid-name-rejected", "NewInstanceName(%q) = %v", name, err)
	case !ok && err == nil:
		s.Violation("NewInstanceName:accepted-"+why, "NewInstanceName(%q) accepted", name)
	case ok:
		s.Count("instance_names_accepted", 1)
		if in.String() != name {
			s.Violation("InstanceName.String:round-trip-differs", "NewInstanceName(%q).String() = %q", name, in.String())
		}
		if got := in.GetComponents(); strings.Join(got, "/") != name {
			s.Violation("InstanceName.GetComponents:differs", "GetComponents(%q) = %q", name, got)
		}
	default:
		s.Count("rejected_instance_"+why, 1)
	}
}

// checkCompactBinary: totality and soundness of the compact-binary parser.
func checkCompactBinary(s sink, in digest.InstanceName, b []byte) bool {
	r := bytes.NewReader(b)
	d, err := in.NewDigestFromCompactBinary(r)
	if err != nil {
		s.Count("hostile_rejected", 1)
		return false
	}
	s.Count("hostile_accepted", 1)
	if _, ok := checkWellFormed(s, "InstanceName.NewDigestFromCompactBinary", d); !ok {
		return true
	}
	if d.GetInstanceName() != in {
		s.Violation("InstanceName.NewDigestFromCompactBinary:wrong-instance-name", "%q vs %q", d.GetInstanceName().String(), in.String())
	}
	// idempotence (the varint of the input need not be minimal)
	if d2, err := in.NewDigestFromCompactBinary(bytes.NewReader(d.GetCompactBinary())); err != nil || d2 != d {
		s.Violation("InstanceName.NewDigestFromCompactBinary:parse-format-parse-differs", "%x -> %q -> %x -> %q, %v", b, d.String(), d.GetCompactBinary(), str(d2, err), err)
	}
	return true
}

// checkNewDigest: Function.NewDigest / NewDigestFromProto on arbitrary
// (function, hash, size): accepted exactly when the reference says valid.
func checkNewDigest(s sink, in digest.InstanceName, fn remoteexecution.DigestFunction_Value, fallback int, hash string, size int64) {
	f, err := in.GetDigestFunction(fn, fallback)
	eff := fn
	if fn == remoteexecution.DigestFunction_UNKNOWN {
		if e, ok := inferredByLen[fallback]; ok {
			eff = e
		}
	}
	if fnByEnum(eff) == nil {
		mustReject(s, "InstanceName.GetDigestFunction", "unknown-function", fmt.Sprintf("%d/fallback %d", int32(fn), fallback), err)
		return
	}
	if err != nil {
		s.Violation("InstanceName.GetDigestFunction:supported-function-rejected", "GetDigestFunction(%v, %d) = %v", fn, fallback, err)
		return
	}
	c := comps{fn: eff, hash: hash, size: size, inst: in.String()}
	cls := refInvalidClass(c)
	d, err := f.NewDigest(hash, size)
	d2, err2 := f.NewDigestFromProto(&remoteexecution.Digest{Hash: hash, SizeBytes: size})
	if (err == nil) != (err2 == nil) || err == nil && d != d2 {
		s.Violation("Function.NewDigestFromProto:differs-from-NewDigest", "%v: %q,%v vs %q,%v", c, str(d, err), err, str(d2, err2), err2)
	}
	if cls != "" {
		mustReject(s, "Function.NewDigest", cls, c.String(), err)
		return
	}
	if err != nil {
		s.Violation("Function.NewDigest:valid-digest-rejected", "NewDigest(%v) = %v", c, err)
		return
	}
	if o := observe(d); o != c {
		s.Violation("Function.NewDigest:accessors-differ-from-input", "NewDigest(%v) reads back as %v", c, o)
	}
}

// ---- sets ----

// refSet is the mathematical set: key (packed string) -> digest.
type refSet map[string]digest.Digest

func (r refSet) sorted() []digest.Digest {
	ks := make([]string, 0, len(r))
	for k := range r {
		ks = append(ks, k)
	}
	sort.Strings(ks)
	out := make([]digest.Digest, len(ks))
	for i, k := range ks {
		out[i] = r[k]
	}
	return out
}

// checkSet compares a Set produced by the package with the mathematical set:
// same elements, sorted, duplicate-free, and the small accessors agree.
func checkSet(s sink, site string, got digest.Set, want refSet) bool {
	items := got.Items()
	for i := 1; i < len(items); i++ {
		if a, b := items[i-1].String(), items[i].String(); a == b {
			s.Violation(site+":duplicate-element", "%s: element %q twice (%d elements)", site, a, len(items))
			return false
		} else if a > b {
			s.Violation(site+":not-sorted", "%s: %q before %q", site, a, b)
			return false
		}
	}
	ws := want.sorted()
	if len(items) != len(ws) {
		s.Violation(site+":wrong-elements", "%s: %d elements, the mathematical set has %d\n got: %v\nwant: %v", site, len(items), len(ws), items, ws)
		return false
	}
	for i := range ws {
		if items[i] != ws[i] {
			s.Violation(site+":wrong-elements", "%s: element %d is %q, want %q", site, i, items[i], ws[i])
			return false
		}
	}
	if got.Length() != len(ws) || got.Empty() != (len(ws) == 0) {
		s.Violation("Set.Length/Empty:differs", "Length=%d Empty=%v for %d elements", got.Length(), got.Empty(), len(ws))
		return false
	}
	f, ok := got.First()
	if ok != (len(ws) > 0) || ok && f != ws[0] {
		s.Violation("Set.First:differs", "First=%q,%v for %d elements", str(f, nil), ok, len(ws))
		return false
	}
	return true
}

// ---- helpers shared with the fuzz targets ----

// panicSiteOf extracts the innermost bb-storage frame of a stack.
func panicSiteOf(stack string) string {
	for _, l := range strings.Split(stack, "\n") {
		if strings.HasPrefix(l, "github.com/buildbarn/bb-storage/") {
			l = strings.TrimPrefix(l, "github.com/buildbarn/bb-storage/")
			if i := strings.LastIndexByte(l, '('); i > 0 {
				l = l[:i]
			}
			return l
		}
	}
	return "harness"
}

// guard runs f and reports a panic as a violation with the same signature
// scheme as lib/run.
func guard(s sink, what string, f func()) {
	defer func() {
		if r := recover(); r != nil {
			st := string(debug.Stack())
			s.Violation("panic:"+panicSiteOf(st), "panic in %s: %v\n%s", what, r, st)
		}
	}()
	f()
}
