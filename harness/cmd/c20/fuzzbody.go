package main

// Bodies of the native fuzz targets. They live in a non-test file so that the
// driver (fuzzdrv.go) can replay a failing input of the fuzz engine in-process,
// outside the engine, through exactly the same oracle.

import (
	"bufio"
	"bytes"
	"fmt"
	"strconv"
	"strings"

	remoteexecution "github.com/bazelbuild/remote-apis/build/bazel/remote/execution/v2"
	"github.com/buildbarn/bb-storage/pkg/digest"
	"github.com/google/uuid"
)

func bodyReadPath(s sink, in string) {
	guard(s, "NewDigestFromByteStreamReadPath", func() { checkParsePath(s, false, in) })
}

func bodyWritePath(s sink, in string) {
	guard(s, "NewDigestFromByteStreamWritePath", func() { checkParsePath(s, true, in) })
}

func bodyCompactBinary(s sink, b []byte, inst string) {
	guard(s, "NewInstanceName", func() { checkInstanceName(s, inst) })
	if ok, _ := refValidInstance(inst); ok {
		if in, err := digest.NewInstanceName(inst); err == nil {
			guard(s, "NewDigestFromCompactBinary", func() { checkCompactBinary(s, in, b) })
		}
	}
}

func bodyDigest(s sink, fn int32, fallback int, hash string, size int64, inst string, ub []byte) {
	guard(s, "NewInstanceName", func() { checkInstanceName(s, inst) })
	if ok, _ := refValidInstance(inst); !ok {
		return
	}
	in, err := digest.NewInstanceName(inst)
	if err != nil {
		return
	}
	e := remoteexecution.DigestFunction_Value(fn)
	guard(s, "Function.NewDigest", func() { checkNewDigest(s, in, e, fallback, hash, size) })
	if e == remoteexecution.DigestFunction_UNKNOWN {
		e = inferredByLen[fallback]
	}
	cm := comps{fn: e, hash: hash, size: size, inst: inst}
	if refInvalidClass(cm) != "" {
		return
	}
	var u uuid.UUID
	copy(u[:], ub)
	guard(s, "codecs", func() {
		d, ok := build(s, cm)
		if !ok {
			return
		}
		if _, ok := checkWellFormed(s, "Function.NewDigest", d); !ok {
			return
		}
		checkConstructorsAgree(s, cm, d)
		checkRoundTrips(s, cm, d, u, "other/name")
		checkAncestors(s, cm, d)
	})
}

// collectSink gathers violations; finding P6 is left to the generated campaign
// (the fuzz engine stops at the first failing input, so P6 would hide
// everything else from it).
type collectSink struct {
	reportP6 bool
	v        []fuzzFinding
}

func (s *collectSink) Violation(sig, format string, a ...any) {
	if sig == sigP6 && !s.reportP6 {
		return
	}
	d := fmt.Sprintf(format, a...)
	if len(d) > 4000 {
		d = d[:4000] + "…"
	}
	s.v = append(s.v, fuzzFinding{sig, d})
}
func (s *collectSink) Count(string, int64) {}

// parseCorpus reads a file in the "go test fuzz v1" corpus encoding for the
// argument types used by the targets of this package.
func parseCorpus(b []byte) ([]any, error) {
	sc := bufio.NewScanner(bytes.NewReader(b))
	sc.Buffer(make([]byte, 1<<20), 1<<26)
	if !sc.Scan() || strings.TrimSpace(sc.Text()) != "go test fuzz v1" {
		return nil, fmt.Errorf("not a go fuzz corpus file")
	}
	var out []any
	for sc.Scan() {
		l := strings.TrimSpace(sc.Text())
		if l == "" {
			continue
		}
		i := strings.IndexByte(l, '(')
		if i < 0 || !strings.HasSuffix(l, ")") {
			return nil, fmt.Errorf("malformed corpus line %q", l)
		}
		typ, arg := l[:i], l[i+1:len(l)-1]
		switch typ {
		case "string", "[]byte":
			s, err := strconv.Unquote(arg)
			if err != nil {
				return nil, fmt.Errorf("corpus line %q: %v", l, err)
			}
			if typ == "string" {
				out = append(out, s)
			} else {
				out = append(out, []byte(s))
			}
		case "int", "int32", "int64":
			n, err := strconv.ParseInt(arg, 0, 64)
			if err != nil {
				return nil, fmt.Errorf("corpus line %q: %v", l, err)
			}
			switch typ {
			case "int":
				out = append(out, int(n))
			case "int32":
				out = append(out, int32(n))
			default:
				out = append(out, n)
			}
		default:
			return nil, fmt.Errorf("corpus line %q: unsupported type", l)
		}
	}
	return out, sc.Err()
}

// replayCorpus runs the body of a target on a parsed corpus entry.
func replayCorpus(target string, v []any, s sink) (err error) {
	defer func() {
		if r := recover(); r != nil {
			err = fmt.Errorf("corpus entry does not match the target's signature: %v", r)
		}
	}()
	switch target {
	case "FuzzReadPath":
		in := v[0].(string)
		bodyReadPath(s, in)
	case "FuzzWritePath":
		in := v[0].(string)
		bodyWritePath(s, in)
	case "FuzzCompactBinary":
		b, inst := v[0].([]byte), v[1].(string)
		bodyCompactBinary(s, b, inst)
	case "FuzzDigest":
		fn, fb, hash, size, inst, ub := v[0].(int32), v[1].(int), v[2].(string), v[3].(int64), v[4].(string), v[5].([]byte)
		bodyDigest(s, fn, fb, hash, size, inst, ub)
	default:
		return fmt.Errorf("unknown target %s", target)
	}
	return nil
}
