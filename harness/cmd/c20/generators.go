package main

// Generators of C20: valid digests in components, valid and invalid instance
// names, curated malformed inputs, structure-aware mutations and token soups.
// All randomness comes from the *gen.Rng handed in.

import (
	"encoding/binary"
	"math"
	"strconv"
	"strings"

	remoteexecution "github.com/bazelbuild/remote-apis/build/bazel/remote/execution/v2"
	"github.com/google/uuid"

	"verif/lib/gen"
)

const hexDigits = "0123456789abcdef"

func genHex(r *gen.Rng, n int) string {
	b := make([]byte, n)
	switch r.Intn(12) {
	case 0:
		for i := range b {
			b[i] = '0'
		}
	case 1:
		for i := range b {
			b[i] = 'f'
		}
	case 2: // digits only: looks like a number
		for i := range b {
			b[i] = byte('0' + r.Intn(10))
		}
	case 3: // letters only
		for i := range b {
			b[i] = byte('a' + r.Intn(6))
		}
	default:
		raw := r.Bytes(n)
		for i := range b {
			b[i] = hexDigits[raw[i]&15]
		}
	}
	return string(b)
}

func genSize(r *gen.Rng) int64 {
	switch r.Intn(10) {
	case 0:
		return 0
	case 1:
		return int64(r.Intn(10))
	case 2:
		return math.MaxInt64 - int64(r.Intn(3))
	case 3: // powers of ten and neighbours
		p := int64(1)
		for i := r.Intn(19); i > 0; i-- {
			p *= 10
		}
		return p - int64(r.Intn(2))
	case 4:
		return int64(1) << uint(r.Intn(63))
	case 5:
		return int64(r.Uint64() >> 1)
	default:
		return int64(r.Intn(100000))
	}
}

// Components that are valid inside an instance name but look like something
// else to a parser.
var trickyComponents = []string{
	"a", "b", "c", "hello", "world", "main", "x-1", "0", "1-2", "-", "--", "1", "123", "-5",
	".", "..", "...", ".a", "a.", "blob", "Blobs", "BLOBS", "upload", "Uploads", "actions2", "action", "actionresults",
	"compressed_blobs", "compressed-blob", "sha256tree", "blake3", "gitsha1", "sha256", "md5", "zstd", "deflate", "identity",
	"ü", "日本", "a b", " ", "\x00", "\xff\xfe", "%2F", "\\", "a\tb", "\n",
	"d41d8cd98f00b204e9800998ecf8427e", "da39a3ee5e6b4b0d3255bfef95601890afd80709",
	"e3b0c44298fc1c149afbf4c8996fb92427ae41e4649b934ca495991b7852b855",
	"da2f1135-326b-4956-b920-1646cdd6cb53",
}

func genComponent(r *gen.Rng) string {
	switch r.Intn(10) {
	case 0, 1, 2, 3, 4, 5:
		return trickyComponents[r.Intn(len(trickyComponents))]
	case 6: // random printable
		n := r.Range(1, 12)
		b := make([]byte, n)
		for i := range b {
			b[i] = byte(r.Range(0x21, 0x7e))
			if b[i] == '/' {
				b[i] = '_'
			}
		}
		return string(b)
	case 7: // random bytes
		b := r.Bytes(r.Range(1, 8))
		for i := range b {
			if b[i] == '/' {
				b[i] = 0x2e
			}
		}
		return string(b)
	case 8:
		return strings.Repeat("x", r.Range(1, 300))
	default:
		return string(rune('a' + r.Intn(26)))
	}
}

// genInstance returns a reference-valid instance name. dots=false avoids "."
// and ".." components (used where finding P6 would mask everything else).
func genInstance(r *gen.Rng, dots bool) string {
	n := 0
	switch r.Intn(8) {
	case 0:
		return ""
	case 1, 2:
		n = 1
	case 3, 4:
		n = 2
	case 5:
		n = 3
	default:
		n = r.Range(3, 7)
	}
	cs := make([]string, 0, n)
	for len(cs) < n {
		c := genComponent(r)
		if isReserved(c) || c == "" {
			continue
		}
		if !dots && (c == "." || c == "..") {
			continue
		}
		cs = append(cs, c)
	}
	return strings.Join(cs, "/")
}

func genComps(r *gen.Rng, dots bool) comps {
	fi := fnTable[r.Intn(len(fnTable))]
	return comps{fn: fi.enum, hash: genHex(r, fi.hexLen), size: genSize(r), inst: genInstance(r, dots)}
}

func genUUID(r *gen.Rng) uuid.UUID {
	var u uuid.UUID
	copy(u[:], r.Bytes(16))
	if r.Chance(1, 10) {
		u = uuid.Nil
	}
	return u
}

// variant returns components that differ from c in exactly one respect (or in
// none: kind 0), for the key-equality clause.
func variant(r *gen.Rng, c comps) (comps, string) {
	v := c
	switch r.Intn(9) {
	case 0:
		return v, "identical"
	case 1: // another function of the same hash length
		for _, fi := range fnTable {
			if fi.hexLen == len(c.hash) && fi.enum != c.fn {
				v.fn = fi.enum
				if r.Bool() {
					break
				}
			}
		}
		return v, "function"
	case 2: // one hash character
		b := []byte(c.hash)
		i := r.Intn(len(b))
		b[i] = hexDigits[(strings.IndexByte(hexDigits, b[i])+1+r.Intn(15))%16]
		v.hash = string(b)
		return v, "hash"
	case 3: // size with a shared decimal prefix
		switch r.Intn(4) {
		case 0:
			if c.size < math.MaxInt64/10 {
				v.size = c.size * 10
			}
		case 1:
			v.size = c.size / 10
		case 2:
			if c.size < math.MaxInt64 {
				v.size = c.size + 1
			}
		default:
			v.size = genSize(r)
		}
		return v, "size"
	case 4: // instance: append / drop a component
		cs := splitSlash(c.inst)
		if len(cs) > 0 && r.Bool() {
			v.inst = strings.Join(cs[:len(cs)-1], "/")
		} else {
			v.inst = refJoin(c.inst, "z")
		}
		return v, "instance"
	case 5: // move digits between size and instance name ("…-1-2/x" vs "…-12-/x" lookalikes)
		v.inst = refJoin(strconv.FormatInt(c.size%10, 10) + "-" + c.inst)
		v.size = c.size / 10
		if ok, _ := refValidInstance(v.inst); !ok {
			v.inst = "0-"
		}
		return v, "size+instance"
	case 6: // another function altogether
		fi := fnTable[r.Intn(len(fnTable))]
		v.fn = fi.enum
		v.hash = genHex(r, fi.hexLen)
		if fi.hexLen >= len(c.hash) { // share the prefix
			v.hash = c.hash + v.hash[len(c.hash):]
		} else {
			v.hash = c.hash[:fi.hexLen]
		}
		return v, "function+hash"
	case 7:
		v.inst = genInstance(r, true)
		return v, "instance"
	default:
		return genComps(r, true), "unrelated"
	}
}

// ---- curated malformed inputs ----

// badSizes are path components that are not a non-negative decimal int64.
// ("+5", "05", "-0" are merely normalised by strconv.ParseInt and are NOT in
// the must-reject class.)
var badSizes = []string{
	"-1", "-5", "-123456", "-9223372036854775808", "-9223372036854775809",
	"five", "abc", "12a", "a12", "1e3", "0x10", "1.5", "1,5", " 5", "5 ", "1_000", "١٢", "５", "NaN", "--5", "+-5", "+", "-",
	"9223372036854775808", "18446744073709551616", "99999999999999999999999999", "5\x00", "\x005",
}

var unknownCompressors = []string{"identity", "gzip", "ZSTD", "Zstd", "zstd ", " zstd", "zst", "zstdd", "lz4", "xz", "brotl", "DEFLATE", "0", "1", "blobs", "compressed-blobs", "\x00", "é"}

var unknownFunctionNames = []string{"sha3", "sha256", "md5", "sha1", "sha384", "sha512", "vso", "murmur3", "BLAKE3", "Blake3", "blake2", "blake3 ", "sha256tre", "sha256tree2", "gitsha", "GITSHA1", "unknown", "x", "0", "9"}

// unsupportedHexLens: lengths that select no function.
func genUnsupportedLen(r *gen.Rng) int {
	for {
		n := r.Pick(1, 2, 8, 16, 31, 33, 39, 41, 48, 56, 63, 65, 80, 95, 97, 112, 127, 129, 130, 200, 256, r.Range(1, 300))
		if _, ok := inferredByLen[n]; !ok {
			return n
		}
	}
}

// badHashChar returns hash with one character replaced by something that is
// not lowercase hex (and not '/').
func badHash(r *gen.Rng, hash string) string {
	b := []byte(hash)
	i := r.Intn(len(b))
	switch r.Intn(6) {
	case 0:
		b[i] = byte('A' + r.Intn(6))
	case 1:
		b[i] = byte('g' + r.Intn(20))
	case 2:
		b[i] = byte(r.Pick(' ', '-', '_', '.', '+', ':', '@', 0, 0x7f, '\n', '%'))
	case 3: // upper-case the whole hash (if it has a letter) or inject one
		up := strings.ToUpper(hash)
		if up != hash {
			return up
		}
		b[i] = 'F'
	case 4:
		b[i] = byte(r.Range(0x80, 0xff))
	default:
		b[i] = 'G'
	}
	return string(b)
}

// malformedPath builds a resource name that has exactly one defect of a curated
// class. c must be reference-valid with an instance name free of dot
// components.
func malformedPath(r *gen.Rng, write bool, c comps) (input, class string) {
	fi := fnByEnum(c.fn)
	comp := compressors[r.Intn(len(compressors))]
	u := genUUID(r).String()
	size := strconv.FormatInt(c.size, 10)
	mk := func(inst, compMid, fnMid, hash, size string, tail ...string) string {
		var p string
		if write {
			p = refJoin(inst, "uploads", u, compMid, fnMid, hash, size)
		} else {
			p = refJoin(inst, compMid, fnMid, hash, size)
		}
		for _, t := range tail {
			p += "/" + t
		}
		return p
	}
	switch r.Intn(7) {
	case 0: // wrong hash length
		var n int
		if fi.midfix == "" {
			n = genUnsupportedLen(r)
		} else {
			for n = fi.hexLen; n == fi.hexLen; {
				n = r.Pick(32, 40, 96, 128, fi.hexLen-1, fi.hexLen+1, fi.hexLen*2, genUnsupportedLen(r))
				if n == 64 {
					n = fi.hexLen
				}
			}
		}
		return mk(c.inst, comp.midfix, fi.midfix, genHex(r, n), size), "wrong-hash-length"
	case 1:
		return mk(c.inst, comp.midfix, fi.midfix, badHash(r, c.hash), size), "non-lowercase-hex-hash"
	case 2:
		tail := []string{}
		if write && r.Bool() {
			tail = append(tail, "file.txt")
		}
		return mk(c.inst, comp.midfix, fi.midfix, c.hash, badSizes[r.Intn(len(badSizes))], tail...), "bad-size"
	case 3: // reserved keyword in the instance name
		kws := []string{"actions", "actionResults", "operations", "capabilities"}
		if write {
			kws = append(kws, "blobs", "compressed-blobs")
		} else {
			kws = append(kws, "uploads")
		}
		cs := splitSlash(c.inst)
		i := r.Intn(len(cs) + 1)
		cs = append(cs[:i:i], append([]string{kws[r.Intn(len(kws))]}, cs[i:]...)...)
		return mk(strings.Join(cs, "/"), comp.midfix, fi.midfix, c.hash, size), "reserved-keyword-in-instance-name"
	case 4:
		return mk(c.inst, "compressed-blobs/"+unknownCompressors[r.Intn(len(unknownCompressors))], fi.midfix, c.hash, size), "unknown-compressor"
	case 5:
		return mk(c.inst, comp.midfix, unknownFunctionNames[r.Intn(len(unknownFunctionNames))], c.hash, size), "unknown-function"
	default: // truncated: drop the last k>=1 components of a valid name
		full := strings.Split(mk(c.inst, comp.midfix, fi.midfix, c.hash, size), "/")
		min := 0
		k := r.Range(1, len(full)-min)
		if r.Chance(2, 3) {
			k = r.Range(1, 3)
			if k > len(full) {
				k = len(full)
			}
		}
		p := strings.Join(full[:len(full)-k], "/")
		if r.Chance(1, 4) && p != "" {
			p += "/"
		}
		return p, "truncated-path"
	}
}

// mutate applies structure-aware mutations to a resource name.
func mutate(r *gen.Rng, p string, other string) string {
	for n := r.Range(1, 3); n > 0; n-- {
		cs := strings.Split(p, "/")
		switch r.Intn(16) {
		case 0: // drop a component
			if len(cs) > 0 {
				i := r.Intn(len(cs))
				cs = append(cs[:i:i], cs[i+1:]...)
			}
			p = strings.Join(cs, "/")
		case 1: // duplicate a component
			i := r.Intn(len(cs))
			cs = append(cs[:i+1:i+1], cs[i:]...)
			p = strings.Join(cs, "/")
		case 2: // swap two components
			i, j := r.Intn(len(cs)), r.Intn(len(cs))
			cs[i], cs[j] = cs[j], cs[i]
			p = strings.Join(cs, "/")
		case 3: // splice a reserved word / function / compressor name
			words := append(append([]string{}, reserved...), "zstd", "deflate", "brotli", "identity", "blake3", "sha256tree", "gitsha1", ".", "..", "")
			i := r.Intn(len(cs) + 1)
			cs = append(cs[:i:i], append([]string{words[r.Intn(len(words))]}, cs[i:]...)...)
			p = strings.Join(cs, "/")
		case 4: // replace a component by a reserved word
			cs[r.Intn(len(cs))] = reserved[r.Intn(len(reserved))]
			p = strings.Join(cs, "/")
		case 5: // change case of a component
			i := r.Intn(len(cs))
			if r.Bool() {
				cs[i] = strings.ToUpper(cs[i])
			} else {
				cs[i] = strings.ToUpper(cs[i][:min(1, len(cs[i]))]) + cs[i][min(1, len(cs[i])):]
			}
			p = strings.Join(cs, "/")
		case 6: // insert a byte
			i := r.Intn(len(p) + 1)
			p = p[:i] + string([]byte{byte(r.Pick('/', '/', '-', '.', ' ', 0, 'A', 'g', '0', 0xff, '+', r.Intn(256)))}) + p[i:]
		case 7: // delete a byte
			if len(p) > 0 {
				i := r.Intn(len(p))
				p = p[:i] + p[i+1:]
			}
		case 8: // replace a byte
			if len(p) > 0 {
				i := r.Intn(len(p))
				p = p[:i] + string([]byte{byte(r.Intn(256))}) + p[i+1:]
			}
		case 9: // redundant slashes
			switch r.Intn(3) {
			case 0:
				p = "/" + p
			case 1:
				p = p + "/"
			default:
				p = strings.Replace(p, "/", "//", r.Range(1, 3))
			}
		case 10: // truncate at a byte
			p = p[:r.Intn(len(p)+1)]
		case 11: // truncate at a component
			p = strings.Join(cs[:r.Intn(len(cs)+1)], "/")
		case 12: // weird size in the last or a random position
			i := len(cs) - 1
			if r.Bool() {
				i = r.Intn(len(cs))
			}
			cs[i] = append(badSizes, "+5", "05", "-0", "0", "00000000000000000000000007")[r.Intn(len(badSizes)+5)]
			p = strings.Join(cs, "/")
		case 13: // replace a component by hex of some length
			cs[r.Intn(len(cs))] = genHex(r, r.Pick(0, 1, 31, 32, 33, 40, 64, 65, 96, 128, 129))
			p = strings.Join(cs, "/")
		case 14: // splice with the tail / head of another name
			o := strings.Split(other, "/")
			i, j := r.Intn(len(cs)+1), r.Intn(len(o)+1)
			p = strings.Join(append(cs[:i:i], o[j:]...), "/")
		default: // a very long component
			cs[r.Intn(len(cs))] = strings.Repeat(string([]byte{byte(r.Pick('a', '0', 'f', '9'))}), r.Pick(1000, 4096, 70000))
			p = strings.Join(cs, "/")
		}
	}
	return p
}

var soupTokens = []string{
	"blobs", "uploads", "compressed-blobs", "actions", "actionResults", "operations", "capabilities",
	"zstd", "deflate", "brotli", "identity", "blake3", "sha256tree", "gitsha1", "sha256",
	"", "", ".", "..", "a", "b", "0", "5", "123", "-1", "+7", "007", "9223372036854775807", "9223372036854775808", "x",
	"da2f1135-326b-4956-b920-1646cdd6cb53",
}

// tokenSoup builds a slash-separated sequence of meaningful tokens: it reaches
// the deep branches of the parsers far more often than random bytes do.
func tokenSoup(r *gen.Rng) string {
	n := r.Range(0, 12)
	cs := make([]string, n)
	for i := range cs {
		switch r.Intn(4) {
		case 0:
			cs[i] = genHex(r, r.Pick(32, 40, 64, 96, 128, 64, 64, 31, 41))
		default:
			cs[i] = soupTokens[r.Intn(len(soupTokens))]
		}
	}
	return strings.Join(cs, "/")
}

// genVarint encodes v the way encoding/binary does.
func genVarint(v int64) []byte {
	var b [binary.MaxVarintLen64]byte
	return b[:binary.PutVarint(b[:], v)]
}

var unknownFunctionEnums = []remoteexecution.DigestFunction_Value{0, 4, 7, 11, 12, 20, 99, 100, 127, 128, 255, 256, -1, -3, 1 << 20, math.MaxInt32, math.MinInt32}
