// C18 — authorization: no backend access for a denied instance name.
//
// Monitor: a recording backend (model.Store) behind the real
// blobstore.NewAuthorizingBlobAccess, with table-driven recording authorizers
// (allow / deny / error per instance name), real auth.NewStaticAuthorizer
// leaves and real auth.NewAnyAuthorizer nestings. The oracle is a reference
// function over the table; the backend's call log and the release counters of
// the upload sources are the observed events.
package main

import (
	"context"
	"fmt"
	"strings"
	"sync"

	"github.com/buildbarn/bb-storage/pkg/auth"
	"github.com/buildbarn/bb-storage/pkg/blobstore"
	"github.com/buildbarn/bb-storage/pkg/blobstore/buffer"
	"github.com/buildbarn/bb-storage/pkg/blobstore/slicing"
	"github.com/buildbarn/bb-storage/pkg/digest"
	"google.golang.org/grpc/codes"
	"google.golang.org/grpc/status"

	"verif/lib/gen"
	"verif/lib/model"
	"verif/lib/run"
)

// outcome of one authorizer for one instance name: 0 allow, 1 deny, >=2 error
// with a distinguishable code.
type outcome int

var errCodes = []codes.Code{codes.Unavailable, codes.Internal, codes.DeadlineExceeded, codes.Unauthenticated, codes.InvalidArgument}

func (o outcome) String() string {
	switch {
	case o == 0:
		return "allow"
	case o == 1:
		return "deny"
	}
	return "err" + errCodes[int(o-2)%len(errCodes)].String()
}

// node of an authorizer expression.
type node struct {
	kind    string // "table", "static", "any"
	id      int
	table   map[string]outcome
	members []*node
}

type tableAuthorizer struct {
	n     *node
	mu    *sync.Mutex
	calls *[]string
}

func (n *node) errFor(name string) error {
	o := n.table[name]
	switch {
	case o == 0:
		return nil
	case o == 1:
		return status.Errorf(codes.PermissionDenied, "authorizer %d denies %q", n.id, name)
	}
	return status.Errorf(errCodes[int(o-2)%len(errCodes)], "authorizer %d fails for %q", n.id, name)
}

func (a *tableAuthorizer) Authorize(ctx context.Context, names []digest.InstanceName) []error {
	errs := make([]error, 0, len(names))
	a.mu.Lock()
	for _, nm := range names {
		*a.calls = append(*a.calls, fmt.Sprintf("a%d(%q)", a.n.id, nm.String()))
	}
	a.mu.Unlock()
	for _, nm := range names {
		errs = append(errs, a.n.errFor(nm.String()))
	}
	return errs
}

func (n *node) build(mu *sync.Mutex, calls *[]string) auth.Authorizer {
	switch n.kind {
	case "table":
		return &tableAuthorizer{n: n, mu: mu, calls: calls}
	case "static":
		return auth.NewStaticAuthorizer(func(in digest.InstanceName) bool { return n.table[in.String()] == 0 })
	}
	var ms []auth.Authorizer
	for _, m := range n.members {
		ms = append(ms, m.build(mu, calls))
	}
	return auth.NewAnyAuthorizer(ms)
}

func (n *node) String() string {
	if n.kind != "any" {
		var parts []string
		for _, nm := range names {
			if o, ok := n.table[nm]; ok {
				parts = append(parts, fmt.Sprintf("%q:%v", nm, o))
			}
		}
		return fmt.Sprintf("%s%d{%s}", n.kind, n.id, strings.Join(parts, ","))
	}
	var parts []string
	for _, m := range n.members {
		parts = append(parts, m.String())
	}
	return "any[" + strings.Join(parts, " ") + "]"
}

// accepted returns the set of acceptable results for a name: "allow", "deny"
// or "err:<code>:<authorizer id>". For 'any' the canonical result is the first
// member result that is not a denial; a failure of any other member is
// accepted as well (the statement allows reporting a member's failure), a
// grant only if it is the canonical result.
func (n *node) accepted(name string) map[string]bool {
	if n.kind != "any" {
		o := n.table[name]
		if n.kind == "static" && o != 0 {
			o = 1
		}
		switch {
		case o == 0:
			return map[string]bool{"allow": true}
		case o == 1:
			return map[string]bool{"deny": true}
		}
		return map[string]bool{fmt.Sprintf("err:%v:%d", errCodes[int(o-2)%len(errCodes)], n.id): true}
	}
	if len(n.members) == 0 {
		return map[string]bool{"deny": true}
	}
	// Enumerate the members' acceptable outcomes.
	out := map[string]bool{}
	var rec func(i int, canonical string, failures []string)
	rec = func(i int, canonical string, failures []string) {
		if i == len(n.members) {
			if canonical == "" {
				canonical = "deny"
			}
			out[canonical] = true
			for _, f := range failures {
				out[f] = true
			}
			return
		}
		for o := range n.members[i].accepted(name) {
			c, f := canonical, failures
			if c == "" && o != "deny" {
				c = o
			}
			if strings.HasPrefix(o, "err:") {
				f = append(append([]string(nil), failures...), o)
			}
			rec(i+1, c, f)
		}
	}
	rec(0, "", nil)
	return out
}

// classify maps an error returned to the caller to the vocabulary of accepted.
func classify(err error) string {
	if err == nil {
		return "allow"
	}
	if status.Code(err) == codes.PermissionDenied {
		return "deny"
	}
	msg := status.Convert(err).Message()
	id := -1
	if i := strings.Index(msg, "authorizer "); i >= 0 {
		fmt.Sscanf(msg[i:], "authorizer %d", &id)
	}
	return fmt.Sprintf("err:%v:%d", status.Code(err), id)
}

var names = []string{"", "a", "a/b", "a/b/c", "ab", "b", "x/y"}

func genNode(r *gen.Rng, depth int, id *int, univ []string) *node {
	*id++
	n := &node{id: *id, table: map[string]outcome{}}
	k := r.Intn(10)
	switch {
	case depth > 0 && k < 4:
		n.kind = "any"
		cnt := r.Intn(5)
		for i := 0; i < cnt; i++ {
			n.members = append(n.members, genNode(r, depth-1, id, univ))
		}
		return n
	case k < 6:
		n.kind = "static"
	default:
		n.kind = "table"
	}
	for _, nm := range univ {
		o := outcome(r.Pick(0, 0, 0, 1, 1, 2+r.Intn(len(errCodes))))
		if n.kind == "static" && o > 1 {
			o = 1
		}
		n.table[nm] = o
	}
	return n
}

type slicer struct{}

func (slicer) Slice(b buffer.Buffer, child digest.Digest) (buffer.Buffer, []slicing.BlobSlice) {
	b.Discard()
	return buffer.NewBufferFromError(status.Error(codes.NotFound, "slicer: no such child")), nil
}

func main() {
	run.Main(run.Spec{
		Property: "C18",
		Level:    "exploration",
		Rule: "case = (three authorizer expressions for get/put/findMissing built from table/static leaves and 'any' nestings of depth<=3 over 2-6 instance names with allow/deny/error outcomes) x a sequence of Get/GetFromComposite/Put/FindMissing over digest sets mixing the names; " +
			"distinct = hash of expressions+operation; non-trivial = the operation involves at least one name that some authorizer does not allow",
		Workers:     8,
		Floors:      map[string]int64{"denied_ops": 200, "allowed_ops": 200, "rejected_puts": 50, "mixed_findmissing": 50, "any_nested": 100},
		Assumptions: []string{"for GetFromComposite with parent and child under different instance names only the parent's name is required to be allowed when the backend is reached (the statement's 'every digest involved' would also cover the child; the unchanged tree authorizes the parent only, which is counted, not flagged)", "PermissionDenied is what 'denial' means (auth.NewStaticAuthorizer returns it)"},
		Body:        body,
	})
}

func body(w *run.Worker) {
	ctx := context.Background()
	w.Cases("authz", w.N(9000, 150000), func(c *run.Case) {
		r := c.Rng
		univ := append([]string(nil), names...)
		// subset of 2..6 names
		p := r.Perm(len(univ))
		k := r.Range(2, 6)
		var sel []string
		for _, i := range p[:k] {
			sel = append(sel, univ[i])
		}
		id := 0
		depth := r.Intn(4)
		exprs := [3]*node{genNode(r, depth, &id, sel), genNode(r, depth, &id, sel), genNode(r, depth, &id, sel)}
		var mu sync.Mutex
		var authCalls []string
		backend := model.NewStore("backend", digest.KeyWithInstance)
		ba := blobstore.NewAuthorizingBlobAccess(backend, exprs[0].build(&mu, &authCalls), exprs[1].build(&mu, &authCalls), exprs[2].build(&mu, &authCalls))
		c.Desc("get=%v put=%v fm=%v", exprs[0], exprs[1], exprs[2])
		for _, e := range exprs {
			if e.kind == "any" {
				w.Count("any_nested", 1)
			}
		}
		if c.Index == 0 {
			w.Sample(map[string]any{"get": exprs[0].String(), "put": exprs[1].String(), "findMissing": exprs[2].String()})
		}

		nops := r.Range(3, 10)
		for op := 0; op < nops; op++ {
			backend.ResetCalls()
			kind := r.Intn(4)
			name := sel[r.Intn(len(sel))]
			data := gen.UniqueBlob(uint64(c.Index), uint64(op), r.Range(0, 40))
			d := gen.SHA256Digest(name, data)
			switch kind {
			case 0, 1: // Get / GetFromComposite
				acc := exprs[0].accepted(name)
				if r.Bool() {
					backend.Set(d, data)
				}
				var err error
				opName := "Get"
				if kind == 0 {
					_, err = ba.Get(ctx, d).ToByteSlice(1 << 20)
				} else {
					opName = "GetFromComposite"
					cname := name
					if r.Bool() {
						// The child is addressed under another instance name
						// than the parent (the API takes two digests).
						cname = sel[r.Intn(len(sel))]
					}
					child := gen.SHA256Digest(cname, data[:len(data)/2])
					_, err = ba.GetFromComposite(ctx, d, child, slicer{}).ToByteSlice(1 << 20)
					if cname != name {
						// The object fetched from the backend is the parent:
						// its instance name must be allowed whenever the
						// backend is reached. Whether the child's name must be
						// allowed as well is left open (counted): either
						// name's refusal is an acceptable refusal.
						calls := backend.Calls()
						cacc := exprs[0].accepted(cname)
						c.Logf("GetFromComposite(parent %q, child %q) -> %v; backend calls=%d accepted=%v / %v", name, cname, err, len(calls), keys(acc), keys(cacc))
						w.Count("composite_gets_across_instance_names", 1)
						w.Distinct(fmt.Sprintf("GetFromComposite|%v|%s|%s", exprs[0], name, cname))
						switch {
						case len(calls) > 0:
							if !acc["allow"] {
								c.Violation("authorizingBlobAccess.GetFromComposite:backend-reached-when-parent-not-allowed", "GetFromComposite of a parent under %q (child under %q) reached the backend although the authorizer %v does not allow %q (accepted=%v)", name, cname, exprs[0], name, keys(acc))
							}
							if !cacc["allow"] {
								w.Count("composite_reached_with_child_name_not_allowed", 1)
							}
						case err == nil:
							c.Violation("authorizingBlobAccess.GetFromComposite:success-without-backend", "GetFromComposite succeeded without contacting the backend")
						default:
							got := classify(err)
							if len(acc) == 1 && acc["allow"] && len(cacc) == 1 && cacc["allow"] {
								c.Violation("authorizingBlobAccess.GetFromComposite:denied-although-allowed", "GetFromComposite (parent %q, child %q) failed with %v although the authorizer %v allows both names", name, cname, err, exprs[0])
							} else if got == "allow" || (!acc[got] && !cacc[got]) {
								c.Violation("authorizingBlobAccess.GetFromComposite:wrong-error", "GetFromComposite (parent %q, child %q) failed with %v (%s); acceptable per the authorizers: %v / %v", name, cname, err, got, keys(acc), keys(cacc))
							}
						}
						continue
					}
				}
				calls := backend.Calls()
				c.Logf("%s(%q) -> %v; backend calls=%d accepted=%v", opName, name, err, len(calls), keys(acc))
				checkSingle(c, w, opName, exprs[0], name, err, len(calls), acc)
			case 2: // Put
				acc := exprs[1].accepted(name)
				b, tr := model.NewTrackedCASBuffer(d, model.SourceSpec{Data: data, Chunks: r.Chunking(len(data), true)}, buffer.UserProvided)
				err := ba.Put(ctx, d, b)
				calls := backend.Calls()
				c.Logf("Put(%q) -> %v; backend calls=%d accepted=%v closes=%d", name, err, len(calls), keys(acc), tr.Closes())
				checkSingle(c, w, "Put", exprs[1], name, err, len(calls), acc)
				if len(calls) == 0 {
					w.Count("rejected_puts", 1)
					if tr.Closes() != 1 {
						c.Violation("authorizingBlobAccess.Put:rejected-upload-buffer-not-released", "Put under %q was rejected (%v) but the upload's source was closed %d times (want 1)", name, err, tr.Closes())
					}
				} else if tr.Closes() != 1 {
					c.Violation("authorizingBlobAccess.Put:forwarded-upload-buffer-release-count", "forwarded Put closed the source %d times", tr.Closes())
				}
			case 3: // FindMissing over a mixed set
				cnt := r.Range(0, 6)
				sb := digest.NewSetBuilder(0)
				involved := map[string]bool{}
				var present []digest.Digest
				for i := 0; i < cnt; i++ {
					nm := sel[r.Intn(len(sel))]
					dd := gen.SHA256Digest(nm, gen.UniqueBlob(uint64(c.Index)+7777, uint64(op*10+i), r.Range(0, 20)))
					sb.Add(dd)
					involved[nm] = true
					if r.Bool() {
						backend.Set(dd, nil)
						present = append(present, dd)
					}
				}
				set := sb.Build()
				missing, err := ba.FindMissing(ctx, set)
				calls := backend.Calls()
				// Reference.
				allAllowedCanon := true
				anyNotAllowedPossible := false
				okResults := map[string]bool{}
				for nm := range involved {
					acc := exprs[2].accepted(nm)
					if !acc["allow"] {
						allAllowedCanon = false
					}
					for o := range acc {
						if o != "allow" {
							anyNotAllowedPossible = true
							okResults[o] = true
						}
					}
				}
				c.Logf("FindMissing(%v) -> missing=%d err=%v backend calls=%d", keysB(involved), missing.Length(), err, len(calls))
				w.Distinct(fmt.Sprintf("fm|%v|%v", exprs[2], keysB(involved)))
				if len(involved) > 1 && !allAllowedCanon {
					w.Count("mixed_findmissing", 1)
				}
				if err == nil {
					if !allAllowedCanon {
						c.Violation("authorizingBlobAccess.FindMissing:granted-with-denied-name", "FindMissing succeeded although not every involved instance name is allowed: %v with %v", keysB(involved), exprs[2])
					}
					if len(calls) != 1 || calls[0].Op != "FindMissing" {
						c.Violation("authorizingBlobAccess.FindMissing:backend-calls", "allowed FindMissing made %d backend calls", len(calls))
					} else {
						// result must be the backend's
						want := digest.NewSetBuilder(0)
						for _, dd := range set.Items() {
							if !backend.Has(dd) {
								want.Add(dd)
							}
						}
						if !sameSet(want.Build(), missing) {
							c.Violation("authorizingBlobAccess.FindMissing:result-differs", "FindMissing result differs from the backend's")
						}
					}
					w.Count("allowed_ops", 1)
				} else {
					if len(calls) != 0 {
						c.Violation("authorizingBlobAccess.FindMissing:backend-contacted-when-denied", "FindMissing failed with %v but the backend received %v", err, calls)
					}
					if !anyNotAllowedPossible {
						c.Violation("authorizingBlobAccess.FindMissing:denied-although-all-allowed", "FindMissing failed with %v although every name is allowed", err)
					} else if !okResults[classify(err)] {
						c.Violation("authorizingBlobAccess.FindMissing:wrong-error", "FindMissing failed with %v (%s), not with one of the authorizer's errors %v", err, classify(err), keys(okResults))
					}
					if missing.Length() != 0 {
						c.Violation("authorizingBlobAccess.FindMissing:result-with-error", "non-empty result with an error")
					}
					w.Count("denied_ops", 1)
				}
			}
		}
	})
}

func checkSingle(c *run.Case, w *run.Worker, op string, e *node, name string, err error, backendCalls int, acc map[string]bool) {
	w.Distinct(fmt.Sprintf("%s|%v|%s", op, e, name))
	reached := backendCalls > 0
	if reached {
		w.Count("allowed_ops", 1)
		if !acc["allow"] {
			c.Violation("authorizingBlobAccess."+op+":backend-reached-when-not-allowed", "%s under %q reached the backend although the authorizer %v does not allow it (accepted=%v)", op, name, e, keys(acc))
		}
		if backendCalls != 1 {
			c.Violation("authorizingBlobAccess."+op+":backend-calls", "%d backend calls for one operation", backendCalls)
		}
		return
	}
	w.Count("denied_ops", 1)
	if err == nil {
		c.Violation("authorizingBlobAccess."+op+":success-without-backend", "%s succeeded without contacting the backend", op)
		return
	}
	got := classify(err)
	if len(acc) == 1 && acc["allow"] {
		c.Violation("authorizingBlobAccess."+op+":denied-although-allowed", "%s under %q failed with %v although the authorizer %v allows it", op, name, err, e)
		return
	}
	if !acc[got] || got == "allow" {
		c.Violation("authorizingBlobAccess."+op+":wrong-error", "%s under %q failed with %v (%s); acceptable per the authorizers: %v", op, name, err, got, keys(acc))
	}
}

func keys(m map[string]bool) []string {
	var k []string
	for x := range m {
		k = append(k, x)
	}
	return k
}

func keysB(m map[string]bool) []string { return keys(m) }

func sameSet(a, b digest.Set) bool {
	if a.Length() != b.Length() {
		return false
	}
	ai, bi := a.Items(), b.Items()
	for i := range ai {
		if ai[i] != bi[i] {
			return false
		}
	}
	return true
}
