// storaged is a minimal storage daemon for the verification harness: it builds
// a CAS through the REAL configuration path
// (blobstore/configuration.NewBlobAccessFromConfiguration inside
// program.RunLocal, i.e. real files, memory-mapped block devices, the real
// directory-backed state store, the system clock and the goroutines that
// new_blob_access.go starts) and executes a line-oriented command script from
// stdin, acknowledging every command with exactly one write to stdout.
//
//	PUT <id> <size>   -> "ACK PUT <id> OK" | "ACK PUT <id> ERR <code>"
//	GET <id> <size>   -> "ACK GET <id> OK|WRONG|NOTFOUND|ERR <code>"
//	QUIT              -> graceful termination (context cancelled, RunLocal returns), "BYE"
package main

import (
	"bufio"
	"context"
	"fmt"
	"os"
	"strings"

	"github.com/buildbarn/bb-storage/pkg/blobstore/buffer"
	bc "github.com/buildbarn/bb-storage/pkg/blobstore/configuration"
	"github.com/buildbarn/bb-storage/pkg/program"
	pb "github.com/buildbarn/bb-storage/pkg/proto/configuration/blobstore"
	"google.golang.org/grpc/codes"
	"google.golang.org/grpc/status"
	"google.golang.org/protobuf/encoding/protojson"

	"verif/lib/gen"
)

func say(format string, a ...any) {
	os.Stdout.Write([]byte(fmt.Sprintf(format, a...) + "\n"))
}

func main() {
	cfgJSON, err := os.ReadFile(os.Args[1])
	if err != nil {
		say("FATAL %v", err)
		os.Exit(2)
	}
	var c pb.BlobAccessConfiguration
	if err := protojson.Unmarshal(cfgJSON, &c); err != nil {
		say("FATAL %v", err)
		os.Exit(2)
	}
	ctx, cancel := context.WithCancel(context.Background())
	bg := context.Background()
	err = program.RunLocal(ctx, func(ctx context.Context, siblings, deps program.Group) error {
		info, err := bc.NewBlobAccessFromConfiguration(deps, &c, bc.NewCASBlobAccessCreator(nil, 1<<20, nil))
		if err != nil {
			return err
		}
		ba := info.BlobAccess
		say("READY")
		in := bufio.NewScanner(os.Stdin)
		for in.Scan() {
			f := strings.Fields(in.Text())
			if len(f) == 0 {
				continue
			}
			switch f[0] {
			case "QUIT":
				cancel()
				return nil
			case "PUT", "GET":
				var id uint64
				var size int
				fmt.Sscan(f[1], &id)
				fmt.Sscan(f[2], &size)
				data := gen.UniqueBlob(0xda, id, size)
				d := gen.SHA256Digest("", data)
				if f[0] == "PUT" {
					if err := ba.Put(bg, d, buffer.NewCASBufferFromByteSlice(d, data, buffer.UserProvided)); err != nil {
						say("ACK PUT %d ERR %s", id, status.Code(err))
					} else {
						say("ACK PUT %d OK", id)
					}
				} else {
					got, err := ba.Get(bg, d).ToByteSlice(1 << 24)
					switch {
					case err == nil && string(got) == string(data):
						say("ACK GET %d OK", id)
					case err == nil:
						say("ACK GET %d WRONG", id)
					case status.Code(err) == codes.NotFound:
						say("ACK GET %d NOTFOUND", id)
					default:
						say("ACK GET %d ERR %s", id, status.Code(err))
					}
				}
			}
		}
		cancel()
		return nil
	})
	if err != nil {
		say("FATAL %v", err)
		os.Exit(3)
	}
	say("BYE")
}
