// C03 — acknowledged uploads survive graceful shutdown and committed epochs.
//
// Engine: persistent local store on journalled simulated media (lib/asm); every
// syncer activity is started by the harness and can be parked at the
// harness-owned callbacks.
//
// Group "shutdown": a workload, then a graceful shutdown (context cancelled,
// the final ProcessBlockPut round) that is parked before its first sync and
// again before its second (final) sync while uploads complete, are in flight,
// or start. Oracle: Put results (nil only before the final sync began;
// UNAVAILABLE afterwards); expected-present = acknowledged uploads that the
// live (shut-down) instance still serves, plus acknowledged uploads whose
// block was not popped; the store restarted on the intact medium must serve
// each of them identically. A second restart on the medium with every
// unsynced data write dropped (power loss after the shutdown) is checked under
// its own signature.
//
// Group "commit": at a quiescent point the harness reads everything (live
// set), runs one complete commit (data sync + state write) with nothing else
// happening, "kills the process" (complete medium, nothing lost) and restarts:
// every member of the live set must be served identically.
//
//verif:race
package main

import (
	"context"
	"fmt"
	"os"
	"os/exec"
	"path/filepath"
	"runtime"
	"strings"
	"time"

	"github.com/buildbarn/bb-storage/pkg/digest"
	"google.golang.org/grpc/codes"
	"google.golang.org/grpc/status"

	"verif/lib/asm"
	"verif/lib/daemon"
	"verif/lib/gen"
	"verif/lib/run"
	"verif/lib/sim"
)

func main() {
	run.Main(run.Spec{
		Property: "C03",
		Level:    "exploration",
		Rule: "case = persistent configuration x workload x (shutdown scenario: the shutdown round parked before its first and before its final sync, with uploads completed / in flight / started in each window) or (commit scenario: live set read, one undisturbed commit, process crash, restart); " +
			"distinct = hash of (configuration, scenario shape: number of uploads per window, in-flight flags, rotations); non-trivial = at least one acknowledged upload in a shutdown window or a live set of >= 3 objects spanning >= 2 blocks",
		Workers:     12,
		CaseTimeout: 120 * time.Second,
		Floors: map[string]int64{"shutdown_scenarios": 100, "acked_in_window_before_final_sync": 150, "refused_after_final_sync_began": 150, "inflight_finalized_after_close": 40, "expected_present_checked": 1500,
			"commit_scenarios": 100, "commit_live_objects_checked": 500, "power_loss_restarts": 100,
			"daemon_graceful_restarts": 10, "daemon_restart_objects_checked": 20, "trace_state_versions": 10, "trace_declared_valid_writes_checked": 20, "trace_blocks_fsyncs": 10},
		Assumptions: []string{"graceful shutdown loses nothing that was written (intact medium); the power-loss-after-shutdown variant drops every data write not covered by a completed sync and keeps index writes", "a process crash loses nothing that was written"},
		Race:        true,
		Body:        body,
	})
}

type obj struct {
	d     digest.Digest
	data  []byte
	acked bool
}

type env struct {
	c    *run.Case
	w    *run.Worker
	r    *gen.Rng
	cfg  asm.Config
	s    *asm.Store
	ctx  context.Context
	id   uint64
	objs []*obj
}

func genCfg(r *gen.Rng) asm.Config {
	cfg := asm.GenConfig(r, true)
	cfg.InMemoryBlocks, cfg.InMemoryIndex = false, false
	if cfg.Sector == 1 || cfg.Sector == 512 {
		cfg.Sector = 16
	}
	cfg.BlockSectors = int64(r.Range(4, 16))
	cfg.Records = r.Range(300, 700)
	cfg.GetAttempts, cfg.PutAttempts = 16, 64
	cfg.Factory = "raw"
	cfg.Label = "c03"
	// The retry interval outlasts the epoch interval (production: 10 s vs a
	// configurable interval), so that a complete commit fits into one retry
	// sleep of the other state writer.
	cfg.MinEpoch, cfg.Retry = 3*time.Second, 7*time.Second
	return cfg
}

func body(w *run.Worker) {
	ctx := context.Background()
	w.Cases("shutdown", w.N(240, 6000), func(c *run.Case) { scenario(ctx, w, c, true) })
	w.Cases("commit", w.N(240, 6000), func(c *run.Case) { scenario(ctx, w, c, false) })
	w.Cases("daemon", w.N(12, 240), func(c *run.Case) { daemonCase(w, c) })
}

// daemonCase exercises the REAL configuration path (new_blob_access.go, real
// files, memory-mapped block devices, LocalDirectory, system clock) through
// the cmd/storaged child process: graceful restarts must keep every object
// the daemon served right before it was asked to quit (old_blocks = 0, so
// reads have no side effects and the oracle is exact); after a SIGKILL
// nothing may be served wrong; under strace the syscall log must satisfy the
// ordering specification of lib/daemon.CheckOrdering.
func daemonCase(w *run.Worker, c *run.Case) {
	r := c.Rng
	g := daemon.Geometry{Old: 0, Cur: r.Range(1, 3), New: r.Range(1, 3), Spare: r.Range(1, 2), BlockSectors: r.Range(2, 4), Records: r.Range(400, 900), EpochMillis: r.Pick(5, 20)}
	dir, err := os.MkdirTemp(filepath.Join(os.Getenv("VERIF_DIR"), "work"), "daemon-")
	if err != nil {
		dir, err = os.MkdirTemp("", "daemon-")
		if err != nil {
			w.Inconclusive("cannot create a scratch directory for the daemon engine")
			return
		}
	}
	defer os.RemoveAll(dir)
	cfgPath := daemon.Config(dir, g)
	trace := c.Index%2 == 0
	if _, err := exec.LookPath("strace"); err != nil {
		trace = false
	}
	c.Desc("daemon %+v trace=%v", g, trace)
	if c.Index == 0 {
		w.Sample(map[string]any{"scenario": "daemon", "geometry": fmt.Sprintf("%+v", g), "strace": trace})
	}
	type ob struct {
		id   uint64
		size int
	}
	var objs []ob
	served := map[uint64]bool{}
	committed := map[uint64]bool{}
	next := uint64(c.Index)<<32 | uint64(w.Index)<<48
	cycles := r.Range(2, 4)
	for cyc := 0; cyc < cycles; cyc++ {
		p, err := daemon.Start(dir, cfgPath, trace, cyc)
		if err != nil {
			w.Inconclusive("daemon engine: " + err.Error())
			return
		}
		w.Count("daemon_cycles", 1)
		// What the previous incarnation served must still be served.
		for _, o := range objs {
			ack, err := p.Cmd(fmt.Sprintf("GET %d %d", o.id, o.size))
			if err != nil {
				w.Inconclusive("daemon engine: " + err.Error())
				p.Kill()
				return
			}
			switch {
			case strings.HasSuffix(ack, " WRONG"):
				c.Violation("daemon.Get:wrong-bytes-after-restart", "cycle %d: %s", cyc, ack)
			case committed[o.id] && !strings.HasSuffix(ack, " OK"):
				c.Violation("daemon:committed-object-lost-after-kill", "cycle %d: an object that was acknowledged before an observed commit of the persistent state and was served right before SIGKILL is not served after the restart: %s (geometry %+v)", cyc, ack, g)
			case served[o.id] && !strings.HasSuffix(ack, " OK"):
				c.Violation("daemon:object-lost-across-graceful-restart", "cycle %d: an object that the daemon served right before its graceful shutdown is not served after the restart with the same configuration: %s (geometry %+v)", cyc, ack, g)
			}
			if served[o.id] {
				w.Count("daemon_restart_objects_checked", 1)
			}
			if committed[o.id] {
				w.Count("daemon_kill_objects_checked", 1)
			}
		}
		// New uploads, with pauses so that epochs get committed.
		block := g.BlockSectors * 4096
		for i := r.Range(4, 14); i > 0; i-- {
			next++
			o := ob{next, r.Range(1, block/2)}
			ack, err := p.Cmd(fmt.Sprintf("PUT %d %d", o.id, o.size))
			if err != nil {
				w.Inconclusive("daemon engine: " + err.Error())
				p.Kill()
				return
			}
			if strings.HasSuffix(ack, " OK") {
				objs = append(objs, o)
			}
			if r.Chance(1, 3) {
				time.Sleep(time.Duration(g.EpochMillis*2) * time.Millisecond)
			}
		}
		kill := cyc < cycles-1 && r.Chance(1, 3)
		served = map[uint64]bool{}
		committed = map[uint64]bool{}
		if !kill {
			for _, o := range objs {
				ack, _ := p.Cmd(fmt.Sprintf("GET %d %d", o.id, o.size))
				if strings.HasSuffix(ack, " OK") {
					served[o.id] = true
				} else if strings.HasSuffix(ack, " WRONG") {
					c.Violation("daemon.Get:wrong-bytes", "%s", ack)
				}
			}
			if r.Bool() {
				// Shutdown requested right behind a burst of acknowledged
				// uploads (a sync round may be in flight): "an upload
				// acknowledged before a graceful shutdown is readable after
				// the restart". The burst is at most half a block, so its
				// objects sit in the two newest blocks and cannot have been
				// rotated out; what the burst may have rotated out of the
				// oldest block is not expected any more.
				served = map[uint64]bool{}
				budget := block / 2
				for k := r.Range(2, 4); k > 0 && budget > 0; k-- {
					next++
					o := ob{next, r.Range(1, block/8)}
					if o.size > budget {
						break
					}
					budget -= o.size
					if ack, err := p.Cmd(fmt.Sprintf("PUT %d %d", o.id, o.size)); err == nil && strings.HasSuffix(ack, " OK") {
						objs = append(objs, o)
						served[o.id] = true
					}
				}
				w.Count("daemon_quits_right_behind_uploads", 1)
			}
			if err := p.Quit(); err != nil {
				c.Violation("daemon:graceful-shutdown-failed", "the daemon did not terminate gracefully: %v", err)
				return
			}
			w.Count("daemon_graceful_restarts", 1)
		} else {
			// Clause K: everything acknowledged before a commit that the
			// harness OBSERVES (in the state file) and that is still served
			// right before the process is killed must be served after the
			// restart. The next epoch id in the state file only grows when a
			// put round (data sync + state write) completes; rounds are
			// sequential and a round covers everything written before it
			// started. Seeing the id grow twice after the acknowledgements
			// therefore proves a round that started after them. (The amount
			// it grows by says nothing: an epoch is also opened per block.)
			// Polling is bounded; not observing this gives no verdict.
			acked := len(objs)
			n0, ok := daemon.NextEpochID(dir)
			last, increases := n0, 0
			observed := false
			for i := 0; i < 60 && !observed; i++ {
				next++
				o := ob{next, r.Range(1, 16)}
				if ack, err := p.Cmd(fmt.Sprintf("PUT %d %d", o.id, o.size)); err == nil && strings.HasSuffix(ack, " OK") {
					objs = append(objs, o)
				}
				time.Sleep(time.Duration(g.EpochMillis*2) * time.Millisecond)
				n, ok2 := daemon.NextEpochID(dir)
				if !ok {
					// no state file yet when the uploads were acknowledged: start counting from the first one seen
					if ok2 {
						n0, ok = n, true
						last = n
						acked = len(objs)
					}
					continue
				}
				// Two successive increases seen by the poll: the first state
				// was written after the acknowledgements (its round may have
				// started before them), the second comes from a later round,
				// which therefore started after them and covers them.
				if ok2 && n > last {
					last = n
					increases++
				}
				observed = increases >= 2
			}
			if observed {
				w.Count("daemon_kills_after_observed_commit", 1)
				for _, o := range objs[:acked] {
					ack, _ := p.Cmd(fmt.Sprintf("GET %d %d", o.id, o.size))
					if strings.HasSuffix(ack, " OK") {
						committed[o.id] = true
					} else if strings.HasSuffix(ack, " WRONG") {
						c.Violation("daemon.Get:wrong-bytes", "%s", ack)
					}
				}
			}
			p.Kill()
			w.Count("daemon_kills", 1)
		}
		if p.Trace != "" {
			calls, err := daemon.ParseTrace(p.Trace)
			if err != nil {
				w.Inconclusive("cannot parse the strace log: " + err.Error())
				continue
			}
			viol, cnt := daemon.CheckOrdering(calls, dir)
			for k, v := range cnt {
				w.Count("trace_"+k, v)
			}
			for sig, msg := range viol {
				c.Violation(sig, "%s", msg)
			}
			if cnt["state_versions"] > 0 && cnt["blocks_pwrites"] > 0 {
				w.Distinct(fmt.Sprintf("daemon|%+v|%d|%d", g, cnt["state_versions"], cnt["blocks_pwrites"]))
			}
		}
	}
}

func (e *env) newObj(size int) *obj {
	e.id++
	data := gen.UniqueBlob(uint64(e.c.Index)<<20|uint64(e.w.Index)<<44, e.id, size)
	o := &obj{d: gen.SHA256Digest("", data), data: data}
	e.objs = append(e.objs, o)
	return o
}

func (e *env) put(o *obj, yield func()) error {
	u := &asm.Upload{Data: o.data, Chunks: e.r.Chunking(len(o.data), false), Yield: yield}
	if yield != nil {
		u.Chunks = []int{1}
	}
	err := e.s.BA.Put(e.ctx, o.d, u.CASBuffer(o.d))
	if err == nil {
		o.acked = true
	}
	return err
}

func (e *env) workload(n int) {
	block := int(e.cfg.BlockBytes())
	for i := 0; i < n; i++ {
		switch k := e.r.Intn(10); {
		case k < 6:
			e.put(e.newObj(e.r.Range(1, block/2)), nil)
		case k < 7 && len(e.objs) > 0:
			asm.GetBytes(e.ctx, e.s.BA, e.objs[e.r.Intn(len(e.objs))].d)
		case k < 8:
			e.put(e.newObj(e.r.Range(block/2, block)), nil)
		case k < 9:
			e.s.PumpRelease()
		default:
			e.s.SyncNow()
		}
	}
}

// failedReleaseOverlappedByCommit: the state write of the block-release
// goroutine fails once (transient); while that goroutine sleeps for its retry
// interval, uploads are acknowledged and the put goroutine performs one
// complete commit; then the retry runs. What the retry writes must not be
// older than what the commit wrote.
func (e *env) failedReleaseOverlappedByCommit() {
	s := e.s
	block := int(e.cfg.BlockBytes())
	for i := 0; i < 3*e.cfg.BlockCount() && !s.ReleasePending(); i++ {
		e.put(e.newObj(e.r.Range(block/2, block)), nil)
	}
	if !s.ReleasePending() {
		return
	}
	if e.r.Bool() {
		s.State.SetFail(1, status.Error(codes.Internal, "injected state write failure"))
	} else {
		kind := []string{"create", "fwrite", "fsync", "close", "rename", "dirsync"}[e.r.Intn(6)]
		s.M.Dir.AddFaultNext(kind, 1, fmt.Errorf("injected %s failure", kind))
	}
	rel := s.StartReleaseRound()
	sleeping := false
	for spin := 0; spin < 2000000 && !rel.Finished(); spin++ {
		if _, ok := s.M.Clock.NextFire(); ok {
			sleeping = true
			break
		}
		runtime.Gosched()
	}
	if !sleeping {
		rel.WaitRelease()
		return
	}
	run.Settle(10 * time.Second)
	for i := e.r.Range(1, 3); i > 0; i-- {
		e.put(e.newObj(e.r.Range(1, block/3)), nil)
	}
	if s.PutPending() {
		t := s.StartPutRound(e.ctx)
		run.Settle(10 * time.Second)
		s.M.Clock.Advance(e.cfg.MinEpoch) // the epoch timer, not the retry timer
		for spin := 0; spin < 200 && !t.Finished(); spin++ {
			run.Settle(10 * time.Second)
			if _, ok := s.M.Clock.NextFire(); !ok {
				continue
			}
			time.Sleep(50 * time.Microsecond)
		}
		if t.Finished() {
			e.w.Count("commits_during_a_state_write_retry_sleep", 1)
		} else {
			t.Wait()
		}
	}
	rel.WaitRelease()
	s.M.Dir.ClearFaults()
}

func okRefusal(err error) bool {
	switch status.Code(err) {
	case codes.Unavailable, codes.InvalidArgument:
		return true
	case codes.Internal:
		return strings.Contains(err.Error(), "has already been released")
	}
	return false
}

func scenario(ctx context.Context, w *run.Worker, c *run.Case, shutdown bool) {
	r := c.Rng
	cfg := genCfg(r)
	s, err := asm.Build(cfg, asm.NewMedia(cfg))
	if err != nil {
		panic(err)
	}
	e := &env{c: c, w: w, r: r, cfg: cfg, s: s, ctx: ctx}
	c.Desc("shutdown=%v %v", shutdown, cfg)
	if c.Index == 0 {
		w.Sample(map[string]any{"scenario": map[bool]string{true: "shutdown", false: "commit"}[shutdown], "config": cfg.String()})
	}
	e.workload(r.Range(5, 40))
	if r.Chance(1, 3) {
		e.failedReleaseOverlappedByCommit()
	}
	if shutdown {
		e.shutdownScenario()
	} else {
		e.commitScenario()
	}
}

// restartOn builds a fresh instance on the given images.
func (e *env) restartOn(bi, ii []byte, di map[string][]byte) *asm.Store {
	s2, err := asm.Build(e.cfg, asm.NewMediaFrom(e.cfg, bi, ii, di))
	if err != nil {
		e.c.Violation("persistentStateStore:restart-failed", "the store cannot be restarted: %v", err)
		return nil
	}
	return s2
}

func (e *env) commitScenario() {
	s := e.s
	e.w.Count("commit_scenarios", 1)
	s.PumpRelease()
	// Live set: what the instance serves right now (reads may refresh; that
	// is before the commit starts).
	// Reads refresh objects, which allocates and may rotate others out, so
	// the pass is repeated until one pass had no side effect on the index.
	var live []*obj
	for pass := 0; pass < 8; pass++ {
		live = live[:0]
		puts0 := s.KLM.Puts.Load()
		for _, o := range e.objs {
			if got, err := asm.GetBytes(e.ctx, s.BA, o.d); err == nil && string(got) == string(o.data) {
				live = append(live, o)
			}
			s.PumpRelease()
		}
		if s.KLM.Puts.Load() == puts0 {
			break
		}
		if pass == 7 {
			return // no stable live set (tiny store): nothing to assert
		}
	}
	if !s.PutPending() {
		// nothing to commit: everything live is already committed
	} else {
		s.StartPutRound(e.ctx).Wait() // one complete, undisturbed commit
	}
	if s.PutPending() {
		e.c.Violation("periodicSyncer:commit-left-unsynchronised-data", "an undisturbed commit round finished but the block list still signals unsynchronised data")
	}
	// Process crash: nothing written is lost.
	j := s.M.J
	k := j.Len()
	bi := sim.ImageAt(j, "blocks", s.M.BlocksInit, k, true, e.cfg.Sector, sim.KeepAll)
	ii := sim.ImageAt(j, "index", s.M.IndexInit, k, false, 0, sim.KeepAll)
	di := sim.DirImageAt(j, s.M.DirInit, k, sim.DirChoice{VolatilePrefix: 1 << 20, UnsyncedData: 1})
	blocksSpanned := map[int64]bool{}
	for _, o := range live {
		s2 := e.restartOn(bi, ii, di) // fresh restart per object: reads refresh and may rotate others out
		if s2 == nil {
			return
		}
		if l, ok := s.KLM.Lookup(s.Key(o.d)); ok {
			blocksSpanned[l.AbsBlock] = true
		}
		got, err := getRetrying(e.ctx, s2, o.d)
		e.w.Count("commit_live_objects_checked", 1)
		if err == errUndecided {
			e.w.Count("restart_reads_refused_no_free_block", 1)
			continue
		}
		if err != nil {
			e.c.Violation("localstore:committed-object-lost-after-process-crash", "an object that was served before an undisturbed, completed commit is not readable after a process crash and restart: %v (restored blocks=%d of %d in the state file)", err, s2.Initial, stateBlocks(s))
			return
		} else if string(got) != string(o.data) {
			e.c.Violation("localstore.Get:wrong-bytes-after-crash", "a committed object reads back with wrong bytes after a process crash")
		}
	}
	if len(live) >= 3 && len(blocksSpanned) >= 2 {
		e.w.Distinct(fmt.Sprintf("commit|%v|%d|%d", e.cfg, len(live), len(blocksSpanned)))
	}
}

func stateBlocks(s *asm.Store) int {
	w := s.State.Written()
	if len(w) == 0 {
		return 0
	}
	return len(w[len(w)-1].Blocks)
}

type inflight struct {
	o    *obj
	gate chan struct{}
	done chan error
}

func (e *env) startInflight() *inflight {
	block := int(e.cfg.BlockBytes())
	f := &inflight{o: e.newObj(e.r.Range(2, block/2)), gate: make(chan struct{}), done: make(chan error, 1)}
	arrived := make(chan struct{}, 1)
	n := 0
	y := func() {
		n++
		if n == 2 {
			arrived <- struct{}{}
			<-f.gate
		}
	}
	go func() { f.done <- e.put(f.o, y) }()
	select {
	case <-arrived:
		return f
	case err := <-f.done:
		e.c.Logf("in-flight upload ended before its gate: %v", err)
		f.done <- err
		close(f.gate)
		return f
	}
}

func (f *inflight) finish() error {
	select {
	case <-f.gate:
	default:
		close(f.gate)
	}
	return <-f.done
}

func (e *env) shutdownScenario() {
	s, r := e.s, e.r
	block := int(e.cfg.BlockBytes())
	e.w.Count("shutdown_scenarios", 1)
	var shape strings.Builder

	// Uploads in flight when the shutdown is requested.
	var early []*inflight
	for i := r.Intn(3); i > 0; i-- {
		early = append(early, e.startInflight())
	}
	fmt.Fprintf(&shape, "e%d", len(early))
	ctx, cancel := context.WithCancel(context.Background())
	cancel() // shutdown requested
	s.Gate.Close("datasync")
	round := s.StartPutLoop(ctx)
	isClosed := func() bool {
		s.Lock.RLock()
		defer s.Lock.RUnlock()
		return s.PBL.VerifSnapshot().ClosedForWriting
	}
	nontrivial := false
	var mid []*inflight
	n1 := 0
	window1Done := false
	for parks := 0; ; parks++ {
		if round.RunUntilParked("datasync") == "" {
			e.c.Violation("periodicSyncer.ProcessBlockPut:shutdown-without-final-sync", "the put loop returned after the shutdown request without ever starting a final sync that closes the store for writing (%d data syncs were started)", parks)
			return
		}
		if isClosed() {
			break
		}
		if parks > 6 {
			e.c.Violation("periodicSyncer.ProcessBlockPut:shutdown-never-reaches-final-sync", "after the shutdown request %d data syncs were started, none of them final", parks)
			s.Gate.Open("datasync")
			return
		}
		if !window1Done {
			window1Done = true
			// Window 1: a sync of the shutdown sequence has been announced but
			// the final sync has not begun. Uploads are still accepted and
			// must survive.
			n1 = r.Intn(4)
			for i := 0; i < n1; i++ {
				o := e.newObj(r.Range(1, block/2))
				if err := e.put(o, nil); err == nil {
					e.w.Count("acked_in_window_before_final_sync", 1)
					nontrivial = true
				} else if !okRefusal(err) {
					e.c.Violation("localstore.Put:unexpected-error", "upload before the final sync failed with %v", err)
				}
			}
			for _, f := range early {
				if r.Bool() {
					if err := f.finish(); err == nil {
						e.w.Count("acked_in_window_before_final_sync", 1)
						nontrivial = true
					}
				}
			}
			for i := r.Intn(3); i > 0; i-- {
				mid = append(mid, e.startInflight())
			}
		}
		s.Gate.ReleaseOne("datasync")
	}
	fmt.Fprintf(&shape, "w%dm%d", n1, len(mid))
	// Window 2: the final synchronisation has begun. Nothing may be
	// acknowledged any more.
	n2 := r.Range(1, 3)
	for i := 0; i < n2; i++ {
		o := e.newObj(r.Range(1, block))
		err := e.put(o, nil)
		if err == nil {
			e.c.Violation("localstore.Put:acknowledged-after-final-sync-began", "an upload that started after the final synchronisation had begun was acknowledged")
		} else {
			e.w.Count("refused_after_final_sync_began", 1)
			if status.Code(err) != codes.Unavailable {
				e.c.Violation("localstore.Put:wrong-refusal-code-during-shutdown", "an upload during the final sync was refused with %v; UNAVAILABLE is required", err)
			}
		}
	}
	for _, f := range append(early, mid...) {
		select {
		case <-f.gate:
			continue // already finished
		default:
		}
		err := f.finish()
		e.w.Count("inflight_finalized_after_close", 1)
		if err == nil {
			e.c.Violation("localstore.Put:acknowledged-after-final-sync-began", "an upload that was in flight when the final synchronisation began was acknowledged afterwards")
		} else if status.Code(err) != codes.Unavailable && !okRefusal(err) {
			e.c.Violation("localstore.Put:wrong-refusal-code-during-shutdown", "an in-flight upload finalised during shutdown failed with %v", err)
		}
	}
	s.Gate.Open("datasync")
	round.Wait()
	fmt.Fprintf(&shape, "f%d", n2)
	// After shutdown.
	if err := e.put(e.newObj(r.Range(1, block/2)), nil); err == nil {
		e.c.Violation("localstore.Put:acknowledged-after-shutdown", "an upload after the shutdown completed was acknowledged")
	} else if status.Code(err) != codes.Unavailable {
		e.c.Violation("localstore.Put:wrong-refusal-code-during-shutdown", "an upload after shutdown was refused with %v", err)
	}

	// Expected-present set.
	pops := s.BL.Pops.Load()
	lbm := s.LBM.VerifSnapshot()
	type exp struct {
		o   *obj
		why string
	}
	var expected []exp
	for _, o := range e.objs {
		if !o.acked {
			continue
		}
		got, err := asm.GetBytes(e.ctx, s.BA, o.d)
		if err == nil {
			if string(got) != string(o.data) {
				e.c.Violation("localstore.Get:wrong-bytes", "the shut-down instance returns wrong bytes")
			}
			expected = append(expected, exp{o, "served by the live instance"})
			continue
		}
		if l, ok := s.KLM.Lookup(s.Key(o.d)); ok && l.AbsBlock >= pops && uint64(l.AbsBlock) >= lbm.TotalBlocksToBeReleased {
			// acknowledged, block not rotated away; the live read fails only
			// because a refresh is refused after shutdown
			expected = append(expected, exp{o, fmt.Sprintf("acknowledged, block %d not popped (live read: %v)", l.AbsBlock, err)})
		}
	}
	j := s.M.J
	k := j.Len()
	check := func(sig string, bi, ii []byte, di map[string][]byte) {
		for _, x := range expected {
			// A fresh restart per object: reading one object refreshes it,
			// which can legitimately rotate another one out.
			s2 := e.restartOn(bi, ii, di)
			if s2 == nil {
				return
			}
			got, err := getRetrying(e.ctx, s2, x.o.d)
			e.w.Count("expected_present_checked", 1)
			if err == errUndecided {
				e.w.Count("restart_reads_refused_no_free_block", 1)
				continue
			}
			if err != nil {
				e.c.Violation(sig, "an acknowledged upload (%s) is not readable after the restart: %v; state file lists %d blocks, %d restored, old/cur/new=%d/%d/%d", x.why, err, stateBlocks(s), s2.Initial, e.cfg.Old, e.cfg.Cur, e.cfg.New)
				return
			} else if string(got) != string(x.o.data) {
				e.c.Violation("localstore.Get:wrong-bytes-after-restart", "an acknowledged upload reads back with wrong bytes after a graceful restart")
			}
		}
	}
	// Further uploads accepted by the restarted store must not overwrite what
	// survived the shutdown (write cursors restored too low would do that).
	checkReuse := func(bi, ii []byte, di map[string][]byte) {
		s3 := e.restartOn(bi, ii, di)
		if s3 == nil {
			return
		}
		y := &env{c: e.c, w: e.w, r: e.r, cfg: e.cfg, s: s3, ctx: e.ctx, id: e.id + 1<<40}
		for i := e.r.Range(2, 2*e.cfg.BlockCount()); i > 0; i-- {
			y.put(y.newObj(e.r.Range(1, block/2)), nil)
			s3.PumpRelease()
		}
		for _, x := range expected {
			got, err := asm.GetBytes(e.ctx, s3.BA, x.o.d)
			s3.PumpRelease()
			e.w.Count("post_restart_reuse_checks", 1)
			if err == nil && string(got) != string(x.o.data) {
				e.c.Violation("localstore.Get:acknowledged-upload-overwritten-after-restart", "an acknowledged upload that survived the graceful shutdown returns different bytes after further uploads into the restarted store")
				return
			} else if status.Code(err) == codes.Internal && !strings.Contains(err.Error(), "already been released") {
				e.c.Violation("localstore.Get:acknowledged-upload-overwritten-after-restart", "an acknowledged upload that survived the graceful shutdown fails with %v after further uploads into the restarted store", err)
				return
			}
		}
	}
	checkReuse(sim.ImageAt(j, "blocks", s.M.BlocksInit, k, true, e.cfg.Sector, sim.KeepAll),
		sim.ImageAt(j, "index", s.M.IndexInit, k, false, 0, sim.KeepAll),
		sim.DirImageAt(j, s.M.DirInit, k, sim.DirChoice{VolatilePrefix: 1 << 20, UnsyncedData: 1}))
	// Intact medium: a graceful exit loses nothing.
	check("localstore:acknowledged-upload-lost-after-graceful-shutdown",
		sim.ImageAt(j, "blocks", s.M.BlocksInit, k, true, e.cfg.Sector, sim.KeepAll),
		sim.ImageAt(j, "index", s.M.IndexInit, k, false, 0, sim.KeepAll),
		sim.DirImageAt(j, s.M.DirInit, k, sim.DirChoice{VolatilePrefix: 1 << 20, UnsyncedData: 1}))
	// Power loss after the shutdown completed: only synced data survives.
	e.w.Count("power_loss_restarts", 1)
	check("localstore:acknowledged-upload-lost-after-shutdown-and-power-loss",
		sim.ImageAt(j, "blocks", s.M.BlocksInit, k, true, e.cfg.Sector, sim.KeepNone),
		sim.ImageAt(j, "index", s.M.IndexInit, k, false, 0, sim.KeepAll),
		sim.DirImageAt(j, s.M.DirInit, k, sim.DirChoice{VolatilePrefix: 0, UnsyncedData: 0}))
	if nontrivial {
		e.w.Distinct(fmt.Sprintf("shutdown|%v|%s|pops=%d", e.cfg, shape.String(), pops))
	}
}

// getRetrying reads an object once. UNAVAILABLE means the refresh of an
// object in an old block found no free block (popped blocks still await their
// state write, and the restored "new" blocks are full): the attempt may itself
// have rotated the object's block out, so nothing can be concluded for this
// object; it is reported as errUndecided.
func getRetrying(ctx context.Context, s *asm.Store, d digest.Digest) ([]byte, error) {
	got, err := asm.GetBytes(ctx, s.BA, d)
	if status.Code(err) == codes.Unavailable {
		return nil, errUndecided
	}
	return got, err
}

var errUndecided = status.Error(codes.Unavailable, "undecided")
