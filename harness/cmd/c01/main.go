//verif:race
// C01 — the local store returns exactly what was uploaded, or nothing.
//
// Engine: the production local-store object graph assembled around simulated
// media (lib/asm), with the RAW read-buffer factory (bytes really on the
// medium are returned, no checksum that would hide a wrong-offset bug) or the
// CAS factory (error codes, integrity callback). Oracle: model of successful
// uploads per key; unique contents make every read identify the upload it saw.
package main

import (
	"context"
	"fmt"
	"runtime"
	"strings"
	"sync"
	"sync/atomic"

	"github.com/buildbarn/bb-storage/pkg/digest"
	"google.golang.org/grpc/codes"
	"google.golang.org/grpc/status"

	remoteexecution "github.com/bazelbuild/remote-apis/build/bazel/remote/execution/v2"

	"verif/lib/asm"
	"verif/lib/gen"
	"verif/lib/run"
)

func main() {
	run.Main(run.Spec{
		Property: "C01",
		Level:    "exploration",
		Rule: "case = generated store configuration (sector/block size, old/current/new/spare, policy, index backend and size, flat/hierarchical, raw/CAS factory) x generated history of Put (good, size mismatch, hash mismatch, source error, arbitrary chunkings)/Get/FindMissing/GetFromComposite, sequential (group seq) or by 2-8 concurrent clients on <=4 keys with yields inside device I/O and upload sources (group conc); " +
			"distinct = hash of (configuration, operation kinds and sizes); non-trivial = the history contains a read that returned bytes after at least one block rotation or a failed upload that was probed",
		Workers:     12,
		Floors:      map[string]int64{"reads_with_bytes": 2000, "failed_uploads_probed": 300, "rotations": 300, "composite_child_reads": 100, "conc_reads_with_bytes": 500, "shared_sector_pairs": 120, "uploads_ok": 2000, "adjacent_triples": 300, "conc_composite_reads": 150},
		Assumptions: []string{"the simulated block device is linearizable per call", "register recency (latest value wins) is not part of C01 and is not asserted"},
		Race:        true,
		Body:        body,
	})
}

type upload struct {
	id      int
	content string
	ok      bool  // completed successfully
	failed  bool  // completed with an error
	callSeq int64 // logical time of the call
	retSeq  int64 // logical time of the return (0 = open)
}

type keyModel struct {
	d       digest.Digest
	uploads []*upload
}

var clock atomic.Int64

func tick() int64 { return clock.Add(1) }

// sizes biased to sector-boundary neighbourhoods.
func genSize(r *gen.Rng, c asm.Config) int {
	max := int(c.BlockBytes())
	s := c.Sector
	switch r.Intn(8) {
	case 0:
		return 0
	case 1:
		return r.Range(0, max)
	case 2:
		return max - r.Intn(3)
	case 3, 4:
		k := r.Range(1, 3)
		v := k*s + r.Range(-1, 1)
		if v < 0 {
			v = 0
		}
		if v > max {
			v = max
		}
		return v
	default:
		v := r.Range(1, 3*s+2)
		if v > max {
			v = max
		}
		return v
	}
}

func okAllocErr(err error) bool {
	// Legitimate reasons for an upload to be refused.
	switch status.Code(err) {
	case codes.Unavailable, codes.InvalidArgument:
		return true
	case codes.Internal:
		return strings.Contains(err.Error(), "has already been released") || strings.Contains(err.Error(), "Existing object disappeared while buffer was read")
	}
	return false
}

func body(w *run.Worker) {
	ctx := context.Background()
	w.Cases("seq", w.N(900, 12000), func(c *run.Case) { seqCase(ctx, w, c) })
	w.Cases("conc", w.N(600, 6000), func(c *run.Case) { concCase(ctx, w, c) })
	adjacent(ctx, w)
}

// adjacent: three uploads allocated back to back in one block (so that
// neighbours share their first/last sector), each parked inside its unlocked
// copy phase, completed in every order; all three must read back exactly.
// Thorough: every size triple in [0, 3 sectors]^3 x all 6 completion orders
// for sector size 4 (exhaustive); quick: a PRNG sample of the same space.
func adjacent(ctx context.Context, w *run.Worker) {
	const S = 4
	type tc struct{ a, b, c, order int }
	var all []tc
	for a := 0; a <= 3*S; a++ {
		for b := 0; b <= 3*S; b++ {
			for cc := 0; cc <= 3*S; cc++ {
				for o := 0; o < 6; o++ {
					all = append(all, tc{a, b, cc, o})
				}
			}
		}
	}
	perms := [6][3]int{{0, 1, 2}, {0, 2, 1}, {1, 0, 2}, {1, 2, 0}, {2, 0, 1}, {2, 1, 0}}
	var mine []tc
	if w.Thorough() {
		for i, t := range all {
			if i%w.Workers == w.Index {
				mine = append(mine, t)
			}
		}
	} else {
		r := gen.New(w.Seed, uint64(w.Index), 0xad1)
		for i := 0; i < 600/w.Workers+1; i++ {
			mine = append(mine, all[r.Intn(len(all))])
		}
	}
	w.Cases("adjacent", len(mine), func(c *run.Case) {
		t := mine[c.Index]
		c.Desc("adjacent sizes=%d,%d,%d order=%v", t.a, t.b, t.c, perms[t.order])
		cfg := asm.Config{Sector: S, BlockSectors: 16, Old: 1, Cur: 1, New: 1, Spare: 1, Records: 97, GetAttempts: 8, PutAttempts: 16, KeyFormat: digest.KeyWithoutInstance, Factory: "raw", Label: "c01"}
		s, err := asm.Build(cfg, asm.NewMedia(cfg))
		if err != nil {
			panic(err)
		}
		sizes := [3]int{t.a, t.b, t.c}
		type up struct {
			d    digest.Digest
			data []byte
			gate chan struct{}
			done chan error
		}
		var ups [3]*up
		for i := 0; i < 3; i++ {
			data := gen.UniqueBlob(uint64(c.Index)<<8|uint64(i), uint64(w.Index)<<32|uint64(t.order), sizes[i])
			// make contents distinct even for tiny sizes
			for j := range data {
				data[j] = byte(0x10*(i+1) + j)
			}
			u := &up{d: gen.SHA256Digest("", append([]byte{byte(i)}, data...)), data: data, gate: make(chan struct{}), done: make(chan error, 1)}
			ups[i] = u
			arrived := make(chan struct{}, 1)
			n := 0
			src := &asm.Upload{Data: data, Yield: func() {
				n++
				if n == 1 { // first read of the copy phase: space has been allocated
					arrived <- struct{}{}
					<-u.gate
				}
			}}
			go func() { u.done <- s.BA.Put(ctx, u.d, src.PlainBuffer()) }()
			select {
			case <-arrived: // allocation of upload i happened before upload i+1 starts
			case err := <-u.done: // an empty object is copied without reading the source
				u.done <- err
			}
		}
		for _, i := range perms[t.order] {
			close(ups[i].gate)
			if err := <-ups[i].done; err != nil {
				w.Count("observed_good_upload_refused", 1) // not promised by C01
				_ = err
			}
			// everything completed so far must read back exactly
			for _, j := range perms[t.order] {
				got, err := asm.GetBytes(ctx, s.BA, ups[j].d)
				if err == nil && string(got) != string(ups[j].data) {
					c.Violation("localstore.Get:wrong-bytes-adjacent-uploads", "after completing upload %d, upload %d (size %d) reads back %x, want %x (sizes %v, completion order %v)", i, j, sizes[j], got, ups[j].data, sizes, perms[t.order])
				}
				if j == i {
					break
				}
			}
		}
		for i := 0; i < 3; i++ {
			got, err := asm.GetBytes(ctx, s.BA, ups[i].d)
			if err != nil {
				if asm.IsNotFound(err) {
					w.Count("observed_adjacent_upload_not_found", 1) // NOT_FOUND is always acceptable for C01
				} else {
					c.Violation("localstore.Get:unexpected-error-sequential", "adjacent upload %d is not readable: %v", i, err)
				}
			} else if string(got) != string(ups[i].data) {
				c.Violation("localstore.Get:wrong-bytes-adjacent-uploads", "upload %d (size %d) reads back %x, want %x (sizes %v, completion order %v)", i, sizes[i], got, ups[i].data, sizes, perms[t.order])
			}
		}
		w.Count("adjacent_triples", 1)
		w.Distinct(fmt.Sprintf("adj|%d|%d|%d|%d", t.a, t.b, t.c, t.order))
	})
	if w.Thorough() {
		w.Exhaustive("adjacent size triples <= 3 sectors x completion orders (sector 4)", true)
	}
}

func mkStore(c *run.Case, r *gen.Rng) (*asm.Store, asm.Config) {
	cfg := asm.GenConfig(r, false)
	cfg.Factory = []string{"raw", "raw", "cas"}[r.Intn(3)]
	cfg.Label = "c01"
	if cfg.InMemoryBlocks {
		cfg.Factory = "cas" // the in-memory allocator ignores the factory
	}
	s, err := asm.Build(cfg, asm.NewMedia(cfg))
	if err != nil {
		panic(err)
	}
	return s, cfg
}

// instance names used; the flat store may ignore them.
var instances = []string{"", "a", "a/b"}

func seqCase(ctx context.Context, w *run.Worker, c *run.Case) {
	r := c.Rng
	s, cfg := mkStore(c, r)
	im := asm.NewIndexMetrics("c01")
	if !im.OK() {
		panic("index metrics collectors not found")
	}
	acStyle := cfg.Mutable && !cfg.Hierarchical && cfg.Factory == "raw" && r.Bool()
	c.Desc("seq %v acStyle=%v", cfg, acStyle)
	if c.Index < 2 {
		w.Sample(map[string]any{"group": "seq", "config": cfg.String()})
	}
	inst := instances[r.Intn(len(instances))]
	nkeys := r.Range(3, 14)
	model := map[string]*keyModel{} // store key -> model
	keyOf := func(d digest.Digest) string {
		if cfg.Hierarchical {
			return d.GetKey(digest.KeyWithInstance)
		}
		return d.GetKey(cfg.KeyFormat)
	}
	var keys []*keyModel
	nextID := 0
	sig := strings.Builder{}
	rotBefore := int64(0)
	sawRotationRead := false

	newContent := func(size int) []byte {
		nextID++
		return gen.UniqueBlob(uint64(c.Index)<<20|uint64(w.Index)<<40, uint64(nextID), size)
	}
	getKM := func(d digest.Digest) *keyModel {
		k := keyOf(d)
		if km, ok := model[k]; ok {
			return km
		}
		km := &keyModel{d: d}
		model[k] = km
		keys = append(keys, km)
		return km
	}
	member := func(km *keyModel, got []byte) *upload {
		for _, u := range km.uploads {
			if u.ok && u.content == string(got) {
				return u
			}
		}
		return nil
	}
	anyOK := func(km *keyModel) bool {
		for _, u := range km.uploads {
			if u.ok {
				return true
			}
		}
		return false
	}
	checkIntegrity := func(where string) {
		if n := s.Factory.IntegrityFalse.Load(); n > 0 {
			c.Violation("localstore:data-integrity-error-on-uncorrupted-medium", "%s: integrity callback reported corruption %d times on an uncorrupted medium; errlog=%v", where, n, s.ErrLog.Messages())
		}
		for _, m := range s.ErrLog.Messages() {
			if strings.Contains(m, "data integrity") {
				c.Violation("localstore:data-integrity-error-on-uncorrupted-medium", "%s: error logger: %s", where, m)
			}
		}
	}
	checkRead := func(op string, km *keyModel, got []byte, err error) {
		if err != nil {
			if asm.IsNotFound(err) {
				w.Count("reads_notfound", 1)
				return
			}
			if strings.Contains(err.Error(), "Failed to refresh blob") && okAllocErr(err) {
				// A refresh that needs more free blocks than the geometry has
				// spare (the read itself pins the block it copies from) is
				// refused; nothing is returned, so C01 is not concerned.
				w.Count("reads_refused_refresh_no_space", 1)
				return
			}
			for _, e := range s.Log.Events() {
				c.Logf("%v", e)
			}
			c.Violation("localstore."+op+":unexpected-error-sequential", "%s of %s failed with %v (only NOT_FOUND is expected in a sequential history); open readers %v", op, km.d, err, s.Log.OpenReaders())
			return
		}
		w.Count("reads_with_bytes", 1)
		if s.BL.Pops.Load() > rotBefore {
			sawRotationRead = true
		}
		if member(km, got) == nil {
			what := "bytes that were never successfully uploaded for this key"
			for _, u := range km.uploads {
				if u.failed && u.content == string(got) {
					what = "the bytes of a FAILED upload"
				}
			}
			for _, o := range keys {
				if o != km && member(o, got) != nil {
					what = "the bytes of another object (" + o.d.String() + ")"
				}
			}
			c.Violation("localstore."+op+":wrong-bytes", "%s of %s returned %s: got %s, uploads ok=%v", op, km.d, what, gen.Hex8(got), okList(km))
		}
	}

	nops := r.Range(30, 160)
	for i := 0; i < nops; i++ {
		op := r.Intn(100)
		switch {
		case op < 45: // Put
			var km *keyModel
			var content []byte
			var d digest.Digest
			size := genSize(r, cfg)
			mode := r.Intn(10) // 0..5 good, 6 size mismatch, 7 hash mismatch, 8 source error, 9 too large
			if acStyle {
				// arbitrary key, unique content per upload
				if len(keys) > 0 && (len(keys) >= nkeys || r.Bool()) {
					km = keys[r.Intn(len(keys))]
					d = km.d
				} else {
					d = gen.SHA256Digest(inst, newContent(16)) // an "action digest": unrelated to the value
					km = getKM(d)
				}
				content = newContent(size)
				if mode == 6 || mode == 7 {
					mode = 0
				}
			} else {
				if len(keys) > 0 && r.Chance(1, 4) {
					// re-upload an existing object (same content)
					km = keys[r.Intn(len(keys))]
					d = km.d
					if len(km.uploads) > 0 {
						content = []byte(km.uploads[0].content)
					} else {
						content = newContent(int(d.GetSizeBytes()))
					}
					// the digest is of the first content; a key only ever has one valid content
					if gen.SHA256Digest(inst, content) != d {
						continue
					}
				} else {
					content = newContent(size)
					d = gen.SHA256Digest(inst, content)
					km = getKM(d)
				}
			}
			if mode == 9 {
				content = newContent(int(cfg.BlockBytes()) + r.Range(1, 5))
				if acStyle {
					// keep key
				} else {
					d = gen.SHA256Digest(inst, content)
					km = getKM(d)
				}
			}
			u := &asm.Upload{Data: content, Chunks: r.Chunking(len(content), true)}
			sent := content
			switch mode {
			case 6: // stated size differs from delivered size
				if r.Bool() && len(content) > 0 {
					u.Data = content[:len(content)-1]
				} else {
					u.Data = append(append([]byte(nil), content...), 0x55)
				}
				sent = u.Data
			case 7: // same size, other bytes
				if len(content) == 0 {
					mode = 0
				} else {
					b := append([]byte(nil), content...)
					b[r.Intn(len(b))] ^= 1 << uint(r.Intn(8))
					u.Data = b
					sent = b
				}
			case 8:
				if len(content) == 0 {
					mode = 0
				} else {
					u.FailAt = r.Intn(len(content))
					u.FailErr = asm.ErrInjected
				}
			}
			up := &upload{id: nextID, content: string(sent)}
			km.uploads = append(km.uploads, up)
			var err error
			if acStyle {
				err = s.BA.Put(ctx, d, u.PlainBuffer())
			} else {
				err = s.BA.Put(ctx, d, u.CASBuffer(d))
			}
			fmt.Fprintf(&sig, "P%d.%d.%d;", mode, len(content), len(u.Chunks))
			c.Logf("Put %s size=%d mode=%d -> %v", d, len(content), mode, err)
			if n := u.Closes.Load(); n != 1 {
				c.Violation("localstore.Put:upload-source-release-count", "Put(mode=%d, err=%v) closed the upload source %d times (want 1)", mode, err, n)
			}
			if err == nil {
				if mode >= 6 {
					c.Violation("localstore.Put:bad-upload-acknowledged", "Put with failure mode %d (6 size mismatch, 7 hash mismatch, 8 source error, 9 too large) returned nil", mode)
				}
				up.ok = true
				w.Count("uploads_ok", 1)
			} else {
				up.failed = true
				w.Count("uploads_failed", 1)
				if mode < 6 && !okAllocErr(err) {
					// C01 does not promise that uploads succeed: observed only.
					w.Count("observed_good_upload_refused", 1)
				}
				// A failed upload must not be visible.
				if !anyOK(km) || acStyle {
					w.Count("failed_uploads_probed", 1)
					got, gerr := asm.GetBytes(ctx, s.BA, d)
					if gerr == nil && member(km, got) == nil {
						c.Violation("localstore.Put:failed-upload-visible", "after a failed Put (mode %d, %v) Get returned %s", mode, err, gen.Hex8(got))
					}
					if !anyOK(km) {
						if p, perr := asm.Present(ctx, s.BA, d); perr == nil && p {
							c.Violation("localstore.Put:failed-upload-visible", "after a failed Put (mode %d, %v) FindMissing reports the object present", mode, err)
						}
					}
				}
			}
		case op < 75: // Get
			if len(keys) == 0 {
				continue
			}
			km := keys[r.Intn(len(keys))]
			got, err := asm.GetBytes(ctx, s.BA, km.d)
			c.Logf("Get %s -> %s %v", km.d, gen.Hex8(got), err)
			sig.WriteString("G;")
			checkRead("Get", km, got, err)
		case op < 88: // FindMissing over a set
			if len(keys) == 0 {
				continue
			}
			sb := digest.NewSetBuilder(0)
			var asked []*keyModel
			for j := r.Range(1, 5); j > 0; j-- {
				km := keys[r.Intn(len(keys))]
				sb.Add(km.d)
				asked = append(asked, km)
			}
			if r.Chance(1, 3) {
				sb.Add(gen.SHA256Digest(inst, newContent(9))) // never uploaded
			}
			set := sb.Build()
			lossBefore := im.Discards()
			popsBeforeFM := s.BL.Pops.Load()
			missing, err := s.BA.FindMissing(ctx, set)
			rotatedDuringFM := s.BL.Pops.Load() != popsBeforeFM
			sig.WriteString("F;")
			if err != nil {
				if strings.Contains(err.Error(), "Failed to refresh blob") && okAllocErr(err) {
					w.Count("reads_refused_refresh_no_space", 1)
					continue
				}
				c.Violation("localstore.FindMissing:unexpected-error-sequential", "FindMissing failed with %v", err)
				continue
			}
			miss := map[string]bool{}
			for _, d := range missing.Items() {
				miss[d.String()] = true
			}
			for _, d := range set.Items() {
				if miss[d.String()] {
					continue
				}
				km, ok := model[keyOf(d)]
				if !ok || !anyOK(km) {
					c.Violation("localstore.FindMissing:present-without-successful-upload", "FindMissing reports %s present but no upload of that key succeeded", d)
					continue
				}
				// present => immediately readable
				got, gerr := asm.GetBytes(ctx, s.BA, d)
				if gerr != nil {
					// The index may legitimately lose the entry when it
					// reports a discard (the refresh done by FindMissing
					// stores new entries); retention is C05's business.
					if asm.IsNotFound(gerr) && im.Discards() > lossBefore {
						w.Count("present_lost_to_index_discard", 1)
					} else if asm.IsNotFound(gerr) && rotatedDuringFM {
						// The call's own refreshes rotated the block list after it
						// had looked at this digest: legitimately gone (see C05).
						w.Count("present_lost_to_rotation_inside_findmissing", 1)
					} else {
						c.Violation("localstore.FindMissing:present-but-unreadable", "FindMissing reported %s present; the Get right after failed with %v (no index discard reported)", d, gerr)
					}
				} else {
					checkRead("Get", km, got, nil)
				}
				w.Count("present_then_read", 1)
			}
			_ = asked
		default: // GetFromComposite (flat stores slice via the index; hierarchical via Get)
			if len(keys) == 0 || acStyle {
				continue
			}
			km := keys[r.Intn(len(keys))]
			var parent []byte
			for _, u := range km.uploads {
				if u.ok {
					parent = []byte(u.content)
				}
			}
			if parent == nil || len(parent) == 0 {
				continue
			}
			// designate slices
			sl := &asm.Slicer{}
			ns := r.Range(1, 4)
			for j := 0; j < ns; j++ {
				off := r.Intn(len(parent))
				size := r.Range(0, len(parent)-off)
				child := parent[off : off+size]
				sl.Slices = append(sl.Slices, asm.SliceSpec{Off: int64(off), Size: int64(size), Digest: gen.SHA256Digest(inst, child)})
			}
			pick := sl.Slices[r.Intn(len(sl.Slices))]
			want := parent[pick.Off : pick.Off+pick.Size]
			got, err := s.BA.GetFromComposite(ctx, km.d, pick.Digest, sl).ToByteSlice(1 << 26)
			c.Logf("GetFromComposite %s child off=%d size=%d -> %s %v", km.d, pick.Off, pick.Size, gen.Hex8(got), err)
			sig.WriteString("C;")
			if err != nil {
				if strings.Contains(err.Error(), "Failed to refresh blob") && okAllocErr(err) {
					w.Count("reads_refused_refresh_no_space", 1)
				} else if !asm.IsNotFound(err) {
					c.Violation("localstore.GetFromComposite:unexpected-error-sequential", "GetFromComposite failed with %v", err)
				}
				continue
			}
			w.Count("composite_reads", 1)
			if string(got) != string(want) {
				c.Violation("localstore.GetFromComposite:wrong-slice", "GetFromComposite returned %s, the slicer designated parent[%d:%d]=%s", gen.Hex8(got), pick.Off, pick.Off+pick.Size, gen.Hex8(want))
			}
			// Register the children as keys whose only valid content is the slice.
			for _, sp := range sl.Slices {
				ckm := getKM(sp.Digest)
				child := string(parent[sp.Off : sp.Off+sp.Size])
				found := false
				for _, u := range ckm.uploads {
					if u.content == child && u.ok {
						found = true
					}
				}
				if !found {
					ckm.uploads = append(ckm.uploads, &upload{content: child, ok: true})
				}
			}
			// Re-read a child through the index path, with a slicer that
			// would give wrong data if it were consulted for a child that is
			// already indexed... it may legitimately be consulted when the
			// parent needs a refresh, so the re-read uses the same slicer.
			again := sl.Slices[r.Intn(len(sl.Slices))]
			got2, err2 := s.BA.GetFromComposite(ctx, km.d, again.Digest, sl).ToByteSlice(1 << 26)
			if err2 == nil {
				w.Count("composite_child_reads", 1)
				if string(got2) != string(parent[again.Off:again.Off+again.Size]) {
					c.Violation("localstore.GetFromComposite:wrong-slice", "re-reading child [%d:%d] returned %s", again.Off, again.Off+again.Size, gen.Hex8(got2))
				}
			} else if strings.Contains(err2.Error(), "Failed to refresh blob") && okAllocErr(err2) {
				w.Count("reads_refused_refresh_no_space", 1)
			} else if !asm.IsNotFound(err2) {
				c.Violation("localstore.GetFromComposite:unexpected-error-sequential", "re-read of a child failed with %v", err2)
			}
		}
		checkIntegrity("seq")
	}
	w.Count("rotations", s.BL.Pops.Load())
	if s.Factory.Opens.Load() != s.Factory.Closes.Load() {
		c.Violation("localstore:reader-not-closed", "sequential history finished with %d readers opened and %d closed", s.Factory.Opens.Load(), s.Factory.Closes.Load())
	}
	if sawRotationRead {
		w.Distinct(cfg.String() + sig.String())
	}
}

func okList(km *keyModel) []string {
	var out []string
	for _, u := range km.uploads {
		st := "open"
		if u.ok {
			st = "ok"
		} else if u.failed {
			st = "failed"
		}
		out = append(out, gen.Hex8([]byte(u.content))+":"+st)
	}
	return out
}

// ---------------------------------------------------------------------------
// Concurrent histories.

type cevent struct {
	client  int
	op      string // put, get, fm
	key     int
	content string // put: what was sent; get: what was returned
	ok      bool
	err     error
	call    int64
	ret     int64
	badMode int
}

func concCase(ctx context.Context, w *run.Worker, c *run.Case) {
	r := c.Rng
	s, cfg := mkStore(c, r)
	acStyle := cfg.Mutable && !cfg.Hierarchical && cfg.Factory == "raw"
	procs := r.Pick(2, 4, 16)
	old := runtime.GOMAXPROCS(procs)
	defer runtime.GOMAXPROCS(old)
	nclients := r.Range(2, 8)
	nkeys := r.Range(1, 4)
	c.Desc("conc %v acStyle=%v clients=%d keys=%d procs=%d", cfg, acStyle, nclients, nkeys, procs)
	if c.Index < 1 {
		w.Sample(map[string]any{"group": "conc", "config": cfg.String(), "clients": nclients, "keys": nkeys})
	}
	inst := "a"
	// Device I/O yields: inside the unlocked copy phases.
	y := asm.Yielder(r, 3)
	s.M.Blocks.Hook = func(kind string, off int64, n int) { y() }

	// Key universe. CAS style: key i has exactly one valid content. AC style:
	// key i is an arbitrary digest and every upload has unique content.
	type keyInfo struct {
		d       digest.Digest
		content []byte // CAS style
	}
	keys := make([]keyInfo, nkeys)
	// Sizes chosen so that neighbours share sectors.
	for i := range keys {
		size := genSize(r, cfg)
		if size == 0 && r.Bool() {
			size = r.Range(1, cfg.Sector+1)
		}
		content := gen.UniqueBlob(uint64(c.Index)<<20|uint64(w.Index)<<40|1<<60, uint64(i), size)
		for j := 0; j < i; j++ {
			if string(keys[j].content) == string(content) { // two empty objects are the same key
				size = r.Range(1, cfg.Sector+1)
				content = gen.UniqueBlob(uint64(c.Index)<<20|uint64(w.Index)<<40|1<<60, uint64(i), size)
			}
		}
		if len(content) > 0 {
			content[0] &= 0x7f // fillers have the top bit set: tiny contents must not coincide with them
		}
		keys[i] = keyInfo{d: gen.SHA256Digest(inst, content), content: content}
		if cfg.Sector > 1 && size%cfg.Sector != 0 {
			w.Count("shared_sector_pairs", 1)
		}
	}
	var mu sync.Mutex
	var hist []*cevent
	var uid atomic.Int64
	var wg sync.WaitGroup
	opsPer := r.Range(6, 25)
	// A filler client forces rotations while writes are in flight.
	seeds := make([]*gen.Rng, nclients)
	for i := range seeds {
		seeds[i] = r.Fork()
	}
	for cl := 0; cl < nclients; cl++ {
		wg.Add(1)
		go func(cl int) {
			defer wg.Done()
			cr := seeds[cl]
			yy := asm.Yielder(cr, 2)
			for i := 0; i < opsPer; i++ {
				ki := cr.Intn(nkeys)
				k := keys[ki]
				ev := &cevent{client: cl, key: ki}
				s.Log.Add("op.begin", int64(cl), int64(i), "")
				switch x := cr.Intn(10); {
				case x < 5:
					ev.op = "put"
					var content []byte
					if acStyle {
						content = gen.UniqueBlob(uint64(c.Index)<<20|uint64(w.Index)<<40|2<<60, uint64(uid.Add(1)), genSizeSmall(cr, cfg))
						if len(content) > 0 {
							content[0] &= 0x7f
						}
					} else {
						content = k.content
					}
					u := &asm.Upload{Data: content, Chunks: cr.Chunking(len(content), true), Yield: yy}
					mode := cr.Intn(8)
					if mode == 7 && len(content) > 0 {
						u.FailAt = cr.Intn(len(content))
						u.FailErr = asm.ErrInjected
						ev.badMode = 8
					} else if mode == 6 && len(content) > 0 && !acStyle {
						// corrupt upload: must be rejected, and its bytes never seen
						b := append([]byte(nil), content...)
						b[cr.Intn(len(b))] ^= 0x40
						u.Data = b
						ev.badMode = 7
					}
					ev.content = string(u.Data)
					ev.call = tick()
					mu.Lock()
					hist = append(hist, ev)
					mu.Unlock()
					var err error
					if acStyle {
						err = s.BA.Put(ctx, k.d, u.PlainBuffer())
					} else {
						err = s.BA.Put(ctx, k.d, u.CASBuffer(k.d))
					}
					mu.Lock()
					ev.err = err
					ev.ok = err == nil
					ev.ret = tick()
					mu.Unlock()
					if n := u.Closes.Load(); n != 1 {
						c.Violation("localstore.Put:upload-source-release-count", "concurrent Put closed the upload source %d times", n)
					}
				case x == 8 && !acStyle && len(k.content) >= 48: // halves long enough that a child can never coincide with another key of the universe
					// Concurrent composite reads of the same parent: the
					// slices are fixed per key, so every client designates
					// the same children.
					ev.op = "comp"
					half := len(k.content) / 2
					sl := &asm.Slicer{Slices: []asm.SliceSpec{
						{Off: 0, Size: int64(half), Digest: gen.SHA256Digest(inst, k.content[:half])},
						{Off: int64(half), Size: int64(len(k.content) - half), Digest: gen.SHA256Digest(inst, k.content[half:])},
					}}
					pick := sl.Slices[cr.Intn(2)]
					ev.call = tick()
					mu.Lock()
					hist = append(hist, ev)
					mu.Unlock()
					got, err := s.BA.GetFromComposite(ctx, k.d, pick.Digest, sl).ToByteSlice(1 << 26)
					mu.Lock()
					ev.content, ev.err, ev.ok = string(got), err, err == nil
					ev.ret = tick()
					mu.Unlock()
					if err == nil && string(got) != string(k.content[pick.Off:pick.Off+pick.Size]) {
						c.Violation("localstore.GetFromComposite:wrong-slice-concurrent", "client %d: concurrent GetFromComposite of key %d child [%d:%d] returned %s", cl, ki, pick.Off, pick.Off+pick.Size, gen.Hex8(got))
					}
					w.Count("conc_composite_reads", 1)
				case x < 9:
					ev.op = "get"
					ev.call = tick()
					mu.Lock()
					hist = append(hist, ev)
					mu.Unlock()
					got, err := asm.GetBytes(ctx, s.BA, k.d)
					mu.Lock()
					ev.content, ev.err, ev.ok = string(got), err, err == nil
					ev.ret = tick()
					mu.Unlock()
				default:
					ev.op = "fm"
					ev.call = tick()
					mu.Lock()
					hist = append(hist, ev)
					mu.Unlock()
					p, err := asm.Present(ctx, s.BA, k.d)
					mu.Lock()
					ev.ok, ev.err = p, err
					ev.ret = tick()
					mu.Unlock()
				}
				if cr.Chance(1, 3) {
					// filler upload to force rotations
					fc := gen.UniqueBlob(uint64(c.Index)<<20|uint64(w.Index)<<40|3<<60, uint64(uid.Add(1)), int(cfg.BlockBytes())/2+1)
					fc[0] |= 0x80
					fd := gen.SHA256Digest(inst, fc)
					fu := &asm.Upload{Data: fc, Yield: yy}
					s.BA.Put(ctx, fd, fu.CASBuffer(fd))
				}
			}
		}(cl)
	}
	wg.Wait()
	w.Count("rotations", s.BL.Pops.Load())

	// Oracle over the recorded history.
	var order strings.Builder
	for _, ev := range hist {
		fmt.Fprintf(&order, "%d%s%d:%d-%d;", ev.client, ev.op[:1], ev.key, ev.call, ev.ret)
	}
	w.Distinct("conc|" + order.String())
	for _, ev := range hist {
		switch ev.op {
		case "put":
			if ev.ok && ev.badMode != 0 {
				c.Violation("localstore.Put:bad-upload-acknowledged", "concurrent Put with failure mode %d returned nil", ev.badMode)
			}
			if !ev.ok && ev.badMode == 0 && !okAllocErr(ev.err) {
				w.Count("observed_good_upload_refused", 1) // not promised by C01
			}
		case "get":
			if ev.err != nil {
				code := status.Code(ev.err)
				if code == codes.NotFound {
					continue
				}
				// Under rotation pressure a refresh may legitimately fail.
				if strings.Contains(ev.err.Error(), "Failed to refresh blob") && okAllocErr(ev.err) {
					w.Count("conc_refresh_failures", 1)
					continue
				}
				c.Violation("localstore.Get:unexpected-error-concurrent", "concurrent Get failed with %v", ev.err)
				continue
			}
			w.Count("conc_reads_with_bytes", 1)
			// The bytes must be those of an upload for the same key that did
			// not fail and whose call started before this read returned.
			justified := false
			why := "no upload of these bytes exists for this key"
			for _, o := range hist {
				if o.op != "put" || o.key != ev.key || o.content != ev.content {
					continue
				}
				if o.badMode == 7 {
					why = "the bytes are those of a corrupt upload"
					continue
				}
				if o.err != nil {
					why = "the upload of these bytes failed"
					continue
				}
				if o.call > ev.ret {
					why = "the upload of these bytes started after the read returned"
					continue
				}
				justified = true
			}
			if !justified {
				other := ""
				for _, o := range hist {
					if o.op == "put" && o.key != ev.key && o.content == ev.content {
						other = fmt.Sprintf(" (they are the bytes uploaded for key %d)", o.key)
					}
				}
				c.Violation("localstore.Get:wrong-bytes-concurrent", "client %d read key %d and got %s: %s%s", ev.client, ev.key, gen.Hex8([]byte(ev.content)), why, other)
			}
		case "comp":
			if ev.err != nil {
				if status.Code(ev.err) == codes.NotFound || (strings.Contains(ev.err.Error(), "Failed to refresh blob") && okAllocErr(ev.err)) {
					continue
				}
				c.Violation("localstore.GetFromComposite:unexpected-error-concurrent", "concurrent GetFromComposite failed with %v", ev.err)
				continue
			}
			just := false
			for _, o := range hist {
				if o.op == "put" && o.key == ev.key && o.err == nil && o.badMode == 0 && o.call < ev.ret {
					just = true
				}
			}
			if !just {
				c.Violation("localstore.GetFromComposite:served-without-successful-upload", "client %d: a child of key %d was served although no successful upload of the parent started before the read returned", ev.client, ev.key)
			}
		case "fm":
			if ev.err != nil {
				if strings.Contains(ev.err.Error(), "Failed to refresh blob") && okAllocErr(ev.err) {
					continue
				}
				c.Violation("localstore.FindMissing:unexpected-error-concurrent", "concurrent FindMissing failed with %v", ev.err)
				continue
			}
			if ev.ok {
				justified := false
				for _, o := range hist {
					if o.op == "put" && o.key == ev.key && o.err == nil && o.badMode == 0 && o.call < ev.ret {
						justified = true
					}
				}
				if !justified {
					c.Violation("localstore.FindMissing:present-without-successful-upload", "client %d: FindMissing reports key %d present but no successful upload started before it returned", ev.client, ev.key)
				}
			}
		}
	}
	if n := s.Factory.IntegrityFalse.Load(); n > 0 {
		c.Violation("localstore:data-integrity-error-on-uncorrupted-medium", "integrity callback reported corruption %d times in a concurrent history; errlog=%v", n, s.ErrLog.Messages())
	}
	for _, m := range s.ErrLog.Messages() {
		if strings.Contains(m, "data integrity") {
			c.Violation("localstore:data-integrity-error-on-uncorrupted-medium", "error logger: %s", m)
		}
	}
	if s.Factory.Opens.Load() != s.Factory.Closes.Load() {
		for _, e := range s.Log.Events() {
			c.Logf("%v", e)
		}
		c.Violation("localstore:reader-not-closed", "concurrent history finished with %d readers opened and %d closed; open: %v", s.Factory.Opens.Load(), s.Factory.Closes.Load(), s.Log.OpenReaders())
	}
	_ = remoteexecution.DigestFunction_SHA256
}

func genSizeSmall(r *gen.Rng, c asm.Config) int {
	v := genSize(r, c)
	if max := int(c.BlockBytes()) / 2; v > max {
		v = max
	}
	return v
}
