package main

// A scenario is one fully determined sequential execution: a pair of replicas,
// two replicator strategies, an initial placement, a sequence of operations on
// the REAL mirrored composite and a failure plan. runScenario executes it and
// checks every operation against the clauses of C11.

import (
	"context"
	"fmt"
	"runtime/debug"
	"sort"
	"strings"
	"time"

	"github.com/buildbarn/bb-storage/pkg/blobstore"
	"github.com/buildbarn/bb-storage/pkg/blobstore/buffer"
	"github.com/buildbarn/bb-storage/pkg/blobstore/configuration"
	"github.com/buildbarn/bb-storage/pkg/blobstore/mirrored"
	"github.com/buildbarn/bb-storage/pkg/blobstore/replication"
	"github.com/buildbarn/bb-storage/pkg/blobstore/slicing"
	"github.com/buildbarn/bb-storage/pkg/clock"
	"github.com/buildbarn/bb-storage/pkg/digest"
	"github.com/buildbarn/bb-storage/pkg/eviction"
	pb "github.com/buildbarn/bb-storage/pkg/proto/configuration/blobstore"
	digest_pb "github.com/buildbarn/bb-storage/pkg/proto/configuration/digest"
	eviction_pb "github.com/buildbarn/bb-storage/pkg/proto/configuration/eviction"
	"golang.org/x/sync/semaphore"
	"google.golang.org/grpc/codes"
	"google.golang.org/grpc/status"
	"google.golang.org/protobuf/types/known/durationpb"
	"google.golang.org/protobuf/types/known/emptypb"

	"verif/lib/gen"
	"verif/lib/model"
	"verif/lib/run"
)

// Signature of candidate defect P1 of DESIGN.md §5 as it shows through the
// mirrored composite (reported from world.run, "panics" section).
const sigP1 = "localBlobReplicator.ReplicateSingle(refresh-in-progress source):cloned-buffer-panics-in-GetSizeBytes"

const (
	replLocal = iota
	replDedup
	replLimit
	replQueued
	replNoop
	replKinds
)

var replNames = []string{"local", "deduplicating(local)", "concurrencyLimiting(local)", "queued(local)", "noop"}

const (
	opGet = iota
	opPut
	opFindMissing
	opGetCapabilities
	opGetFromComposite
)

var opNames = []string{"Get", "Put", "FindMissing", "GetCapabilities", "GetFromComposite"}

type object struct {
	data  []byte
	d     digest.Digest
	place int     // bit 0: replica A, bit 1: replica B
	old   [2]bool // local replicas: park in an old block
	// content identifies the contents: two objects of a scenario with the
	// same content number are the same bytes under two instance names (one
	// object for replicas keyed without the instance name, two objects for
	// replicas that distinguish instance names).
	content int
}

type operation struct {
	kind    int
	obj     int
	set     []int
	method  int
	chunk   int
	upload  int // 0 one chunk, 1 chunked, 2 source fails half way
	abandon bool
}

func (o operation) String() string {
	switch o.kind {
	case opGet, opGetFromComposite:
		if o.abandon {
			return fmt.Sprintf("%s(o%d,discard)", opNames[o.kind], o.obj)
		}
		return fmt.Sprintf("%s(o%d,%s)", opNames[o.kind], o.obj, consumeNames[o.method])
	case opPut:
		return fmt.Sprintf("Put(o%d,upload%d)", o.obj, o.upload)
	case opFindMissing:
		return fmt.Sprintf("FindMissing(%v)", o.set)
	}
	return opNames[o.kind]
}

type faultKey struct {
	replica int
	idx     int
}

type scenario struct {
	kinds   [2]string // model / localInMemory / localOnDevice
	lcfg    [2]localCfg
	repl    [2]int // [0]: A->B, [1]: B->A
	metrics bool   // wrap replicators in the metrics decorator like the configuration layer does
	// cfgBuilt: the replicators are not assembled by hand but built by
	// configuration.NewBlobReplicatorFromConfiguration from configuration
	// messages, with the sink described by a BlobAccessInfo (the production
	// wiring; it always adds the metrics decorator, at every level).
	cfgBuilt bool
	// keyed: the replicas distinguish instance names (model stores keyed
	// with the instance name, hierarchical local stores).
	keyed     bool
	preRounds int // GetCapabilities calls before the scenario (shifts the alternation)
	objs      []object
	ops       []operation
	faults    map[faultKey]fault
	hashInit  uint64
}

func (sc *scenario) faultString() string {
	var ks []faultKey
	for k := range sc.faults {
		ks = append(ks, k)
	}
	sort.Slice(ks, func(i, j int) bool {
		if ks[i].replica != ks[j].replica {
			return ks[i].replica < ks[j].replica
		}
		return ks[i].idx < ks[j].idx
	})
	var p []string
	for _, k := range ks {
		p = append(p, fmt.Sprintf("%c#%d=%v", 'A'+k.replica, k.idx, sc.faults[k]))
	}
	return strings.Join(p, " ")
}

func (sc *scenario) String() string {
	var os, ps []string
	for _, o := range sc.ops {
		os = append(os, o.String())
	}
	for i, o := range sc.objs {
		pl := []string{"neither", "A", "B", "both"}[o.place]
		if o.old[0] && o.place&1 != 0 {
			pl += "/oldA"
		}
		if o.old[1] && o.place&2 != 0 {
			pl += "/oldB"
		}
		ps = append(ps, fmt.Sprintf("o%d[c%d@%q,%d]=%s", i, o.content, o.d.GetInstanceName().String(), len(o.data), pl))
	}
	return fmt.Sprintf("replicas=%s,%s keyed=%v repl(A>B)=%s repl(B>A)=%s cfgBuilt=%v metrics=%v pre=%d objs={%s} ops=%s faults={%s}",
		sc.kinds[0], sc.kinds[1], sc.keyed, replNames[sc.repl[0]], replNames[sc.repl[1]], sc.cfgBuilt, sc.metrics, sc.preRounds, strings.Join(ps, " "), strings.Join(os, ";"), sc.faultString())
}

func (sc *scenario) keyFormat() digest.KeyFormat {
	if sc.keyed {
		return digest.KeyWithInstance
	}
	return digest.KeyWithoutInstance
}

// mkReplicator assembles a replicator by hand. sinkKF is the key format of the
// sink, which the deduplicating strategy and the existence cache of the queued
// strategy must use.
func mkReplicator(kind int, source, sink blobstore.BlobAccess, sinkKF digest.KeyFormat, metrics bool, limit int64) replication.BlobReplicator {
	var br replication.BlobReplicator
	base := replication.NewLocalBlobReplicator(source, sink)
	switch kind {
	case replLocal:
		br = base
	case replDedup:
		br = replication.NewDeduplicatingBlobReplicator(base, sink, sinkKF)
	case replLimit:
		br = replication.NewConcurrencyLimitingBlobReplicator(base, sink, semaphore.NewWeighted(limit))
	case replQueued:
		br = replication.NewQueuedBlobReplicator(source, base, digest.NewExistenceCache(clock.SystemClock, sinkKF, 64, time.Hour, eviction.NewLRUSet[string]()))
	default:
		br = replication.NewNoopBlobReplicator(source)
	}
	if metrics {
		br = replication.NewMetricsBlobReplicator(br, clock.SystemClock, "c11")
	}
	return br
}

var replicatorCreator = configuration.NewCASBlobReplicatorCreator(nil)

// replicatorConfiguration is the configuration message of a strategy, the same
// strategies over the same base as mkReplicator assembles by hand.
func replicatorConfiguration(kind int, limit int64) *pb.BlobReplicatorConfiguration {
	base := &pb.BlobReplicatorConfiguration{Mode: &pb.BlobReplicatorConfiguration_Local{Local: &emptypb.Empty{}}}
	switch kind {
	case replLocal:
		return base
	case replDedup:
		return &pb.BlobReplicatorConfiguration{Mode: &pb.BlobReplicatorConfiguration_Deduplicating{Deduplicating: base}}
	case replLimit:
		return &pb.BlobReplicatorConfiguration{Mode: &pb.BlobReplicatorConfiguration_ConcurrencyLimiting{
			ConcurrencyLimiting: &pb.ConcurrencyLimitingBlobReplicatorConfiguration{Base: base, MaximumConcurrency: limit},
		}}
	case replQueued:
		return &pb.BlobReplicatorConfiguration{Mode: &pb.BlobReplicatorConfiguration_Queued{
			Queued: &pb.QueuedBlobReplicatorConfiguration{
				Base: base,
				ExistenceCache: &digest_pb.ExistenceCacheConfiguration{
					CacheSize:              64,
					CacheDuration:          durationpb.New(time.Hour),
					CacheReplacementPolicy: eviction_pb.CacheReplacementPolicy_LEAST_RECENTLY_USED,
				},
			},
		}}
	}
	return &pb.BlobReplicatorConfiguration{Mode: &pb.BlobReplicatorConfiguration_Noop{Noop: &emptypb.Empty{}}}
}

// cfgReplicator builds a replicator the way a configuration file does:
// configuration.NewBlobReplicatorFromConfiguration with the CAS creator, the
// sink given as BlobAccessInfo (the replica and ITS key format).
func cfgReplicator(kind int, source, sink blobstore.BlobAccess, sinkKF digest.KeyFormat, limit int64) (replication.BlobReplicator, error) {
	return configuration.NewBlobReplicatorFromConfiguration(nil, replicatorConfiguration(kind, limit), source,
		configuration.BlobAccessInfo{BlobAccess: sink, DigestKeyFormat: sinkKF}, replicatorCreator)
}

// halfSlicer splits a composite object into its two halves.
type halfSlicer struct{}

func (halfSlicer) Slice(b buffer.Buffer, child digest.Digest) (buffer.Buffer, []slicing.BlobSlice) {
	data, err := b.ToByteSlice(1 << 20)
	if err != nil {
		return buffer.NewBufferFromError(err), nil
	}
	h := len(data) / 2
	in := child.GetInstanceName().String()
	d1, d2 := gen.SHA256Digest(in, data[:h]), gen.SHA256Digest(in, data[h:])
	slices := []slicing.BlobSlice{{Digest: d1, OffsetBytes: 0, SizeBytes: int64(h)}, {Digest: d2, OffsetBytes: int64(h), SizeBytes: int64(len(data) - h)}}
	switch child {
	case d1:
		return buffer.NewValidatedBufferFromByteSlice(append([]byte(nil), data[:h]...)), slices
	case d2:
		return buffer.NewValidatedBufferFromByteSlice(append([]byte(nil), data[h:]...)), slices
	}
	return buffer.NewBufferFromError(status.Error(codes.NotFound, "halfSlicer: no such child")), slices
}

type world struct {
	c    *run.Case
	w    *run.Worker
	sc   *scenario
	reps [2]*replica
	m    blobstore.BlobAccess
	// lostEver[r]: replica r has lost an acknowledged upload earlier in this
	// scenario (faultLose). From then on nothing is asserted about repairs
	// INTO r: a strategy may legitimately remember that it already copied an
	// object there (the queued strategy's existence cache).
	lostEver [2]bool
	// repaired[r][content] = instance names under which the contents were
	// copied into replica r by a repair (coverage bookkeeping only).
	repaired [2]map[int]map[string]bool
}

// build assembles the replicas, places the objects and constructs the real
// mirrored composite. ok=false: the placement could not be established (counted,
// not a verdict).
func build(c *run.Case, w *run.Worker, sc *scenario) (*world, bool) {
	wd := &world{c: c, w: w, sc: sc}
	for i := 0; i < 2; i++ {
		name := string(rune('A' + i))
		if sc.kinds[i] == "model" {
			wd.reps[i] = newModelReplica(name, sc.keyFormat())
		} else {
			lc := sc.lcfg[i]
			lc.hierarchical = sc.keyed
			wd.reps[i] = newLocalReplica(name, lc, sc.hashInit+uint64(i))
		}
		for j, o := range sc.objs {
			wd.reps[i].names[o.d.GetKey(digest.KeyWithInstance)] = fmt.Sprintf("o%d", j)
		}
		wd.repaired[i] = map[int]map[string]bool{}
	}
	if sc.keyed {
		w.Count("scenarios_instance_aware_replicas", 1)
		if wd.reps[0].ls != nil || wd.reps[1].ls != nil {
			w.Count("scenarios_hierarchical_local_replicas", 1)
		}
	}
	for i, r := range wd.reps {
		bit := 1 << i
		if r.ls != nil {
			var ds []digest.Digest
			var datas [][]byte
			for _, o := range sc.objs {
				if o.place&bit != 0 && o.old[i] {
					ds = append(ds, o.d)
					datas = append(datas, o.data)
				}
			}
			if len(ds) > 0 {
				if _, err := r.ls.park(ds, datas, uint64(c.Index)<<8|uint64(i)); err != nil {
					c.Logf("setup: park in %s failed: %v", r.name, err)
					w.Count("setup_failed", 1)
					return nil, false
				}
			}
		}
		for _, o := range sc.objs {
			if o.place&bit != 0 && !(r.ls != nil && o.old[i]) {
				if err := r.place(o.d, o.data); err != nil {
					c.Logf("setup: place in %s failed: %v", r.name, err)
					w.Count("setup_failed", 1)
					return nil, false
				}
			}
		}
	}
	var aToB, bToA replication.BlobReplicator
	if sc.cfgBuilt {
		var err1, err2 error
		aToB, err1 = cfgReplicator(sc.repl[0], wd.reps[0], wd.reps[1], wd.reps[1].kf, 2)
		bToA, err2 = cfgReplicator(sc.repl[1], wd.reps[1], wd.reps[0], wd.reps[0].kf, 2)
		if err1 != nil || err2 != nil {
			// Not C11's business: nothing can be observed (the floors on the
			// configuration-built counters make such a run inconclusive).
			c.Logf("setup: NewBlobReplicatorFromConfiguration failed: A>B %s: %v; B>A %s: %v", replNames[sc.repl[0]], err1, replNames[sc.repl[1]], err2)
			w.Count("setup_failed", 1)
			return nil, false
		}
		w.Count("scenarios_configuration_built_replicators", 1)
	} else {
		aToB = mkReplicator(sc.repl[0], wd.reps[0], wd.reps[1], wd.reps[1].kf, sc.metrics, 2)
		bToA = mkReplicator(sc.repl[1], wd.reps[1], wd.reps[0], wd.reps[0].kf, sc.metrics, 2)
	}
	wd.m = mirrored.NewMirroredBlobAccess(wd.reps[0], wd.reps[1], aToB, bToA)
	for i := 0; i < sc.preRounds; i++ {
		wd.m.GetCapabilities(context.Background(), digest.EmptyInstanceName)
	}
	for i, r := range wd.reps {
		for k, f := range sc.faults {
			if k.replica == i {
				r.faults[k.idx] = f
			}
		}
		r.arm()
	}
	return wd, true
}

// copying reports whether the replicator that copies INTO replica `to` really
// copies (the no-op strategy does not; the repair clauses are not asserted for
// it, as DESIGN.md says).
func (wd *world) copying(to int) bool {
	// repl[0] is A->B (sink B = 1), repl[1] is B->A (sink A = 0).
	return wd.sc.repl[1-to] != replNoop
}

type opResult struct {
	err     error
	data    []byte
	missing digest.Set
	read    bool
	// closeErr: the error was returned by Close() of the io.ReadCloser.
	closeErr bool
	panic    any
	stack    string
	tracker  *model.Tracker
}

func (wd *world) exec(o operation) (res opResult) {
	ctx := context.Background()
	defer func() {
		if p := recover(); p != nil {
			res.panic, res.stack = p, string(debug.Stack())
		}
	}()
	switch o.kind {
	case opGet:
		obj := wd.sc.objs[o.obj]
		b := wd.m.Get(ctx, obj.d)
		if o.abandon {
			b.Discard()
			return
		}
		res.read = true
		res.data, res.err, res.closeErr = consume(b, o.method, o.chunk, obj.d.GetSizeBytes())
	case opGetFromComposite:
		obj := wd.sc.objs[o.obj]
		child := gen.SHA256Digest(obj.d.GetInstanceName().String(), obj.data[:len(obj.data)/2])
		b := wd.m.GetFromComposite(ctx, obj.d, child, halfSlicer{})
		if o.abandon {
			b.Discard()
			return
		}
		res.read = true
		res.data, res.err, res.closeErr = consume(b, o.method, o.chunk, child.GetSizeBytes())
	case opPut:
		obj := wd.sc.objs[o.obj]
		spec := model.SourceSpec{Data: obj.data}
		switch o.upload {
		case 1:
			var ch []int
			for n := len(obj.data); n > 0; {
				k := o.chunk
				if k > n {
					k = n
				}
				ch = append(ch, k)
				n -= k
			}
			spec.Chunks = ch
		case 2:
			spec.FailAt, spec.FailErr = len(obj.data)/2, status.Error(codes.Aborted, "client went away")
		}
		var b buffer.Buffer
		b, res.tracker = model.NewTrackedCASBuffer(obj.d, spec, buffer.UserProvided)
		res.err = wd.m.Put(ctx, obj.d, b)
	case opFindMissing:
		sb := digest.NewSetBuilder(0)
		for _, i := range o.set {
			sb.Add(wd.sc.objs[i].d)
		}
		res.missing, res.err = wd.m.FindMissing(ctx, sb.Build())
	case opGetCapabilities:
		_, res.err = wd.m.GetCapabilities(ctx, digest.EmptyInstanceName)
	}
	return
}

func hasName(err error, replica int) bool {
	return strings.Contains(strings.ToLower(err.Error()), "backend "+string(rune('a'+replica)))
}

// run executes the scenario. It returns the number of calls each replica
// received (used by the exhaustive engine to enumerate failure positions).
func (wd *world) run() [2]int {
	c, w, sc := wd.c, wd.w, wd.sc
	w.Count("scenario_runs", 1)
	for step, o := range sc.ops {
		// ---- pre-state ----
		involved := o.set
		if o.kind == opGet || o.kind == opPut || o.kind == opGetFromComposite {
			involved = []int{o.obj}
		}
		var allAges [][2]int
		for _, ob := range sc.objs {
			allAges = append(allAges, [2]int{wd.reps[0].age(ob.d), wd.reps[1].age(ob.d)})
		}
		from := [2]int{wd.reps[0].logLen(), wd.reps[1].logLen()}
		panicsBefore := wd.reps[0].nSizePanics() + wd.reps[1].nSizePanics()

		wd.reps[0].opStart()
		wd.reps[1].opStart()

		res := wd.exec(o)

		// ---- what the replicas saw ----
		var calls []callRec
		for i := range wd.reps {
			calls = append(calls, wd.reps[i].logFrom(from[i])...)
		}
		sort.Slice(calls, func(i, j int) bool { return calls[i].seq < calls[j].seq })
		first := -1
		if len(calls) > 0 {
			first = int(calls[0].replica[0] - 'A')
		}
		var fired []callRec
		nfFired, withTask := false, false
		// lost[r]: replica r acknowledged an upload during this operation and
		// lost the object at once (faultLose).
		var lost [2]bool
		var cs []string
		for _, cr := range calls {
			cs = append(cs, cr.String())
			if cr.fired != nil {
				switch cr.fired.kind {
				case faultNotFound:
					nfFired = true
				case faultLose:
					lost[cr.replica[0]-'A'] = true
					wd.lostEver[cr.replica[0]-'A'] = true
					w.Count("uploads_acknowledged_then_lost", 1)
				default:
					fired = append(fired, cr)
				}
			}
			if cr.op == "Get" && strings.Contains(cr.bufType, "casBufferWithBackgroundTask") {
				withTask = true
			}
			if cr.op == "Get" && cr.result == "ok" && sc.kinds[cr.replica[0]-'A'] != "model" {
				if strings.Contains(cr.bufType, "casBufferWithBackgroundTask") {
					w.Count("local_get_with_task", 1)
				} else {
					w.Count("local_get_plain", 1)
				}
			}
		}
		pre := func(i int) string {
			return fmt.Sprintf("o%d:A%dB%d", i, allAges[i][0], allAges[i][1])
		}
		var pres []string
		for _, i := range involved {
			pres = append(pres, pre(i))
		}
		outcome := resultOf(res.err)
		if res.panic != nil {
			outcome = fmt.Sprintf("PANIC %v", res.panic)
		}
		c.Logf("step %d %v pre{%s} -> %s | calls: %s", step, o, strings.Join(pres, " "), outcome, strings.Join(cs, " "))
		if res.err != nil {
			c.Logf("        error: %v", res.err)
		}
		opn := "mirroredBlobAccess." + opNames[o.kind]

		// ---- panics (candidate defect P1 shows up here) ----
		if wd.reps[0].nSizePanics()+wd.reps[1].nSizePanics() > panicsBefore {
			// The replicator handed a replica's Put a buffer whose
			// GetSizeBytes() panics: the stream clone of a buffer with a
			// background task (the refresh of a real local store) has lost its
			// digest. With a real local store as the sink this kills the
			// process (panic in the task goroutine).
			w.Count("p1_sink_size_panics", 1)
			c.Violation(sigP1, "%v: the upload buffer handed to the first-consulted replica for the repair panics in GetSizeBytes (a local store calls it first thing in Put, in a goroutine without recover)\n%v", o, strings.Join(cs, "\n"))
			return [2]int{wd.reps[0].nCalls(), wd.reps[1].nCalls()}
		}
		if res.panic != nil {
			if withTask && strings.Contains(res.stack, "digest.Digest.unpack") {
				w.Count("p1_reader_panics", 1)
				c.Violation(sigP1, "%v: reading the buffer returned by the composite panics (%v): the repair read went through a stream clone of a refresh-in-progress buffer, which lost its digest\n%s", o, res.panic, res.stack)
				return [2]int{wd.reps[0].nCalls(), wd.reps[1].nCalls()}
			}
			panic(fmt.Sprintf("%v\n%s", res.panic, res.stack))
		}

		if wd.reps[0].stormed() || wd.reps[1].stormed() {
			c.Violation(opn+":unbounded-replica-calls", "%v made more than %d calls to one replica (the fall-back to the other replica must happen exactly once); first calls: %v", o, wd.reps[0].opLimit, cs[:12])
			return [2]int{wd.reps[0].nCalls(), wd.reps[1].nCalls()}
		}

		// ---- a replica that acknowledges an upload and serves other bytes ----
		for _, rep := range wd.reps {
			if bad := rep.corrupt(); len(bad) > 0 {
				w.Count("local_store_corrupt_puts", 1)
				c.Violation("localStore("+rep.kind+").Put:acknowledged-upload-reads-back-wrong", "%s\n(defect of the replica, not of the mirrored composite; the case is dropped)", strings.Join(bad, "\n"))
				return [2]int{wd.reps[0].nCalls(), wd.reps[1].nCalls()}
			}
		}

		// ---- local stores may displace objects on their own ----
		evicted := false
		for i, ob := range sc.objs {
			for r := 0; r < 2; r++ {
				if allAges[i][r] != 0 && wd.reps[r].age(ob.d) == 0 && !lost[r] {
					evicted = true
				}
			}
		}
		if evicted {
			// Not the composite's doing (BlobAccess has no delete): a local
			// replica rotated the object out. The case can no longer be judged.
			w.Count("aborted_local_eviction", 1)
			return [2]int{wd.reps[0].nCalls(), wd.reps[1].nCalls()}
		}

		nontrivial := len(fired) > 0 || nfFired || withTask || lost[0] || lost[1]
		for _, i := range involved {
			if (allAges[i][0] != 0) != (allAges[i][1] != 0) {
				nontrivial = true
			}
		}
		if nontrivial {
			var fs []string
			for _, f := range fired {
				fs = append(fs, fmt.Sprintf("%s#%d.%s=%v", f.replica, f.idx, f.op, *f.fired))
			}
			keyFirst := first
			if o.kind == opPut || o.kind == opFindMissing {
				keyFirst = -1 // both replicas are called in parallel: the order is a scheduling accident
			}
			w.Distinct(fmt.Sprintf("%v|%v|%v|%d/%d|%v%v|%v|first=%d|%v|nf=%v|lost=%v|%s", sc.kinds, sc.keyed, o, sc.repl[0], sc.repl[1], sc.cfgBuilt, sc.metrics, pres, keyFirst, fs, nfFired, lost, outcome))
		}
		if o.kind == opGet || o.kind == opGetFromComposite || o.kind == opGetCapabilities {
			if first == 0 {
				w.Count("first_consulted_A", 1)
			} else if first == 1 {
				w.Count("first_consulted_B", 1)
			}
		}
		w.Count("ops_"+opNames[o.kind], 1)

		// ---- clause 4: failures are surfaced ----
		if len(fired) > 0 {
			w.Count("ops_with_injected_failure", 1)
			wd.checkSurfaced(o, opn, res, fired, calls, first)
			// A failed operation promises nothing about the contents, except
			// that an acknowledged upload is stored (checked below).
			if !(o.kind == opPut && res.err == nil) {
				continue
			}
		}

		switch o.kind {
		case opGet, opGetFromComposite:
			ob := sc.objs[o.obj]
			want := ob.data
			if o.kind == opGetFromComposite {
				want = ob.data[:len(ob.data)/2]
			}
			if !res.read {
				w.Count("reads_abandoned", 1)
				continue
			}
			if first < 0 {
				c.Violation(opn+":no-replica-consulted", "%v consulted no replica", o)
				continue
			}
			hasFirst, hasSecond := allAges[o.obj][first] != 0, allAges[o.obj][1-first] != 0
			if res.err == nil && string(res.data) != string(want) {
				c.Violation(opn+":wrong-bytes", "%v returned %s, the object is %s", o, gen.Hex8(res.data), gen.Hex8(want))
				continue
			}
			if nfFired {
				// An inconsistent replica (holds the object, says NOT_FOUND):
				// only "no wrong bytes" is asserted.
				w.Count("reads_with_spurious_notfound", 1)
				continue
			}
			if lost[0] || lost[1] {
				// The replica consulted first lacked the object, accepted the
				// repair upload and has lost it again when it is read back (the
				// strategies that copy first and then serve the read from the
				// sink do read it back). The other replica holds the object
				// before, during and after the read, so by "A read returns the
				// object whenever at least one replica holds it" the read may
				// not claim NOT_FOUND; the code answers with an INTERNAL error
				// ("Blob absent from sink after replication"), which, the loss
				// being a replica failure ("surfaced as an error ..., never as
				// NOT_FOUND"), is accepted. Which backend that error names and
				// whether the first replica ends up repaired is measured only.
				w.Count("reads_with_repair_upload_lost", 1)
				stillHeld := wd.reps[0].has(ob.d) || wd.reps[1].has(ob.d)
				switch {
				case res.err == nil:
					w.Count("reads_ok_although_repair_upload_lost", 1)
				case status.Code(res.err) == codes.NotFound && (hasFirst || hasSecond) && stillHeld:
					c.Violation(opn+":replica-that-lost-the-repair-upload-surfaced-as-NOT_FOUND", "%v failed with NOT_FOUND (%v) although replica %c holds the object all along; replica %c accepted the repair upload and lost it again, which is a failure of that replica, not absence of the object", o, res.err, 'A'+1-first, 'A'+first)
				case status.Code(res.err) == codes.NotFound:
					w.Count("reads_notfound_after_loss_nobody_holds", 1)
				case hasName(res.err, 0) || hasName(res.err, 1):
					w.Count("reads_failed_after_repair_upload_lost_naming_a_backend", 1)
				default:
					w.Count("reads_failed_after_repair_upload_lost_without_backend_name", 1)
				}
				continue
			}
			switch {
			case hasFirst || hasSecond:
				if res.err != nil {
					if status.Code(res.err) == codes.NotFound {
						c.Violation(opn+":NOT_FOUND-although-a-replica-holds-it", "%v failed with %v although the object is held (first consulted %c: %v, other: %v)", o, res.err, 'A'+first, hasFirst, hasSecond)
					} else {
						c.Violation(opn+":failed-although-a-replica-holds-it", "%v failed with %v although no replica failed and the object is held (first consulted %c: %v, other: %v)", o, res.err, 'A'+first, hasFirst, hasSecond)
					}
					continue
				}
				w.Count("reads_ok", 1)
				if hasFirst {
					w.Count("reads_served_by_first", 1)
					continue
				}
				w.Count("reads_served_by_second", 1)
				if !wd.copying(first) {
					w.Count("reads_noop_no_repair_expected", 1)
					continue
				}
				if wd.lostEver[first] {
					w.Count("repairs_not_asserted_after_loss", 1)
					continue
				}
				wd.noteRepair(first, ob)
				if ok, why := wd.reps[first].bytesOK(ob.d, ob.data, false); !ok {
					c.Violation(opn+":first-consulted-replica-not-repaired", "%v succeeded through replica %c, but the replica consulted first (%c) still lacks the object afterwards (%s)", o, 'A'+1-first, 'A'+first, why)
				} else {
					w.Count("reads_repaired_first", 1)
					if allAges[o.obj][1-first] == 2 {
						w.Count("reads_repaired_from_old_block", 1)
					}
					if withTask {
						// The replicator read the object from a replica whose
						// Get returned a refresh-in-progress buffer.
						w.Count("reads_repaired_from_task_buffer", 1)
					}
				}
			default:
				if res.err == nil {
					c.Violation(opn+":success-although-no-replica-holds-it", "%v returned data although neither replica holds the object", o)
				} else if status.Code(res.err) == codes.NotFound {
					w.Count("reads_notfound_both_missing", 1)
				} else {
					// The statement does not say which error both-missing
					// yields; measured only.
					w.Count("reads_both_missing_other_code", 1)
				}
			}

		case opPut:
			ob := sc.objs[o.obj]
			if res.tracker != nil && res.tracker.Closes() != 1 {
				w.Count("upload_source_close_count_not_1", 1) // C04's business; measured only
			}
			if res.err != nil {
				w.Count("puts_failed", 1)
				if len(fired) == 0 && o.upload != 2 {
					w.Count("puts_failed_without_cause", 1)
					c.Logf("        (upload failed without an injected cause)")
				}
				continue
			}
			w.Count("puts_ok", 1)
			for r := 0; r < 2; r++ {
				if lost[r] {
					// The upload did reach the replica; the replica lost it.
					w.Count("puts_ok_then_lost_by_replica", 1)
					continue
				}
				if ok, why := wd.reps[r].bytesOK(ob.d, ob.data, false); !ok {
					c.Violation(opn+":acknowledged-but-replica-lacks-object", "%v returned nil but replica %c does not hold the object afterwards (%s)", o, 'A'+r, why)
				}
			}

		case opFindMissing:
			if res.err != nil {
				if nfFired && status.Code(res.err) == codes.NotFound {
					c.Violation(opn+":inconsistent-replica-surfaced-as-NOT_FOUND", "%v failed with NOT_FOUND (%v): a replica that reported the object present and then could not deliver it is a replica failure, and an existence check has no NOT_FOUND outcome", o, res.err)
				} else if nfFired {
					w.Count("findmissing_inconsistent_replica_seen", 1)
				} else {
					w.Count("findmissing_failed_without_cause", 1)
				}
				continue
			}
			w.Count("findmissing_ok", 1)
			// Digests are matched with their instance name: the same contents
			// under two instance names are two entries of a request and, for
			// replicas that distinguish instance names, two objects.
			reported := map[string]bool{}
			for _, d := range res.missing.Items() {
				reported[d.GetKey(digest.KeyWithInstance)] = true
			}
			inSet := map[string]bool{}
			for _, i := range o.set {
				ob := sc.objs[i]
				k := ob.d.GetKey(digest.KeyWithInstance)
				inSet[k] = true
				a, b := allAges[i][0] != 0, allAges[i][1] != 0
				if reported[k] && (a || b) {
					c.Violation(opn+":reported-missing-although-a-replica-holds-it", "%v reported o%d missing although it is held (A: %v, B: %v)", o, i, a, b)
				}
				if !reported[k] && !a && !b {
					c.Violation(opn+":reported-present-although-no-replica-holds-it", "%v did not report o%d missing although neither replica holds it", o, i)
				}
				if a != b {
					w.Count("findmissing_one_sided_objects", 1)
					to := 0
					if a {
						to = 1
					}
					if !wd.copying(to) {
						w.Count("findmissing_noop_no_copy_expected", 1)
						continue
					}
					if wd.lostEver[to] {
						w.Count("repairs_not_asserted_after_loss", 1)
						continue
					}
					wd.noteRepair(to, ob)
					if ok, why := wd.reps[to].bytesOK(ob.d, ob.data, false); !ok {
						c.Violation(opn+":succeeded-without-equalising-replicas", "%v succeeded, o%d was held by replica %c only, and replica %c still lacks it afterwards (%s)", o, i, 'A'+1-to, 'A'+to, why)
					} else {
						w.Count("findmissing_copied", 1)
						if allAges[i][1-to] == 2 {
							w.Count("findmissing_copied_from_old_block", 1)
						}
					}
				}
			}
			for k := range reported {
				if !inSet[k] {
					c.Violation(opn+":reported-digest-not-asked-for", "%v reported a digest that was not part of the request", o)
				}
			}

		case opGetCapabilities:
			if res.err != nil {
				w.Count("getcapabilities_failed_without_cause", 1)
			}
		}
	}

	// ---- final contents (reads through local stores are allowed now) ----
	for i, ob := range sc.objs {
		for r := 0; r < 2; r++ {
			if wd.reps[r].has(ob.d) {
				if ok, why := wd.reps[r].bytesOK(ob.d, ob.data, true); !ok {
					c.Violation("mirroredBlobAccess:replica-holds-wrong-bytes", "at the end replica %c holds o%d with wrong content: %s", 'A'+r, i, why)
				}
			}
		}
	}
	for r := 0; r < 2; r++ {
		if wd.reps[r].ls != nil && wd.reps[r].ls.errs.count() > 0 {
			w.Count("local_store_error_log_lines", int64(wd.reps[r].ls.errs.count()))
		}
	}
	return [2]int{wd.reps[0].nCalls(), wd.reps[1].nCalls()}
}

// noteRepair is coverage bookkeeping: a repair INTO replica `to` is due for the
// object. It counts the "sibling repairs": repairs of contents that were
// already copied into the same replica under ANOTHER instance name earlier in
// the scenario (..._keyed: the replicas distinguish instance names; ..._cfg:
// configuration-built replicators; ..._queued: the queued strategy) - the
// history in which a strategy that remembers what it copied (queued: existence
// cache; deduplicating: in-flight map) must key its memory the way the sink
// keys its objects.
func (wd *world) noteRepair(to int, ob object) {
	in := ob.d.GetInstanceName().String()
	m := wd.repaired[to][ob.content]
	if m == nil {
		m = map[string]bool{}
		wd.repaired[to][ob.content] = m
	}
	if !m[in] && len(m) > 0 {
		wd.w.Count("sibling_repairs", 1)
		if wd.sc.keyed {
			wd.w.Count("sibling_repairs_keyed", 1)
			if wd.sc.cfgBuilt {
				wd.w.Count("sibling_repairs_keyed_cfg", 1)
				if wd.sc.repl[1-to] == replQueued {
					wd.w.Count("sibling_repairs_keyed_cfg_queued", 1)
				}
			}
		}
	}
	m[in] = true
}

// checkSurfaced: "Any replica failure other than NOT_FOUND is surfaced as an
// error naming the replica, never as NOT_FOUND and never as a successful but
// incomplete answer."
func (wd *world) checkSurfaced(o operation, opn string, res opResult, fired, calls []callRec, first int) {
	c, w := wd.c, wd.w
	var fs []string
	for _, f := range fired {
		fs = append(fs, f.String())
	}
	if (o.kind == opGet || o.kind == opGetFromComposite) && !res.read {
		w.Count("reads_abandoned", 1)
		return
	}
	if res.err == nil {
		c.Violation(opn+":replica-failure-masked-as-success", "%v succeeded although a replica failed during it: %v", o, fs)
		return
	}
	if status.Code(res.err) == codes.NotFound && (o.kind == opGet || o.kind == opGetFromComposite) {
		// Both replicas answered this very read with NOT_FOUND (genuinely, or as
		// an inconsistent replica: NOT_FOUND failures are outside this clause)
		// before anything else failed: the answer is theirs. (The local and queued
		// replicators then still "replicate" the absent object; errorBuffer's
		// WithTask runs that task and drops its result, so a failure of those
		// pointless calls changes nothing.)
		genuine := map[string]bool{}
		for _, cr := range calls {
			if (cr.op == "Get" || cr.op == "GetFromComposite") && (cr.fired == nil && cr.result == "notfound" || cr.fired != nil && cr.fired.kind == faultNotFound) {
				genuine[cr.replica] = true
			}
		}
		if genuine["A"] && genuine["B"] {
			w.Count("failures_after_genuine_notfound_from_both", 1)
			return
		}
	}
	if status.Code(res.err) == codes.NotFound {
		c.Violation(opn+":replica-failure-surfaced-as-NOT_FOUND", "%v failed with NOT_FOUND (%v) although the replica failure was %v", o, res.err, fs)
		return
	}
	if !hasName(res.err, 0) && !hasName(res.err, 1) {
		if res.closeErr {
			// The failure of the background replication reaches the caller as
			// the result of Close() on the reader, a path that does not pass
			// through the composite's error handler.
			w.Count("close_errors_without_backend_name", 1)
			c.Violation(opn+"(ToReader):failure-returned-by-Close-without-backend-name", "%v: Close() of the reader returned %q, which names no backend; failures: %v", o, res.err.Error(), fs)
			return
		}
		c.Violation(opn+":replica-failure-without-backend-name", "%v failed with %q, which names no backend; failures: %v", o, res.err.Error(), fs)
		return
	}
	w.Count("failures_surfaced", 1)
	// Which replica must be named is asserted only where it is unambiguous.
	failed := map[int]bool{}
	for _, f := range fired {
		failed[int(f.replica[0]-'A')] = true
	}
	if len(failed) != 1 {
		w.Count("failures_on_both_replicas", 1)
		return
	}
	var r int
	for k := range failed {
		r = k
	}
	unambiguous := false
	switch o.kind {
	case opPut:
		// An upload whose own source fails makes both replicas fail.
		unambiguous = o.upload != 2
	case opGetCapabilities:
		unambiguous = true
	case opFindMissing:
		// Only the replica's own FindMissing call of phase one; failures in the
		// synchronisation phase are reported as "from backend X to backend Y".
		unambiguous = true
		for _, f := range fired {
			firstOnReplica := true
			for _, cr := range calls {
				if cr.replica == f.replica && cr.seq < f.seq {
					firstOnReplica = false
				}
			}
			if f.op != "FindMissing" || !firstOnReplica {
				unambiguous = false
			}
		}
	case opGet, opGetFromComposite:
		// The first call of the operation is the first-consulted replica's own
		// read; every call on the other replica is part of the fall-back read.
		// A failure of the first-consulted replica while it acts as the SINK
		// of the repair is reported under the other replica's name by the
		// code; the statement does not say whose name a failed repair carries,
		// so that is measured only.
		if r == first {
			unambiguous = len(fired) == 1 && fired[0].seq == calls[0].seq
			if !unambiguous {
				if !hasName(res.err, r) {
					w.Count("sink_failure_reported_under_source_name", 1)
				}
			}
		} else {
			unambiguous = true
		}
	}
	if !unambiguous {
		w.Count("failures_naming_not_asserted", 1)
		return
	}
	if !hasName(res.err, r) {
		c.Violation(opn+":replica-failure-names-wrong-backend", "%v failed with %q after replica %c failed (%v); the error does not name backend %c", o, res.err.Error(), 'A'+r, fs, 'A'+r)
		return
	}
	w.Count("failures_named_correctly", 1)
}
