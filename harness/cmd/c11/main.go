//verif:race

// C11 — mirrored storage: writes reach both replicas, reads repair, errors are
// not masked.
//
// Monitor: the REAL mirrored.NewMirroredBlobAccess over two replicas, with the
// REAL replicators (local, deduplicating, concurrency-limiting, queued, no-op;
// assembled by hand, optionally inside the metrics decorator, or built by
// configuration.NewBlobReplicatorFromConfiguration from configuration messages
// like production does). A replica is either a harness model store (keyed with
// or without the instance name) or a real local store (flat or hierarchical)
// assembled from bb-storage's exported constructors (localstore.go), always
// behind a recording / failure-injecting decorator (replica.go). After every
// operation the result, the calls each replica saw and the contents of both
// replicas are compared with what the statement of C11 demands (scenario.go).
//
// Engines (groups):
//
//	enum  - exhaustive small scope: every placement x every operation sequence
//	        up to a bound x every replicator x a failure (every code, early and
//	        late; spurious NOT_FOUND; acknowledged upload lost) at EVERY call
//	        either replica receives in that sequence.
//	seq   - random sequential scenarios over model replicas: several objects,
//	        mixed replicators per direction, up to two failures, inconsistent
//	        replicas (spurious NOT_FOUND), all consumption methods.
//	inst  - the same contents under several instance names, each with its own
//	        placement, over replicas that distinguish instance names (model
//	        stores keyed with the instance name, hierarchical local stores),
//	        replicators mostly built by the configuration layer.
//	local - the same as seq with real local stores as replicas; objects parked in
//	        "old" blocks so that the replica's Get returns a buffer with the
//	        refresh running as a background task.
//	conc  - concurrent clients under the race detector; schedule-independent
//	        clauses only.
//
// Three genuine defects were found with it on the snapshot (each has its own
// signature; see the comments at the places that report them):
//
//   - sigP1 (scenario.go): the stream clone of a refresh-in-progress buffer has
//     no digest; the repair Put of the local replicator panics in GetSizeBytes.
//   - "localStore(localInMemory).Put:acknowledged-upload-reads-back-wrong"
//     (replica.go): inMemoryBlock.Put loses reader-backed uploads placed in the
//     last 511 bytes of a block (bytes.Buffer.ReadFrom reallocates).
//   - "mirroredBlobAccess.Get(ToReader):failure-returned-by-Close-without-backend-name"
//     (scenario.go): a failed background replication reaches the caller through
//     Close() of the io.ReadCloser, past the composite's error handler.
package main

import (
	"fmt"
	"hash/fnv"
	"runtime/debug"
	"sort"
	"strings"
	"sync"
	"time"

	"github.com/buildbarn/bb-storage/pkg/digest"
	"google.golang.org/grpc/codes"

	"verif/lib/gen"
	"verif/lib/run"
)

var faultCodes = []codes.Code{codes.Unavailable, codes.Internal, codes.DeadlineExceeded, codes.InvalidArgument}

var instanceNames = []string{"", "x", "a/b"}

func main() {
	run.Main(run.Spec{
		Property: "C11",
		Level:    "fault_enumeration",
		Rule: "enum: base = (replicator strategy, placement of one object in {neither,A,B,both}, alternation offset, operation sequence over {Get,Put,FindMissing,GetCapabilities} up to length 2 (quick) / 3 (thorough)); each base is run fault-free and then once per (replica, call index the replica really receives, code in {UNAVAILABLE,INTERNAL,DEADLINE_EXCEEDED,INVALID_ARGUMENT}, early|late). " +
			"seq/local: PRNG scenarios (1-4 objects, placement per object, replicator per direction, 1-8 operations incl. GetFromComposite, 0-2 failures incl. spurious NOT_FOUND, 6 ways of consuming a read); local uses assembled real local stores with objects parked in old blocks. conc: 2-6 concurrent clients. " +
			"distinct = hash of (replica kinds and key format, operation, replicators and how they were built, pre-state of the objects involved, first-consulted replica, failures that fired, outcome) per OPERATION; non-trivial = the replicas differed on an involved object, or a failure fired, or a replica returned a buffer with a background task; for conc = hash of the totally ordered replica call log",
		Workers:     8,
		CaseTimeout: 90 * time.Second,
		Race:        true,
		Floors: map[string]int64{
			"scenario_runs":                         5000,
			"reads_repaired_first":                  450,
			"reads_served_by_first":                 1500,
			"reads_notfound_both_missing":           800,
			"puts_ok":                               1500,
			"findmissing_copied":                    800,
			"failures_surfaced":                     4000,
			"failures_named_correctly":              3500,
			"first_consulted_A":                     3000,
			"first_consulted_B":                     3000,
			"local_get_with_task":                   90,
			"reads_repaired_from_old_block":         20,
			"reads_repaired_from_task_buffer":       8,
			"findmissing_copied_from_old_block":     60,
			"reads_with_spurious_notfound":          60,
			"findmissing_inconsistent_replica_seen": 20,
			"conc_ops":                              900,
			"conc_quiescent_both_hold":              200,
			"enum_bases":                            160,
			"enum_failure_positions":                4000,
			// acknowledged-upload-lost fault kind
			"enum_lost_upload_positions":                             500,
			"uploads_acknowledged_then_lost":                         500,
			"reads_with_repair_upload_lost":                          30,
			"reads_failed_after_repair_upload_lost_naming_a_backend": 12,
			// configuration-built replicators, instance-aware replicas, the same
			// contents under several instance names
			"scenarios_configuration_built_replicators": 2500,
			"scenarios_instance_aware_replicas":         2000,
			"scenarios_hierarchical_local_replicas":     150,
			"sibling_repairs_keyed_cfg":                 100,
			"sibling_repairs_keyed_cfg_queued":          20,
		},
		Assumptions: []string{
			"a replica 'holds' an object when its own lookup finds it (model store: map entry; local store: key-location map resolves); objects a local store displaces on its own are not the composite's doing (such cases are dropped and counted)",
			"the repair clauses are not asserted in the direction served by the no-op replicator",
			"which backend an error must name is asserted only where it is unambiguous: the first-consulted replica's own read, any call on the other replica during a read, a replica's own Put / FindMissing / GetCapabilities",
			"an existence check is exact when nothing fails (an object neither replica holds must be reported missing), and has no NOT_FOUND outcome",
			"a replica that acknowledged an upload and lost the object (fault kind acceptThenLose) has failed: a read during which that happens must not end in NOT_FOUND while the other replica holds the object, but may fail with any other code; from then on no repair INTO that replica is asserted (a strategy may remember that it copied the object there)",
			"for replicas that distinguish instance names an object is (contents, instance name); 'holds' follows the replica's own lookup (a hierarchical local store shows an object under every name that has the upload's name as a prefix)",
			"the buffer a replica's Put receives must support GetSizeBytes (the local store calls it first); the monitor calls it under recover so that candidate defect P1 is reported with its own signature instead of killing the worker",
		},
		Body: body,
	})
}

func body(w *run.Worker) {
	enumEngine(w)
	seqEngine(w)
	instEngine(w)
	localEngine(w)
	concEngine(w)
}

// ---------------------------------------------------------------------------

func mkObject(tag, id uint64, size int, inst string) object {
	data := gen.UniqueBlob(tag, id, size)
	return object{data: data, d: gen.SHA256Digest(inst, data), content: int(id)}
}

// sameContents returns object `of` under another instance name: "the same
// contents under two instance names" (two tenants uploading the same file).
// For replicas keyed without the instance name it is the same object, for
// replicas that distinguish instance names it is a second, independent one.
func sameContents(r *gen.Rng, of object, names []string) object {
	for {
		in := names[r.Intn(len(names))]
		if in != of.d.GetInstanceName().String() {
			return object{data: of.data, d: gen.SHA256Digest(in, of.data), content: of.content}
		}
	}
}

// addObject appends a fresh object or, one time in `aliasOneIn`, the contents
// of an earlier object under another instance name (never a duplicate digest).
func addObject(r *gen.Rng, sc *scenario, fresh object, names []string, aliasOneIn int) *object {
	o := fresh
	if len(sc.objs) > 0 && r.Chance(1, aliasOneIn) {
		o = sameContents(r, sc.objs[r.Intn(len(sc.objs))], names)
		for _, p := range sc.objs {
			if p.d == o.d {
				o = fresh
				break
			}
		}
	}
	sc.objs = append(sc.objs, o)
	return &sc.objs[len(sc.objs)-1]
}

func randomOps(r *gen.Rng, nobj, n int, composite bool) []operation {
	var ops []operation
	for i := 0; i < n; i++ {
		o := operation{obj: r.Intn(nobj), method: r.Intn(len(consumeNames)), chunk: r.Pick(1, 3, 7, 64, 65536)}
		switch k := r.Intn(20); {
		case k < 8:
			o.kind = opGet
			o.abandon = r.Chance(1, 12)
		case k < 10:
			o.kind = opGetFromComposite
			if !composite {
				o.kind = opGet
			}
		case k < 13:
			o.kind = opPut
			o.upload = r.Pick(0, 0, 1, 1, 2)
		case k < 18:
			o.kind = opFindMissing
			for j := 0; j < nobj; j++ {
				if r.Chance(2, 3) {
					o.set = append(o.set, j)
				}
			}
		default:
			o.kind = opGetCapabilities
		}
		ops = append(ops, o)
	}
	return ops
}

func randomFaults(r *gen.Rng, sc *scenario, maxIdx int) {
	sc.faults = map[faultKey]fault{}
	n := r.Pick(0, 0, 1, 1, 1, 2)
	for i := 0; i < n; i++ {
		f := fault{code: faultCodes[r.Intn(len(faultCodes))]}
		switch k := r.Intn(12); {
		case k < 5:
			f.kind = faultEarly
		case k < 8:
			f.kind = faultLate
		case k < 10:
			f.kind = faultNotFound
		default:
			f.kind = faultLose
		}
		sc.faults[faultKey{r.Intn(2), r.Intn(maxIdx)}] = f
	}
}

func randomRepl(r *gen.Rng, sc *scenario) {
	sc.repl[0] = r.Intn(replKinds)
	sc.repl[1] = sc.repl[0]
	if r.Chance(1, 3) {
		sc.repl[1] = r.Intn(replKinds)
	}
	sc.metrics = r.Chance(1, 3)
	sc.preRounds = r.Intn(2)
	sc.cfgBuilt = r.Chance(1, 2)
	sc.keyed = r.Chance(1, 3)
}

// ---- seq -------------------------------------------------------------------

func seqEngine(w *run.Worker) {
	w.Cases("seq", w.N(4000, 100000), func(c *run.Case) {
		r := c.Rng
		sc := &scenario{kinds: [2]string{"model", "model"}}
		randomRepl(r, sc)
		nobj := r.Range(1, 4)
		for i := 0; i < nobj; i++ {
			o := addObject(r, sc, mkObject(uint64(c.Index)<<4|uint64(w.Index), uint64(i), r.Pick(0, 1, 2, 5, 17, 40, 200), instanceNames[r.Intn(len(instanceNames))]), instanceNames, 4)
			o.place = r.Intn(4)
		}
		sc.ops = randomOps(r, nobj, r.Range(1, 8), true)
		randomFaults(r, sc, 14)
		c.Desc("%v", sc)
		if c.Index == 0 {
			w.Sample(map[string]any{"engine": "seq", "scenario": sc.String()})
		}
		if wd, ok := build(c, w, sc); ok {
			wd.run()
		}
	})
}

// ---- inst -------------------------------------------------------------------

// tenantNames: instance names with and without a common prefix ("a" is a
// parent of "a/b": a hierarchical local store shows an object of "a" under
// "a/b" as well; "" is a parent of every name).
var tenantNames = []string{"", "x", "a", "a/b", "tenant-two"}

// instEngine: "all initial placements of each object" where the objects are
// the SAME contents under several instance names, over replicas that (mostly)
// distinguish instance names, with the replicators (mostly) built by the
// configuration layer. Every instance name of the contents has its own
// placement; the operations visit them one after the other, so that a strategy
// that remembers what it copied meets contents it knows under a name it does
// not know.
func instEngine(w *run.Worker) {
	w.Cases("inst", w.N(2400, 60000), func(c *run.Case) {
		r := c.Rng
		sc := &scenario{kinds: [2]string{"model", "model"}, hashInit: r.Uint64()}
		if r.Chance(1, 3) {
			for i := 0; i < 2; i++ {
				sc.kinds[i] = []string{"model", "localInMemory", "localOnDevice"}[r.Intn(3)]
				k := blocksOnDevice
				if sc.kinds[i] == "localInMemory" {
					k = blocksInMemory
				}
				sc.lcfg[i] = localCfg{kind: k, blockSize: 1024, old: r.Range(3, 5), current: r.Range(1, 2), newB: r.Range(1, 2), records: 1021}
			}
		}
		randomRepl(r, sc)
		sc.keyed = r.Chance(5, 6)
		sc.cfgBuilt = r.Chance(2, 3)
		ncontents := r.Range(1, 2)
		nobj := r.Range(2, 4)
		for i := 0; i < nobj; i++ {
			fresh := mkObject(uint64(c.Index)<<4|uint64(w.Index)|1<<42, uint64(i%ncontents), r.Pick(1, 5, 17, 40), tenantNames[r.Intn(len(tenantNames))])
			if i >= ncontents {
				fresh = sameContents(r, sc.objs[i%ncontents], tenantNames)
			}
			dup := false
			for _, p := range sc.objs {
				dup = dup || p.d == fresh.d
			}
			if dup {
				continue
			}
			fresh.place = r.Pick(0, 1, 1, 1, 2, 2, 2, 3)
			fresh.old = [2]bool{r.Chance(1, 3), r.Chance(1, 3)}
			sc.objs = append(sc.objs, fresh)
		}
		sc.ops = randomOps(r, len(sc.objs), r.Range(2, 7), true)
		sc.faults = map[faultKey]fault{}
		if r.Chance(1, 4) {
			randomFaults(r, sc, 12)
		}
		c.Desc("%v", sc)
		if c.Index == 0 {
			w.Sample(map[string]any{"engine": "inst", "scenario": sc.String()})
		}
		if wd, ok := build(c, w, sc); ok {
			wd.run()
		}
	})
}

// ---- local -----------------------------------------------------------------

func localEngine(w *run.Worker) {
	w.Cases("local", w.N(1600, 30000), func(c *run.Case) {
		r := c.Rng
		sc := &scenario{hashInit: r.Uint64()}
		for {
			for i := 0; i < 2; i++ {
				sc.kinds[i] = []string{"model", "localInMemory", "localOnDevice", "localOnDevice", "localOnDevice"}[r.Intn(5)]
			}
			if sc.kinds[0] != "model" || sc.kinds[1] != "model" {
				break
			}
		}
		for i := 0; i < 2; i++ {
			k := blocksOnDevice
			if sc.kinds[i] == "localInMemory" {
				k = blocksInMemory
			}
			sc.lcfg[i] = localCfg{kind: k, blockSize: 1024, old: r.Range(3, 5), current: r.Range(1, 2), newB: r.Range(1, 2), records: 1021}
		}
		randomRepl(r, sc)
		nobj := r.Range(1, 4)
		for i := 0; i < nobj; i++ {
			o := addObject(r, sc, mkObject(uint64(c.Index)<<4|uint64(w.Index)|1<<40, uint64(i), r.Pick(1, 2, 5, 17, 40), instanceNames[r.Intn(len(instanceNames))]), instanceNames, 4)
			o.place = r.Pick(0, 1, 1, 2, 2, 3)
			o.old = [2]bool{r.Chance(2, 3), r.Chance(2, 3)}
		}
		sc.ops = randomOps(r, nobj, r.Range(1, 6), true)
		sc.faults = map[faultKey]fault{}
		if r.Chance(1, 3) {
			randomFaults(r, sc, 10)
		}
		c.Desc("%v", sc)
		if c.Index == 0 {
			w.Sample(map[string]any{"engine": "local", "scenario": sc.String()})
		}
		if wd, ok := build(c, w, sc); ok {
			for _, o := range sc.objs {
				for rr := 0; rr < 2; rr++ {
					if wd.reps[rr].ls != nil && wd.reps[rr].age(o.d) == 2 {
						w.Count("local_objects_parked_old", 1)
					}
				}
			}
			wd.run()
		}
	})
}

// ---- enum ------------------------------------------------------------------

type enumBase struct {
	repl, place, pre int
	seq              []int
}

func enumBases(maxLen int) []enumBase {
	var seqs [][]int
	var rec func(cur []int)
	rec = func(cur []int) {
		if len(cur) > 0 {
			seqs = append(seqs, append([]int(nil), cur...))
		}
		if len(cur) == maxLen {
			return
		}
		for _, k := range []int{opGet, opPut, opFindMissing, opGetCapabilities} {
			rec(append(cur, k))
		}
	}
	rec(nil)
	var out []enumBase
	for repl := 0; repl < replKinds; repl++ {
		for place := 0; place < 4; place++ {
			for pre := 0; pre < 2; pre++ {
				for _, s := range seqs {
					out = append(out, enumBase{repl, place, pre, s})
				}
			}
		}
	}
	return out
}

func enumEngine(w *run.Worker) {
	maxLen := 2
	if w.Thorough() {
		maxLen = 3
	}
	all := enumBases(maxLen)
	var mine []enumBase
	for i, b := range all {
		if i%w.Workers == w.Index {
			mine = append(mine, b)
		}
	}
	w.Cases("enum", len(mine), func(c *run.Case) {
		b := mine[c.Index]
		mk := func(faults map[faultKey]fault) *scenario {
			sc := &scenario{kinds: [2]string{"model", "model"}, repl: [2]int{b.repl, b.repl}, preRounds: b.pre, faults: faults}
			o := mkObject(0xe11, 1, 23, "x")
			o.place = b.place
			ghost := mkObject(0xe11, 2, 9, "x") // never stored anywhere
			sc.objs = []object{o, ghost}
			for i, k := range b.seq {
				op := operation{kind: k, obj: 0, method: i % len(consumeNames), chunk: 5}
				if k == opFindMissing {
					op.set = []int{0, 1}
				}
				sc.ops = append(sc.ops, op)
			}
			return sc
		}
		base := mk(nil)
		c.Desc("enum base %v, then every failure position", base)
		w.Count("enum_bases", 1)
		if c.Index == 0 {
			w.Sample(map[string]any{"engine": "enum", "base": base.String()})
		}
		wd, ok := build(c, w, base)
		if !ok {
			return
		}
		n := wd.run()
		if wd.reps[0].stormed() || wd.reps[1].stormed() {
			return // already reported; the failure positions would be meaningless
		}
		// The calls of the fault-free run that were acknowledged uploads: the
		// positions at which "accepts the Put, then has lost the object" acts.
		ackedPut := [2]map[int]bool{{}, {}}
		for rep := 0; rep < 2; rep++ {
			for _, cr := range wd.reps[rep].logFrom(0) {
				if cr.op == "Put" && cr.result == "ok" {
					ackedPut[rep][cr.idx] = true
				}
			}
		}
		for rep := 0; rep < 2; rep++ {
			for idx := 0; idx < n[rep]; idx++ {
				for _, code := range faultCodes {
					for _, kind := range []int{faultEarly, faultLate} {
						sc := mk(map[faultKey]fault{{rep, idx}: {kind: kind, code: code}})
						c.Logf("=== %v", sc.faultString())
						if wd, ok := build(c, w, sc); ok {
							wd.run()
						}
						w.Count("enum_failure_positions", 1)
					}
				}
				// The replica pretends not to hold the object at this call
				// (acts on Get calls of a replica that holds it).
				sc := mk(map[faultKey]fault{{rep, idx}: {kind: faultNotFound}})
				c.Logf("=== %v", sc.faultString())
				if wd, ok := build(c, w, sc); ok {
					wd.run()
				}
				// The replica stores and acknowledges the upload of this call and
				// has lost the object when it is looked up next.
				if ackedPut[rep][idx] {
					sc := mk(map[faultKey]fault{{rep, idx}: {kind: faultLose}})
					c.Logf("=== %v", sc.faultString())
					if wd, ok := build(c, w, sc); ok {
						wd.run()
					}
					w.Count("enum_lost_upload_positions", 1)
				}
			}
		}
	})
	w.Exhaustive(fmt.Sprintf("enum: placements x sequences(len<=%d) x replicators x alternation offset x every reachable failure position x (4 codes x early/late, spurious NOT_FOUND, acknowledged upload lost)", maxLen), true)
}

// ---- conc ------------------------------------------------------------------

type concRec struct {
	client  int
	op      operation
	err     error
	data    []byte
	missing digest.Set
	panic   any
	stack   string
}

func concEngine(w *run.Worker) {
	w.Cases("conc", w.N(320, 6000), func(c *run.Case) {
		r := c.Rng
		sc := &scenario{kinds: [2]string{"model", "model"}, hashInit: r.Uint64(), faults: map[faultKey]fault{}}
		if r.Chance(1, 3) {
			for i := 0; i < 2; i++ {
				sc.kinds[i] = []string{"model", "localInMemory", "localOnDevice", "localOnDevice"}[r.Intn(4)]
				k := blocksOnDevice
				if sc.kinds[i] == "localInMemory" {
					k = blocksInMemory
				}
				sc.lcfg[i] = localCfg{kind: k, blockSize: 4096, old: 4, current: 1, newB: 1, records: 1021}
			}
		}
		randomRepl(r, sc)
		nobj := r.Range(1, 3)
		for i := 0; i < nobj; i++ {
			o := addObject(r, sc, mkObject(uint64(c.Index)<<4|uint64(w.Index)|1<<41, uint64(i), r.Pick(1, 3, 16), instanceNames[r.Intn(len(instanceNames))]), instanceNames, 4)
			o.place = r.Intn(4)
			o.old = [2]bool{r.Bool(), r.Bool()}
		}
		clients := r.Range(2, 6)
		c.Desc("conc clients=%d %v", clients, sc)
		wd, ok := build(c, w, sc)
		if !ok {
			return
		}
		allModel := sc.kinds[0] == "model" && sc.kinds[1] == "model"
		wd.reps[0].opLimit, wd.reps[1].opLimit = 20000, 20000
		for _, rep := range wd.reps {
			yr := r.Fork()
			var mu sync.Mutex
			rep.yield = func() int {
				mu.Lock()
				defer mu.Unlock()
				return yr.Intn(4)
			}
		}
		initial := make([][2]bool, nobj)
		for i, o := range sc.objs {
			initial[i] = [2]bool{wd.reps[0].has(o.d), wd.reps[1].has(o.d)}
		}
		recs := make([][]concRec, clients)
		var wg sync.WaitGroup
		start := make(chan struct{})
		for cl := 0; cl < clients; cl++ {
			ops := randomOps(r.Fork(), nobj, r.Range(2, 6), false)
			wg.Add(1)
			go func(cl int, ops []operation) {
				defer wg.Done()
				<-start
				for _, o := range ops {
					o.abandon = false
					if o.kind == opPut {
						o.upload = o.upload % 2
					}
					rec := concRec{client: cl, op: o}
					func() {
						defer func() {
							if p := recover(); p != nil {
								rec.panic, rec.stack = p, string(debug.Stack())
							}
						}()
						res := wd.exec(o)
						rec.err, rec.data, rec.missing, rec.panic, rec.stack = res.err, res.data, res.missing, res.panic, res.stack
					}()
					recs[cl] = append(recs[cl], rec)
					if rec.panic != nil {
						return
					}
				}
			}(cl, ops)
		}
		close(start)
		wg.Wait()

		// Interleaving signature.
		var calls []callRec
		for _, rep := range wd.reps {
			calls = append(calls, rep.logFrom(0)...)
		}
		sort.Slice(calls, func(i, j int) bool { return calls[i].seq < calls[j].seq })
		h := fnv.New64a()
		sawTask := false
		for _, cr := range calls {
			fmt.Fprintf(h, "%s.%s(%v)%s|", cr.replica, cr.op, cr.digests, cr.result)
			c.Logf("  %v", cr)
			if strings.Contains(cr.bufType, "casBufferWithBackgroundTask") && cr.op == "Get" {
				sawTask = true
				w.Count("conc_local_get_with_task", 1)
			}
		}
		w.Distinct(fmt.Sprintf("conc|%v|%d/%d|%x", sc.kinds, sc.repl[0], sc.repl[1], h.Sum64()))

		for _, rep := range wd.reps {
			if bad := rep.corrupt(); len(bad) > 0 {
				w.Count("local_store_corrupt_puts", 1)
				c.Violation("localStore("+rep.kind+").Put:acknowledged-upload-reads-back-wrong", "%s", strings.Join(bad, "\n"))
				return
			}
		}
		if wd.reps[0].stormed() || wd.reps[1].stormed() {
			c.Violation("mirroredBlobAccess(concurrent):unbounded-replica-calls", "more than %d calls to one replica", wd.reps[0].opLimit)
			return
		}
		if wd.reps[0].nSizePanics()+wd.reps[1].nSizePanics() > 0 {
			w.Count("p1_sink_size_panics", 1)
			c.Violation(sigP1, "concurrent clients: an upload buffer handed to a replica for a repair panics in GetSizeBytes")
			return
		}
		putOK := make([]bool, nobj)
		putTried := make([]bool, nobj)
		fmPresent := make([]bool, nobj)
		for cl := range recs {
			for _, rec := range recs[cl] {
				w.Count("conc_ops", 1)
				if rec.panic != nil {
					if sawTask && strings.Contains(rec.stack, "digest.Digest.unpack") {
						w.Count("p1_reader_panics", 1)
						c.Violation(sigP1, "concurrent clients: %v panicked: %v\n%s", rec.op, rec.panic, rec.stack)
						return
					}
					panic(fmt.Sprintf("client %d %v: %v\n%s", cl, rec.op, rec.panic, rec.stack))
				}
				o := rec.op
				c.Logf("client %d %v -> %s", cl, o, resultOf(rec.err))
				opn := "mirroredBlobAccess." + opNames[o.kind] + "(concurrent)"
				switch o.kind {
				case opGet:
					ob := sc.objs[o.obj]
					held := initial[o.obj][0] || initial[o.obj][1]
					if rec.err == nil {
						if string(rec.data) != string(ob.data) {
							c.Violation(opn+":wrong-bytes", "client %d %v returned %s, the object is %s", cl, o, gen.Hex8(rec.data), gen.Hex8(ob.data))
						}
						w.Count("conc_reads_ok", 1)
					} else if held && allModel {
						c.Violation(opn+":failed-although-a-replica-holds-it", "client %d %v failed with %v although the object was held from the start and nothing failed", cl, o, rec.err)
					} else if held {
						w.Count("conc_local_read_errors", 1)
						c.Logf("        %v", rec.err)
					}
				case opPut:
					// An upload of the same contents under another instance name
					// can make this object present too (replicas keyed without the
					// instance name; hierarchical stores and parent names).
					for j := range sc.objs {
						if sc.objs[j].content == sc.objs[o.obj].content {
							putTried[j] = true
						}
					}
					if rec.err == nil {
						putOK[o.obj] = true
						w.Count("conc_puts_ok", 1)
					}
				case opFindMissing:
					if rec.err != nil {
						w.Count("conc_findmissing_errors", 1)
						c.Logf("        %v", rec.err)
						continue
					}
					w.Count("conc_findmissing_ok", 1)
					rep := map[string]bool{}
					for _, d := range rec.missing.Items() {
						rep[d.GetKey(digest.KeyWithInstance)] = true
					}
					for _, i := range o.set {
						k := sc.objs[i].d.GetKey(digest.KeyWithInstance)
						if rep[k] && (initial[i][0] || initial[i][1]) {
							c.Violation(opn+":reported-missing-although-a-replica-holds-it", "client %d %v reported o%d missing although it was held from the start", cl, o, i)
						}
						if !rep[k] {
							fmPresent[i] = true
						}
					}
				}
			}
		}
		// Fabricated presence: needs the whole history (a Put by anyone may
		// have made the object present).
		for i := range sc.objs {
			if fmPresent[i] && !initial[i][0] && !initial[i][1] && !putTried[i] {
				c.Violation("mirroredBlobAccess.FindMissing(concurrent):reported-present-although-no-replica-holds-it", "o%d was never stored or uploaded, yet a FindMissing did not report it missing", i)
			}
		}
		// Quiescence: displaced objects make the case unjudgeable.
		for i, o := range sc.objs {
			for rr := 0; rr < 2; rr++ {
				if initial[i][rr] && !wd.reps[rr].has(o.d) {
					w.Count("aborted_local_eviction", 1)
					return
				}
			}
		}
		for i, o := range sc.objs {
			must := ""
			if putOK[i] {
				must = "an upload was acknowledged"
			} else if fmPresent[i] && (initial[i][0] || initial[i][1] || putOK[i]) && sc.repl[0] != replNoop && sc.repl[1] != replNoop {
				must = "an existence check succeeded and reported it present"
			}
			if must == "" {
				continue
			}
			for rr := 0; rr < 2; rr++ {
				if ok, why := wd.reps[rr].bytesOK(o.d, o.data, true); !ok {
					c.Violation("mirroredBlobAccess(concurrent):replica-lacks-object-at-quiescence", "%s for o%d, but replica %c does not hold it when all clients are done (%s)", must, i, 'A'+rr, why)
				} else {
					w.Count("conc_quiescent_both_hold", 1)
				}
			}
		}
	})
}
