package main

// replica = one backend of the mirrored pair as the monitor sees it: the
// storage itself (harness model store or assembled real local store) behind a
// thin recording / failure-injecting BlobAccess decorator. The decorator is
// the observation point "BlobAccess API of each replica"; the peek functions
// are the observation point "contents of both replicas afterwards".

import (
	"context"
	"fmt"
	"io"
	"runtime"
	"strings"
	"sync"

	remoteexecution "github.com/bazelbuild/remote-apis/build/bazel/remote/execution/v2"
	"github.com/buildbarn/bb-storage/pkg/blobstore"
	"github.com/buildbarn/bb-storage/pkg/blobstore/buffer"
	"github.com/buildbarn/bb-storage/pkg/blobstore/slicing"
	"github.com/buildbarn/bb-storage/pkg/digest"
	"google.golang.org/grpc/codes"
	"google.golang.org/grpc/status"

	"verif/lib/gen"
	"verif/lib/model"
)

// fault kinds.
const (
	faultEarly    = iota // the call fails at once with the code
	faultLate            // Get: the stream fails after some bytes; Put: fails after the upload was consumed
	faultNotFound        // Get only: the replica claims NOT_FOUND although it holds the object (inconsistent replica)
	faultLose            // Put only: the replica stores and acknowledges the upload and has lost the object when it is looked up afterwards
)

type fault struct {
	kind int
	code codes.Code
}

func (f fault) String() string {
	switch f.kind {
	case faultLate:
		return "late:" + f.code.String()
	case faultNotFound:
		return "spuriousNotFound"
	case faultLose:
		return "acceptThenLose"
	}
	return "early:" + f.code.String()
}

type callRec struct {
	seq     int64
	replica string
	idx     int // call index on this replica since arming
	op      string
	digests []string
	result  string // ok, notfound, err:<code>, fault:<...>
	bufType string
	fired   *fault
}

func (c callRec) String() string {
	s := fmt.Sprintf("%s#%d.%s(%s)->%s", c.replica, c.idx, c.op, strings.Join(c.digests, ","), c.result)
	if c.bufType != "" {
		s += "[" + c.bufType + "]"
	}
	return s
}

type replica struct {
	name string // "A" / "B"
	kind string // model, localInMemory, localOnDevice
	// kf is the key format of the replica: KeyWithInstance for replicas that
	// distinguish instance names (model store keyed with the instance name,
	// hierarchical local store), KeyWithoutInstance otherwise. It is what a
	// configuration would put into BlobAccessInfo.DigestKeyFormat.
	kf   digest.KeyFormat
	ms   *model.Store
	ls   *localStore
	base blobstore.BlobAccess

	mu     sync.Mutex
	armed  bool
	calls  int
	log    []callRec
	faults map[int]fault
	// sizePanics counts uploads handed to this replica whose GetSizeBytes()
	// panicked (see Put).
	sizePanics int
	// opCalls counts the calls since the current operation began; storm is set
	// once it exceeds opLimit.
	opCalls, opLimit int
	storm            bool
	// corruptPuts lists uploads a local store acknowledged but does not read
	// back correctly (see Put).
	corruptPuts []string
	// yield, when set, makes every call yield the processor a few times first
	// (concurrent engine: PRNG-driven schedule perturbation).
	yield func() int
	// short names of digests for the trace (keyed with the instance name: the
	// same contents under two instance names are two objects of a scenario).
	names map[string]string
	// lost: objects a local replica "lost" after acknowledging their upload
	// (fault kind faultLose; a model store really deletes them). Keyed by kf.
	lost map[string]bool
}

func newModelReplica(name string, kf digest.KeyFormat) *replica {
	ms := model.NewStore(name, kf)
	return &replica{name: name, kind: "model", kf: kf, ms: ms, base: ms, faults: map[int]fault{}, names: map[string]string{}, lost: map[string]bool{}}
}

func newLocalReplica(name string, cfg localCfg, hashInit uint64) *replica {
	ls := newLocalStore(cfg, hashInit)
	kf := digest.KeyWithoutInstance
	if cfg.hierarchical {
		kf = digest.KeyWithInstance
	}
	return &replica{name: name, kind: cfg.kind.String(), kf: kf, ls: ls, base: ls.ba, faults: map[int]fault{}, names: map[string]string{}, lost: map[string]bool{}}
}

// isLost: the replica acknowledged an upload of this object and lost it
// afterwards (local replicas only; a model store deletes for real).
func (r *replica) isLost(d digest.Digest) bool {
	if r.ms != nil {
		return false
	}
	r.mu.Lock()
	defer r.mu.Unlock()
	return r.lost[d.GetKey(r.kf)]
}

// lose makes the replica no longer hold the object.
func (r *replica) lose(d digest.Digest) {
	if r.ms != nil {
		r.ms.Delete(d)
		return
	}
	r.mu.Lock()
	r.lost[d.GetKey(r.kf)] = true
	r.mu.Unlock()
}

// ---- peek (no effect on the store) ----

func (r *replica) has(d digest.Digest) bool {
	if r.ms != nil {
		return r.ms.Has(d)
	}
	return !r.isLost(d) && r.ls.age(d) != 0
}

// age: 0 absent, 1 present, 2 present in an old block of a local store.
func (r *replica) age(d digest.Digest) int {
	if r.ms != nil {
		if r.ms.Has(d) {
			return 1
		}
		return 0
	}
	if r.isLost(d) {
		return 0
	}
	return r.ls.age(d)
}

// bytesOK compares the stored bytes with the expected content where that is
// possible without side effects (model store); for a local store it reads
// through the store itself (only used at the end of a case).
func (r *replica) bytesOK(d digest.Digest, want []byte, final bool) (bool, string) {
	if r.ms != nil {
		got, ok := r.ms.Peek(d)
		if !ok {
			return false, "absent"
		}
		if string(got) != string(want) {
			return false, "stored " + gen.Hex8(got) + " want " + gen.Hex8(want)
		}
		return true, ""
	}
	if r.isLost(d) {
		return false, "lost"
	}
	if !final {
		return r.ls.age(d) != 0, "absent"
	}
	got, err := r.ls.ba.Get(context.Background(), d).ToByteSlice(1 << 20)
	if err != nil {
		return false, err.Error()
	}
	if string(got) != string(want) {
		return false, "stored " + gen.Hex8(got) + " want " + gen.Hex8(want)
	}
	return true, ""
}

func (r *replica) place(d digest.Digest, data []byte) error {
	if r.ms != nil {
		r.ms.Set(d, data)
		return nil
	}
	return r.ls.put(d, data)
}

// ---- recording ----

func (r *replica) short(d digest.Digest) string {
	if n, ok := r.names[d.GetKey(digest.KeyWithInstance)]; ok {
		return n
	}
	h := d.GetHashString()
	return h[:6]
}

func (r *replica) begin(op string, ds ...digest.Digest) (*callRec, *fault) {
	if r.yield != nil {
		for n := r.yield(); n > 0; n-- {
			runtime.Gosched()
		}
	}
	c := &callRec{seq: model.Tick(), replica: r.name, op: op}
	for _, d := range ds {
		c.digests = append(c.digests, r.short(d))
	}
	r.mu.Lock()
	defer r.mu.Unlock()
	if !r.armed {
		c.idx = -1
		return c, nil
	}
	c.idx = r.calls
	r.calls++
	r.opCalls++
	if r.opCalls > r.opLimit {
		// The composite keeps calling this replica for one and the same
		// operation (e.g. an error handler that falls over again and again).
		// Break the loop with a hard failure and let the oracle report it.
		r.storm = true
		return c, &fault{kind: faultEarly, code: codes.Internal}
	}
	if f, ok := r.faults[c.idx]; ok {
		if f.kind == faultNotFound && op != "Get" || f.kind == faultLose && op != "Put" {
			return c, nil
		}
		return c, &f
	}
	return c, nil
}

func (r *replica) end(c *callRec) {
	r.mu.Lock()
	if r.armed {
		r.log = append(r.log, *c)
	}
	r.mu.Unlock()
}

// Guarded views of the monitor state: a background task the composite leaked
// (candidate defect P1 leaves some behind) may still be calling the replica
// while the oracle looks.
func (r *replica) nCalls() int {
	r.mu.Lock()
	defer r.mu.Unlock()
	return r.calls
}

func (r *replica) nSizePanics() int {
	r.mu.Lock()
	defer r.mu.Unlock()
	return r.sizePanics
}

func (r *replica) stormed() bool {
	r.mu.Lock()
	defer r.mu.Unlock()
	return r.storm
}

func (r *replica) corrupt() []string {
	r.mu.Lock()
	defer r.mu.Unlock()
	return append([]string(nil), r.corruptPuts...)
}

func (r *replica) opStart() {
	r.mu.Lock()
	r.opCalls = 0
	r.mu.Unlock()
}

func (r *replica) arm() {
	r.mu.Lock()
	r.armed = true
	if r.opLimit == 0 {
		r.opLimit = 300
	}
	r.calls = 0
	r.log = nil
	r.mu.Unlock()
}

func (r *replica) logLen() int {
	r.mu.Lock()
	defer r.mu.Unlock()
	return len(r.log)
}

func (r *replica) logFrom(i int) []callRec {
	r.mu.Lock()
	defer r.mu.Unlock()
	return append([]callRec(nil), r.log[i:]...)
}

func (r *replica) injected(c *callRec, f *fault) error {
	return status.Errorf(f.code, "injected failure of replica %s at call %d (%s)", r.name, c.idx, c.op)
}

func resultOf(err error) string {
	if err == nil {
		return "ok"
	}
	if status.Code(err) == codes.NotFound {
		return "notfound"
	}
	return "err:" + status.Code(err).String()
}

type failingChunkReader struct {
	data []byte
	err  error
	done bool
}

func (r *failingChunkReader) Read() ([]byte, error) {
	if !r.done && len(r.data) > 0 {
		r.done = true
		return r.data, nil
	}
	return nil, r.err
}
func (r *failingChunkReader) Close() {}

// ---- BlobAccess ----

func (r *replica) Get(ctx context.Context, d digest.Digest) buffer.Buffer {
	c, f := r.begin("Get", d)
	defer r.end(c)
	if f != nil {
		switch f.kind {
		case faultEarly:
			c.fired, c.result = f, "fault:"+f.String()
			return buffer.NewBufferFromError(r.injected(c, f))
		case faultNotFound:
			if r.has(d) {
				c.fired, c.result = f, "fault:"+f.String()
				return buffer.NewBufferFromError(status.Errorf(codes.NotFound, "replica %s pretends not to hold the object (call %d)", r.name, c.idx))
			}
		case faultLate:
			// Deliver a prefix of the real object, then fail.
			data, err := r.base.Get(ctx, d).ToByteSlice(1 << 20)
			if err != nil {
				c.result = resultOf(err) // the fault has nothing to act on
				return buffer.NewBufferFromError(err)
			}
			c.fired, c.result = f, "fault:"+f.String()
			return buffer.NewCASBufferFromChunkReader(d, &failingChunkReader{data: append([]byte(nil), data[:len(data)/2]...), err: r.injected(c, f)}, buffer.BackendProvided(buffer.Irreparable(d)))
		}
	}
	if r.isLost(d) {
		c.result = "notfound"
		return buffer.NewBufferFromError(status.Errorf(codes.NotFound, "replica %s has lost the object", r.name))
	}
	b := r.base.Get(ctx, d)
	c.bufType = strings.TrimPrefix(strings.TrimPrefix(fmt.Sprintf("%T", b), "*"), "buffer.")
	// GetSizeBytes does not consume the buffer; on a buffer that a store's own
	// Get returned it tells an error buffer from a data buffer.
	if _, err := b.GetSizeBytes(); err != nil {
		c.result = resultOf(err)
	} else {
		c.result = "ok"
	}
	return b
}

func (r *replica) GetFromComposite(ctx context.Context, parent, child digest.Digest, slicer slicing.BlobSlicer) buffer.Buffer {
	c, f := r.begin("GetFromComposite", parent, child)
	defer r.end(c)
	if f != nil && f.kind != faultNotFound {
		c.fired, c.result = f, "fault:"+f.String()
		return buffer.NewBufferFromError(r.injected(c, f))
	}
	if r.isLost(parent) {
		c.result = "notfound"
		return buffer.NewBufferFromError(status.Errorf(codes.NotFound, "replica %s has lost the object", r.name))
	}
	b := r.base.GetFromComposite(ctx, parent, child, slicer)
	c.bufType = strings.TrimPrefix(strings.TrimPrefix(fmt.Sprintf("%T", b), "*"), "buffer.")
	if _, err := b.GetSizeBytes(); err != nil {
		c.result = resultOf(err)
	} else {
		c.result = "ok"
	}
	return b
}

// probeSize calls GetSizeBytes the way every size-aware backend (the real local
// store first of all: flat_blob_access.go Put, first statement) does.
func probeSize(b buffer.Buffer) (err error, panicked any) {
	defer func() { panicked = recover() }()
	_, err = b.GetSizeBytes()
	return err, nil
}

func (r *replica) Put(ctx context.Context, d digest.Digest, b buffer.Buffer) error {
	c, f := r.begin("Put", d)
	defer r.end(c)
	c.bufType = strings.TrimPrefix(strings.TrimPrefix(fmt.Sprintf("%T", b), "*"), "buffer.")
	sizeErr, p := probeSize(b)
	if p != nil {
		// The buffer the composite hands to this replica cannot even report
		// its size. A real local store would panic right here, in a goroutine
		// nobody recovers (the whole process dies); the monitor records it and
		// fails the upload instead so that the worker survives.
		r.mu.Lock()
		r.sizePanics++
		r.mu.Unlock()
		c.result = fmt.Sprintf("PANIC in GetSizeBytes: %v", p)
		func() {
			defer func() { recover() }()
			b.Discard()
		}()
		return status.Errorf(codes.Internal, "harness: upload buffer of type %s panics in GetSizeBytes: %v", c.bufType, p)
	}
	// An upload whose buffer is already in an error state (the local
	// replicator forwards the source's NOT_FOUND buffer to the sink) stores
	// nothing and fails with the buffer's own error whatever the replica does:
	// a failure injected here would not be a failure of the replica that
	// matters to anybody, so none is injected.
	// faultLose acts after the replica's own Put (below).
	lose := f != nil && f.kind == faultLose
	if f != nil && f.kind != faultNotFound && !lose && sizeErr == nil {
		c.fired, c.result = f, "fault:"+f.String()
		if f.kind == faultLate {
			b.ToByteSlice(1 << 20)
		} else {
			b.Discard()
		}
		return r.injected(c, f)
	}
	err := r.base.Put(ctx, d, b)
	c.result = resultOf(err)
	if sizeErr != nil {
		c.result += "(upload buffer was in error state)"
	}
	if err == nil && r.ls != nil {
		// Read the acknowledged upload back through the store itself (a
		// freshly written object sits in a "new" block: no refresh, no side
		// effect). A store that acknowledges and then serves other bytes is a
		// defect of the replica, not of the mirrored composite; it gets its
		// own signature.
		got, gerr := r.ls.ba.Get(ctx, d).ToByteSlice(1 << 20)
		if gerr != nil || gen.SHA256Digest(d.GetInstanceName().String(), got) != d {
			r.mu.Lock()
			r.corruptPuts = append(r.corruptPuts, fmt.Sprintf("replica %s (%s) acknowledged Put(%s) of a %s but reads back %s err=%v", r.name, r.kind, r.short(d), c.bufType, gen.Hex8(got), gerr))
			r.mu.Unlock()
			c.result += "(READS BACK WRONG)"
		}
	}
	if err == nil && r.ls != nil {
		r.mu.Lock()
		delete(r.lost, d.GetKey(r.kf))
		r.mu.Unlock()
	}
	if err == nil && lose {
		// "The replica accepts a Put and has lost the object when it is read
		// back right afterwards" (a block released between the two calls, a
		// backend that acknowledges before the data is durable): the upload was
		// stored and acknowledged for real, then the object is gone.
		r.lose(d)
		c.fired, c.result = f, "ok, then "+f.String()
	}
	return err
}

func (r *replica) FindMissing(ctx context.Context, ds digest.Set) (digest.Set, error) {
	c, f := r.begin("FindMissing", ds.Items()...)
	defer r.end(c)
	if f != nil && f.kind != faultNotFound {
		c.fired, c.result = f, "fault:"+f.String()
		return digest.EmptySet, r.injected(c, f)
	}
	m, err := r.base.FindMissing(ctx, ds)
	if err == nil && r.ls != nil {
		var lost []digest.Digest
		for _, d := range ds.Items() {
			if r.isLost(d) {
				lost = append(lost, d)
			}
		}
		if len(lost) > 0 {
			sb := digest.NewSetBuilder(0)
			for _, d := range append(lost, m.Items()...) {
				sb.Add(d)
			}
			m = sb.Build()
		}
	}
	if err != nil {
		c.result = resultOf(err)
	} else {
		var miss []string
		for _, d := range m.Items() {
			miss = append(miss, r.short(d))
		}
		c.result = "missing{" + strings.Join(miss, ",") + "}"
	}
	return m, err
}

func (r *replica) GetCapabilities(ctx context.Context, in digest.InstanceName) (*remoteexecution.ServerCapabilities, error) {
	c, f := r.begin("GetCapabilities")
	defer r.end(c)
	if f != nil && f.kind != faultNotFound {
		c.fired, c.result = f, "fault:"+f.String()
		return nil, r.injected(c, f)
	}
	caps, err := r.base.GetCapabilities(ctx, in)
	c.result = resultOf(err)
	return caps, err
}

// ---- consumption of a buffer returned by the composite ----

var consumeNames = []string{"ToByteSlice", "GetSizeBytes+ToByteSlice", "ToChunkReader", "IntoWriter", "ToReader", "ReadAt"}

type sliceWriter struct{ b []byte }

func (w *sliceWriter) Write(p []byte) (int, error) { w.b = append(w.b, p...); return len(p), nil }

// consume reads a buffer to the end with the given method. sizeHint is the
// size according to the digest (what a client knows).
func consume(b buffer.Buffer, method, chunk int, sizeHint int64) (data []byte, err error, fromClose bool) {
	if method == 4 {
		r := b.ToReader()
		data, err := io.ReadAll(r)
		cerr := r.Close()
		if err != nil {
			return nil, err, false
		}
		if cerr != nil {
			return nil, cerr, true
		}
		return data, nil, false
	}
	data, err = consume1(b, method, chunk, sizeHint)
	return data, err, false
}

func consume1(b buffer.Buffer, method, chunk int, sizeHint int64) ([]byte, error) {
	switch method {
	case 1:
		sz, err := b.GetSizeBytes()
		if err != nil {
			b.Discard()
			return nil, err
		}
		data, err := b.ToByteSlice(1 << 20)
		if err == nil && sz != int64(len(data)) {
			return data, status.Errorf(codes.DataLoss, "harness: GetSizeBytes said %d, ToByteSlice delivered %d bytes", sz, len(data))
		}
		return data, err
	case 2:
		r := b.ToChunkReader(0, chunk)
		var data []byte
		for {
			p, err := r.Read()
			if err == io.EOF {
				r.Close()
				return data, nil
			}
			if err != nil {
				r.Close()
				return nil, err
			}
			data = append(data, p...)
		}
	case 3:
		w := &sliceWriter{}
		if err := b.IntoWriter(w); err != nil {
			return nil, err
		}
		return w.b, nil
	case 4:
		r := b.ToReader()
		data, err := io.ReadAll(r)
		cerr := r.Close()
		if err != nil {
			return nil, err
		}
		if cerr != nil {
			return nil, cerr
		}
		return data, nil
	case 5:
		p := make([]byte, sizeHint)
		n, err := b.ReadAt(p, 0)
		if err != nil && !(err == io.EOF && int64(n) == sizeHint) {
			return nil, err
		}
		return p[:n], nil
	}
	return b.ToByteSlice(1 << 20)
}
