package main

// A small REAL local store assembled from bb-storage's exported constructors,
// wired like the `Local` case of pkg/blobstore/configuration/new_blob_access.go
// (volatile block list, in-memory key-location map, flat blob access).
//
// Two block back ends:
//
//   - blocksInMemory: local.NewInMemoryBlockAllocator. Its blocks hand out
//     buffer.NewValidatedBufferFromByteSlice, on which WithTask runs the task
//     in the FOREGROUND: an object in an "old" block is refreshed before Get
//     returns and the caller receives a plain byte-slice buffer. This
//     configuration therefore never produces a refresh-in-progress buffer (the
//     check measures this: counter local_get_plain vs local_get_with_task).
//
//   - blocksOnDevice: local.NewBlockDeviceBackedBlockAllocator over an
//     in-memory blockdevice.BlockDevice with blobstore.CASReadBufferFactory,
//     i.e. exactly what the CAS configuration uses for `blocksOnBlockDevice`.
//     Its blocks hand out stream-backed CAS buffers, so Get of an object in an
//     "old" block returns a *buffer.casBufferWithBackgroundTask whose task is
//     the refresh (counter local_get_with_task).
//
// Nothing in here re-implements store logic; the only harness-owned parts are
// the byte array behind the block device and the read-only "peek" that asks
// the real KeyLocationMap / LocationBlobMap where an object currently lives.

import (
	"context"
	"fmt"
	"io"
	"sync"

	"github.com/buildbarn/bb-storage/pkg/blobstore"
	"github.com/buildbarn/bb-storage/pkg/blobstore/buffer"
	"github.com/buildbarn/bb-storage/pkg/blobstore/local"
	"github.com/buildbarn/bb-storage/pkg/capabilities"
	"github.com/buildbarn/bb-storage/pkg/digest"

	remoteexecution "github.com/bazelbuild/remote-apis/build/bazel/remote/execution/v2"
	"google.golang.org/grpc/codes"
	"google.golang.org/grpc/status"

	"verif/lib/gen"
)

type memDevice struct {
	mu   sync.RWMutex
	data []byte
}

func (d *memDevice) ReadAt(p []byte, off int64) (int, error) {
	d.mu.RLock()
	defer d.mu.RUnlock()
	if off < 0 || off > int64(len(d.data)) {
		return 0, io.EOF
	}
	n := copy(p, d.data[off:])
	if n < len(p) {
		return n, io.EOF
	}
	return n, nil
}

func (d *memDevice) WriteAt(p []byte, off int64) (int, error) {
	d.mu.Lock()
	defer d.mu.Unlock()
	if off < 0 || off+int64(len(p)) > int64(len(d.data)) {
		return 0, fmt.Errorf("memDevice: write [%d,%d) outside device of %d bytes", off, off+int64(len(p)), len(d.data))
	}
	return copy(d.data[off:], p), nil
}

func (d *memDevice) Sync() error  { return nil }
func (d *memDevice) Close() error { return nil }

type errorLog struct {
	mu   sync.Mutex
	msgs []string
}

func (l *errorLog) Log(err error) {
	l.mu.Lock()
	l.msgs = append(l.msgs, err.Error())
	l.mu.Unlock()
}

func (l *errorLog) count() int {
	l.mu.Lock()
	defer l.mu.Unlock()
	return len(l.msgs)
}

type blocksKind int

const (
	blocksInMemory blocksKind = iota
	blocksOnDevice
)

func (k blocksKind) String() string {
	if k == blocksInMemory {
		return "localInMemory"
	}
	return "localOnDevice"
}

type localCfg struct {
	kind               blocksKind
	blockSize          int
	old, current, newB int
	records            int
	// hierarchical: local.NewHierarchicalCASBlobAccess instead of the flat one
	// (configuration: hierarchical_instance_names). The store then tells
	// instance names apart: an object uploaded under instance name I is
	// visible under I and under every name that has I as a prefix.
	hierarchical bool
}

// localStore is one assembled replica.
type localStore struct {
	cfg  localCfg
	ba   blobstore.BlobAccess
	klm  local.KeyLocationMap
	lbm  *local.OldCurrentNewLocationBlobMap
	lock *sync.RWMutex
	errs *errorLog
	// fill numbers the filler objects written by park.
	fill uint64
}

const localSector = 16

func newLocalStore(cfg localCfg, hashInit uint64) *localStore {
	var alloc local.BlockAllocator
	switch cfg.kind {
	case blocksInMemory:
		alloc = local.NewInMemoryBlockAllocator(cfg.blockSize)
	default:
		blockCount := cfg.old + cfg.current + cfg.newB + 2 // two spare blocks
		dev := &memDevice{data: make([]byte, blockCount*cfg.blockSize)}
		alloc = local.NewBlockDeviceBackedBlockAllocator(dev, blobstore.CASReadBufferFactory, localSector, int64(cfg.blockSize/localSector), blockCount, "c11")
	}
	s := &localStore{cfg: cfg, lock: &sync.RWMutex{}, errs: &errorLog{}}
	bl := local.NewVolatileBlockList(alloc)
	s.lbm = local.NewOldCurrentNewLocationBlobMap(bl, local.NewImmutableBlockListGrowthPolicy(cfg.current, cfg.newB), s.errs, "c11", int64(cfg.blockSize), cfg.old, cfg.newB, 0)
	arr := local.NewInMemoryLocationRecordArray(cfg.records, s.lbm)
	s.klm = local.NewHashingKeyLocationMap(arr, cfg.records, hashInit, 16, 64, "c11")
	caps := capabilities.NewStaticProvider(&remoteexecution.ServerCapabilities{
		CacheCapabilities: &remoteexecution.CacheCapabilities{DigestFunctions: digest.SupportedDigestFunctions},
	})
	if cfg.hierarchical {
		s.ba = local.NewHierarchicalCASBlobAccess(s.klm, s.lbm, s.lock, caps)
	} else {
		s.ba = local.NewFlatBlobAccess(s.klm, s.lbm, digest.KeyWithoutInstance, s.lock, "c11", caps)
	}
	return s
}

// age: 0 absent, 1 present and not in need of a refresh, 2 present in an "old"
// block (the next Get / FindMissing refreshes it).
func (s *localStore) age(d digest.Digest) int {
	s.lock.RLock()
	defer s.lock.RUnlock()
	// The keys the store itself looks up, in its own order: the flat store has
	// one key; the hierarchical store tries the instance name and all of its
	// prefixes, shortest first, and takes the first hit
	// (hierarchical_cas_blob_access.go getAllLookupKeys /
	// getLeastSpecificLookupEntry).
	keys := []string{d.GetKey(digest.KeyWithoutInstance)}
	if s.cfg.hierarchical {
		keys = nil
		for _, pd := range d.GetDigestsWithParentInstanceNames() {
			keys = append(keys, pd.GetKey(digest.KeyWithInstance))
		}
	}
	for _, k := range keys {
		loc, err := s.klm.Get(local.NewKeyFromString(k))
		if err != nil {
			continue
		}
		if _, needsRefresh := s.lbm.Get(loc); needsRefresh {
			return 2
		}
		return 1
	}
	return 0
}

func (s *localStore) put(d digest.Digest, data []byte) error {
	return s.ba.Put(context.Background(), d, buffer.NewCASBufferFromByteSlice(d, data, buffer.UserProvided))
}

// park stores the given objects and then writes filler objects until every one
// of them sits in an "old" block (or was displaced). It returns the number of
// fillers written.
func (s *localStore) park(ds []digest.Digest, datas [][]byte, tag uint64) (int, error) {
	for i, d := range ds {
		if err := s.put(d, datas[i]); err != nil {
			return 0, err
		}
	}
	fillers := 0
	for {
		pending := false
		for _, d := range ds {
			if s.age(d) == 1 {
				pending = true
			}
		}
		if !pending {
			return fillers, nil
		}
		if fillers > 400 {
			return fillers, status.Error(codes.Internal, "harness: objects never reached an old block")
		}
		s.fill++
		data := gen.UniqueBlob(tag^0xf111, s.fill, s.cfg.blockSize/2-8)
		fd := gen.SHA256Digest("filler", data)
		if err := s.put(fd, data); err != nil {
			return fillers, err
		}
		fillers++
	}
}
