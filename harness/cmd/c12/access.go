package main

import (
	"bytes"
	"context"
	"encoding/hex"
	"fmt"
	"io"
	"sort"
	"strings"

	remoteexecution "github.com/bazelbuild/remote-apis/build/bazel/remote/execution/v2"
	"github.com/buildbarn/bb-storage/pkg/blobstore"
	"github.com/buildbarn/bb-storage/pkg/blobstore/buffer"
	"github.com/buildbarn/bb-storage/pkg/blobstore/sharding"
	"github.com/buildbarn/bb-storage/pkg/blobstore/slicing"
	"github.com/buildbarn/bb-storage/pkg/digest"
	"google.golang.org/grpc/codes"
	"google.golang.org/grpc/status"

	"verif/lib/gen"
	"verif/lib/run"
)

type fnInfo struct {
	fn   remoteexecution.DigestFunction_Value
	size int
}

var functions = []fnInfo{
	{remoteexecution.DigestFunction_SHA256, 32},
	{remoteexecution.DigestFunction_MD5, 16},
	{remoteexecution.DigestFunction_SHA1, 20},
	{remoteexecution.DigestFunction_SHA256TREE, 32},
	{remoteexecution.DigestFunction_SHA384, 48},
	{remoteexecution.DigestFunction_SHA512, 64},
	{remoteexecution.DigestFunction_GITSHA1, 20},
	{remoteexecution.DigestFunction_BLAKE3, 32},
}

var instances = []string{"", "a", "a/b", "a/b/c", "x", "hello/world", "acme/ci/linux"}

var injectCodes = []codes.Code{codes.Unavailable, codes.Internal, codes.NotFound, codes.DeadlineExceeded, codes.ResourceExhausted, codes.PermissionDenied, codes.DataLoss, codes.Unknown, codes.InvalidArgument}

// group is a set of digests that share the leading 8 bytes of their hash.
type group struct {
	prefix [8]byte
	refKey string // shard that the group's first Put addressed
	refSet bool
	refOp  string
}

func mkDigest(r *gen.Rng, prefix [8]byte, fi fnInfo, instance string, size int64) digest.Digest {
	b := make([]byte, fi.size)
	copy(b, r.Bytes(fi.size))
	copy(b, prefix[:])
	return digest.MustNewDigest(instance, fi.fn, hex.EncodeToString(b), size)
}

type passSlicer struct{}

func (passSlicer) Slice(b buffer.Buffer, child digest.Digest) (buffer.Buffer, []slicing.BlobSlice) {
	return b, nil
}

// consume reads a buffer through one of the Buffer methods and returns the
// error it surfaced.
func consume(b buffer.Buffer, how int) (string, error) {
	switch how {
	case 0:
		_, err := b.ToByteSlice(1 << 20)
		return "ToByteSlice", err
	case 1:
		var out bytes.Buffer
		return "IntoWriter", b.IntoWriter(&out)
	case 2:
		cr := b.ToChunkReader(0, 7)
		defer cr.Close()
		for {
			if _, err := cr.Read(); err == io.EOF {
				return "ToChunkReader", nil
			} else if err != nil {
				return "ToChunkReader", err
			}
		}
	case 3:
		rd := b.ToReader()
		defer rd.Close()
		_, err := io.ReadAll(rd)
		return "ToReader", err
	case 4:
		p := make([]byte, 4)
		_, err := b.ReadAt(p, 0)
		if err == io.EOF {
			err = nil
		}
		return "ReadAt", err
	}
	if _, err := b.GetSizeBytes(); err != nil {
		b.Discard()
		return "GetSizeBytes", err
	}
	_, err := b.ToByteSlice(1 << 20)
	return "GetSizeBytes+ToByteSlice", err
}

// checkCarried is the "errors carry the shard key" clause for one failure:
// raw is what the shard's backend returned, got what the composite returned.
func checkCarried(c *run.Case, w *run.Worker, site, key string, raw, got error) {
	w.Count("acc_errors_checked", 1)
	if got == nil {
		c.Violation(site+":backend-error-swallowed", "shard %s failed with %v but the composite reported success", showKey(key), raw)
		return
	}
	rs, gs := status.Convert(raw), status.Convert(got)
	if key != "" && !strings.Contains(rs.Message(), key) && !strings.Contains("Shard ", key) {
		w.Count("acc_error_key_discriminating", 1)
	}
	switch {
	case !strings.Contains(gs.Message(), rs.Message()):
		// beyond the statement ("errors carry the shard key"): observed only
		w.Count("observed_error_is_not_the_shards_error", 1)
		if !strings.Contains(gs.Message(), key) {
			c.Violation(site+":error-without-shard-key", "shard %s failed with %q; the composite returned %q, which does not carry the key", showKey(key), rs.Message(), gs.Message())
		}
	case !strings.Contains(gs.Message(), key):
		c.Violation(site+":error-without-shard-key", "shard %s failed with %q; the composite returned %q, which does not carry the key", showKey(key), rs.Message(), gs.Message())
	case gs.Code() != rs.Code():
		w.Count("observed_error_code_changed", 1) // beyond the statement: observed only
	}
}

func prefixOf(d digest.Digest) (p [8]byte) {
	copy(p[:], d.GetHashBytes())
	return
}

func accessEngine(w *run.Worker) {
	ctx := context.Background()
	w.Cases("access", w.N(1500, 40000), func(c *run.Case) {
		r := c.Rng
		n := r.Pick(1, 2, 2, 3, 3, 4, 5, 6, 8, 12)
		base := genMap(r, n, r.Pick(0, 2, 3, 4, 5, 6), nil)
		fp := mapFingerprint(base)
		perm := r.Perm(n)
		c.Desc("n=%d map=%s perm=%v", n, showMap(base), perm)

		stores := make([]*recStore, n)
		for i, s := range base {
			stores[i] = newRecStore(s.Key, i)
		}
		selA := newSelector(c, base, "composite A")
		listB, _ := permuted(base, perm)
		selB := newSelector(c, listB, "composite B")
		if selA == nil || selB == nil {
			return
		}
		spies := []*spySelector{{inner: selA}, {inner: selB}}
		var backendsA, backendsB []sharding.ShardBackend
		for i := range base {
			backendsA = append(backendsA, sharding.ShardBackend{Backend: stores[i], Key: base[i].Key})
		}
		for _, i := range perm {
			backendsB = append(backendsB, sharding.ShardBackend{Backend: stores[i], Key: base[i].Key})
		}
		composites := []blobstore.BlobAccess{
			sharding.NewShardingBlobAccess(backendsA, spies[0]),
			sharding.NewShardingBlobAccess(backendsB, spies[1]),
		}
		compName := []string{"A(listing order)", "B(permuted)"}

		// Groups of digests sharing their leading 8 hash bytes.
		groups := map[[8]byte]*group{}
		var order [][8]byte
		addGroup := func(p [8]byte) {
			if _, ok := groups[p]; !ok {
				groups[p] = &group{prefix: p}
				order = append(order, p)
			}
		}
		for g := r.Range(3, 10); g > 0; g-- {
			var p [8]byte
			switch r.Intn(8) {
			case 0:
			case 1:
				for i := range p {
					p[i] = 0xff
				}
			case 2:
				if len(order) > 0 { // sibling: differs from an existing group in the 8th byte only
					p = order[r.Intn(len(order))]
					p[7] ^= 1 << uint(r.Intn(8))
					break
				}
				fallthrough
			default:
				copy(p[:], r.Bytes(8))
			}
			addGroup(p)
		}

		takeAll := func() map[int][]recCall {
			out := map[int][]recCall{}
			for i, s := range stores {
				if cs := s.take(); len(cs) > 0 {
					out[i] = cs
				}
			}
			return out
		}
		setModes := func() {
			for _, s := range stores {
				s.getMode, s.putMode, s.fmMode, s.capFail = 0, 0, 0, false
				s.errCode = injectCodes[r.Intn(len(injectCodes))]
			}
		}
		// route checks which single shard an operation on digest d addressed
		// and compares it with the group's reference.
		route := func(op string, which int, d digest.Digest, calls map[int][]recCall) (*recStore, *recCall) {
			w.Count("acc_single_ops", 1)
			w.Count("acc_op_"+op, 1)
			site := "shardingBlobAccess." + op
			var hit []int
			for i, cs := range calls {
				for _, cl := range cs {
					if cl.op == op {
						hit = append(hit, i)
					}
				}
			}
			sort.Ints(hit)
			if len(hit) == 0 {
				c.Violation(site+":no-shard-addressed", "%s(%s) through composite %s reached no backend", op, d, compName[which])
				return nil, nil
			}
			if len(hit) > 1 {
				c.Violation(site+":several-shards-addressed", "%s(%s) through composite %s reached backends %v", op, d, compName[which], hit)
				return nil, nil
			}
			s := stores[hit[0]]
			var call *recCall
			for i := range calls[hit[0]] {
				if calls[hit[0]][i].op == op {
					call = &calls[hit[0]][i]
				}
			}
			g := groups[prefixOf(d)]
			c.Logf("%s(%s) via %s -> shard %s", op, d, compName[which], showKey(s.key))
			if !g.refSet {
				g.refSet, g.refKey, g.refOp = true, s.key, fmt.Sprintf("%s(%s) via %s", op, d, compName[which])
				return s, call
			}
			w.Count("acc_same_prefix_comparisons", 1)
			if which == 1 {
				w.Count("acc_permuted_composite_comparisons", 1)
			}
			if s.key != g.refKey {
				c.Violation(site+":different-shard-for-same-leading-hash-bytes", "%s(%s) through composite %s addressed shard %s, but %s addressed shard %s; both digests start with %x", op, d, compName[which], showKey(s.key), g.refOp, showKey(g.refKey), g.prefix)
			}
			return s, call
		}
		seenInst := map[[8]byte]map[string]bool{}
		seenFn := map[[8]byte]map[int]bool{}
		newDigest := func(p [8]byte) digest.Digest {
			fi := r.Intn(len(functions))
			if r.Chance(1, 3) {
				fi = 0
			}
			in := instances[r.Intn(len(instances))]
			if seenInst[p] == nil {
				seenInst[p], seenFn[p] = map[string]bool{}, map[int]bool{}
			}
			if len(seenInst[p]) > 0 && !seenInst[p][in] {
				w.Count("acc_cross_instance_same_hash", 1)
			}
			if len(seenFn[p]) > 0 && !seenFn[p][fi] {
				w.Count("acc_cross_function_same_hash", 1)
			}
			seenInst[p][in], seenFn[p][fi] = true, true
			return mkDigest(r, p, functions[fi], in, int64(r.Range(1, 60)))
		}

		// The first operation on every group is a successful Put: it defines
		// where the object lives.
		setModes()
		for _, p := range order {
			d := newDigest(p)
			which := r.Intn(2)
			data := r.Bytes(int(d.GetSizeBytes()))
			err := composites[which].Put(ctx, d, buffer.NewValidatedBufferFromByteSlice(data))
			spies[which].take()
			if s, _ := route("Put", which, d, takeAll()); s != nil && err != nil {
				c.Violation("shardingBlobAccess.Put:spurious-error", "Put(%s) failed with %v although shard %s accepted it", d, err, showKey(s.key))
			}
		}

		nops := r.Range(25, 45)
		for op := 0; op < nops; op++ {
			setModes()
			which := r.Intn(2)
			ba := composites[which]
			p := order[r.Intn(len(order))]
			switch k := r.Intn(10); {
			case k < 3: // Get
				d := newDigest(p)
				mode := r.Pick(0, 0, 1, 1, 2)
				data := r.Bytes(int(d.GetSizeBytes()))
				failAt := r.Intn(len(data))
				for _, s := range stores {
					s.getMode, s.getData, s.getFail = mode, data, failAt
				}
				how, err := consume(ba.Get(ctx, d), r.Intn(6))
				sp := spies[which].take()
				s, call := route("Get", which, d, takeAll())
				w.Distinct(fmt.Sprintf("acc|%x|Get|%s|%d|%s", fp, d, mode, how))
				if s == nil {
					break
				}
				c.Logf("  Get mode=%d consumed by %s -> %v; selector calls %v", mode, how, err, sp)
				switch {
				case mode == 0:
					w.Count("acc_get_ok", 1)
					if err != nil {
						w.Count("acc_get_unexpected_error", 1)
					}
				default:
					if mode == 2 {
						w.Count("acc_get_midstream_failures", 1)
					}
					checkCarried(c, w, "shardingBlobAccess.Get", s.key, call.err, err)
				}
			case k < 5: // Put
				d := newDigest(p)
				mode := r.Pick(0, 0, 1, 2)
				for _, s := range stores {
					s.putMode = mode
				}
				err := ba.Put(ctx, d, buffer.NewValidatedBufferFromByteSlice(r.Bytes(int(d.GetSizeBytes()))))
				spies[which].take()
				s, call := route("Put", which, d, takeAll())
				w.Distinct(fmt.Sprintf("acc|%x|Put|%s|%d", fp, d, mode))
				if s == nil {
					break
				}
				if call.err != nil {
					checkCarried(c, w, "shardingBlobAccess.Put", s.key, call.err, err)
				} else if err != nil {
					c.Violation("shardingBlobAccess.Put:spurious-error", "Put(%s) failed with %v although shard %s accepted it", d, err, showKey(s.key))
				}
			case k < 6: // GetFromComposite: addressed by the parent
				d := newDigest(p)
				child := newDigest(order[r.Intn(len(order))])
				mode := r.Pick(0, 1)
				data := r.Bytes(int(d.GetSizeBytes()))
				for _, s := range stores {
					s.getMode, s.getData = mode, data
				}
				how, err := consume(ba.GetFromComposite(ctx, d, child, passSlicer{}), r.Intn(6))
				spies[which].take()
				s, call := route("GetFromComposite", which, d, takeAll())
				w.Distinct(fmt.Sprintf("acc|%x|GFC|%s|%s|%d|%s", fp, d, child, mode, how))
				if s != nil && mode == 1 {
					checkCarried(c, w, "shardingBlobAccess.GetFromComposite", s.key, call.err, err)
				}
			case k < 9: // FindMissing
				findMissingOp(c, w, r, which, ba, stores, groups, order, newDigest, fp, spies[which])
			default: // GetCapabilities
				fail := r.Bool()
				for _, s := range stores {
					s.capFail = fail
				}
				inst, _ := digest.NewInstanceName(instances[r.Intn(len(instances))])
				_, err := ba.GetCapabilities(ctx, inst)
				spies[which].take()
				calls := takeAll()
				w.Count("acc_op_GetCapabilities", 1)
				if len(calls) == 1 && fail {
					for i, cs := range calls {
						checkCarried(c, w, "shardingBlobAccess.GetCapabilities", stores[i].key, cs[0].err, err)
					}
				}
			}
		}
		if c.Index == 0 {
			var gs []string
			for _, p := range order {
				gs = append(gs, fmt.Sprintf("%x->%s", p, showKey(groups[p].refKey)))
			}
			w.Sample(map[string]any{"engine": "access", "map": showMap(base), "perm": perm, "groups": gs, "operations": nops})
		}
	})
}

func findMissingOp(c *run.Case, w *run.Worker, r *gen.Rng, which int, ba blobstore.BlobAccess, stores []*recStore, groups map[[8]byte]*group, order [][8]byte, newDigest func([8]byte) digest.Digest, fp uint64, spy *spySelector) {
	const site = "shardingBlobAccess.FindMissing"
	ctx := context.Background()
	// Request: 0..40 digests over the groups; some already uploaded.
	cnt := r.Pick(0, 1, 1, 2, 3, 5, 8, 13, 21, 40)
	sb := digest.NewSetBuilder(0)
	var inputs []digest.Digest
	in := map[digest.Digest]bool{}
	for i := 0; i < cnt; i++ {
		var d digest.Digest
		if len(inputs) > 0 && r.Chance(1, 8) {
			// same hash and size under another instance name
			o := inputs[r.Intn(len(inputs))]
			d = digest.MustNewDigest(instances[r.Intn(len(instances))], o.GetDigestFunction().GetEnumValue(), o.GetHashString(), o.GetSizeBytes())
		} else {
			d = newDigest(order[r.Intn(len(order))])
		}
		sb.Add(d)
		if !in[d] {
			in[d] = true
			inputs = append(inputs, d)
		}
	}
	// Backend behaviour.
	hostile, failing := false, false
	scenario := r.Pick(0, 0, 1, 2, 3)
	for _, s := range stores {
		s.fmSalt = r.Uint64()
		s.fmExtra = nil
		switch scenario {
		case 0: // all honest
			s.fmMode = 0
		case 1: // hostile answers, no failure
			s.fmMode = r.Pick(0, 1, 2, 3, 3, 4)
		case 2: // some fail
			s.fmMode = r.Pick(0, 3, 5, 5, 6)
		default: // everything
			s.fmMode = r.Pick(0, 1, 2, 3, 4, 5, 6)
		}
		if s.fmMode == 4 {
			for k := r.Range(1, 3); k > 0; k-- {
				// a digest this shard was not asked about: one of another
				// group, or one of the request's own
				if len(inputs) > 0 && r.Bool() {
					s.fmExtra = append(s.fmExtra, inputs[r.Intn(len(inputs))])
				} else {
					s.fmExtra = append(s.fmExtra, mkDigest(r, order[r.Intn(len(order))], functions[0], "foreign", 7))
				}
			}
		}
		// some objects exist
		for _, d := range inputs {
			if r.Chance(1, 3) {
				s.present[d] = true
			}
		}
	}
	result, err := ba.FindMissing(ctx, sb.Build())
	spy.take()
	w.Count("acc_findmissing_calls", 1)
	w.Distinct(fmt.Sprintf("acc|%x|FM|%d|%v|%d", fp, which, inputs, scenario))

	// What the shards saw.
	asked := map[digest.Digest][]string{} // digest -> shards asked about it
	union := map[digest.Digest]bool{}
	type failure struct {
		key string
		err error
	}
	var failures []failure
	shardsAsked := 0
	for _, s := range stores {
		calls := s.take()
		any := false
		for _, cl := range calls {
			if cl.op != "FindMissing" {
				continue
			}
			any = true
			if len(cl.digests) == 0 && len(inputs) > 0 {
				// "asks each shard only about its own digests": a shard that
				// owns none of the requested digests has nothing to be asked;
				// contacting it couples the request to an unrelated shard's
				// availability.
				c.Violation(site+":shard-owning-no-requested-digest-contacted", "shard %s was sent a FindMissing call with an empty digest set for a request of %d digests, none of which it owns (its answer or failure %v becomes part of the result)", showKey(s.key), len(inputs), cl.err)
			}
			c.Logf("FindMissing via %d: shard %s asked about %d digests -> err=%v answer=%d", which, showKey(s.key), len(cl.digests), cl.err, len(cl.answer))
			if cl.err != nil {
				failures = append(failures, failure{s.key, cl.err})
				failing = true
			}
			if s.fmMode != 0 && s.fmMode != 5 && s.fmMode != 6 {
				hostile = true
			}
			for _, d := range cl.answer {
				union[d] = true
			}
			for _, d := range cl.digests {
				asked[d] = append(asked[d], s.key)
				w.Count("acc_findmissing_digests_forwarded", 1)
				if !in[d] {
					c.Violation(site+":asks-about-digest-not-in-request", "shard %s was asked about %s, which is not in the request", showKey(s.key), d)
					continue
				}
				g := groups[prefixOf(d)]
				if g.refSet && g.refKey != s.key {
					c.Violation(site+":asks-shard-about-foreign-digest", "shard %s was asked about %s, but %s addressed shard %s; both digests start with %x", showKey(s.key), d, g.refOp, showKey(g.refKey), g.prefix)
				}
			}
		}
		if any {
			shardsAsked++
		}
	}
	if shardsAsked > 1 {
		w.Count("acc_findmissing_multi_shard", 1)
	}
	for _, d := range inputs {
		switch len(asked[d]) {
		case 0:
			c.Violation(site+":digest-not-forwarded", "no shard was asked about %s (request of %d digests)", d, len(inputs))
		case 1:
		default:
			c.Violation(site+":digest-forwarded-to-several-shards", "%s was forwarded to shards %q", d, asked[d])
		}
	}
	if failing {
		w.Count("acc_findmissing_failed", 1)
		if err == nil {
			c.Violation(site+":backend-error-swallowed", "shard %s failed with %v but FindMissing reported success", showKey(failures[0].key), failures[0].err)
			return
		}
		// The error must be one of the failing shards' errors, carrying that
		// shard's key.
		gs := status.Convert(err)
		for _, f := range failures {
			if strings.Contains(gs.Message(), status.Convert(f.err).Message()) {
				checkCarried(c, w, site, f.key, f.err, err)
				return
			}
		}
		// None of the failing shards' messages is contained: the error still has
		// to carry the key of one failing shard.
		for _, f := range failures {
			if strings.Contains(gs.Message(), f.key) {
				w.Count("observed_error_is_not_the_shards_error", 1)
				return
			}
		}
		c.Violation(site+":error-without-shard-key", "FindMissing returned %q, which carries the key of none of the failing shards %v", gs.Message(), failures)
		return
	}
	if hostile {
		w.Count("acc_findmissing_hostile", 1)
	}
	if err != nil {
		c.Violation(site+":spurious-error", "FindMissing failed with %v although no shard failed", err)
		return
	}
	got := map[digest.Digest]bool{}
	for _, d := range result.Items() {
		got[d] = true
	}
	for d := range union {
		if !got[d] {
			c.Violation(site+":result-is-not-the-union", "%s was reported missing by a shard but is absent from the result (result %d digests, union %d)", d, len(got), len(union))
			return
		}
	}
	for d := range got {
		if !union[d] {
			c.Violation(site+":result-is-not-the-union", "%s is in the result but no shard reported it missing (result %d digests, union %d)", d, len(got), len(union))
			return
		}
	}
	w.Count("acc_findmissing_union_checked", 1)
	if len(union) > 0 {
		w.Count("acc_findmissing_union_nonempty", 1)
	}
}
